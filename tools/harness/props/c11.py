"""C11 - converters: text output is the tree's text; XML is well-formed and faithful; sinks agree.

Relations exercised on every run
  (tie)   Lean model (lean/PdfVerif/Model/Convert.lean, driver drv_c11) of TextConverter / XMLConverter,
          fed with the canonical dump of the LTPage trees, prints EXACTLY what extract_text_to_fp writes
  (prop)  on the implementation itself: text output == in-order text of the LTPage tree (own walker);
          XML output parses with xml.etree (independent well-formedness oracle) and the parsed
          elements / attributes / character data equal the LTPage tree; binary sink decoded with the
          codec == text sink characters
  (proof) lean/PdfVerif/Props/C11.lean
"""

from __future__ import annotations

import glob
import io
import json
import os
import re
import xml.etree.ElementTree as ET
from typing import Any, Dict, List, Optional, Tuple

from harness import common as C
from harness import pdfwriter as W

LEVEL = "proof"
RULE = ("generated documents: 1-3 pages of positioned text runs (horizontal lines, stacked vertical glyphs) in simple "
        "fonts whose ToUnicode maps reach XML-special characters (< > & \" '), C0 control characters, TAB/LF/CR, "
        "latin-1, cp1252-only, BMP and astral characters and multi-character values; font names and form/image "
        "XObject names drawn from the same alphabet; nested form XObjects, image XObjects, lines, rectangles, curves, "
        "g/rg/k colours; crossed with LAParams (None, default, boxes_flow None, detect_vertical, all_texts, margins), "
        "output type text|xml, sink StringIO|BytesIO+codec (utf-8, utf-16, utf-16-le, latin-1, cp1252, utf-32, utf-8-sig; the codecs with a byte-order mark show a second mark as a stray U+FEFF), strip_control. "
        "Documents also use Japanese / Korean text with codecs that carry a shift state from one write to the next "
        "(iso2022_jp, iso2022_jp_2, iso2022_kr, utf-7) and multi-byte / non-ASCII-compatible codecs (shift_jis, euc_jp, "
        "euc_kr, gb18030, big5, utf-16-be, cp037), names that collide after stripping / escaping, disable_caching; about "
        "60 % of the documents are followed, in the same process, by a second conversion (strip_control flipped, the same "
        "again, a sibling document with the same font / XObject names, another codec, caching flipped): state left behind "
        "by a converter must not matter. A failure is re-run in a fresh interpreter to find out which earlier steps it "
        "needs; the replay contains exactly those. "
        "Every document is also converted by a TextConverter constructed directly with showpageno=True (text sink + one "
        "binary sink); the escaping functions utils.enc / XMLConverter.attr / write_text are called directly on ~70 "
        "strings per run over all scalar ranges (C0 controls, U+FFFE/U+FFFF, astral) and their output is read back by "
        "the Lean unescAny. "
        "A case is one (document, laparams, output type, sink, strip) evaluation; non-trivial when the document has at "
        "least one glyph and at least one special (XML-special, control or non-ASCII) character in a text or a name")
TRUSTED_BASE = [
    "hand model lean/PdfVerif/Model/Convert.lean of TextConverter.receive_layout/write_text, XMLConverter element "
    "writers, utils.enc (= html.escape quote=True), CONTROL stripping; tied to the code by running the compiled model "
    "on the canonical dump of every generated LTPage tree and comparing with the converter output character by "
    "character (sampling)",
    "tools/translate/gen_c11.py regenerates the CONTROL class, the XML element templates (which arguments go through "
    "enc), the TextConverter literals incl. the showpageno header, bbox2str, LTCurve.get_pts and the colour-space names "
    "from pdfminer/converter.py, utils.py, layout.py, pdfcolor.py, pdfinterp.py on every run",
    "number formatting: '%.3f' / '%d' / utils.bbox2str (regenerated) are modelled in Lean on exact values and tied to "
    "Python on the numbers of every generated tree and on rounding-tie probes; the model consumes the formatted strings; "
    "LTCurve.get_pts and the table of colour-space names are regenerated and proved Plain; str(colour) (Python float "
    "repr) stays opaque (alphabet checked per tree)",
    "Python codecs are abstract (an incremental encoder with a left-inverse decoder) except utf-8, utf-8-sig, utf-16, "
    "utf-16-le, utf-16-be, utf-32, latin-1: concrete state machines (Model/ConvertCodec.lean) whose sink BYTES are "
    "compared with the real BytesIO contents on every run (textbin / xmlbin); inverse decoders proved for utf-32 / utf-16",
    "xml.etree.ElementTree (expat) as the independent XML well-formedness oracle; the shared PDF writer",
    "html.escape as shipped with CPython (its five replacements are modelled by hand and correspondence-checked)",
]
ASSUMPTIONS = [
    "documents come from the generator grammar (well-formed PDF); names are PDF names (not strings)",
    "characters are Unicode scalar values (no lone surrogates); without strip_control well-formedness is demanded only "
    "when every text and name consists of XML 1.0 Char; with strip_control also C0 controls may occur; U+FFFE/U+FFFF "
    "are outside the generated alphabet",
    "sink equality is demanded only when the codec can represent every character of the output (whole-string "
    "encode/decode round trip is the identity - SO/SI/ESC are not representable in ISO-2022 codecs)",
    "imagewriter is None (image export belongs to C18/C15)",
]
STATEMENT_STATUS: Dict[str, str] = {
    "C11_text": "proved: text sink output of TextConverter = specText (in-order text, LF per box, FF per page), all trees",
    "C11_sink": "proved: any codec state machine with a left-inverse decoder, any cut into writes, both error policies",
    "C11_sink_text": "proved (corollary: decoded binary text output = specText)",
    "C11_sink_xml": "proved (corollary for the xml writes)",
    "esc_safe": "proved: enc leaves no raw < > \" '",
    "esc_unesc": "proved: reader's unescape inverts enc on XML characters (character data, no CR)",
    "esc_unesc_attr": "proved: attribute position incl. strip_control, TAB/LF/CR as references; no raw \" or <",
    "esc_unesc_text": "proved: character data position incl. strip_control, CR as reference; no raw <",
    "strip_legal": "proved: after CONTROL stripping (regenerated class) XML chars + C0 controls are XML chars",
    "C11_fmt_f3_plain": "proved: '%.3f' model output is digits/-/. for every signed rational (formatter tied to Python "
                        "by driver ops fmt.* incl. rounding ties)",
    "C11_fmt_d_plain": "proved: '%d' model output is digits/- for every signed rational",
    "C11_bbox2str_plain": "proved over the REGENERATED utils.bbox2str",
    "C11_numeric_items_ok": "proved: items whose numeric fields come from the formatters meet the Plain hypotheses of "
                            "C11_xml_wf for all numbers (remaining opaque after round 6: str(colour) only)",
    "C11_text_pageno": "proved: every tree, BOTH showpageno values - output = per page optional 'Page <id>' header "
                       "(regenerated template) + in-order text + form feed (specTextPn)",
    "C11_text_pageno_off": "proved: showpageno False is exactly the model / spec of C11_text",
    "C11_text_raw": "proved: trees without text boxes (laparams=None) - output is the glyph texts + form feeds, no "
                    "character added",
    "C11_sink_text_pageno": "proved (C11_sink_text for both showpageno values)",
    "C11_sink_utf32": "proved, NO hypothesis: utf-32 incremental encoder (pending byte-order mark) as a concrete state "
                      "machine; for all writes and both error policies the bytes decode to the concatenated writes",
    "C11_sink_utf32_text": "proved (text output, every tree, both showpageno values)",
    "C11_sink_utf16": "proved, NO hypothesis: utf-16 (mark once, little-endian units, surrogate pairs)",
    "C11_sink_utf16_text": "proved",
    "C11_xml_wf_utf32": "proved: XML bytes in a utf-32 sink, decoded, parsed = skeleton (end to end)",
    "C11_xml_wf_utf16": "proved: the same for utf-16",
    "esc_roundtrip_all": "proved for EVERY string of scalar values (controls, U+FFFE/F, astral): replacing references "
                         "in enc(s) gives s",
    "attr_roundtrip_all": "proved for every string: XMLConverter.attr read back = (stripped) string",
    "text_roundtrip_all": "proved for every string: XMLConverter.write_text read back = (stripped) string",
    "esc_injective_all": "proved: enc / attr / write_text are injective (modulo CONTROL stripping) on all strings",
    "C11_skeleton_strip": "proved: skeleton with strip_control = skeleton of the tree with the stripped strings",
    "C11_skeleton_injective": "proved: equal skeletons => equal (stripped) trees, all trees",
    "C11_xml_injective": "proved: equal XML output of two trees in the domain => equal (stripped) trees",
    "C11_xml_injective_nostrip": "proved: without strip_control equal output => equal trees",
    "C11_get_pts_plain": "proved over the REGENERATED LTCurve.get_pts for every point list",
    "C11_path_items_ok": "proved: <line>/<rect>/<curve> are in the domain of C11_xml_wf with no hypothesis",
    "C11_colourspace_plain": "proved over the REGENERATED table of colour-space names",
    "C11_char_item_ok": "proved: glyph in the domain given str(ncolor) Plain and XML-legal document strings",
    "C11_page_fields_plain": "proved: <page> attributes Plain for all numbers",
    "C11_xml_lex": "proved: the reader's lexer inverts the rendering of every well-formed token sequence",
    "C11_xml_wf": "proved (full statement): parseXML (characters XMLConverter writes) = some (docSkeleton tree) for all "
                  "trees in the domain PageOk (strings XML Char after optional CONTROL stripping, formatted numbers "
                  "Plain, anno TextPlain), both strip_control values, any declared codec name without '?'",
}

CLASSIFIERS: Dict[str, Any] = {}

XML_SPECIAL = "<>&\"'"
C0_ILLEGAL = [chr(c) for c in range(0x20) if c not in (9, 10, 13)]


def is_xml_char(ch: str) -> bool:
    o = ord(ch)
    return o in (9, 10, 13) or 0x20 <= o <= 0xD7FF or 0xE000 <= o <= 0xFFFD or 0x10000 <= o <= 0x10FFFF


def strip_c0(s: str) -> str:
    return "".join(ch for ch in s if not (ord(ch) < 0x20 and ord(ch) not in (9, 10, 13)))


# ------------------------------------------------------------------ document generator

ALPHABETS = {
    "ascii": "abcdefgXYZ019 .,-",
    "special": XML_SPECIAL,
    "control": "\x00\x01\x08\x0b\x0c\x0e\x1f",
    "wsp": "\t\n\r",
    "latin1": "\xe9\xfc\xa0\xff\x7f\x85",
    "cp1252": "€’œ",
    "bmp": "Ω漢 �﻿",
    "astral": "\U0001f600\U00010000",
    "cjk": "日本語あア、",
    "hangul": "한국어",
}


def gen_string(rng, kinds: List[str], lo=1, hi=6) -> str:
    n = rng.randint(lo, hi)
    out = []
    for _ in range(n):
        k = rng.choice(kinds)
        out.append(rng.choice(ALPHABETS[k]))
    return "".join(out)


def gen_spec(rng, profile: Optional[str] = None) -> Dict[str, Any]:
    """A JSON-able document description."""
    profile = profile or rng.choice(["plain", "special", "control", "wide", "mixed", "mixed", "latin", "wsp", "cjk",
                                     "hangul"])
    kinds = {"plain": ["ascii"], "special": ["ascii", "special", "special"],
             "control": ["ascii", "control", "special"], "wide": ["ascii", "bmp", "astral", "cp1252", "special"],
             "latin": ["ascii", "latin1", "special"], "wsp": ["ascii", "wsp", "special"],
             "cjk": ["ascii", "cjk", "cjk", "special"], "hangul": ["ascii", "hangul", "special"],
             "mixed": ["ascii", "special", "control", "latin1", "cp1252", "bmp", "astral", "wsp"]}[profile]
    name_kinds = [k for k in kinds if k != "wsp"] if rng.random() < 0.7 else kinds
    fonts = []
    for fi in range(rng.randint(1, 3)):
        if fi == 0 and rng.random() < 0.3:
            fonts.append({"std": True, "name": "Helvetica", "map": {}})
            continue
        m: Dict[str, str] = {}
        code = 33
        m["32"] = " "
        for k in kinds:
            for ch in ALPHABETS[k]:
                if rng.random() < 0.7 and code < 250:
                    m[str(code)] = ch
                    code += 1
        for _ in range(rng.randint(0, 3)):      # multi-character values (ligatures)
            if code < 250:
                m[str(code)] = gen_string(rng, kinds, 2, 3)
                code += 1
        fonts.append({"std": False, "name": gen_string(rng, name_kinds + ["ascii"], 1, 8), "map": m})
    if len(fonts) >= 2 and not fonts[0].get("std") and not fonts[1].get("std") and rng.random() < 0.25:
        fonts[1]["name"] = fonts[0]["name"] + rng.choice(["\x01", "\x0b", "&", "\t", "'", " "])
    nx = rng.randint(0, 3)
    xobjs = []
    for xi in range(nx):
        kind = "image" if rng.random() < 0.3 else "form"
        xobjs.append({"name": gen_string(rng, name_kinds + ["ascii"], 1, 6), "kind": kind,
                      "items": [], "matrix": rng.choice([[1, 0, 0, 1, 0, 0], [1, 0, 0, 1, 20, 30], [0.5, 0, 0, 0.5, 100, 100]]),
                      "w": rng.randint(1, 4), "h": rng.randint(1, 4)})
    if len(xobjs) >= 2 and rng.random() < 0.25:
        xobjs[1]["name"] = xobjs[0]["name"] + rng.choice(["\x01", "\x0b", "&", "\t", "'", " "])
    # distinct names (resource dictionary keys)
    seen = set()
    for i, x in enumerate(xobjs):
        while x["name"] in seen:
            x["name"] += "x"
        seen.add(x["name"])

    def gen_items(depth: int, allowed_x: List[int]) -> List[Any]:
        items: List[Any] = []
        y = rng.choice([700, 650, 500])
        for _ in range(rng.randint(1, 6)):
            r = rng.random()
            if r < 0.55:
                fi = rng.randrange(len(fonts))
                f = fonts[fi]
                codes_pool = [int(c) for c in f["map"]] or list(range(65, 91)) + [32, 60, 62, 38, 34, 169]
                if f.get("std"):
                    codes_pool = list(range(65, 91)) + [32, 60, 62, 38, 34, 169, 1, 200]
                size = rng.choice([8, 10, 12, 12.5])
                codes = [rng.choice(codes_pool) for _ in range(rng.randint(1, 12))]
                x = rng.choice([72, 72, 100, 300])
                if rng.random() < 0.2:
                    items.append(["vtext", fi, size, x, y, codes[:5]])
                    y -= 14 * 6
                else:
                    items.append(["text", fi, size, x, y, codes])
                y -= rng.choice([14, 14, 15, 60, 150])
                if y < 60:
                    y = 720
            elif r < 0.65:
                items.append(["line", rng.randint(0, 500), rng.randint(0, 700), rng.randint(0, 500), rng.randint(0, 700),
                              rng.choice([0, 1, 2.5])])
            elif r < 0.73:
                items.append(["rect", rng.randint(0, 500), rng.randint(0, 700), rng.randint(1, 100), rng.randint(1, 100),
                              rng.choice([0, 1, 3])])
            elif r < 0.8:
                items.append(["curve", [rng.randint(0, 600) for _ in range(8)], rng.choice([0, 1])])
            elif r < 0.88:
                items.append(["color", *rng.choice([["g", [0.5]], ["rg", [1, 0, 0.25]], ["k", [0, 0.1, 0.2, 1]], ["g", [0]]])])
            elif allowed_x:
                items.append(["do", rng.choice(allowed_x)])
        return items

    # forms may only invoke later forms (no cycles)
    for xi in reversed(range(nx)):
        if xobjs[xi]["kind"] == "form":
            xobjs[xi]["items"] = gen_items(1, list(range(xi + 1, nx)))
    pages = []
    for _ in range(rng.choice([1, 1, 2, 3])):
        pages.append({"items": gen_items(0, list(range(nx))), "rotate": rng.choice([0, 0, 0, 90, 180, 270])})
    return {"profile": profile, "fonts": fonts, "xobjs": xobjs, "pages": pages}


def name_bytes(s: str) -> bytes:
    return s.encode("utf-8")


def tounicode_cmap(m: Dict[str, str]) -> bytes:
    ents = []
    for code, val in sorted(m.items(), key=lambda kv: int(kv[0])):
        ents.append(b"<%02X> <%s>" % (int(code), val.encode("utf-16-be").hex().upper().encode()))
    out = [b"/CIDInit /ProcSet findresource begin 12 dict begin begincmap /CMapName /X def /CMapType 2 def",
           b"1 begincodespacerange <00> <FF> endcodespacerange"]
    for i in range(0, len(ents), 90):
        blk = ents[i:i + 90]
        out.append(b"%d beginbfchar" % len(blk))
        out.extend(blk)
        out.append(b"endbfchar")
    out.append(b"endcmap CMapName currentdict /CMap defineresource pop end end")
    return b"\n".join(out)


def content_of(items: List[Any], spec: Dict[str, Any]) -> bytes:
    out: List[bytes] = []
    for it in items:
        k = it[0]
        if k == "text":
            _, fi, size, x, y, codes = it
            out.append(b"BT /F%d %s Tf %s %s Td %s Tj ET" % (fi, W.ser(size), W.ser(x), W.ser(y), W.ser_string(bytes(codes))))
        elif k == "vtext":
            _, fi, size, x, y, codes = it
            parts = [b"BT /F%d %s Tf %s %s Td" % (fi, W.ser(size), W.ser(x), W.ser(y))]
            for c in codes:
                parts.append(b"%s Tj 0 %s Td" % (W.ser_string(bytes([c])), W.ser(-size * 1.0)))
            parts.append(b"ET")
            out.append(b" ".join(parts))
        elif k == "line":
            _, x0, y0, x1, y1, lw = it
            out.append(b"%s w %d %d m %d %d l S" % (W.ser(lw), x0, y0, x1, y1))
        elif k == "rect":
            _, x, y, w, h, lw = it
            out.append(b"%s w %d %d %d %d re f" % (W.ser(lw), x, y, w, h))
        elif k == "curve":
            _, p, lw = it
            out.append(b"%s w %d %d m %d %d %d %d %d %d c S" % (W.ser(lw), *p))
        elif k == "color":
            _, op, vals = it
            out.append(b" ".join(W.ser(v) for v in vals) + b" " + op.encode())
        elif k == "do":
            out.append(W.ser_name(name_bytes(spec["xobjs"][it[1]]["name"])) + b" Do")
    return b"\n".join(out) + b"\n"


def build_pdf(spec: Dict[str, Any]) -> bytes:
    objs: Dict[int, Any] = {}
    n = 100
    fontres: Dict[Any, Any] = {}
    for fi, f in enumerate(spec["fonts"]):
        if f.get("std"):
            objs[n] = dict(W.HELVETICA)
            fontres[f"F{fi}"] = W.Ref(n)
            n += 1
            continue
        nm = W.Name(name_bytes(f["name"]))
        objs[n + 1] = {"Type": "FontDescriptor", "FontName": nm, "Flags": 32, "FontBBox": [0, -200, 1000, 800],
                       "ItalicAngle": 0, "Ascent": 800, "Descent": -200, "CapHeight": 700, "StemV": 80}
        objs[n + 2] = W.Stream({}, tounicode_cmap(f["map"]))
        objs[n] = {"Type": "Font", "Subtype": "Type1", "BaseFont": nm, "FirstChar": 0, "LastChar": 255,
                   "Widths": [600] * 256, "FontDescriptor": W.Ref(n + 1), "ToUnicode": W.Ref(n + 2)}
        fontres[f"F{fi}"] = W.Ref(n)
        n += 3
    xres: Dict[Any, Any] = {}
    xnum = {}
    for xi, x in enumerate(spec["xobjs"]):
        xnum[xi] = n
        xres[W.Name(name_bytes(x["name"]))] = W.Ref(n)
        n += 1
    res: Dict[Any, Any] = {"Font": fontres}
    if xres:
        res["XObject"] = xres
    for xi, x in enumerate(spec["xobjs"]):
        if x["kind"] == "image":
            objs[xnum[xi]] = W.Stream({"Type": "XObject", "Subtype": "Image", "Width": x["w"], "Height": x["h"],
                                       "ColorSpace": "DeviceGray", "BitsPerComponent": 8}, bytes(x["w"] * x["h"]))
        else:
            objs[xnum[xi]] = W.Stream({"Type": "XObject", "Subtype": "Form", "BBox": [0, 0, 612, 792],
                                       "Matrix": x["matrix"], "Resources": res}, content_of(x["items"], spec))
    objs[1] = {"Type": "Catalog", "Pages": W.Ref(2)}
    kids = []
    for p in spec["pages"]:
        objs[n] = W.Stream({}, content_of(p["items"], spec))
        pg = {"Type": "Page", "Parent": W.Ref(2), "Contents": W.Ref(n), "Resources": res, "MediaBox": [0, 0, 612, 792]}
        if p.get("rotate"):
            pg["Rotate"] = p["rotate"]
        objs[n + 1] = pg
        kids.append(W.Ref(n + 1))
        n += 2
    objs[2] = {"Type": "Pages", "Kids": kids, "Count": len(kids)}
    return W.build_pdf(objs, 1)


LAPARAMS_CHOICES = [
    None,
    {},
    {"boxes_flow": None},
    {"detect_vertical": True},
    {"all_texts": True},
    {"detect_vertical": True, "all_texts": True, "boxes_flow": -1.0},
    {"line_margin": 0.1, "char_margin": 0.5},
    {"word_margin": 5.0, "boxes_flow": 1.0},
]


def mk_laparams(d: Optional[Dict[str, Any]]):
    from pdfminer.layout import LAParams
    return None if d is None else LAParams(**d)


# ------------------------------------------------------------------ implementation adapters

PTSLOG: List[Tuple[List[Any], str]] = []   # (item.pts, item.get_pts()) of the path items of the last dumps
NUMLOG: List[Tuple[str, Any]] = []      # raw numbers behind the formatted fields of the last dumps


def fmt_bbox(b) -> str:
    if len(NUMLOG) < 4000:
        NUMLOG.append(("bbox", tuple(b)))
    return ",".join("%.3f" % v for v in b)


def fmt_f3(v) -> str:
    if len(NUMLOG) < 4000:
        NUMLOG.append(("f3", v))
    return "%.3f" % v


def fmt_d(v) -> str:
    if len(NUMLOG) < 4000:
        NUMLOG.append(("d", v))
    return "%d" % v


def srat(v) -> Optional[str]:
    """sign + exact magnitude of a finite int/float for the Lean formatter model"""
    import math
    from fractions import Fraction
    if isinstance(v, bool) or not isinstance(v, (int, float)):
        return None
    if isinstance(v, float) and not math.isfinite(v):
        return None
    neg = v < 0 if isinstance(v, int) else math.copysign(1.0, v) < 0
    return ("- " if neg else "+ ") + C.frac_str(Fraction(abs(v)))


def fmt_request(kind: str, v) -> Optional[Tuple[str, str, str, Any]]:
    """A driver request that ties the Lean formatter model to Python's % operator / pdfminer's bbox2str."""
    if kind == "bbox":
        from pdfminer.utils import bbox2str
        parts = [srat(x) for x in v]
        if None in parts or len(parts) != 4:
            return None
        return ("fmt.bbox " + " ".join(parts), "tie", bbox2str(v), {"op": "fmt.bbox", "value": [repr(x) for x in v]})
    if kind == "pts":
        pts, got = v
        parts = [srat(x) for p in pts for x in p]
        if None in parts or any(len(p) != 2 for p in pts):
            return None
        return (" ".join(["fmt.pts"] + parts), "tie", got or "-", {"op": "fmt.pts", "value": [repr(p) for p in pts]})
    r = srat(v)
    if r is None:
        return None
    exp = ("%.3f" % v) if kind == "f3" else ("%d" % v)
    return (f"fmt.{kind} {r}", "tie", exp, {"op": "fmt." + kind, "value": repr(v)})


def dump_item(it) -> List[Any]:
    """Canonical dump of one layout item (numbers formatted here, independently of pdfminer.utils)."""
    from pdfminer import layout as L
    if isinstance(it, L.LTPage):
        groups = None
        if it.groups is not None:
            groups = [dump_group(g) for g in it.groups]
        return ["page", fmt_d(it.pageid) if type(it.pageid) is int else str(it.pageid), fmt_bbox(it.bbox), fmt_d(it.rotate), [dump_item(c) for c in it], groups]
    if isinstance(it, (L.LTLine, L.LTRect)) and len(PTSLOG) < 400:
        PTSLOG.append((list(it.pts), it.get_pts()))      # LTLine / LTRect inherit get_pts (not written by the converter)
    if isinstance(it, L.LTLine):
        return ["line", fmt_d(it.linewidth), fmt_bbox(it.bbox)]
    if isinstance(it, L.LTRect):
        return ["rect", fmt_d(it.linewidth), fmt_bbox(it.bbox)]
    if isinstance(it, L.LTCurve):
        if len(PTSLOG) < 400:
            PTSLOG.append((list(it.pts), it.get_pts()))
        return ["curve", fmt_d(it.linewidth), fmt_bbox(it.bbox), ",".join("%.3f,%.3f" % p for p in it.pts)]
    if isinstance(it, L.LTFigure):
        return ["figure", it.name, fmt_bbox(it.bbox), [dump_item(c) for c in it]]
    if isinstance(it, L.LTTextLine):
        return ["textline", fmt_bbox(it.bbox), [dump_item(c) for c in it]]
    if isinstance(it, L.LTTextBox):
        return ["textbox", fmt_d(it.index), fmt_bbox(it.bbox), isinstance(it, L.LTTextBoxVertical),
                [dump_item(c) for c in it]]
    if isinstance(it, L.LTChar):
        return ["char", it.fontname, fmt_bbox(it.bbox), it.ncs.name, str(it.graphicstate.ncolor), fmt_f3(it.size),
                it.get_text()]
    if isinstance(it, L.LTAnno):
        return ["anno", it.get_text()]
    if isinstance(it, L.LTImage):
        return ["image", fmt_d(it.width), fmt_d(it.height)]
    raise C.Infra("unexpected layout item " + repr(it))


def dump_group(g) -> List[Any]:
    from pdfminer import layout as L
    if isinstance(g, L.LTTextBox):
        return ["gbox", fmt_d(g.index), fmt_bbox(g.bbox)]
    if isinstance(g, L.LTTextGroup):
        return ["ggroup", fmt_bbox(g.bbox), [dump_group(c) for c in g]]
    raise C.Infra("unexpected group item " + repr(g))


def impl_tree(pdf: bytes, la: Optional[Dict[str, Any]]) -> List[Any]:
    """LTPage trees: extract_pages (high level) when laparams are given, the aggregator otherwise."""
    from pdfminer.high_level import extract_pages
    if la is not None:
        return [dump_item(p) for p in extract_pages(io.BytesIO(pdf), laparams=mk_laparams(la))]
    from pdfminer.converter import PDFPageAggregator
    from pdfminer.pdfinterp import PDFPageInterpreter, PDFResourceManager
    from pdfminer.pdfpage import PDFPage
    rs = PDFResourceManager()
    dev = PDFPageAggregator(rs, laparams=None)
    ip = PDFPageInterpreter(rs, dev)
    out = []
    for page in PDFPage.get_pages(io.BytesIO(pdf)):
        ip.process_page(page)
        out.append(dump_item(dev.get_result()))
    return out


class _Capture:
    """Runs extract_text_to_fp / extract_text with converter subclasses that also record the LTPage each
    receive_layout call was given (the hierarchy the output has to reproduce).  Needed because layout analysis
    breaks distance ties by id(): two runs over the same bytes may group boxes differently (that is C12's
    subject), so output and tree must come from the same run."""

    def __init__(self):
        self.pages: List[Any] = []
        self.exported: List[str] = []

    def __enter__(self):
        import pdfminer.high_level as H
        cap = self
        self._H = H
        self._orig = (H.TextConverter, H.XMLConverter)

        class CapText(self._orig[0]):
            def receive_layout(self, ltpage):
                cap.pages.append(dump_item(ltpage))
                return super().receive_layout(ltpage)

        class CapXML(self._orig[1]):
            def receive_layout(self, ltpage):
                node = dump_item(ltpage)
                iw = self.imagewriter
                if iw is not None and not hasattr(iw, "_c11_wrapped"):
                    orig_export = iw.export_image

                    def export(image):
                        n = orig_export(image)
                        cap.exported.append(n)
                        return n
                    iw.export_image = export
                    iw._c11_wrapped = True
                k0 = len(cap.exported)
                r = super().receive_layout(ltpage)
                if iw is not None:
                    attach_image_names(node, cap.exported[k0:])
                cap.pages.append(node)
                return r
        H.TextConverter, H.XMLConverter = CapText, CapXML
        return self

    def __exit__(self, *a):
        self._H.TextConverter, self._H.XMLConverter = self._orig
        return False


def attach_image_names(node, names: List[str]) -> None:
    """Image nodes in render order (pre-order) get the name imagewriter.export_image returned."""
    it = iter(names)

    def walk(n):
        k = n[0]
        if k == "image":
            nm = next(it, None)
            if nm is not None:
                n.append(nm)
        idx = {"page": 4, "figure": 3, "textline": 2, "textbox": 4}.get(k)
        if idx is not None:
            for c in n[idx]:
                walk(c)
    walk(node)


FILESINK = [False]     # set per step: write into real files (objects with a `mode`) instead of StringIO / BytesIO


def impl_convert(pdf: bytes, la, otype: str, codec: Optional[str], strip: bool, images: bool = False,
                 nocache: bool = False):
    """Returns (output, tree rendered): str (text sink) when codec is None, else bytes (binary sink).
    `images`: xml only - pass an output_dir, so that an ImageWriter exports the images and <image src=…> is written."""
    import shutil
    import tempfile
    from pdfminer.high_level import extract_text_to_fp
    if images and otype == "xml":
        d = tempfile.mkdtemp(prefix="c11img")
        try:
            return _impl_convert(pdf, la, otype, codec, strip, os.path.join(d, "out"), nocache)
        finally:
            shutil.rmtree(d, ignore_errors=True)
    return _impl_convert(pdf, la, otype, codec, strip, None, nocache)


def _impl_convert(pdf: bytes, la, otype: str, codec: Optional[str], strip: bool, outdir: Optional[str],
                  nocache: bool = False):
    import tempfile
    from pdfminer.high_level import extract_text_to_fp
    path = None
    if FILESINK[0]:
        fd, path = tempfile.mkstemp(prefix="c11sink")
        os.close(fd)
    if codec is None:
        # text sink: StringIO, or a file opened in text mode (its `mode` has no "b")
        fp: Any = open(path, "w", encoding="utf-8", errors="surrogatepass", newline="") if path else io.StringIO()
        kw = {"codec": None} if otype == "xml" else {}
    else:
        fp = open(path, "wb") if path else io.BytesIO()
        kw = {"codec": codec}
    if outdir:
        kw["output_dir"] = outdir
    if nocache:
        kw["disable_caching"] = True
    try:
        with _Capture() as cap:
            extract_text_to_fp(io.BytesIO(pdf), fp, output_type=otype, laparams=mk_laparams(la), strip_control=strip,
                               **kw)
        if path is None:
            return fp.getvalue(), cap.pages
        fp.close()
        if codec is None:
            with open(path, "r", encoding="utf-8", errors="surrogatepass", newline="") as rf:
                return rf.read(), cap.pages
        with open(path, "rb") as rb:
            return rb.read(), cap.pages
    finally:
        if path is not None:
            try:
                fp.close()
            except Exception:  # noqa: BLE001
                pass
            os.unlink(path)


def impl_text_direct(pdf: bytes, la, showpageno: bool, codec: Optional[str] = None):
    """TextConverter driven directly (the way tools/pdf2txt's predecessors and library users do): the only way to
    reach the `showpageno` branch of receive_layout.  Returns (output, captured LTPage dumps)."""
    from pdfminer.converter import TextConverter
    from pdfminer.pdfinterp import PDFPageInterpreter, PDFResourceManager
    from pdfminer.pdfpage import PDFPage
    pages: List[Any] = []

    class Cap(TextConverter):
        def receive_layout(self, ltpage):
            pages.append(dump_item(ltpage))
            return super().receive_layout(ltpage)

    rs = PDFResourceManager()
    fp: Any = io.StringIO() if codec is None else io.BytesIO()
    dev = Cap(rs, fp, codec=codec or "utf-8", laparams=mk_laparams(la), showpageno=showpageno)
    ip = PDFPageInterpreter(rs, dev)
    for page in PDFPage.get_pages(io.BytesIO(pdf)):
        ip.process_page(page)
    dev.close()
    return fp.getvalue(), pages


def spec_text_pn(tree: List[Any], showpageno: bool) -> str:
    return "".join(("Page %s\n" % p[1] if showpageno else "") + spec_text_item(p) for p in tree)


def has_box(node) -> bool:
    k = node[0]
    if k == "textbox":
        return True
    idx = {"page": 4, "figure": 3, "textline": 2}.get(k)
    return idx is not None and any(has_box(c) for c in node[idx])


def impl_extract_text(pdf: bytes, la):
    from pdfminer.high_level import extract_text
    with _Capture() as cap:
        out = extract_text(io.BytesIO(pdf), laparams=mk_laparams(la))
    return out, cap.pages


def text_only(node):
    """Projection of a dumped tree on what TextConverter keeps (it drops paths and images)."""
    k = node[0]
    idx = {"page": 4, "figure": 3, "textline": 2, "textbox": 4}.get(k)
    if idx is None:
        return node
    n = list(node)
    n[idx] = [text_only(c) for c in node[idx] if c[0] not in ("line", "rect", "curve", "image")]
    return n


# ------------------------------------------------------------------ executable spec on the Python side

def spec_text_item(node: List[Any]) -> str:
    k = node[0]
    if k == "page":
        return "".join(spec_text_item(c) for c in node[4]) + "\f"
    if k == "figure":
        return "".join(spec_text_item(c) for c in node[3])
    if k == "textline":
        return "".join(spec_text_item(c) for c in node[2])
    if k == "textbox":
        return "".join(spec_text_item(c) for c in node[4]) + "\n"
    if k == "char":
        return node[6]
    if k == "anno":
        return node[1]
    return ""


def spec_text(tree: List[Any]) -> str:
    return "".join(spec_text_item(p) for p in tree)


def tree_strings(tree) -> List[str]:
    """Every document-controlled string of a dumped tree."""
    out = []

    def walk(n):
        k = n[0]
        if k == "page":
            for c in n[4]:
                walk(c)
        elif k == "figure":
            out.append(n[1])
            for c in n[3]:
                walk(c)
        elif k == "textline":
            for c in n[2]:
                walk(c)
        elif k == "textbox":
            for c in n[4]:
                walk(c)
        elif k == "char":
            out.append(n[1])
            out.append(n[6])
        elif k == "image" and len(n) > 3:
            out.append(n[3])
    for p in tree:
        walk(p)
    return out


def opaque_ok(tree) -> bool:
    """Hypotheses `Plain` / `TextPlain` of theorem C11_xml_wf on the opaque (formatted) fields of a dumped tree."""
    def plain(s):
        return all(is_xml_char(ch) and ch not in '&<"\t\n\r' for ch in s)

    def walk(n):
        k = n[0]
        if k == "page":
            return all(plain(x) for x in n[1:4]) and all(walk(c) for c in n[4]) and \
                (n[5] is None or all(walk(g) for g in n[5]))
        if k == "figure":
            return plain(n[2]) and all(walk(c) for c in n[3])
        if k == "textline":
            return plain(n[1]) and all(walk(c) for c in n[2])
        if k == "textbox":
            return plain(n[1]) and plain(n[2]) and all(walk(c) for c in n[4])
        if k == "char":
            return all(plain(x) for x in n[2:6])
        if k == "anno":
            return all(is_xml_char(ch) and ch not in "&<\r" for ch in n[1])
        if k == "ggroup":
            return plain(n[1]) and all(walk(c) for c in n[2])
        if k == "image":
            return plain(n[1]) and plain(n[2])
        return all(plain(x) for x in n[1:])
    return all(walk(p) for p in tree)


def expected_xml(tree, strip: bool):
    """Skeleton: what a conforming XML reader must see, as (tag, attrs, text, children)."""
    def txt(s):
        return strip_c0(s) if strip else s

    def name(s):
        return strip_c0(s) if strip else s

    def grp(g):
        if g[0] == "gbox":
            return ("textbox", {"id": g[1], "bbox": g[2]}, "", [])
        return ("textgroup", {"bbox": g[1]}, "", [grp(c) for c in g[2]])

    def el(n):
        k = n[0]
        if k == "page":
            kids = [el(c) for c in n[4]]
            if n[5] is not None:
                kids.append(("layout", {}, "", [grp(g) for g in n[5]]))
            return ("page", {"id": n[1], "bbox": n[2], "rotate": n[3]}, "", kids)
        if k in ("line", "rect"):
            return (k, {"linewidth": n[1], "bbox": n[2]}, "", [])
        if k == "curve":
            return ("curve", {"linewidth": n[1], "bbox": n[2], "pts": n[3]}, "", [])
        if k == "figure":
            return ("figure", {"name": name(n[1]), "bbox": n[2]}, "", [el(c) for c in n[3]])
        if k == "textline":
            return ("textline", {"bbox": n[1]}, "", [el(c) for c in n[2]])
        if k == "textbox":
            a = {"id": n[1], "bbox": n[2]}
            if n[3]:
                a["wmode"] = "vertical"
            return ("textbox", a, "", [el(c) for c in n[4]])
        if k == "char":
            return ("text", {"font": name(n[1]), "bbox": n[2], "colourspace": n[3], "ncolour": n[4], "size": n[5]},
                    txt(n[6]), [])
        if k == "anno":
            return ("text", {}, n[1], [])
        if k == "image":
            a = {"width": n[1], "height": n[2]}
            if len(n) > 3:
                a["src"] = name(n[3])
            return ("image", a, "", [])
        raise C.Infra("bad node")
    return ("pages", {}, "", [el(p) for p in tree])


def compare_xml(e: ET.Element, exp, path="pages") -> Optional[str]:
    tag, attrs, text, kids = exp
    if e.tag != tag:
        return f"{path}: element <{e.tag}> where <{tag}> is expected"
    if dict(e.attrib) != attrs:
        for k in sorted(set(attrs) | set(e.attrib)):
            if attrs.get(k) != e.attrib.get(k):
                return f"{path}: attribute {k} is {e.attrib.get(k)!r}, the tree has {attrs.get(k)!r}"
    ch = list(e)
    if tag == "text":
        if (e.text or "") != text:
            return f"{path}: character data {(e.text or '')!r}, the tree has {text!r}"
    elif (e.text or "").strip("\n") != "":
        return f"{path}: stray character data {(e.text or '')!r}"
    if len(ch) != len(kids):
        return f"{path}: {len(ch)} child elements, the tree has {len(kids)}"
    for i, (c, k) in enumerate(zip(ch, kids)):
        if (c.tail or "").strip("\n") != "":
            return f"{path}/{c.tag}[{i}]: stray character data {(c.tail or '')!r}"
        r = compare_xml(c, k, f"{path}/{k[0]}[{i}]")
        if r:
            return r
    return None


# ------------------------------------------------------------------ canonical line for the Lean driver

def cps(s: str) -> str:
    return ",".join("%x" % ord(ch) for ch in s) if s else "-"


def node_words(n, out: List[str]) -> None:
    k = n[0]
    if k == "page":
        out += ["(page", cps(n[1]), cps(n[2]), cps(n[3])]
        for c in n[4]:
            node_words(c, out)
        out.append(")")
        if n[5] is None:
            out.append("nogroups")
        else:
            out.append("(groups")
            for g in n[5]:
                node_words(g, out)
            out.append(")")
    elif k in ("line", "rect"):
        out += [k, cps(n[1]), cps(n[2])]
    elif k == "curve":
        out += ["curve", cps(n[1]), cps(n[2]), cps(n[3])]
    elif k == "figure":
        out += ["(figure", cps(n[1]), cps(n[2])]
        for c in n[3]:
            node_words(c, out)
        out.append(")")
    elif k == "textline":
        out += ["(textline", cps(n[1])]
        for c in n[2]:
            node_words(c, out)
        out.append(")")
    elif k == "textbox":
        out += ["(textbox", cps(n[1]), cps(n[2]), "v" if n[3] else "h"]
        for c in n[4]:
            node_words(c, out)
        out.append(")")
    elif k == "char":
        out += ["char"] + [cps(x) for x in n[1:7]]
    elif k == "anno":
        out += ["anno", cps(n[1])]
    elif k == "image":
        out += ["image", cps(n[1]), cps(n[2])] if len(n) == 3 else ["imagesrc", cps(n[3]), cps(n[1]), cps(n[2])]
    elif k == "gbox":
        out += ["gbox", cps(n[1]), cps(n[2])]
    elif k == "ggroup":
        out += ["(ggroup", cps(n[1])]
        for c in n[2]:
            node_words(c, out)
        out.append(")")
    else:
        raise C.Infra("bad node " + repr(k))


def tree_line(op: str, tree, *args: str) -> str:
    out: List[str] = [op] + list(args)
    for p in tree:
        node_words(p, out)
    return " ".join(out)


# ------------------------------------------------------------------ one case

CODECS = ["utf-8", "utf-16", "utf-16-le", "latin-1", "cp1252", "utf-32", "utf-8-sig",
          # codecs with a shift state / escape sequences (state carried from one write to the next), multi-byte
          # codecs, a non-ASCII-compatible single-byte codec
          "utf-7", "gb18030", "iso2022_jp", "iso2022_jp_2", "iso2022_kr", "shift_jis", "euc_jp", "euc_kr", "big5",
          "utf-16-be", "cp037"]
CODECS_BY_PROFILE = {
    "cjk": ["iso2022_jp", "iso2022_jp_2", "shift_jis", "euc_jp", "gb18030", "utf-7", "utf-16", "iso2022_jp"],
    "hangul": ["iso2022_kr", "euc_kr", "gb18030", "utf-7", "utf-8-sig", "iso2022_kr"],
    "plain": ["cp037", "iso2022_jp", "iso2022_kr", "utf-7", "latin-1", "utf-32", "big5"],
}


# codecs with a concrete Lean state machine (Model/ConvertCodec.lean): the BYTES of the binary sink are compared
MODELLED_CODECS = {"utf-8", "utf-16", "utf-16-le", "utf-16-be", "utf-32", "utf-8-sig", "latin-1"}


def scalar_tree(tree) -> bool:
    return all(not (0xD800 <= ord(ch) <= 0xDFFF) for s in tree_strings(tree) for ch in s)


def representable(s: str, codec: str) -> bool:
    """The codec can represent the characters: the whole-string round trip is the identity (encoding alone is not
    enough: ISO-2022 codecs pass SO / SI / ESC through as bytes that the decoder reads as shift functions)."""
    try:
        return s.encode(codec).decode(codec) == s
    except UnicodeError:
        return False


def special_count(spec) -> int:
    n = 0
    for f in spec["fonts"]:
        n += sum(1 for ch in f["name"] if ch in XML_SPECIAL or ord(ch) < 32 or ord(ch) > 126)
    for x in spec["xobjs"]:
        n += sum(1 for ch in x["name"] if ch in XML_SPECIAL or ord(ch) < 32 or ord(ch) > 126)
    return n


class CaseResult:
    def __init__(self):
        self.failures: List[C.Failure] = []
        # driver requests: (line, kind, expected reply, input); kind "tie": model output must equal the
        # implementation's; "spec": Lean spec evaluated on the implementation's output; "thm": an instance
        # of a theorem evaluated on the model
        self.req: List[Tuple[str, str, str, Any]] = []


def hexs(s: str) -> str:
    return s.encode("utf-8", "surrogatepass").hex() or "-"


def eval_case(spec, la, strip: bool, codecs: List[str], want_model: bool = True,
              only: Optional[str] = None, images: bool = False, nocache: bool = False) -> CaseResult:
    """Evaluate the property on the implementation for one document / laparams / strip choice over both
    output types, the text sink and the given binary codecs; collect model requests.
    `only` ("text" | "extract_text" | "xml") restricts the evaluation to one output path (used by the shrinker)."""
    res = CaseResult()
    cfg = {"laparams": la, "strip_control": strip, "images": images, "nocache": nocache, "filesink": FILESINK[0]}
    pdf = build_pdf(spec)

    def no_src(node):
        """projection: the reference tree from extract_pages knows no exported names"""
        k = node[0]
        if k == "image":
            return node[:3]
        idx = {"page": 4, "figure": 3, "textline": 2, "textbox": 4}.get(k)
        if idx is None:
            return node
        n = list(node)
        n[idx] = [no_src(c) for c in node[idx]]
        return n

    def fail(what, expected, got, **tags):
        tags.setdefault("strip", strip)
        res.failures.append(C.Failure(what, {"spec": spec, **cfg, **{k: v for k, v in tags.items() if k == "codec"}},
                                      expected, got, tags))

    try:
        del NUMLOG[:]
        del PTSLOG[:]
        ref = impl_tree(pdf, la)
    except Exception as e:  # noqa: BLE001
        fail("building the layout tree raised " + type(e).__name__, "a tree", repr(e), stage="tree")
        return res
    res.tree = ref
    if want_model and only is None:
        # the numbers behind the reference tree: a sample goes to the Lean formatter model
        step = max(1, len(NUMLOG) // 12)
        for kind, v in NUMLOG[::step][:14]:
            q = fmt_request(kind, v)
            if q is not None:
                res.req.append(q)
    res.nglyph = len(tree_strings(ref))
    res.legal = all(is_xml_char(ch) for s in tree_strings(ref) for ch in s)
    def canon(page, proj):
        """Layout analysis breaks distance ties by id(): two runs over the same bytes may nest the groups,
        number the boxes and hence order them differently (C12's subject).  What every run must agree on:
        the multiset of the page's children with the box numbers removed."""
        pg = proj(page)
        kids = []
        for c in pg[4]:
            c = list(c)
            if c[0] == "textbox":
                c[1] = "*"
            kids.append(json.dumps(c, sort_keys=True))
        return [pg[0], pg[1], pg[2], pg[3], sorted(kids), pg[5] is None]

    def same_hierarchy(tree, proj, what) -> bool:
        """The converter must have laid out the hierarchy extract_pages yields (same laparams)."""
        if [proj(p) for p in tree] == [proj(p) for p in ref]:
            return True
        if [canon(p, proj) for p in tree] == [canon(p, proj) for p in ref]:
            res.unstable = True
            return True
        fail(what + " was produced from a different hierarchy than extract_pages yields for the same bytes and "
             "laparams", "same tree", "different tree", stage="plumbing")
        return False

    def ident(x):
        return x

    # ---- text, text sink
    text_runs: Dict[Optional[str], Tuple[str, Any]] = {}
    for codec in ([None] + list(codecs)) if only in (None, "text") else []:
        try:
            out, tree = impl_convert(pdf, la, "text", codec, strip, False, nocache)
        except Exception as e:  # noqa: BLE001
            fail(f"text conversion raised {type(e).__name__}" + (" (binary sink)" if codec else ""), "text output",
                 repr(e), otype="text", codec=codec, stage="convert")
            continue
        exp_text = spec_text(tree)
        if codec is None:
            same_hierarchy(tree, text_only, "text output")
            if out != exp_text:
                fail("text output differs from the in-order text of the layout tree", exp_text, out, otype="text",
                     stage="text")
            inp = {"spec": spec, **cfg}
            res.req.append((tree_line("text", tree), "tie", hexs(out), {"op": "text", **inp}))
            res.req.append((tree_line("spectext", tree), "spec", hexs(out), {"op": "spectext", **inp}))
            res.req.append((tree_line("textpn", tree, "0"), "tie", hexs(out), {"op": "textpn", **inp}))
            boxes = any(has_box(p) for p in tree)
            if la is None and boxes:
                fail("laparams=None (raw glyph mode) produced text boxes", "no LTTextBox", "LTTextBox", otype="text",
                     stage="text")
            res.req.append((tree_line("textraw", tree, "0"), "spec", "boxes" if boxes else hexs(out),
                            {"op": "textraw", **inp}))
            text_runs[None] = (out, tree)
        else:
            if codec in MODELLED_CODECS and want_model and only is None and scalar_tree(tree):
                inp = {"spec": spec, "codec": codec, **cfg}
                res.req.append((tree_line("textbin", tree, codec, "0"), "tie", out.hex() or "-",
                                {"op": "textbin", "dropped": not representable(exp_text, codec), **inp}))
                if codec in ("utf-32", "utf-16") and out:
                    op = "utf32dec" if codec == "utf-32" else "utf16dec"
                    res.req.append((op + " " + out.hex(), "spec", hexs(exp_text), {"op": op, **inp}))
            if not representable(exp_text, codec):
                continue
            try:
                dec = out.decode(codec)
            except UnicodeError as e:
                dec = "<undecodable: %s>" % e
            if dec != exp_text:
                fail("binary sink decoded with its codec differs from the text sink (text output)", exp_text, dec,
                     otype="text", codec=codec, stage="sink")
    # ---- TextConverter constructed with showpageno (not reachable through high_level): text sink + one binary sink
    if only in (None, "text"):
        pn_codecs: List[Optional[str]] = [None]
        for codec in [c for c in codecs if c in MODELLED_CODECS] + list(codecs):
            if codec in MODELLED_CODECS or (None in text_runs and
                                            representable(spec_text_pn(text_runs[None][1], True), codec)):
                pn_codecs.append(codec)
                break
        pn_text: Optional[str] = None
        for codec in pn_codecs:
            try:
                out, tree = impl_text_direct(pdf, la, True, codec)
            except Exception as e:  # noqa: BLE001
                fail(f"text conversion with showpageno raised {type(e).__name__}" + (" (binary sink)" if codec else ""),
                     "text output", repr(e), otype="text", codec=codec, stage="convert", showpageno=True)
                continue
            exp_text = spec_text_pn(tree, True)
            if codec is None:
                same_hierarchy(tree, text_only, "text output (showpageno)")
                if out != exp_text:
                    fail("text output with showpageno differs from page headers + in-order text of the layout tree",
                         exp_text, out, otype="text", stage="text", showpageno=True)
                inp = {"spec": spec, **cfg, "showpageno": True}
                res.req.append((tree_line("textpn", tree, "1"), "tie", hexs(out), {"op": "textpn", **inp}))
                res.req.append((tree_line("spectextpn", tree, "1"), "spec", hexs(out), {"op": "spectextpn", **inp}))
                res.req.append((tree_line("textraw", tree, "1"), "spec",
                                "boxes" if any(has_box(p) for p in tree) else hexs(out), {"op": "textraw", **inp}))
                pn_text = out
                continue
            if codec in MODELLED_CODECS and want_model and only is None and scalar_tree(tree):
                res.req.append((tree_line("textbin", tree, codec, "1"), "tie", out.hex() or "-",
                                {"op": "textbin", "spec": spec, "codec": codec, **cfg, "showpageno": True}))
            if representable(exp_text, codec):
                try:
                    dec = out.decode(codec)
                except UnicodeError as e:
                    dec = "<undecodable: %s>" % e
                if dec != exp_text:
                    fail("binary sink decoded with its codec differs from the text sink (text output with showpageno)",
                         exp_text, dec, otype="text", codec=codec, stage="sink", showpageno=True)
        if want_model and only is None:
            def cs_names(n, acc):
                if n[0] == "char":
                    acc.add(n[3])
                idx = {"page": 4, "figure": 3, "textline": 2, "textbox": 4}.get(n[0])
                for c in (n[idx] if idx is not None else []):
                    cs_names(c, acc)
                return acc
            for nm in sorted(set().union(*[cs_names(p, set()) for p in ref]) if ref else []):
                if all(not (0xD800 <= ord(ch) <= 0xDFFF) for ch in nm):
                    res.req.append(("csname " + cps(nm), "tie", "in", {"op": "csname", "name": nm, "spec": spec, **cfg}))
            for v in PTSLOG[:3]:
                q = fmt_request("pts", v)
                if q is not None:
                    res.req.append(q)
    # extract_text plumbing (default LAParams when None)
    try:
        if only not in (None, "extract_text"):
            raise StopIteration
        et, tree = impl_extract_text(pdf, la)
        if et != spec_text(tree):
            fail("extract_text differs from the in-order text of the layout tree", spec_text(tree), et, otype="text",
                 stage="extract_text")
        if la is not None:
            same_hierarchy(tree, text_only, "extract_text output")
        else:
            dflt = impl_tree(pdf, {})
            if [canon(p, text_only) for p in tree] != [canon(p, text_only) for p in dflt]:
                fail("extract_text(laparams=None) did not lay out with the default LAParams", "same tree",
                     "different tree", stage="plumbing")
    except StopIteration:
        pass
    except Exception as e:  # noqa: BLE001
        fail("extract_text raised " + type(e).__name__, "text", repr(e), otype="text", stage="convert")

    # ---- xml
    xml_text_sink: Optional[str] = None
    xml_text_tree: Any = None
    for codec in ([None] + list(codecs)) if only in (None, "xml") else []:
        if codec is not None and (xml_text_sink is None or not representable(xml_text_sink, codec)):
            continue
        try:
            out, tree = impl_convert(pdf, la, "xml", codec, strip, images, nocache)
        except Exception as e:  # noqa: BLE001
            fail(f"xml conversion raised {type(e).__name__}" + (" (binary sink)" if codec else ""), "xml output",
                 repr(e), otype="xml", codec=codec, stage="convert")
            continue
        strings = tree_strings(tree)
        scalar = all(not (0xD800 <= ord(ch) <= 0xDFFF) for s in strings for ch in s)
        legal = all(is_xml_char(ch) for s in strings for ch in s)
        in_domain = scalar and (legal or (strip and all(is_xml_char(ch) or ord(ch) < 0x20 for s in strings for ch in s)))
        if in_domain and not opaque_ok(tree):
            in_domain = False
            res.opaque_bad = True
        if codec is None:
            same_hierarchy(tree, no_src, "xml output")
            sf = "s" if strip else "k"
            inp = {"spec": spec, **cfg}
            res.req.append((tree_line("xml", tree, sf, "-"), "tie", hexs(out), {"op": "xml", **inp}))
            res.req.append((tree_line("skelstrip", tree, sf), "thm", "ok", {"op": "skelstrip", **inp}))
            if in_domain:
                res.req.append((tree_line("xmlcheck", tree, sf, "-"), "thm", "ok", {"op": "xmlcheck", **inp}))
                res.req.append((tree_line("parse", tree, sf, hexs(out)), "spec", "ok", {"op": "parse", **inp}))
            chars = xml_text_sink = out
            xml_text_tree = tree
        else:
            if codec in MODELLED_CODECS and want_model and only is None and scalar and not images:
                res.req.append((tree_line("xmlbin", tree, codec, "s" if strip else "k"), "tie", out.hex() or "-",
                                {"op": "xmlbin", "spec": spec, "codec": codec, **cfg}))
            try:
                chars = out.decode(codec)
                sf = "s" if strip else "k"
                inp = {"spec": spec, "codec": codec, **cfg}
                res.req.append((tree_line("xml", tree, sf, cps(codec)), "tie", hexs(chars), {"op": "xml", **inp}))
                if in_domain:
                    res.req.append((tree_line("parse", tree, sf, hexs(chars)), "spec", "ok", {"op": "parse", **inp}))
                if tree == xml_text_tree:
                    # same hierarchy rendered: apart from the declared encoding the characters must be the same
                    want = xml_text_sink.replace('<?xml version="1.0" ?>',
                                                 '<?xml version="1.0" encoding="%s" ?>' % codec, 1)
                    if chars != want:
                        fail("binary sink decoded with its codec differs from the text sink (xml output)",
                             first_diff(hexs(want), hexs(chars)), "see expected", otype="xml", codec=codec,
                             stage="sink")
            except UnicodeError as e:
                if in_domain:
                    fail("binary sink cannot be decoded with its codec (xml output)", "decodable bytes", str(e),
                         otype="xml", codec=codec, stage="sink")
                continue
        if in_domain:
            check_xml(chars, tree, strip, fail, codec)
    return res


XMLDECL = re.compile(r'\A<\?xml version="1.0"( encoding="([^"]*)")? \?>\n')


def check_xml(chars: str, tree, strip: bool, fail, codec) -> None:
    """`chars`: the characters of the output (binary sinks already decoded with their codec)."""
    m = XMLDECL.match(chars)
    if not m or (m.group(2) or None) != codec:
        fail("XML declaration does not name the codec of the sink", codec, chars[:60], otype="xml", stage="decl",
             codec=codec)
        return
    body = chars[m.end():]
    try:
        root = ET.fromstring(b'<?xml version="1.0" encoding="utf-8" ?>\n' + body.encode("utf-8"))
    except ET.ParseError as e:
        fail("XML output is not well-formed", "well-formed XML", f"{e}", otype="xml", stage="wf", codec=codec,
             **xml_tags(tree, strip))
        return
    diff = compare_xml(root, expected_xml(tree, strip))
    if diff:
        fail("XML output does not reproduce the layout tree", "elements/attributes/character data of the tree", diff,
             otype="xml", stage="faithful", codec=codec, **xml_tags(tree, strip))


def xml_tags(tree, strip) -> Dict[str, Any]:
    fig, font, text = [], [], []

    def walk(n):
        k = n[0]
        if k == "page":
            [walk(c) for c in n[4]]
        elif k == "figure":
            fig.append(n[1])
            [walk(c) for c in n[3]]
        elif k == "textline":
            [walk(c) for c in n[2]]
        elif k == "textbox":
            [walk(c) for c in n[4]]
        elif k == "char":
            font.append(n[1])
            text.append(n[6])
    for p in tree:
        walk(p)

    def has(strs, chars):
        return any(ch in s for s in strs for ch in chars)
    return {"figure_name_special": has(fig, '<&"'), "figure_name_control": has(fig, C0_ILLEGAL),
            "font_name_control": has(font, C0_ILLEGAL), "name_wsp": has(fig + font, "\t\n\r"),
            "text_cr": has(text, "\r")}


# ------------------------------------------------------------------ shrinking

def shrink_spec(spec, still, budget: int = 60) -> Dict[str, Any]:
    """Greedy structural shrinking of a document description; `still(spec) -> bool`."""
    import copy
    cur = copy.deepcopy(spec)

    def attempt(cand):
        nonlocal cur
        try:
            if still(cand):
                cur = cand
                return True
        except Exception:  # noqa: BLE001
            pass
        return False
    # drop pages
    while len(cur["pages"]) > 1 and budget > 0:
        budget -= 1
        done = False
        for i in range(len(cur["pages"])):
            c = copy.deepcopy(cur)
            del c["pages"][i]
            if attempt(c):
                done = True
                break
        if not done:
            break
    # drop items (pages and forms)
    for holder in ("pages", "xobjs"):
        for hi in range(len(cur[holder])):
            i = 0
            while i < len(cur[holder][hi]["items"]) and budget > 0:
                budget -= 1
                c = copy.deepcopy(cur)
                del c[holder][hi]["items"][i]
                if not attempt(c):
                    i += 1
    # shorten text runs
    for holder in ("pages", "xobjs"):
        for hi in range(len(cur[holder])):
            for ii, it in enumerate(cur[holder][hi]["items"]):
                if it[0] in ("text", "vtext") and len(it[5]) > 1:
                    for sub in ([it[5][0]], [it[5][-1]], it[5][:len(it[5]) // 2], it[5][len(it[5]) // 2:]):
                        if budget <= 0:
                            break
                        budget -= 1
                        c = copy.deepcopy(cur)
                        c[holder][hi]["items"][ii][5] = sub
                        if attempt(c):
                            break
    # drop ToUnicode entries no remaining text run uses
    used: Dict[int, set] = {}
    for holder in ("pages", "xobjs"):
        for h in cur[holder]:
            for it in h["items"]:
                if it[0] in ("text", "vtext"):
                    used.setdefault(it[1], set()).update(it[5])
    c = copy.deepcopy(cur)
    for fi, f in enumerate(c["fonts"]):
        f["map"] = {k: v for k, v in f["map"].items() if int(k) in used.get(fi, set())}
    attempt(c)
    return cur


def path_of(f: C.Failure) -> Optional[str]:
    """Which output path a failure belongs to (the shrinker re-evaluates only that one)."""
    if f.what.startswith("extract_text") or f.tags.get("stage") == "extract_text":
        return "extract_text"
    if f.tags.get("otype") == "xml" or f.what.startswith("xml"):
        return "xml"
    if f.tags.get("otype") == "text" or f.what.startswith("text"):
        return "text"
    return None


def step_of(inp: Dict[str, Any], codecs: Optional[List[str]] = None) -> Dict[str, Any]:
    """One conversion round of a session: a document + one configuration (JSON-able)."""
    cs = codecs if codecs is not None else ([inp["codec"]] if inp.get("codec") else inp.get("codecs", []))
    return {"spec": inp["spec"], "laparams": inp.get("laparams"), "strip_control": bool(inp.get("strip_control")),
            "images": bool(inp.get("images")), "nocache": bool(inp.get("nocache")),
            "filesink": bool(inp.get("filesink")), "codecs": list(cs)}


def eval_step(step: Dict[str, Any], want_model: bool = True, only: Optional[str] = None) -> CaseResult:
    FILESINK[0] = bool(step.get("filesink"))
    return eval_case(step["spec"], step["laparams"], step["strip_control"], step["codecs"], want_model=want_model,
                     only=only, images=step["images"], nocache=step["nocache"])


def session_failures(doc: Dict[str, Any]) -> List[Dict[str, Any]]:
    """Entry point of the fresh-process evaluation: run the steps in order in THIS process and list what failed in
    the last one."""
    steps = doc["steps"]
    for st in steps[:-1]:
        eval_step(st, want_model=False)
    r = eval_step(steps[-1], want_model=False, only=doc.get("only"))
    return [{"what": f.what, "codec": f.tags.get("codec")} for f in r.failures]


def fresh_fails(steps: List[Dict[str, Any]], what: str, codec: Optional[str], only: Optional[str],
                timeout: int = 120) -> Optional[bool]:
    """Does the last step of `steps` still break the property (same kind) when the steps are run, in order, in a
    NEW interpreter?  That is exactly what `./vcheck --replay` will do.  None = could not be decided."""
    import subprocess
    import sys
    code = ("import sys, json; sys.path.insert(0, %r); from harness.props import c11; "
            "print('\\n@@' + json.dumps(c11.session_failures(json.load(sys.stdin))))" % C.TOOLS)
    env = dict(os.environ, VERIF_REPO=C.REPO)
    try:
        p = subprocess.run([sys.executable, "-c", code], input=json.dumps({"steps": steps, "only": only}).encode(),
                           stdout=subprocess.PIPE, stderr=subprocess.DEVNULL, timeout=timeout, env=env)
        line = [ln for ln in p.stdout.decode("utf-8", "replace").split("\n") if ln.startswith("@@")]
        if p.returncode != 0 or not line:
            return None
        got = json.loads(line[-1][2:])
    except Exception:  # noqa: BLE001
        return None
    return any(g["what"] == what and g["codec"] == codec for g in got)


def minimise(f: C.Failure, deadline: float, before: List[Dict[str, Any]], fresh: bool) -> C.Failure:
    """Shrink the document of the failing step.  `fresh`: decide every candidate in a new interpreter (needed when
    the failure depends on what the process did before - the earlier steps are kept as they are)."""
    import time
    inp = f.input
    codec = inp.get("codec")
    only = path_of(f)
    what0 = f.tags.get("what0", f.what)      # as eval_case words it (the fresh interpreter reports that)

    def step_for(spec2):
        return step_of(dict(inp, spec=spec2))

    def same(spec2) -> Optional[C.Failure]:
        if time.time() > deadline:
            return None
        if fresh:
            # earlier steps that render the same document follow the shrinking
            bef = [dict(b, spec=spec2) if b["spec"] == inp["spec"] else b for b in before]
            ok = fresh_fails(bef + [step_for(spec2)], what0, codec, only)
            return C.Failure(f.what, dict(inp, spec=spec2, before=bef), f.expected, f.got, f.tags) if ok else None
        r = eval_step(step_for(spec2), want_model=False, only=only)
        for g in r.failures:
            if g.what == f.what and g.tags.get("codec") == f.tags.get("codec"):
                return g
        return None
    small = shrink_spec(inp["spec"], lambda s2: same(s2) is not None, budget=8 if fresh else 60)
    g = same(small)
    return g if g is not None else f


def analyse(ctx: C.Ctx, f: C.Failure, before: List[Dict[str, Any]], deadline: float) -> C.Failure:
    """Make the failure a self-contained replay: find out whether it needs the conversions that ran earlier in this
    process (state carried across converters / documents), keep exactly those, then shrink."""
    import time
    codec, only = f.input.get("codec"), path_of(f)
    last = step_of(f.input)
    tags = dict(f.tags)
    alone = fresh_fails([last], f.what, codec, only)
    if alone is None:                       # no verdict from the fresh interpreter: report as found
        return C.Failure(f.what, dict(f.input, before=before), f.expected, f.got, tags)
    if alone:
        g = minimise(f, deadline, [], fresh=False)
        if g is not f and time.time() < deadline + 5 and not fresh_fails([step_of(g.input)], f.what, codec, only):
            g = f                           # the shrunk input leaned on process state: keep the original
        return g
    hist = list(getattr(ctx, "_c11_hist", []))
    for cand, label in ((before, "session"), (hist + before, "process-history")):
        if cand and fresh_fails(cand + [last], f.what, codec, only):
            keep = list(cand)
            i = 0
            while i < len(keep) and time.time() < deadline:      # drop earlier steps that are not needed
                trial = keep[:i] + keep[i + 1:]
                if fresh_fails(trial + [last], f.what, codec, only):
                    keep = trial
                else:
                    i += 1
            tags.update(stateful=True, needs=label, steps_before=len(keep), what0=f.what)
            g = C.Failure(f.what + " (only after earlier conversions in the same process)",
                          dict(f.input, before=keep), f.expected, f.got, tags)
            g2 = minimise(g, deadline, keep, fresh=True)
            return g2
    tags.update(stateful=True, needs="unknown-process-state")
    return C.Failure(f.what + " (only after earlier conversions in the same process)",
                     dict(f.input, before=hist + before), f.expected, f.got, tags)


def report(ctx: C.Ctx, f: C.Failure, before: List[Dict[str, Any]]) -> None:
    """Analyse + shrink the first failure of each kind (that is the one vcheck writes as replay), within a total
    time budget; later failures of a kind are recorded as found (with the steps that preceded them)."""
    import time
    st = getattr(ctx, "_c11_shrink", None)
    if st is None:
        st = {"kinds": {}, "spent": 0.0}
        ctx._c11_shrink = st
    budget = 25.0 if ctx.tier == "quick" else 240.0
    if f.what not in st["kinds"] and st["spent"] < budget and f.tags.get("stage") not in ("leanparse", "spectext"):
        t0 = time.time()
        g = analyse(ctx, f, before, t0 + min(9.0, budget - st["spent"]))
        st["kinds"][f.what] = g.what
        f = g
        st["spent"] += time.time() - t0
    else:
        # same wording as the analysed failure of this kind (one VIOLATION line per kind), earlier steps attached
        f = C.Failure(st["kinds"].get(f.what, f.what), dict(f.input, before=before) if before else f.input,
                      f.expected, f.got, f.tags)
    ctx.fail(f)


# ------------------------------------------------------------------ run / replay

def run_session(ctx: C.Ctx, steps: List[Dict[str, Any]], branch=None, collect=None) -> None:
    """Evaluate the steps in order in this process; every step is a case of its own."""
    for k, step in enumerate(steps):
        spec, la, strip, codecs, images = step["spec"], step["laparams"], step["strip_control"], step["codecs"], \
            step["images"]
        r = eval_step(step)
        nontriv = getattr(r, "nglyph", 0) > 0 and (special_count(spec) > 0 or not getattr(r, "legal", True)
                                                   or spec.get("profile") != "plain")
        ctx.case(("c11", json.dumps(step, sort_keys=True), k), nontriv,
                 sample={"profile": spec.get("profile"), "laparams": la, "strip_control": strip, "codecs": codecs,
                         "images": images, "nocache": step["nocache"], "step": k,
                         "fonts": [f["name"] for f in spec["fonts"]], "xobjs": [x["name"] for x in spec["xobjs"]],
                         "pages": len(spec["pages"])},
                 branch=branch or ("profile:" + str(spec.get("profile"))))
        ctx.branch("laparams:" + json.dumps(la, sort_keys=True))
        ctx.branch("strip:" + str(strip))
        ctx.branch("imagewriter:" + str(images))
        ctx.branch("disable_caching:" + str(step["nocache"]))
        ctx.branch("sink:" + ("file objects (text mode / binary mode)" if step.get("filesink") else "StringIO/BytesIO"))
        ctx.branch("session-step:%d" % k + (":" + step.get("kind", "") if k else ""))
        for c in codecs:
            ctx.branch("codec:" + c)
        if hasattr(r, "tree"):
            count_nodes(ctx, r.tree)
        if getattr(r, "opaque_bad", False):
            ctx.branch("xml-domain:formatted-field-not-plain")
        if getattr(r, "unstable", False):
            ctx.branch("hierarchy:id-tie-order-differs-between-runs")
        seen = set()
        for f in r.failures:
            key = (f.what, f.tags.get("codec"))
            if key in seen:
                continue
            seen.add(key)
            report(ctx, f, [dict(b) for b in steps[:k]])
        if collect is not None:
            collect.append(r)
        hist = getattr(ctx, "_c11_hist", [])
        hist.append({k2: v for k2, v in step.items() if k2 != "kind"})
        ctx._c11_hist = hist[-4:]


def count_nodes(ctx, tree) -> None:
    def walk(n):
        ctx.branch("node:" + n[0])
        k = n[0]
        kids = {"page": 4, "figure": 3, "textline": 2, "textbox": 4}.get(k)
        if k == "textbox" and n[3]:
            ctx.branch("node:textbox-vertical")
        if kids is not None:
            for c in n[kids]:
                walk(c)
        if k == "page" and n[5] is not None:
            ctx.branch("node:layout")
    for p in tree:
        walk(p)


def flush_model(ctx: C.Ctx, results: List[CaseResult]) -> None:
    if ctx.driver is None:
        return
    reqs = [q for r in results for q in r.req]
    outs = ctx.driver.ask([q[0] for q in reqs])
    for (line, kind, exp, inp), got in zip(reqs, outs):
        ctx.branch(kind + ":" + inp["op"])
        if inp["op"] == "textbin" and inp.get("dropped"):
            ctx.branch("textbin:unrepresentable-characters-dropped (errors=ignore)")
        if inp["op"] == "textraw":
            ctx.branch("textraw:" + ("tree-with-boxes" if exp == "boxes" else "raw-glyph-tree"))
        if got == exp:
            continue
        if kind == "tie" and inp["op"].startswith("fmt."):
            ctx.disagree(inp["op"], inp, exp, got)
        elif kind == "tie":
            ctx.disagree(inp["op"], inp, first_diff(exp, got), "model differs")
        elif kind == "thm":
            ctx.disagree(inp["op"], inp, "theorem instance (Lean reader on the model output = skeleton)"
                         if inp["op"] == "xmlcheck" else "theorem instance " + inp["op"], got)
        elif inp["op"] in ("utf32dec", "utf16dec"):
            ctx.fail(C.Failure(inp["codec"] + " binary sink read by the Lean decoder of C11_sink_utf32/_utf16 is not "
                               "the text of the layout tree", {k: v for k, v in inp.items() if k != "op"}, exp, got,
                               {"stage": "sink", "otype": "text", "codec": inp["codec"]}))
        elif inp["op"] in ("spectextpn", "textraw"):
            what = ("text output with showpageno differs from the Lean specification specTextPn of the layout tree"
                    if inp["op"] == "spectextpn" else
                    "text output of a tree without text boxes (raw glyph mode) is not its glyph texts + form feeds "
                    "(Lean C11_text_raw)")
            ctx.fail(C.Failure(what, {k: v for k, v in inp.items() if k != "op"}, first_diff(exp, got)
                               if got not in ("boxes", "bad-op") and exp != "boxes" else exp, got,
                               {"stage": "spectext", "otype": "text"}))
        elif inp["op"] == "spectext":
            ctx.fail(C.Failure("text output differs from the Lean specification specText of the layout tree",
                               {k: v for k, v in inp.items() if k != "op"}, first_diff(exp, got), "see expected",
                               {"stage": "spectext", "otype": "text"}))
        else:
            ctx.fail(C.Failure("XML output read by the Lean XML reader is not the skeleton of the layout tree: " + got,
                               {k: v for k, v in inp.items() if k != "op"}, "ok", got,
                               {"stage": "leanparse", "otype": "xml"}))


def first_diff(a: str, b: str) -> str:
    try:
        sa = bytes.fromhex(a if a != "-" else "").decode("utf-8", "replace")
        sb = bytes.fromhex(b if b != "-" else "").decode("utf-8", "replace")
    except ValueError:
        return f"impl={a[:80]} model={b[:80]}"
    i = 0
    while i < min(len(sa), len(sb)) and sa[i] == sb[i]:
        i += 1
    return f"at char {i}: impl {sa[max(0, i - 30):i + 30]!r} model {sb[max(0, i - 30):i + 30]!r}"


def run_corpus(ctx: C.Ctx) -> None:
    for path in sorted(glob.glob(os.path.join(C.VERIF, "corpus", "C11", "*.json"))):
        with open(path) as fp:
            doc = json.load(fp)
        replay(ctx, doc, from_corpus=True)


def replay(ctx: C.Ctx, doc, from_corpus: bool = False) -> None:
    inp = doc.get("input", {})
    if inp.get("probe") == "esc" and ctx.driver is not None:
        esc_flush(ctx, [q for q in esc_strings([inp["string"]])
                        if q[3]["strip_control"] == bool(inp.get("strip_control"))])
        return
    if "spec" not in inp:
        return
    steps = [step_of(b) for b in inp.get("before", [])] + [step_of(inp)]
    coll: List[CaseResult] = []
    run_session(ctx, steps, branch="corpus" if from_corpus else "replay", collect=coll)
    flush_model(ctx, coll)


def fmt_probes(ctx: C.Ctx) -> None:
    """Formatter model vs Python on rounding ties (k/16 with odd k: x*1000 ends in .5), signed zeros, tiny, huge
    and random values."""
    if ctx.driver is None:
        return
    rng = ctx.rng
    vals: List[Any] = [0.0, -0.0, 0.0625, 0.1875, 0.3125, 2.0625, -0.0625, 1e-4, -1e-4, 4.9999e-4, 5.0001e-4, 0.9995,
                       0.99949, 1e15 + 0.5, 123456.7895, 1e-300, 7, -7, 0, 2.5, -2.5, 0.5, -0.5, 1e22, 999.9995]
    for _ in range(ctx.n(150, 5000)):
        m = rng.random()
        if m < 0.3:
            vals.append(rng.randint(-800, 800) + rng.choice([1, 3, 5, 7, 9, 11, 13, 15]) / 16.0)
        elif m < 0.6:
            vals.append(round(rng.uniform(-1000, 1000), rng.randint(0, 6)))
        elif m < 0.8:
            vals.append(rng.uniform(-1, 1) * 10 ** rng.randint(-8, 12))
        else:
            vals.append(rng.randint(-10 ** 6, 10 ** 6))
    reqs = []
    for v in vals:
        reqs.append(fmt_request("f3", v))
        reqs.append(fmt_request("d", v))
    for i in range(0, len(vals) - 3, 4):
        reqs.append(fmt_request("bbox", tuple(vals[i:i + 4])))
    reqs = [q for q in reqs if q is not None]
    outs = ctx.driver.ask([q[0] for q in reqs])
    for (line, kind, exp, inp), got in zip(reqs, outs):
        ctx.branch("tie:" + inp["op"])
        if got != exp:
            ctx.disagree(inp["op"], inp, exp, got)


def esc_strings(strings: List[str]) -> Tuple[int, int]:
    """The escaping layer called directly: real `utils.enc`, `XMLConverter.attr`, `XMLConverter.write_text` on the
    given strings (strip_control off / on).  Returns driver requests; the property side (escaping is undone by
    replacing references, for EVERY string) is evaluated by the Lean `unescAny` on the implementation's output."""
    from pdfminer.converter import XMLConverter
    from pdfminer.pdfinterp import PDFResourceManager
    from pdfminer.utils import enc
    reqs = []
    for strip in (False, True):
        fp = io.StringIO()
        conv = XMLConverter(PDFResourceManager(), fp, codec=None, stripcontrol=strip)
        sf = "s" if strip else "k"
        for t in strings:
            inp = {"probe": "esc", "string": t, "strip_control": strip}
            a = conv.attr(t)
            pos = len(fp.getvalue())
            conv.write_text(t)
            w = fp.getvalue()[pos:]
            want = strip_c0(t) if strip else t
            reqs.append((f"esc.attr {sf} {cps(t)}", "tie", hexs(a), {"op": "esc.attr", **inp}))
            reqs.append((f"esc.text {sf} {cps(t)}", "tie", hexs(w), {"op": "esc.text", **inp}))
            reqs.append((f"esc.unesc {hexs(a)}", "spec", hexs(want), {"op": "esc.unesc", "pos": "attr", **inp}))
            reqs.append((f"esc.unesc {hexs(w)}", "spec", hexs(want), {"op": "esc.unesc", "pos": "text", **inp}))
            if not strip:
                e = enc(t)
                reqs.append((f"esc.enc {cps(t)}", "tie", hexs(e), {"op": "esc.enc", **inp}))
                reqs.append((f"esc.unesc {hexs(e)}", "spec", hexs(t), {"op": "esc.unesc", "pos": "enc", **inp}))
    return reqs


def esc_flush(ctx: C.Ctx, reqs, shrink: bool = True) -> None:
    outs = ctx.driver.ask([q[0] for q in reqs])
    shrunk = set()
    for (line, kind, exp, inp), got in zip(reqs, outs):
        ctx.branch(kind + ":" + inp["op"])
        if got == exp:
            continue
        if kind == "tie":
            ctx.disagree(inp["op"], inp, exp, got)
        else:
            key = (inp["pos"], inp["strip_control"])
            if shrink and len(inp["string"]) > 1 and key not in shrunk:
                # minimise: a single character of the string that fails the same way
                shrunk.add(key)
                small = [q for q in esc_strings(sorted(set(inp["string"])))
                         if q[1] == "spec" and (q[3]["pos"], q[3]["strip_control"]) == key]
                for q, g in zip(small, ctx.driver.ask([q[0] for q in small])):
                    if g != q[2]:
                        exp, inp, got = q[2], q[3], g
                        break
            ctx.fail(C.Failure("escaped %s does not read back as the (stripped) string when its references are "
                               "replaced (Lean unescAny)" % inp["pos"],
                               {k: v for k, v in inp.items() if k not in ("op", "pos")}, exp, got,
                               {"stage": "escape", "otype": "xml", "pos": inp["pos"]}))


def esc_probes(ctx: C.Ctx) -> None:
    """Strings over every alphabet incl. C0 controls, U+FFFE/U+FFFF, DEL/C1, astral characters and random scalar
    values - far outside what XML can carry: the escaping layer itself must stay invertible."""
    if ctx.driver is None:
        return
    rng = ctx.rng
    kinds = list(ALPHABETS)
    strings = ["", "&amp;", "&#9;", "a&b<c>d\"e'f", "\t\n\r", "\x00\x0b\x0c\x1f\x7f\x85", "\ufffe\uffff", "]]>",
               "&#x27;", "\r\n", ";&;#"]
    for _ in range(ctx.n(60, 1500)):
        if rng.random() < 0.7:
            strings.append(gen_string(rng, kinds, 1, 8))
        else:
            out = []
            for _k in range(rng.randint(1, 6)):
                o = rng.choice([rng.randint(0, 0x7F), rng.randint(0x80, 0xD7FF), rng.randint(0xE000, 0xFFFF),
                                rng.randint(0x10000, 0x10FFFF)])
                out.append(chr(o))
            strings.append("".join(out))
    for t in strings:
        ctx.branch("esc-probe:" + ("control" if any(ord(c) < 0x20 and c not in "\t\n\r" for c in t) else
                                   "non-xml-char" if any(not is_xml_char(c) for c in t) else
                                   "special" if any(c in XML_SPECIAL + "\t\n\r" for c in t) else "plain"))
    esc_flush(ctx, esc_strings(strings))


def sibling(rng, spec):
    """Another document with the same fonts (names, maps) and XObject names but other page contents."""
    import copy
    sib = copy.deepcopy(spec)
    for pg in sib["pages"]:
        rng.shuffle(pg["items"])
        for it in pg["items"]:
            if it[0] in ("text", "vtext") and len(it[5]) > 1:
                it[5] = it[5][::-1]
    if len(sib["pages"]) > 1 and rng.random() < 0.5:
        sib["pages"] = sib["pages"][::-1]
    return sib


def follow_up(rng, base: Dict[str, Any]) -> Dict[str, Any]:
    """A second conversion in the same process: what a converter / font / codec left behind must not matter."""
    kind = rng.choice(["flip-strip", "flip-strip", "same", "sibling-flip-strip", "other-codec", "flip-cache"])
    st = dict(base, kind=kind)
    if kind in ("flip-strip", "sibling-flip-strip"):
        st["strip_control"] = not base["strip_control"]
    if kind == "sibling-flip-strip":
        st["spec"] = sibling(rng, base["spec"])
    if kind == "other-codec":
        st["codecs"] = [rng.choice(CODECS)]
    elif len(st["codecs"]) > 1:
        st["codecs"] = [rng.choice(st["codecs"])]
    if kind == "flip-cache":
        st["nocache"] = not base["nocache"]
    return st


def run(ctx: C.Ctx) -> None:
    run_corpus(ctx)
    fmt_probes(ctx)
    esc_probes(ctx)
    rng = ctx.rng
    n = ctx.n(230, 6000)
    coll: List[CaseResult] = []
    profiles = ["plain", "special", "control", "wide", "mixed", "latin", "wsp", "cjk", "hangul"]
    for i in range(n):
        if not ctx.time_left():
            ctx.notes.append(f"stopped after {i} documents (time budget)")
            break
        if len(ctx.failures) >= 40:
            ctx.notes.append(f"stopped after {i} documents: {len(ctx.failures)} failing inputs in hand")
            break
        spec = gen_spec(rng, profiles[i % len(profiles)] if i < 3 * len(profiles) else None)
        la = LAPARAMS_CHOICES[i % len(LAPARAMS_CHOICES)] if i < 2 * len(LAPARAMS_CHOICES) else rng.choice(LAPARAMS_CHOICES)
        strip = (i % 3 == 1) if i < 12 else rng.random() < 0.4
        pool = CODECS_BY_PROFILE.get(spec["profile"])
        if pool and rng.random() < 0.8:
            codecs = [pool[i % len(pool)], rng.choice(pool)]
        else:
            codecs = [CODECS[i % len(CODECS)], rng.choice(CODECS)]
        codecs = sorted(set(codecs))
        images = any(x["kind"] == "image" for x in spec["xobjs"]) and rng.random() < 0.5
        base = {"spec": spec, "laparams": la, "strip_control": strip, "images": images,
                "nocache": rng.random() < 0.15, "filesink": rng.random() < 0.2, "codecs": codecs}
        steps = [base]
        if i % 2 == 1 or rng.random() < 0.2:
            steps.append(follow_up(rng, base))
        run_session(ctx, steps, collect=coll)
        if len(coll) >= 50:
            flush_model(ctx, coll)
            coll = []
    flush_model(ctx, coll)
