"""C03 - stream payloads and filter chains decode to exactly the original bytes.

Relations exercised on every run:
  (enc)   Python reference encoders (c03_enc.py) == Lean encoders (Spec/FilterEnc.lean) on every case
  (tie)   Lean models of the decoders / predictors / filter pipeline / stream delimitation
          == pdfminer on the same inputs (encoded data, corrupted encoded data, random bytes)
  (prop)  pdfminer itself: decode(encode(x)) == x for every filter called directly, and
          PDFDocument.getobj(n).get_data() == x for generated files (chains up to length 3,
          predictors, direct/indirect Length/Filter/DecodeParms, full/abbreviated names, LF/CRLF/CR)
  (proof) lean/PdfVerif/Props/C03.lean
"""

from __future__ import annotations

import glob
import io
import json
import os
import zlib
from typing import Any, Dict, List, Optional, Tuple

from harness import common as C
from harness import pdfwriter as W
from harness.props import c03_enc as E

LEVEL = "proof"
RULE = ("payloads: empty, tiny, random, low-alphabet, long runs, periodic (KwKwK), zero groups, and texts "
        "containing 'endstream', 'endobj', EOLs, NULs, '~>' and '>'; lengths up to 9 KiB quick so that LZW crosses "
        "the 511/1023/2047 width changes and the forced table reset; encoder choices (case, white space, EOD forms, "
        "run segmentation, extra Clear codes, per-row PNG filter types incl. every type on the first row, colors 1-4, "
        "bits 1 and 8) drawn per case; chains of 0-3 filters with direct/indirect Length/Filter/DecodeParms, full and "
        "abbreviated names and LF/CRLF/CR after `stream`; plus corrupted encodings for the model/implementation tie. "
        "A case is non-trivial when it is a distinct (operation, parameters, payload) with a non-empty payload")
TRUSTED_BASE = [
    "reference encoders tools/harness/props/c03_enc.py (each compared with its Lean twin Spec/FilterEnc.lean on every case)",
    "hand models lean/PdfVerif/Model/Filters.lean (decoders, predictors, filter pipeline, stream delimitation), "
    "tied to pdfminer by differential correspondence on valid and corrupted inputs",
    "tools/translate (Python ast -> Lean) for paeth_predictor, the LITERALS_* filter-name tuples, _DECODE_ERRORS, the "
    "constants / straight-line arithmetic of lzw.py, runlength.py, apply_png_predictor, apply_tiff_predictor and the "
    "`endstream` marker + Length clamp of pdfparser.py (all linked to the model by proved theorems or used by it directly)",
    "zlib (Flate) is an abstract inverse pair in Lean; the driver receives zlib's results from the harness",
    "base64.a85decode (CPython): loop structure modelled by hand; its constants, guards and arithmetic are translated "
    "from the running interpreter's source and linked by a85decode_translated; struct.pack('!I') overflow is hand-modelled",
    "shared PDF writer tools/harness/pdfwriter.py for the generated files",
]
ASSUMPTIONS = [
    "zlib.decompress(zlib.compress(x)) == x",
    "Length equals the payload length (the property's domain); EOL after `stream` is LF or CRLF, or a lone CR only "
    "when the payload does not begin with LF (ISO 32000-1 7.3.8.1); in fallback mode (rebuilt xref, Length ignored) "
    "the payload does not contain `endstream` and the keyword's line is complete",
    "white space emitted by the reference encoders inside ASCIIHex is one of Python's \\s bytes and inside ASCII85 one "
    "of ' \\t\\n\\r\\v' (NUL / FF inside ASCII85 data are not generated)",
    "predictor parameters are attached to LZW/Flate stages (ISO 32000-1 Table 8) in the property domain",
    "settings.STRICT is False (the default)",
]
STATEMENT_STATUS: Dict[str, str] = {
    "ahx_rt": "proved: all byte strings, all case/white-space/EOD choices (incl. odd digit count)",
    "a85_rt": "proved: all byte strings, z/white-space choices and framings (<~, ~, none / ~>, ~, none), incl. the empty payload",
    "a85_body_rt": "proved: base64.a85decode model inverts the group encoder",
    "rl_rt": "proved: arbitrary segmentation into literal (1-128) and repeat (2-128) runs, with/without EOD",
    "lzw_rt": "proved: all byte strings, arbitrary extra Clear codes, width changes 511/1023/2047, KwKwK, forced reset, EOD + padding",
    "png_rt": "proved (for the repaired code): colors/columns arbitrary, bits 8 or 1, all rows, every assignment of the 5 filter types",
    "png_first_row_rt": "proved: the first-row case the pinned code got wrong",
    "tiff_rt": "proved: 8 bits per component, colors, columns >= 1",
    "predictor_rt": "proved: dispatch absent / Predictor 1 / 2 / >= 10 with defaulted Colors, Columns, BitsPerComponent",
    "chain_rt": "proved: chains of any length, by induction; stages for AHx, A85, LZW, RL, Fl (zlib abstract) under full and "
                "abbreviated names (membership in the regenerated LITERALS_* tuples) with any predictor setting",
    "stream_chain_rt": "proved: PDFStream.get_filters/decode on the Filter and DecodeParms arrays of a chain",
    "lzw_bit_view": "proved: LZWDecoder.readbits/run on (buff, bpos, unread bytes) equals the loop on the MSB-first bit sequence",
    "filter_names": "proved: full and abbreviated name of each supported filter is in its regenerated LITERALS_* tuple",
    "rldecode_fuel/lzwdecode_fuel/png_fuel/tiff_fuel": "proved: the fuel of every model loop suffices on every input",
    "png_pinned_*_cex": "proved counter-examples: the pinned (pre-fix) predictor parameters fail on the corpus inputs",
    "stream_decode_handler": "proved: decode()'s handler for decoder-internal errors keeps every successful decode and "
                             "only substitutes the empty string",
    "stream_delim": "proved: payload delimited exactly for LF / CRLF (and CR not followed by LF), any payload bytes, Length = |payload|",
    "lzw_translated/rl_translated/png_translated/tiff_translated/a85_ahx_translated": "proved: every hand-written constant / row formula of the "
        "LZW, RunLength, PNG, TIFF and ASCIIHex models equals the definition regenerated from lzw.py / runlength.py / utils.py / ascii85.py; "
        "the three regex sources of ascii85.py are the patterns the hand model implements "
        "(nbitsAfter, pngNbytes, pngBpp are used by the model directly)",
    "lzw_readbits_translated": "proved: one iteration of the model's LZW bit reader = the translated loop body of "
        "LZWDecoder.readbits (shifts / masks as Python writes them), for every reader state",
    "a85decode_translated": "proved: one iteration of the model's a85decode loop and its final padding step = the code "
        "translated from the source of base64.a85decode of the running interpreter (defaults foldspaces=adobe=False, "
        "ignorechars, digit range, group length, 85*acc+(x-33), z group, b'u'*4, 4-len(curr))",
    "length_direct_indirect/length_resolve_fuel/stream_read_indirect": "proved: int_value(dic['Length']) is the same for an "
        "integer and for a reference to an object holding it; unresolvable / cyclic / non-integer give 0, a missing key none; "
        "the resolution fuel suffices; stream_read_exact with an indirect Length",
    "stream_keys_rt": "proved: the chain theorem through the stream dictionary - Filter or F, DecodeParms or DP or FDecodeParms "
        "(translated key tuples)",
    "dict_keys_priority/stream_dict_rt": "proved: for every stream dictionary F wins over Filter, DP over DecodeParms over "
        "FDecodeParms (translated tuples), and the chain theorem holds for every dictionary whose winning keys carry the arrays",
    "file_chain_rt": "proved: the property in one statement - file bytes -> stream branch (Length = |z|) -> PDFStream.decode "
        "of a chain of any length gives exactly the payload",
    "predictor_translated": "proved: the model's predictor dispatch = the translated `pred == 1 / == 2 / >= 10 / else` chain of "
        "PDFStream._decode with the translated Colors / Columns / BitsPerComponent defaults",
    "stream_read_exact": "proved: whole stream branch (streamRead), Length = |payload|: rawdata = payload (any bytes) and the "
        "parser resumes exactly at `endstream`, any marker-free bytes in between",
    "stream_fallback_delim": "proved: fallback mode (Length ignored, any value): rawdata = bytes up to the first `endstream`, "
        "for every marker-free payload, any line ends inside it",
    "stream_scan_delim/stream_marker_free/scan_fuel": "proved: the endstream scan loop passes over exactly d; hypothesis = "
        "`endstream` does not occur in d (the marker has no border); the scan's fuel suffices",
    "stream_read_payload": "proved: streamRead's payload = streamPayload for every file/position/Length (clamp: negative or "
        "missing Length reads nothing, a too large one stops at the end of the file)",
    "stream_shared_parms_rt/stream_single_rt": "proved: Filter array with ONE DecodeParms dictionary (or none) for all "
        "filters, and the single forms (Filter a name, DecodeParms a dictionary or absent)",
}

CLASSIFIERS = {
    # kept for reference: both were fixed in the repo worktree, so no open finding uses them
    "c03_png_first_row_line_above": lambda f: f.tags.get("filter") == "png" and f.tags.get("bpc") == 8
    and f.tags.get("colors", 1) > 1 and f.tags.get("first_ft") in (2, 3, 4),
    "c03_png_bpc1": lambda f: f.tags.get("filter") == "png" and f.tags.get("bpc") == 1,
}

FILTER_NAMES = {
    "ahx": ("ASCIIHexDecode", "AHx"),
    "a85": ("ASCII85Decode", "A85"),
    "lzw": ("LZWDecode", "LZW"),
    "fl": ("FlateDecode", "Fl"),
    "rl": ("RunLengthDecode", "RL"),
}


def hx(b: bytes) -> str:
    return bytes(b).hex() if b else "-"


def unhx(s: str) -> bytes:
    return b"" if s == "-" else bytes.fromhex(s)


def ints(xs) -> str:
    xs = list(xs)
    return ",".join(str(x) for x in xs) if xs else "-"


# ----------------------------------------------------------------------------- payloads

TOKENS = [b"endstream", b"endobj", b"\r\n", b"\n", b"\r", b"\x00", b"~>", b">", b"<~", b"stream", b"\nendstream\n",
          b"\r\nendstream\r\nendobj\r\n", b"z", b"\x80", b"\xff", b" "]


def gen_payload(rng, maxlen: int, minlen: int = 0) -> bytes:
    k = rng.random()
    if k < 0.04 and minlen == 0:
        return b""
    if k < 0.12:
        n = rng.randint(max(1, minlen), max(minlen, 1) + 8)
    elif k < 0.75:
        n = rng.randint(max(1, minlen), max(minlen + 1, min(maxlen, 200)))
    else:
        n = rng.randint(max(1, minlen), max(minlen + 1, maxlen))
    style = rng.randrange(8)
    if style == 0:
        out = bytes(rng.randrange(256) for _ in range(n))
    elif style == 1:
        a = rng.choice([2, 3, 4, 16])
        base = rng.randrange(256)
        out = bytes((base + rng.randrange(a)) % 256 for _ in range(n))
    elif style == 2:                       # long runs
        out = bytearray()
        while len(out) < n:
            out += bytes([rng.choice([0, 0, 255, 128, rng.randrange(256)])]) * rng.choice([1, 2, 3, 5, 127, 128, 129, 300])
        out = bytes(out[:n])
    elif style == 3:                       # periodic: a^n, (ab)^n ... (KwKwK in LZW)
        p = bytes(rng.randrange(256) for _ in range(rng.randint(1, 3)))
        out = (p * (n // len(p) + 1))[:n]
    elif style == 4:                       # zero groups with islands
        out = bytearray(n)
        for _ in range(rng.randint(0, 4)):
            out[rng.randrange(n)] = rng.randrange(256)
        out = bytes(out)
    elif style in (5, 6):                  # text with keywords, EOLs, NULs
        out = bytearray()
        while len(out) < n:
            if rng.random() < 0.5:
                out += rng.choice(TOKENS)
            else:
                out += bytes(rng.choice(b"abc xyz019/()<>[]") for _ in range(rng.randint(1, 9)))
        out = bytes(out[:n])
    else:
        out = bytes(rng.choice([0, 10, 13, 32, 62, 126, 255, rng.randrange(256)]) for _ in range(n))
    if rng.random() < 0.15 and len(out) >= minlen:
        tok = rng.choice(TOKENS)
        pos = rng.choice([0, len(out), rng.randint(0, len(out))])
        out = (out[:pos] + tok + out[pos:])
    return out


# ----------------------------------------------------------------------------- encoder choices

def gen_ahx_choice(rng, x):
    mode = rng.random()
    if mode < 0.25:
        cs = []
    elif mode < 0.5:
        u = rng.choice([0, 3])
        cs = [u] * len(x)
    else:
        cs = [rng.randrange(196) if rng.random() < 0.3 else rng.randrange(4) for _ in x]
    return cs, rng.choice([0, 0, 1, 2])


def gen_a85_choice(rng, x):
    ng = (len(x) + 3) // 4
    mode = rng.random()
    if mode < 0.3:
        cs = [1] * ng
    elif mode < 0.5:
        cs = []
    else:
        cs = [rng.randrange(12) for _ in range(ng)]
    pre = (rng.choice([0, 0, 0, 1, 2]), rng.choice([0, 0, 0, 1, 3]), rng.choice([0, 0, 2]), rng.choice([0, 0, 3, 4]))
    post = (rng.choice([2, 2, 2, 2, 1, 0]), rng.choice([0, 0, 0, 3, 4]), rng.choice([0, 0, 0, 1]), rng.choice([0, 0, 3, 4]))
    return cs, pre, post


def gen_rl_segs(rng, x: bytes):
    segs = []
    i = 0
    n = len(x)
    greedy = rng.random() < 0.3
    while i < n:
        j = i
        while j < n and j - i < 128 and x[j] == x[i]:
            j += 1
        if j - i >= 2 and (greedy or rng.random() < 0.7):
            k = j - i if greedy else rng.randint(2, j - i)
            segs.append(("R", k, x[i]))
            i += k
        else:
            k = rng.choice([1, 2, 128, rng.randint(1, 128)])
            k = min(k, n - i)
            segs.append(("L", x[i:i + k]))
            i += k
    return segs, rng.random() < 0.8


def seg_str(segs) -> str:
    if not segs:
        return "-"
    return ",".join(("L" + s[1].hex()) if s[0] == "L" else ("R%d.%02x" % (s[1], s[2])) for s in segs)


def gen_lzw_clears(rng, x):
    if rng.random() < 0.6 or not x:
        return []
    k = rng.randint(1, 4)
    return sorted({rng.choice([1, 2, 3, 252, 253, 254, 255, 764, 765, 766, rng.randint(1, max(1, len(x)))])
                   for _ in range(k)})


def gen_geometry(rng, allow_bpc1=True):
    colors = rng.choice([1, 1, 2, 3, 4])
    columns = rng.choice([1, 2, 3, 5, 8, 9, 17, rng.randint(1, 40)])
    bpc = 1 if (allow_bpc1 and rng.random() < 0.25) else 8
    return colors, columns, bpc


def gen_rows_payload(rng, nbytes: int, maxlen: int) -> bytes:
    if nbytes == 0:
        return b""
    nrows = rng.choice([1, 1, 2, 3, 4, rng.randint(1, max(1, min(40, maxlen // nbytes)))])
    x = gen_payload(rng, nrows * nbytes, nrows * nbytes)
    x = (x + bytes(nrows * nbytes))[:nrows * nbytes]
    return x


# ----------------------------------------------------------------------------- implementation adapters

def impl_call(f, *a):
    try:
        return "B " + hx(f(*a))
    except Exception as e:  # noqa: BLE001
        return "E " + type(e).__name__


def impl_decoders():
    from pdfminer.ascii85 import ascii85decode, asciihexdecode
    from pdfminer.lzw import lzwdecode
    from pdfminer.runlength import rldecode
    from pdfminer.utils import apply_png_predictor, apply_tiff_predictor
    return {"ahx": asciihexdecode, "a85": ascii85decode, "lzw": lzwdecode, "rl": rldecode,
            "png": apply_png_predictor, "tiff": apply_tiff_predictor}


class Batch:
    """Collects (request line, implementation reply, description) for one driver round."""

    def __init__(self, ctx):
        self.ctx = ctx
        self.lines: List[str] = []
        self.impl: List[str] = []
        self.info: List[Any] = []
        self.kind: List[str] = []      # 'tie' (model vs impl) or 'enc' (python encoder vs lean encoder)

    def add(self, line, impl, info, kind="tie"):
        self.lines.append(line)
        self.impl.append(impl)
        self.info.append(info)
        self.kind.append(kind)

    def flush(self):
        ctx = self.ctx
        if ctx.driver is None or not self.lines:
            return
        outs = ctx.driver.ask(self.lines)
        for line, i_out, m_out, info, kind in zip(self.lines, self.impl, outs, self.info, self.kind):
            if i_out != m_out:
                short = line if len(line) < 600 else line[:600] + "..."
                ctx.disagree(("encoder-twin " if kind == "enc" else "") + line.split(" ", 2)[0] + " " +
                             line.split(" ", 2)[1], {"line": short, "info": info},
                             i_out[:300], m_out[:300])
        self.lines, self.impl, self.info, self.kind = [], [], [], []


# ----------------------------------------------------------------------------- direct round trips

def shrink_bytes(x: bytes, still) -> bytes:
    if len(x) <= 1:
        return x
    try:
        lst = C.ddmin(list(x), lambda sub: still(bytes(sub)), max_tests=150)
        return bytes(lst)
    except Exception:  # noqa: BLE001
        return x


def check_direct(ctx, batch: Batch, filt: str, x: bytes, choice: Any, from_replay=False) -> None:
    """Encode x with the reference encoder for `filt`, decode with pdfminer, compare; queue the
    encoder-twin and model/implementation lines."""
    D = impl_decoders()

    def enc_and_lines(x, choice):
        if filt == "ahx":
            cs, tail = choice
            enc = E.ahx_enc(x, cs, tail)
            return enc, f"enc ahx {tail} {ints(cs)} {hx(x)}", f"dec ahx {hx(enc)}", (enc,)
        if filt == "a85":
            cs, pre, post = choice
            enc = E.a85_enc(x, cs, tuple(pre), tuple(post))
            return (enc, "enc a85 %s %s %s %s" % (".".join(map(str, pre)), ".".join(map(str, post)), ints(cs), hx(x)),
                    f"dec a85 {hx(enc)}", (enc,))
        if filt == "rl":
            segs, eod = choice
            enc = E.rl_enc(segs, eod)
            return enc, f"enc rl {int(eod)} {seg_str(segs)}", f"dec rl {hx(enc)}", (enc,)
        if filt == "lzw":
            clears = choice
            enc = E.lzw_enc(x, frozenset(clears))
            return enc, f"enc lzw {ints(clears)} {hx(x)}", f"dec lzw {hx(enc)}", (enc,)
        if filt == "png":
            colors, columns, bpc, fts = choice
            enc = E.png_enc(colors, columns, bpc, fts, x)
            return (enc, f"enc png {colors} {columns} {bpc} {ints(fts)} {hx(x)}",
                    f"dec png {colors} {columns} {bpc} {hx(enc)}", (15, colors, columns, bpc, enc))
        if filt == "tiff":
            colors, columns = choice
            enc = E.tiff_enc(colors, columns, x)
            return (enc, f"enc tiff {colors} {columns} {hx(x)}", f"dec tiff {colors} {columns} 8 {hx(enc)}",
                    (colors, columns, 8, enc))
        raise ValueError(filt)

    enc, enc_line, dec_line, args = enc_and_lines(x, choice)
    got = impl_call(D[filt], *args)
    exp = "B " + hx(x)
    if filt == "rl":
        batch.add(enc_line, "B " + hx(enc) + " " + hx(E.rl_flat(choice[0])), None, "enc")
    else:
        batch.add(enc_line, "B " + hx(enc), None, "enc")
    batch.add(dec_line, got, {"filter": filt, "choice": repr(choice)[:200], "payload": hx(x)[:200]})
    tags = {"filter": filt}
    if filt == "png":
        tags.update({"colors": choice[0], "columns": choice[1], "bpc": choice[2],
                     "first_ft": choice[3][0] if choice[3] else None})
    ctx.case(("direct", filt, repr(choice), x), len(x) > 0,
             sample={"op": "roundtrip " + filt, "choice": repr(choice)[:120], "payload": hx(x)[:80]},
             branch="rt:" + filt)
    if filt == "png":
        for ft in set(choice[3]):
            ctx.branch(f"png:ft{ft}")
        if choice[3]:
            ctx.branch(f"png:first-ft{choice[3][0]}:colors{min(choice[0], 2)}:bpc{choice[2]}")
    if got != exp:
        small_x, small_choice = x, choice
        if not from_replay and filt in ("ahx", "a85", "lzw"):
            def still(sub):
                e2, _, _, a2 = enc_and_lines(sub, choice)
                return impl_call(D[filt], *a2) != "B " + hx(sub)
            small_x = shrink_bytes(x, still)
        elif not from_replay and filt == "png":
            colors, columns, bpc, fts = choice
            nb, _ = E.png_geometry(colors, columns, bpc)
            # try single rows / fewer rows
            best = (x, fts)
            for r in range(len(fts)):
                for cand in ((x[:nb * (r + 1)], fts[:r + 1]), (x[nb * r:nb * (r + 1)], fts[r:r + 1])):
                    e2 = E.png_enc(colors, columns, bpc, cand[1], cand[0])
                    if impl_call(D["png"], 15, colors, columns, bpc, e2) != "B " + hx(cand[0]) and \
                            len(cand[0]) < len(best[0]):
                        best = cand
            small_x, small_choice = best[0], (colors, columns, bpc, list(best[1]))
            tags["first_ft"] = small_choice[3][0] if small_choice[3] else None
        elif not from_replay and filt == "rl":
            segs, eod = choice

            def still_segs(sub):
                return impl_call(D["rl"], E.rl_enc(sub, eod)) != "B " + hx(E.rl_flat(sub))
            try:
                segs2 = C.ddmin(list(segs), still_segs, max_tests=200)
                if still_segs(segs2):
                    small_x, small_choice = E.rl_flat(segs2), (segs2, eod)
            except Exception:  # noqa: BLE001
                pass
        elif not from_replay and filt == "tiff":
            colors, columns = choice
            nb = colors * columns
            for r in range(len(x) // nb):
                cand = x[nb * r:nb * (r + 1)]
                if impl_call(D["tiff"], colors, columns, 8, E.tiff_enc(colors, columns, cand)) != "B " + hx(cand):
                    small_x = cand
                    break
        e2, _, _, a2 = enc_and_lines(small_x, small_choice)
        got2 = impl_call(D[filt], *a2)
        ctx.fail(C.Failure(f"{filt}: decode(encode(x)) != x on the implementation",
                           {"kind": "direct", "filter": filt, "payload": hx(small_x), "choice": choice_json(filt, small_choice)},
                           "B " + hx(small_x)[:400], got2[:400], tags))


def choice_json(filt, choice):
    if filt == "rl":
        return {"segs": seg_str(choice[0]), "eod": bool(choice[1])}
    return json.loads(json.dumps(choice))


def choice_from_json(filt, j):
    if filt == "rl":
        segs = []
        if j["segs"] != "-":
            for s in j["segs"].split(","):
                if s[0] == "L":
                    segs.append(("L", bytes.fromhex(s[1:])))
                else:
                    n, b = s[1:].split(".")
                    segs.append(("R", int(n), int(b, 16)))
        return segs, j["eod"]
    if filt == "ahx":
        return list(j[0]), j[1]
    if filt == "a85":
        return list(j[0]), tuple(j[1]), tuple(j[2])
    if filt == "lzw":
        return list(j)
    if filt == "png":
        return j[0], j[1], j[2], list(j[3])
    if filt == "tiff":
        return j[0], j[1]
    raise ValueError(filt)


def gen_direct_case(rng, filt: str, maxlen: int):
    if filt == "ahx":
        x = gen_payload(rng, min(maxlen, 600))
        return x, gen_ahx_choice(rng, x)
    if filt == "a85":
        x = gen_payload(rng, min(maxlen, 800))
        return x, gen_a85_choice(rng, x)
    if filt == "rl":
        x = gen_payload(rng, min(maxlen, 1500))
        return x, gen_rl_segs(rng, x)
    if filt == "lzw":
        x = gen_payload(rng, maxlen)
        return x, gen_lzw_clears(rng, x)
    if filt == "png":
        colors, columns, bpc = gen_geometry(rng)
        nb, _ = E.png_geometry(colors, columns, bpc)
        x = gen_rows_payload(rng, nb, min(maxlen, 1200))
        nrows = len(x) // nb
        fts = [rng.randrange(5) for _ in range(nrows)]
        return x, (colors, columns, bpc, fts)
    if filt == "tiff":
        colors, columns, _ = gen_geometry(rng, False)
        x = gen_rows_payload(rng, colors * columns, min(maxlen, 1200))
        return x, (colors, columns)
    raise ValueError(filt)


def run_direct(ctx) -> None:
    rng = ctx.rng
    batch = Batch(ctx)
    maxlen = 2500 if ctx.tier == "quick" else 12000
    n = ctx.n(300, 4000)
    for filt in ("ahx", "a85", "rl", "lzw", "png", "tiff"):
        for i in range(n):
            if not ctx.time_left():
                break
            x, choice = gen_direct_case(rng, filt, maxlen)
            check_direct(ctx, batch, filt, x, choice)
        batch.flush()
    # PNG: every filter type on the first row x colors 1..4 x bpc {1, 8} x a few column counts, exhaustively;
    # and all 5^r assignments for r <= 3 rows on a small geometry
    for bpc in (8, 1):
        for colors in (1, 2, 3, 4):
            for columns in (1, 2, 5, 9, 17):
                nb, _ = E.png_geometry(colors, columns, bpc)
                for ft0 in range(5):
                    for ft1 in (rng.randrange(5), 4 - ft0):
                        x = bytes(rng.randrange(256) for _ in range(2 * nb))
                        check_direct(ctx, batch, "png", x, (colors, columns, bpc, [ft0, ft1]))
    batch.flush()
    rows_max = 3 if ctx.tier == "quick" else 4
    for (colors, columns, bpc) in ((2, 3, 8), (3, 5, 1)):
        nb, _ = E.png_geometry(colors, columns, bpc)
        for r in range(1, rows_max + 1):
            for code in range(5 ** r):
                fts = [(code // 5 ** k) % 5 for k in range(r)]
                x = bytes(rng.randrange(256) for _ in range(r * nb))
                check_direct(ctx, batch, "png", x, (colors, columns, bpc, fts))
    batch.flush()
    # LZW: long payloads that cross every width change and the forced reset
    big = [bytes(rng.randrange(256) for _ in range(9000)),
           bytes(rng.randrange(3) for _ in range(9000 if ctx.tier == "quick" else 60000)),
           bytes(rng.randrange(256) for _ in range(1100)),
           b"a" * 5000]
    if ctx.tier != "quick":
        big.append(bytes(rng.randrange(256) for _ in range(30000)))
    for x in big:
        for clears in ([], [253], [254, 766], [1790, 1791]):
            check_direct(ctx, batch, "lzw", x, clears)
            ctx.branch("lzw:long")
        batch.flush()


# ----------------------------------------------------------------------------- wild inputs (tie only)

def corrupt(rng, data: bytes) -> bytes:
    if not data:
        return bytes(rng.randrange(256) for _ in range(rng.randint(0, 6)))
    k = rng.random()
    b = bytearray(data)
    if k < 0.3:
        return bytes(b[:rng.randint(0, len(b))])
    if k < 0.6:
        for _ in range(rng.randint(1, 3)):
            b[rng.randrange(len(b))] = rng.choice([0, 62, 126, 128, 255, 122, 117, 118, 32, 60, rng.randrange(256)])
        return bytes(b)
    if k < 0.75:
        p = rng.randint(0, len(b))
        return bytes(b[:p]) + bytes(rng.choice([62, 126, 122, 32, 10, 128, rng.randrange(256)])
                                    for _ in range(rng.randint(1, 4))) + bytes(b[p:])
    if k < 0.85:
        return bytes(b) + bytes(rng.randrange(256) for _ in range(rng.randint(1, 20)))
    return bytes(rng.randrange(256) for _ in range(rng.randint(0, 40)))


def run_wild(ctx) -> None:
    rng = ctx.rng
    D = impl_decoders()
    batch = Batch(ctx)
    n = ctx.n(500, 6000)
    for filt in ("ahx", "a85", "rl", "lzw", "png", "tiff"):
        for i in range(n):
            x, choice = gen_direct_case(rng, filt, 300)
            if filt == "ahx":
                enc = E.ahx_enc(x, *choice)
            elif filt == "a85":
                enc = E.a85_enc(x, choice[0], choice[1], choice[2])
            elif filt == "rl":
                enc = E.rl_enc(*choice)
            elif filt == "lzw":
                enc = E.lzw_enc(x, frozenset(choice))
            elif filt == "png":
                enc = E.png_enc(choice[0], choice[1], choice[2], choice[3], x)
            else:
                enc = E.tiff_enc(choice[0], choice[1], x)
            bad = corrupt(rng, enc)
            if filt == "a85" and rng.random() < 0.3:
                # stress the strip regexes
                bad = rng.choice([b"", b" ", b"<", b"~", b"<~", b" < ~ ", b"~~", b"\n<\n~\n"]) + bad + \
                    rng.choice([b"", b"~", b">", b"~>", b" ~ > ", b"~ ~>", b"~>\n", b">~", b"~>>"])
            if filt in ("png", "tiff"):
                colors, columns = choice[0], choice[1]
                bpc = choice[2] if filt == "png" else 8
                if rng.random() < 0.1:
                    bpc = rng.choice([1, 2, 4, 8, 16])
                if rng.random() < 0.05:
                    colors = 0
                if rng.random() < 0.05:
                    columns = 0
                if filt == "png":
                    got = impl_call(D["png"], rng.choice([10, 12, 15]), colors, columns, bpc, bad)
                else:
                    got = impl_call(D["tiff"], colors, columns, bpc, bad)
                line = f"dec {filt} {colors} {columns} {bpc} {hx(bad)}"
            else:
                got = impl_call(D[filt], bad)
                line = f"dec {filt} {hx(bad)}"
            batch.add(line, got, {"wild": filt})
            ctx.case(("wild", line), True, branch="wild:" + filt + (":err:" + got[2:] if got.startswith("E") else ":ok"))
        batch.flush()
    # paeth_predictor (translated)
    from pdfminer.utils import paeth_predictor
    for i in range(ctx.n(300, 5000)):
        a, b, c = (rng.choice([0, 1, 127, 128, 255, rng.randrange(256)]) for _ in range(3))
        batch.add(f"paeth {a} {b} {c}", str(paeth_predictor(a, b, c)), None)
        ctx.case(("paeth", a, b, c), True, branch="paeth")
    # filter-name tables (translated)
    from pdfminer import pdftypes as T
    tabs = [("fl", T.LITERALS_FLATE_DECODE), ("lzw", T.LITERALS_LZW_DECODE), ("a85", T.LITERALS_ASCII85_DECODE),
            ("ahx", T.LITERALS_ASCIIHEX_DECODE), ("rl", T.LITERALS_RUNLENGTH_DECODE), ("ccf", T.LITERALS_CCITTFAX_DECODE),
            ("dct", T.LITERALS_DCT_DECODE), ("jbig2", T.LITERALS_JBIG2_DECODE), ("jpx", T.LITERALS_JPX_DECODE)]
    batch.add("names", " ".join(k + "=" + ",".join(lit.name for lit in v) for k, v in tabs), None)
    batch.flush()


# ----------------------------------------------------------------------------- chains through PDF files

class Stage:
    """One filter of a chain: kind, full/abbreviated name, encoder choice, optional predictor."""

    def __init__(self, kind, abbrev, choice, pred=None):
        self.kind, self.abbrev, self.choice, self.pred = kind, abbrev, choice, pred

    @property
    def name(self) -> str:
        return FILTER_NAMES[self.kind][1 if self.abbrev else 0]

    def to_json(self):
        return {"kind": self.kind, "abbrev": self.abbrev, "choice": choice_json(self.kind, self.choice)
                if self.kind not in ("fl", "rl") else self.choice, "pred": self.pred}

    @staticmethod
    def from_json(j):
        ch = j["choice"] if j["kind"] in ("fl", "rl") else choice_from_json(j["kind"], j["choice"])
        return Stage(j["kind"], j["abbrev"], ch, j["pred"])


def encode_stage(st: Stage, x: bytes) -> bytes:
    p = st.pred
    if p is not None:
        if p["predictor"] == 2:
            x = E.tiff_enc(p["colors"], p["columns"], x)
        elif p["predictor"] >= 10:
            x = E.png_enc(p["colors"], p["columns"], p["bpc"], p["fts"], x)
    if st.kind == "ahx":
        return E.ahx_enc(x, *st.choice)
    if st.kind == "a85":
        return E.a85_enc(x, st.choice[0], tuple(st.choice[1]), tuple(st.choice[2]))
    if st.kind == "rl":
        # the segmentation is chosen for the stage's plaintext: re-derive deterministically from the stored seed
        import random
        segs, eod = gen_rl_segs(random.Random(st.choice), x)
        return E.rl_enc(segs, eod)
    if st.kind == "lzw":
        return E.lzw_enc(x, frozenset(st.choice))
    if st.kind == "fl":
        return zlib.compress(x, st.choice)
    raise ValueError(st.kind)


def encode_chain(stages: List[Stage], x: bytes) -> bytes:
    for st in reversed(stages):
        x = encode_stage(st, x)
    return x


def parms_dict(p) -> Optional[Dict[str, Any]]:
    if p is None:
        return None
    d: Dict[str, Any] = {"Predictor": p["predictor"]}
    if p["predictor"] != 1:
        # defaults (Colors 1, Columns 1, BitsPerComponent 8) may be left out
        if p["colors"] != 1 or not p.get("omit_defaults"):
            d["Colors"] = p["colors"]
        d["Columns"] = p["columns"]
        if p["bpc"] != 8 or not p.get("omit_defaults"):
            d["BitsPerComponent"] = p["bpc"]
    return d


def build_stream_file(stages: List[Stage], data: bytes, lay: Dict[str, Any]) -> bytes:
    """PDF with the stream as object 5.  lay: eol ('\n','\r\n','\r'), tail (bytes before endstream),
    len_ref / filter_ref / parms_ref / elem_ref (bool), short_keys (F/DP), single (name instead of 1-array),
    len_before (Length object number 4 instead of 6), file_eol."""
    objs: Dict[int, Any] = {1: {"Type": "Catalog", "Pages": W.Ref(2)}, 2: {"Type": "Pages", "Kids": [], "Count": 0}}
    d: Dict[Any, Any] = {}
    lobj = 4 if lay.get("len_before") else 6
    if lay.get("len_ref"):
        d["Length"] = W.Ref(lobj)
        objs[lobj] = len(data)
    else:
        d["Length"] = len(data)
    fkey = "F" if lay.get("short_keys") else "Filter"
    pkey = "DP" if lay.get("short_keys") else "DecodeParms"
    if stages:
        names: List[Any] = [st.name for st in stages]
        parms = [parms_dict(st.pred) for st in stages]
        if lay.get("elem_ref"):
            objs[9] = names[-1]
            names[-1] = W.Ref(9)
        fval: Any = names[0] if (len(stages) == 1 and lay.get("single")) else names
        if lay.get("filter_ref"):
            objs[7] = fval
            fval = W.Ref(7)
        d[fkey] = fval
        if any(p is not None for p in parms):
            if lay.get("elem_ref"):
                for i, p in enumerate(parms):
                    if p is not None:
                        objs[10 + i] = p
                        parms[i] = W.Ref(10 + i)
            pval: Any = parms[0] if (len(stages) == 1 and lay.get("single")) else parms
            if lay.get("parms_ref"):
                objs[8] = pval
                pval = W.Ref(8)
            d[pkey] = pval
    eol = lay.get("eol", "\n").encode()
    tail = unhx(lay.get("tail", "0a"))
    objs[5] = W.Raw(W.ser(d) + lay.get("pre_stream", "\n").encode() + b"stream" + eol + data + tail + b"endstream")
    return W.build_pdf(objs, 1, eol=lay.get("file_eol", "\n").encode())


def read_stream(pdf: bytes, record=None):
    """PDFDocument.getobj(5).get_data() on the implementation.  `record` collects Flate inputs."""
    from pdfminer.pdfdocument import PDFDocument
    from pdfminer.pdfparser import PDFParser
    from pdfminer import pdftypes
    parser = PDFParser(io.BytesIO(pdf))
    doc = PDFDocument(parser)
    obj = doc.getobj(5)
    if not isinstance(obj, pdftypes.PDFStream):
        raise TypeError("object 5 is not a stream: %r" % (obj,))
    raw = obj.get_rawdata()
    if record is None:
        return raw, obj.get_data(), obj
    real = pdftypes.zlib

    class ZProxy:
        error = real.error

        @staticmethod
        def decompress(d, *a):
            record.append(bytes(d))
            return real.decompress(d, *a)

        @staticmethod
        def decompressobj(*a):
            return real.decompressobj(*a)

    pdftypes.zlib = ZProxy  # type: ignore[assignment]
    try:
        return raw, obj.get_data(), obj
    finally:
        pdftypes.zlib = real


def flate_total(data: bytes) -> bytes:
    """What the Flate step of PDFStream.decode yields (non-strict): zlib, else the salvage routine, else b''."""
    from pdfminer.pdftypes import decompress_corrupted
    try:
        return zlib.decompress(data)
    except zlib.error:
        try:
            return decompress_corrupted(data)
        except zlib.error:
            return b""


def fspec(stages_names: Any) -> str:
    if stages_names is None:
        return "-"
    if isinstance(stages_names, str):
        return "N:" + stages_names.encode("latin-1").hex()
    return "L:" + ",".join(s.encode("latin-1").hex() for s in stages_names)


def dspec(p) -> str:
    if p is None:
        return "Z"

    def g(k):
        return str(p[k]) if k in p else "_"
    return "D" + ".".join([g("Predictor"), g("Colors"), g("Columns"), g("BitsPerComponent")])


def pspec(parms: Any) -> str:
    if parms is None:
        return "-"
    if isinstance(parms, list):
        return "L:" + ",".join(dspec(p) for p in parms)
    return dspec(parms)


def gen_chain(rng, maxlen: int, minlen: int = 0):
    """Random chain (0..3 stages) with a payload that fits the predictors' row lengths."""
    k = rng.choice([0, 1, 1, 2, 2, 3, 3])
    kinds = [rng.choice(["ahx", "a85", "lzw", "fl", "rl"]) for _ in range(k)]
    x = gen_payload(rng, maxlen, minlen)
    stages: List[Stage] = []
    # plaintext of stage i is known only after encoding stages i+1.., so build from the inside out
    cur = x
    for i in reversed(range(k)):
        kind = kinds[i]
        pred = None
        if kind in ("lzw", "fl") and rng.random() < 0.55:
            pk = rng.random()
            if pk < 0.1:
                pred = {"predictor": 1, "colors": 1, "columns": 1, "bpc": 8, "fts": []}
            else:
                n = len(cur)
                bpc = 1 if (pk < 0.35) else 8
                colors = rng.choice([1, 2, 3, 4])
                if pk >= 0.75:
                    bpc = 8
                if n == 0:
                    columns = rng.randint(1, 9)
                    rows = 0
                else:
                    # choose a row length that divides n
                    divs = [dd for dd in range(1, min(n, 64) + 1) if n % dd == 0]
                    nb = rng.choice(divs + [n])
                    if bpc == 8:
                        cands = [c for c in (1, 2, 3, 4) if nb % c == 0]
                        colors = rng.choice(cands)
                        columns = nb // colors
                    else:
                        # nb = ceil(colors*columns/8): pick columns in the admissible range
                        lo, hi = (nb - 1) * 8 + 1, nb * 8
                        cols = [c for c in range(lo, hi + 1) if c % colors == 0] or [hi]
                        if cols == [hi] and hi % colors:
                            colors = 1
                        columns = rng.choice(cols) // colors
                    rows = n // nb
                if pk >= 0.75:
                    pred = {"predictor": 2, "colors": colors, "columns": columns, "bpc": 8, "fts": []}
                else:
                    pred = {"predictor": rng.choice([10, 11, 12, 13, 14, 15]), "colors": colors, "columns": columns,
                            "bpc": bpc, "fts": [rng.randrange(5) for _ in range(rows)]}
                pred["omit_defaults"] = rng.random() < 0.5
        if kind == "ahx":
            choice: Any = gen_ahx_choice(rng, cur)
        elif kind == "a85":
            choice = gen_a85_choice(rng, cur)
        elif kind == "rl":
            choice = rng.randrange(1 << 30)
        elif kind == "lzw":
            choice = gen_lzw_clears(rng, cur)
        else:
            choice = rng.choice([0, 1, 6, 9])
        st = Stage(kind, rng.random() < 0.4, choice, pred)
        stages.insert(0, st)
        cur = encode_stage(st, cur)
    lay = {"eol": rng.choice(["\n", "\n", "\r\n", "\r\n", "\r"]),
           "tail": rng.choice(["0a", "0d0a", "-", "0d", "20"]),
           "len_ref": rng.random() < 0.5, "filter_ref": rng.random() < 0.35, "parms_ref": rng.random() < 0.35,
           "elem_ref": rng.random() < 0.25, "short_keys": rng.random() < 0.12, "single": rng.random() < 0.6,
           "len_before": rng.random() < 0.5, "file_eol": rng.choice(["\n", "\r\n"]),
           "pre_stream": rng.choice(["\n", "\r\n", " ", ""])}
    if lay["eol"] == "\r" and cur[:1] == b"\n":
        lay["eol"] = "\r\n"      # a lone CR followed by a payload starting with LF reads as CRLF (outside the domain)
    return stages, x, cur, lay


def check_chain(ctx, batch: Batch, stages: List[Stage], x: bytes, data: bytes, lay, from_replay=False) -> None:
    pdf = build_stream_file(stages, data, lay)
    rec: List[bytes] = []
    tags = {"filter": "chain", "kinds": [s.kind for s in stages], "eol": lay["eol"],
            "pred": [s.pred["predictor"] if s.pred else None for s in stages]}
    for s in stages:
        if s.pred and s.pred["predictor"] >= 10:
            tags.update({"png_in_chain": True, "bpc": s.pred["bpc"], "colors": s.pred["colors"],
                         "first_ft": s.pred["fts"][0] if s.pred["fts"] else None})
    try:
        raw, got, obj = read_stream(pdf, rec)
        got_s = "B " + hx(got)
        raw_s = "B " + hx(raw)
    except Exception as e:  # noqa: BLE001
        got_s = "E " + type(e).__name__
        raw_s = None
        obj = None
    key = ("chain", json.dumps([s.to_json() for s in stages], sort_keys=True), json.dumps(lay, sort_keys=True), x)
    ctx.case(key, len(x) > 0, sample={"op": "pdf-chain", "filters": [s.name for s in stages],
                                      "pred": tags["pred"], "layout": lay, "payload": hx(x)[:60]},
             branch="chain:len%d" % len(stages))
    for s in stages:
        ctx.branch("chain:" + s.name + (":pred%d" % s.pred["predictor"] if s.pred else ""))
    ctx.branch("chain:eol:" + repr(lay["eol"]))
    for kk in ("len_ref", "filter_ref", "parms_ref", "elem_ref", "short_keys"):
        if lay.get(kk):
            ctx.branch("chain:" + kk)
    fail_what = None
    if raw_s is not None and raw_s != "B " + hx(data):
        fail_what = "stream payload is not delimited exactly (rawdata != bytes written between stream and endstream)"
        exp, gotv = "B " + hx(data)[:400], raw_s[:400]
        tags["stage"] = "delimit"
    elif got_s != "B " + hx(x):
        fail_what = "PDFDocument.getobj(n).get_data() != original payload"
        exp, gotv = "B " + hx(x)[:400], got_s[:400]
        tags["stage"] = "decode"
    if fail_what:
        small = x
        if not from_replay and not any(s.pred for s in stages) and len(x) > 1:
            # shrink the payload (the encoder choices are positional, so they stay meaningful)
            def still(sub: bytes) -> bool:
                try:
                    d2 = encode_chain(stages, sub)
                    lay2 = dict(lay)
                    if lay2["eol"] == "\r" and d2[:1] == b"\n":
                        return False
                    r2, g2, _ = read_stream(build_stream_file(stages, d2, lay2))
                    return r2 != d2 or g2 != sub
                except Exception:  # noqa: BLE001
                    return True
            small = shrink_bytes(x, still)
            if small != x:
                try:
                    d2 = encode_chain(stages, small)
                    r2, g2, _ = read_stream(build_stream_file(stages, d2, lay))
                    exp = "B " + (hx(d2) if tags["stage"] == "delimit" else hx(small))[:400]
                    gotv = "B " + (hx(r2) if tags["stage"] == "delimit" else hx(g2))[:400]
                except Exception as e:  # noqa: BLE001
                    exp, gotv = "B " + hx(small)[:400], "E " + type(e).__name__
        ctx.fail(C.Failure(fail_what, {"kind": "chain", "stages": [s.to_json() for s in stages], "payload": hx(small),
                                       "layout": lay}, exp, gotv, tags))
    # tie: the stream-delimitation model on the whole file and the pipeline model on the raw data
    spos = pdf.find(b"stream" + lay["eol"].encode() + data)
    if spos >= 0 and raw_s is not None:
        batch.add(f"stream {spos} {len(data)} {hx(pdf)}", raw_s, {"op": "stream", "layout": lay})
    if obj is not None or got_s.startswith("E "):
        names = [s.name for s in stages]
        parms = [parms_dict(s.pred) for s in stages]
        fv: Any = None if not stages else (names[0] if (len(stages) == 1 and lay.get("single")) else names)
        pv: Any = None
        if stages and any(p is not None for p in parms):
            pv = parms[0] if (len(stages) == 1 and lay.get("single")) else parms
        itab = ";".join(hx(i) + "=" + hx(flate_total(i)) for i in rec) or "-"
        batch.add(f"chain {fspec(fv)} {pspec(pv)} {itab} {hx(data)}", got_s, {"op": "chain", "filters": names})


class _StubDoc:
    decipher = None

    def getobj(self, objid):
        raise KeyError(objid)


def parse_stream_at(buf: bytes, pos: int, fallback: bool = False, want_end: bool = False, doc=None):
    """Run the real PDFParser on `buf` from `pos` (start of `<< ... >> stream`); returns (dict, rawdata)
    of the first stream object the `stream` branch of do_keyword pushes; PSEOF when it pushes none."""
    from pdfminer.pdfparser import PDFParser
    from pdfminer.pdftypes import PDFStream
    from pdfminer.psexceptions import PSEOF
    captured = []
    ends: List[int] = []

    class Capture(PDFParser):
        def push(self, *objs):
            for o in objs:
                if isinstance(o, tuple) and len(o) == 2 and isinstance(o[1], PDFStream):
                    captured.append(o[1])
                    # do_keyword has just done `self.seek(pos + objlen)`: where parsing resumes
                    ends.append(self.bufpos + self.charpos)
            PDFParser.push(self, *objs)

    p = Capture(io.BytesIO(buf))
    p.set_document(doc if doc is not None else _StubDoc())  # type: ignore[arg-type]
    p.seek(pos)
    p.fallback = fallback
    try:
        p.nextobject()
    except PSEOF:
        pass
    except Exception:  # noqa: BLE001
        # what the parser does with the bytes AFTER the stream object (a damaged remainder may raise
        # PSSyntaxError etc.) is not the observable here - only the stream that was pushed is
        if not captured:
            raise
    if not captured:
        raise PSEOF("no stream object")
    if want_end:
        return captured[0].attrs, captured[0].get_rawdata(), ends[0]
    return captured[0].attrs, captured[0].get_rawdata()


ENDSTREAM = b"endstream"


def streamx_impl(buf: bytes, pos: int, fallback: bool, len_obj=None) -> str:
    try:
        doc = _ObjDoc([(len_obj[0], len_obj[1])]) if len_obj else None
        _, raw, end = parse_stream_at(buf, pos, fallback=fallback, want_end=True, doc=doc)
        return "B " + hx(raw) + " " + str(end)
    except Exception as e:  # noqa: BLE001
        return "E " + type(e).__name__


def check_streamx(ctx, batch, inp, from_replay: bool = False) -> None:
    """The whole `stream` branch: (tie) `streamRead` == do_keyword for fallback / non-fallback, any Length
    (negative, huge, missing) -- rawdata and the position the parser resumes at; (prop) on inputs of the
    domain of `stream_scan_delim` / `stream_read_exact` the implementation itself must return the payload
    and resume exactly at `endstream`."""
    head, dic, eol, payload, tail, post = (unhx(inp[k]) for k in ("head", "dic", "eol", "payload", "tail", "post"))
    fb = bool(inp["fallback"])
    buf = head + dic + b"stream" + eol + payload + tail + post
    if inp.get("cut") is not None:
        buf = buf[:inp["cut"]]
    spos = len(head) + len(dic)
    got = streamx_impl(buf, len(head), fb, inp.get("len_obj"))
    ln = inp["length"]
    batch.add(f"streamx {1 if fb else 0} {spos} {'none' if ln is None else ln} {hx(buf)}", got,
              {"op": "streamx", "input": inp})
    kind = got[2:] if got.startswith("E") else "ok"
    ctx.case(("streamx", buf, fb, ln), True, sample={"op": "streamx", "fallback": fb, "length": ln, "buf": hx(buf)[:80]},
             branch="streamx:%s:%s:%s" % ("fallback" if fb else "length",
                                          "nolen" if ln is None else (("neg" if ln < 0 else "int") +
                                                                      ("-indirect" if inp.get("len_obj") else "")), kind))
    if not inp.get("domain"):
        return
    # property on the implementation.  domain: tail ends the data, `endstream` follows, a line end follows it
    body = payload + tail
    where = len(head) + len(dic) + 6 + len(eol) + len(body)
    if fb:
        exp = "B " + hx(body) + " " + str(where)          # data = everything up to the marker
    else:
        exp = "B " + hx(payload) + " " + str(where)       # data = Length bytes, parser resumes at the marker
    ctx.branch("streamx:domain:" + ("fallback" if fb else "length"))
    if got != exp and not from_replay and len(payload) > 1:
        # shrink the payload (Length follows it when it was the payload length)
        def variant(sub: bytes):
            inp2 = dict(inp)
            inp2["payload"] = hx(sub)
            if inp["length"] == len(payload):
                inp2["length"] = len(sub)
                if inp.get("len_obj"):
                    inp2["len_obj"] = [inp["len_obj"][0], len(sub)]
                else:
                    inp2["dic"] = hx(b"<</Length %d>>" % len(sub) + dic[dic.rfind(b">>") + 2:])
            return inp2

        def outcome(inp2):
            h2, d2, e2, p2, t2, q2 = (unhx(inp2[k]) for k in ("head", "dic", "eol", "payload", "tail", "post"))
            if fb and ENDSTREAM in p2 + t2:
                return None
            if e2 == b"\r" and p2[:1] == b"\n":
                return None
            buf2 = h2 + d2 + b"stream" + e2 + p2 + t2 + q2
            w2 = len(h2) + len(d2) + 6 + len(e2) + len(p2 + t2)
            exp2 = "B " + hx(p2 + t2 if fb else p2) + " " + str(w2)
            return streamx_impl(buf2, len(h2), fb, inp2.get("len_obj")), exp2

        def still(sub: bytes) -> bool:
            r = outcome(variant(sub))
            return r is not None and r[0] != r[1]
        small = shrink_bytes(payload, still)
        r = outcome(variant(small))
        if small != payload and r is not None and r[0] != r[1]:
            inp = variant(small)
            got, exp = r
    if got != exp:
        ctx.fail(C.Failure("stream branch: rawdata / resume position wrong (%s mode)" % ("fallback" if fb else "Length"),
                           {"kind": "streamx", **inp}, exp[:400], got[:400],
                           {"stage": "delimit", "mode": "fallback" if fb else "length"}))


class _ObjDoc:
    """Stub document for `PDFObjRef.resolve`: `objs` maps id -> object; a missing id raises PDFObjectNotFound."""
    decipher = None

    def __init__(self, objs):
        self.objs = objs

    def getobj(self, objid):
        from pdfminer.pdfexceptions import PDFObjectNotFound
        for k, v in self.objs:
            if k == objid:
                return v
        raise PDFObjectNotFound(objid)


def check_lenval(ctx, batch, objs, v) -> None:
    """(tie) `lengthValue` == `int_value(dic["Length"])` (pdftypes.int_value / resolve1 / PDFObjRef.resolve) for
    direct, indirect (chains, cycles, missing objects, non-integers, duplicate ids) and missing Length."""
    from pdfminer.pdftypes import PDFObjRef, int_value
    from pdfminer.psparser import LIT
    doc = _ObjDoc([])

    def py(o):
        if o[0] == "i":
            return o[1]
        if o[0] == "r":
            return PDFObjRef(doc, o[1])  # type: ignore[arg-type]
        return o[1]
    doc.objs = [(k, py(o)) for k, o in objs]
    dic = {} if v is None else {"Length": py(v)}
    try:
        got = str(int_value(dic["Length"]))
    except KeyError:
        got = "none"
    except Exception as e:  # noqa: BLE001
        got = "E " + type(e).__name__

    def sp(o):
        return "i%d" % o[1] if o[0] == "i" else ("r%d" % o[1] if o[0] == "r" else "o")
    line = "lenval " + (",".join("%d:%s" % (k, sp(o)) for k, o in objs) or "-") + " " + ("none" if v is None else sp(v))
    batch.add(line, got, {"op": "lenval"})
    kind = "none" if v is None else v[0]
    ctx.case(("lenval", line), True, sample={"op": "lenval", "line": line[:80]},
             branch="lenval:%s:%s" % (kind, "zero" if got == "0" else ("none" if got == "none" else "int")))


def gen_lenval(rng):
    from pdfminer.psparser import LIT
    others = [None, 1.5, b"7", LIT("N"), [3], {"a": 1}]

    def obj(ids):
        k = rng.random()
        if k < 0.4:
            return ("i", rng.choice([0, 1, 5, 300, -4, 10 ** 6, 2 ** 70]))
        if k < 0.85:
            return ("r", rng.choice(ids + [rng.randint(1, 12)]))
        return ("o", rng.choice(others))
    ids = [rng.randint(1, 9) for _ in range(rng.randint(0, 6))]
    objs = [(i, obj(ids)) for i in ids]
    v = None if rng.random() < 0.08 else obj(ids or [3])
    return objs, v


def check_getfilters(ctx, batch, fattrs, pattrs) -> None:
    """(tie) `streamFilters` == `PDFStream.get_filters()` on stream dictionaries with any subset of the keys
    F / Filter / DP / DecodeParms / FDecodeParms (+ unrelated keys): which key wins, name vs array, dict vs array."""
    from pdfminer.pdftypes import PDFStream
    from pdfminer.psparser import LIT, literal_name

    def fval(v):
        return LIT(v) if isinstance(v, str) else [LIT(x) for x in v]

    def pval(v):
        return v
    attrs: Dict[str, Any] = {}
    for k, v in fattrs:
        attrs[k] = fval(v)
    for k, v in pattrs:
        attrs[k] = pval(v)
    try:
        r = PDFStream(attrs, b"").get_filters()
        got = ",".join(hx(literal_name(f).encode("latin-1")) + "/" + (dspec(pp) if pp else "Z") for f, pp in r) or "[]"
    except Exception as e:  # noqa: BLE001
        got = "E " + type(e).__name__
    fa = ";".join(k.encode().hex() + "=" + fspec(v) for k, v in fattrs) or "-"
    pa = ";".join(k.encode().hex() + "=" + pspec(v) for k, v in pattrs) or "-"
    line = f"getfilters {fa} {pa}"
    batch.add(line, got, {"op": "getfilters"})
    ctx.case(("getfilters", line), True, sample={"op": "getfilters", "line": line[:100]},
             branch="getfilters:f=%s:p=%s" % ("+".join(sorted(k for k, _ in fattrs)) or "none",
                                               "+".join(sorted(k for k, _ in pattrs)) or "none"))


def gen_getfilters(rng):
    names = ["FlateDecode", "Fl", "AHx", "LZW", "N1", "N2"]

    def fv():
        return rng.choice(names) if rng.random() < 0.4 else [rng.choice(names) for _ in range(rng.randint(1, 3))]

    def dct():
        d = {}
        for k, vals in (("Predictor", [1, 2, 12]), ("Colors", [1, 3]), ("Columns", [1, 5]), ("BitsPerComponent", [8, 1])):
            if rng.random() < 0.5:
                d[k] = rng.choice(vals)
        return d or {"Predictor": 1}

    def pv():
        return dct() if rng.random() < 0.4 else [rng.choice([dct(), dct(), None]) for _ in range(rng.randint(1, 3))]
    fkeys = [k for k in ("Filter", "F") if rng.random() < 0.55]
    pkeys = [k for k in ("FDecodeParms", "DecodeParms", "DP") if rng.random() < 0.45]
    rng.shuffle(fkeys)
    rng.shuffle(pkeys)
    return [(k, fv()) for k in fkeys], [(k, pv()) for k in pkeys]


def gen_streamx(rng, domain: bool):
    payload = gen_payload(rng, 60)
    if domain or rng.random() < 0.5:
        # keep the marker out of the scanned part (domain of the theorems)
        payload_scan_free = True
    else:
        payload_scan_free = False
    fb = rng.random() < 0.5
    eol = rng.choice([b"\n", b"\r\n"]) if domain else rng.choice([b"\n", b"\r\n", b"\r", b" \n", b"\r\r", b"\n\n"])
    if eol == b"\r" and payload[:1] == b"\n":
        eol = b"\r\n"
    tail = rng.choice([b"\n", b"\r\n", b"", b"\r", b" ", b"\n\n", b"ends", b"\rendstrea\n"])
    post = rng.choice([b"\nendobj\n", b"\r\nendobj\r\n", b" endobj\n", b"\n", b"\rX"])
    head = b"5 0 obj\n"
    if domain:
        ln: Any = len(payload) if not fb else rng.choice([len(payload), 0, 3, None, -1, 10 ** 6])
        if fb:
            # in fallback mode everything before the marker is scanned: it must not contain the marker
            while ENDSTREAM in payload + tail:
                i = (payload + tail).find(ENDSTREAM)
                payload = (payload[:i] + b"e-" + payload[i + 2:]) if i + 2 <= len(payload) else payload[:i]
        post = ENDSTREAM + post
    else:
        ln = rng.choice([len(payload), 0, None, -1, -rng.randint(2, 50), len(payload) + rng.randint(1, 30),
                         max(0, len(payload) - rng.randint(1, 5)), 10 ** 6, 2 ** 70])
        post = rng.choice([ENDSTREAM + post, ENDSTREAM + post, b"endstrea", b"", b"\n", ENDSTREAM, b"xendstream endstream\n"])
    len_obj = None
    if ln is not None and rng.random() < 0.3:
        len_obj = [rng.randint(6, 40), ln]          # `/Length n 0 R`, object n holds the integer
    dic = (b"<<>>" if ln is None else (b"<</Length %d 0 R>>" % len_obj[0] if len_obj else b"<</Length %d>>" % ln)) \
        + rng.choice([b"\n", b" ", b"", b"\r\n"])
    inp = {"len_obj": len_obj, "head": hx(head), "dic": hx(dic), "eol": hx(eol), "payload": hx(payload), "tail": hx(tail), "post": hx(post),
           "fallback": fb, "length": ln, "cut": None, "domain": domain}
    if not domain and rng.random() < 0.12:
        total = len(head) + len(dic) + 6 + len(eol) + len(payload) + len(tail) + len(post)
        inp["cut"] = rng.randint(len(head) + len(dic) + 6, total)
    return inp


def run_chains(ctx) -> None:
    rng = ctx.rng
    batch = Batch(ctx)
    n = ctx.n(1200, 12000)
    maxlen = 700 if ctx.tier == "quick" else 4000
    for i in range(n):
        if not ctx.time_left():
            break
        if i % 12 == 5:
            # long payloads through the whole document path (several parser buffers, LZW width changes)
            stages, x, data, lay = gen_chain(rng, 9000, 3000)
            ctx.branch("chain:long")
        else:
            stages, x, data, lay = gen_chain(rng, maxlen)
        check_chain(ctx, batch, stages, x, data, lay)
        if len(batch.lines) > 400:
            batch.flush()
    batch.flush()
    # wild pipeline inputs (tie only): mismatching params lists, unknown / pass-through filters, odd predictors
    D_names = ["ASCIIHexDecode", "AHx", "ASCII85Decode", "A85", "LZWDecode", "LZW", "FlateDecode", "Fl",
               "RunLengthDecode", "RL", "DCTDecode", "DCT", "JPXDecode", "JBIG2Decode", "Crypt", "Foo", "CCF"]
    from pdfminer.pdftypes import PDFStream
    from pdfminer.psparser import LIT
    for i in range(ctx.n(600, 8000)):
        k = rng.choice([0, 1, 1, 2, 3])
        names = [rng.choice(D_names[:10] if rng.random() < 0.8 else D_names) for _ in range(k)]
        if "CCF" in names:
            names = [nm for nm in names if nm != "CCF"]
        fv: Any = names
        if len(names) == 1 and rng.random() < 0.5:
            fv = names[0]
        if rng.random() < 0.05:
            fv = None
        mk = rng.random()

        def rdict():
            if rng.random() < 0.2:
                return None
            d = {}
            if rng.random() < 0.8:
                d["Predictor"] = rng.choice([1, 2, 10, 12, 15, 3, 0, 9])
            if rng.random() < 0.6:
                d["Colors"] = rng.choice([1, 2, 3])
            if rng.random() < 0.7:
                d["Columns"] = rng.choice([1, 2, 3, 5])
            if rng.random() < 0.4:
                d["BitsPerComponent"] = rng.choice([8, 8, 1, 4])
            return d
        if mk < 0.3:
            pv: Any = None
        elif mk < 0.6:
            pv = rdict()
        else:
            pv = [rdict() for _ in range(rng.choice([len(names), len(names), rng.randint(0, 3)]))]
        x = gen_payload(rng, 60)
        # make the data plausible for the first filter
        data = x
        if names:
            first = names[0]
            try:
                if first in ("ASCIIHexDecode", "AHx"):
                    data = E.ahx_enc(x, [], 0)
                elif first in ("ASCII85Decode", "A85"):
                    data = E.a85_enc(x, [])
                elif first in ("LZWDecode", "LZW"):
                    data = E.lzw_enc(x)
                elif first in ("FlateDecode", "Fl"):
                    data = zlib.compress(x)
                elif first in ("RunLengthDecode", "RL"):
                    data = E.rl_enc(gen_rl_segs(rng, x)[0], True)
            except Exception:  # noqa: BLE001
                pass
        if rng.random() < 0.15:
            data = corrupt(rng, data)
        attrs: Dict[str, Any] = {}
        if fv is not None:
            attrs["Filter"] = LIT(fv) if isinstance(fv, str) else [LIT(nm) for nm in fv]
        if pv is not None:
            attrs["DecodeParms"] = pv
        rec: List[bytes] = []
        from pdfminer import pdftypes
        real = pdftypes.zlib

        class ZProxy:
            error = real.error

            @staticmethod
            def decompress(d, *a):
                rec.append(bytes(d))
                return real.decompress(d, *a)

            @staticmethod
            def decompressobj(*a):
                return real.decompressobj(*a)
        pdftypes.zlib = ZProxy  # type: ignore[assignment]
        raw_got = None
        try:
            got = impl_call(lambda: PDFStream(attrs, data).get_data())
            if hasattr(PDFStream, "_decode"):
                # the loop itself, below decode()'s handler for decoder-internal errors: keeps the error
                # class of each decoder in the tie (skipped when the code has no such method)
                def raw_decode():
                    st = PDFStream(dict(attrs), data)
                    st._decode()
                    return st.data
                raw_got = impl_call(raw_decode)
        finally:
            pdftypes.zlib = real
        itab = ";".join(hx(i) + "=" + hx(flate_total(i)) for i in dict.fromkeys(rec)) or "-"
        batch.add(f"chain {fspec(fv)} {pspec(pv)} {itab} {hx(data)}", got, {"op": "chain-wild"})
        if raw_got is not None:
            batch.add(f"chainraw {fspec(fv)} {pspec(pv)} {itab} {hx(data)}", raw_got, {"op": "chainraw-wild"})
        kind = got[2:] if got.startswith("E") else "ok"
        if raw_got is not None and raw_got.startswith("E") and not got.startswith("E"):
            kind = "handled:" + raw_got[2:]
        ctx.case(("chainwild", fspec(fv), pspec(pv), data), True, branch="chainwild:" + kind)
    batch.flush()
    # wild stream delimitation (tie only): wrong Length, odd EOLs, missing endstream, EOF
    for i in range(ctx.n(600, 8000)):
        payload = gen_payload(rng, 40)
        ln = rng.choice([len(payload), len(payload), 0, len(payload) + rng.randint(1, 30), max(0, len(payload) - 1)])
        eol = rng.choice([b"\n", b"\r\n", b"\r", b"", b" \n", b"\r\r", b"\n\n", b" "])
        if eol in (b"", b" ") and payload[:1] not in (b"\r", b"\n"):
            # `stream` must be a complete keyword token and the line must end inside the file
            eol = b" \r\n" if eol == b" " else b"\n"
        tail = rng.choice([b"\nendstream\nendobj\n", b"endstream endobj", b"\r\nendstream\r\n", b"", b"\n", b"endstrea"])
        head = b"5 0 obj\n"
        dic = b"<</Length %d>>" % ln + rng.choice([b"\n", b" ", b"", b"\r\n"])
        buf = head + dic + b"stream" + eol + payload + tail
        if rng.random() < 0.1:
            buf = buf[:rng.randint(len(head) + len(dic) + 6, len(buf))]
        spos = len(head) + len(dic)
        try:
            got = "B " + hx(parse_stream_at(buf, len(head))[1])
        except Exception as e:  # noqa: BLE001
            # no stream object is produced (do_keyword returns on PSEOF; the caller then runs out of input)
            got = "E " + type(e).__name__
        batch.add(f"stream {spos} {ln} {hx(buf)}", got, {"op": "stream-wild"})
        ctx.case(("streamwild", buf, ln), True, branch="streamwild:" + (got[2:] if got.startswith("E") else "ok"))
    batch.flush()
    # round 6: which dictionary keys get_filters reads (F / Filter, DP / DecodeParms / FDecodeParms)
    for i in range(ctx.n(300, 4000)):
        check_getfilters(ctx, batch, *gen_getfilters(rng))
    batch.flush()
    # round 6: int_value(dic["Length"]) - direct / indirect / missing
    for i in range(ctx.n(400, 5000)):
        check_lenval(ctx, batch, *gen_lenval(rng))
    batch.flush()
    # round 6: the whole stream branch (fallback mode, Length clamp, endstream scan, resume position)
    for i in range(ctx.n(700, 9000)):
        check_streamx(ctx, batch, gen_streamx(rng, domain=(i % 3 == 0)))
    batch.flush()


# ----------------------------------------------------------------------------- corpus / replay / run

def replay(ctx: C.Ctx, doc, from_corpus: bool = False) -> None:
    inp = doc.get("input", {})
    batch = Batch(ctx)
    if inp.get("kind") == "direct":
        filt = inp["filter"]
        check_direct(ctx, batch, filt, unhx(inp["payload"]), choice_from_json(filt, inp["choice"]), from_replay=True)
    elif inp.get("kind") == "chain":
        stages = [Stage.from_json(j) for j in inp["stages"]]
        x = unhx(inp["payload"])
        check_chain(ctx, batch, stages, x, encode_chain(stages, x), inp["layout"], from_replay=True)
    elif inp.get("kind") == "streamx":
        check_streamx(ctx, batch, inp, from_replay=True)
    ctx.branch("corpus" if from_corpus else "replay")
    batch.flush()


def run_corpus(ctx: C.Ctx) -> None:
    for path in sorted(glob.glob(os.path.join(C.VERIF, "corpus", "C03", "*.json"))):
        with open(path) as fp:
            doc = json.load(fp)
        replay(ctx, doc, from_corpus=True)


def run(ctx: C.Ctx) -> None:
    import logging
    logging.getLogger("pdfminer").setLevel(logging.CRITICAL)
    run_corpus(ctx)
    run_direct(ctx)
    run_chains(ctx)
    run_wild(ctx)
