"""C09 - layout grouping follows the documented margins; the result is scale-invariant.

Relations exercised on every run:
  (tie)   regenerated predicates / Lean layout model (drv_c09)  ==  implementation
          - predicate by predicate on threshold inputs (halign, valign, word space, neighbour),
          - whole trees at every scale 2^k (same correspondence as C08);
  (prop)  the implementation itself, on inputs whose gaps sit on / just below / just above each
          threshold (exact binary coordinates, dyadic LAParams):
          - two consecutive glyphs share a line  <=>  documented join predicate (Spec.joinH/joinV),
          - a space annotation is inserted       <=>  documented word-space predicate,
          - find_neighbors returns a line        <=>  documented neighbour predicate, and two
            single lines share a box <=> neighbours in one of the two directions,
          - the boxes of one column come out top to bottom, a left column before a right one,
          - the tree obtained after multiplying every coordinate by 2^k, k in [-6, 6], is the scaled tree;
  (proof) lean/PdfVerif/Props/C09.lean: predicate = documented predicate for ALL rationals, strictness
          included; every predicate is homogeneous; group_objects commutes with scaling.
"""

from __future__ import annotations

import glob
import json
import os
from fractions import Fraction as F
from typing import Any, Dict, List, Optional, Tuple

from harness import common as C
from harness import layout_lib as L
from harness.props import c08 as C8

LEVEL = "proof"
RULE = ("glyph pairs / line pairs placed so that the vertical overlap, the horizontal gap, the word gap, the line "
        "pitch, the height difference and the three alignments sit exactly on, 1/64 below and 1/64 above the "
        "threshold implied by dyadic LAParams (incl. 0, 1, negative), nested and zero-size boxes included; column "
        "arrangements (one column, two columns of equal extent, distinct gaps); generated text-like pages re-run at "
        "every scale 2^k, k in [-6,6]. A case is non-trivial when it is a distinct input that reaches the predicate "
        "under test (both glyphs analysed) resp. produces >= 1 text box")
TRUSTED_BASE = [
    "executable specification lean/PdfVerif/Spec/Layout.lean of the documented predicates "
    "(docs/source/topic/converting_pdf_to_text.rst, LAParams and find_neighbors docstrings)",
    "regenerated predicates lean/PdfVerif/Gen/Layout.lean (tools/translate/gen_c08.py) - each is also run against "
    "the Python original on threshold inputs",
    "hand model lean/PdfVerif/Model/Layout.lean and lean/PdfVerif/Model/Plane.lean (tree correspondence at every scale)",
    "exact rationals stand for Python floats; thresholds are only generated for dyadic parameters",
    "tie-break of group_textboxes = creation numbers (fix 0d18780) = `HEntry.le` of the model, the order C09_scale is "
    "proved for: cases with equal minimal distances (flag `tie`) are compared completely and get no scale exemption",
]
ASSUMPTIONS = [
    "coordinates and LAParams are exact rationals (dyadic); for non-dyadic parameters (the default 0.1) float "
    "rounding, not logic, decides at-threshold cases - those are not generated",
    "glyph boxes are well formed (x0<=x1, y0<=y1); the page box is well formed",
    "column order is claimed for numeric boxes_flow in (-1, 1), columns of equal vertical extent, pairwise distinct "
    "box distances (no id() tie)",
]
STATEMENT_STATUS: Dict[str, str] = {
    "C09_voverlap_true": "proved (after fix 1584d7d the coded overlap IS the interval overlap, nested boxes included)",
    "C09_hoverlap_true": "proved",
    "C09_join_iff": "proved for all well-formed boxes and all parameters (strictness included)",
    "C09_join_iff_vertical": "proved",
    "C09_pair": "proved (what group_objects does with two glyphs, in terms of the two predicates)",
    "C09_space_iff": "proved (unconditional)", "C09_space_iff_vertical": "proved", "C09_add_space": "proved",
    "C09_neighbour_pred": "proved (unconditional)", "C09_neighbour_pred_vertical": "proved",
    "C09_neighbour_iff": "proved: find_neighbors through the grid index = documented relation (line_margin >= 0, "
                         "non-empty lines, well-formed page; uses C20 plane_find)",
    "C09_no_neighbour_if_negative": "proved",
    "C09_order_two_boxes": "proved, full statement for pages that end with two text boxes (any items, parameters, heap "
                           "tie-break): the output order is the key order (one group, members sorted by key_lrtb / key_tbrl)",
    "C09_column_order_two": "proved: on such a page the lower box of a column is never first (boxes_flow > -1), the right "
                            "one of two columns never first (boxes_flow < 1); checked on the implementation (two-boxes)",
    "C09_column_order_separated_partial": "partial: for ANY number of boxes in one column (horizontal, common left edge, "
        "positive height, boxes_flow > -1) the output is top to bottom PROVIDED every group of the hierarchy joins vertically "
        "separated runs (Node.Separated); missing: that group_textboxes only merges adjacent runs of a column (merge-order "
        "argument); the hypothesis is evaluated on the implementation's group tree and compared with the model (colsep)",
    "C09_column_tree": "proved (tree-level: well-formed hierarchy + separated groups + column => leaves top to bottom)",
    "C09_column_order_partial": "partial (numeric boxes_flow): sort-key inequalities only; that a column is merged before the "
                                "columns are joined is tested on generated layouts, not proved",
    "C09_order_none": "proved (full): with boxes_flow=None the boxes come out sorted by the positional key - a column top to "
                      "bottom, equal bottoms left to right, vertical boxes first",
    "C09_order_none_top_to_bottom": "proved",
    "C09_scale_predicates": "proved (all predicates/measures homogeneous, any s > 0)",
    "C09_scale_lines": "proved: group_objects, word spaces and the empty-line split commute with scaling",
    "C09_scale_neighbours": "proved: the neighbour relation (as a set, through the grid index) is the same at every scale",
    "C09_find_neighbors_order": "proved: find_neighbors lists neighbours in line order (grid independent; after fix 014f62d)",
    "C09_scale_textlines": "proved: group_textlines commutes with scaling as an equation (boxes, member order)",
    "C09_scale_analyze_none": "proved: the WHOLE analysis commutes with scaling when boxes_flow is None",
    "C09_scale_textboxes": "proved: group_textboxes performs the same merges on the scaled boxes (heap-loop simulation)",
    "C09_scale": "proved: the WHOLE analysis commutes with scaling for every s > 0 and every LAParams (heap order = "
                 "tuple order with creation numbers for id())",
}

CLASSIFIERS = {
    # (fixed 014f62d; no open finding uses it any more) the order of lines with EQUAL top edge inside one
    # box followed Plane.find's cell scan order, which depends on where the 50-unit grid falls
    "c09_scale_equal_key_line_order": lambda f: (f.tags.get("check") == "scale" and f.tags.get("equal_key_lines", False)
                                                 and f.tags.get("only_equal_key_order", False)),
}

EPS = [F(0), F(1, 64), F(-1, 64)]
LA0 = {"line_overlap": "1/2", "char_margin": "2", "line_margin": "1/2", "word_margin": "1/8",
       "boxes_flow": "1/2", "detect_vertical": False, "all_texts": False}


def report(ctx: C.Ctx, f: C.Failure) -> None:
    """At most five failures of one kind, so that every kind of failure of a run gets its replay."""
    seen = ctx.extra.setdefault("_c09_kinds", {})
    seen[f.what] = seen.get(f.what, 0) + 1
    if seen[f.what] <= 5:
        ctx.fail(f)


def S(x) -> str:
    return L.fs(F(x))


# --------------------------------------------------------------------------- implementation adapters

BIG_PAGE = ("-1000", "-1000", "3000", "3000")
# page boxes that leave the test arrangement (coordinates 0..400) inside, across and entirely outside the
# page, with borders on and off the multiples of the Plane grid size
PAGES = [BIG_PAGE, BIG_PAGE, ("0", "0", "612", "792"), ("0", "0", "600", "800"), ("500", "450", "650", "600"),
         ("150", "350", "400", "500"), ("-300", "-300", "-100", "-50"), ("130", "310", "131", "311"),
         ("3/2", "7/2", "99/2", "101/2")]


def impl_pair(a, b, la, texts=("a", "b"), bbox=BIG_PAGE):
    """Analyse a page holding exactly glyphs a, b (in content order).
    Returns (same_line, line_class, space_between, same_box)."""
    from pdfminer.layout import LTAnno, LTChar, LTTextBox, LTTextLine, LTTextLineVertical
    case = {"bbox": list(bbox), "la": la,
            "items": [["c", 1] + [S(v) for v in a] + [texts[0]], ["c", 2] + [S(v) for v in b] + [texts[1]]]}
    page, err = L.run_impl(case)
    if err is not None:
        raise err
    lines = []
    boxes = []
    for o in page:
        if isinstance(o, LTTextBox):
            boxes.append(o)
            lines.extend(list(o))
        elif isinstance(o, LTTextLine):
            lines.append(o)
    where = {}
    for li, l in enumerate(lines):
        for e in l:
            if isinstance(e, LTChar):
                where[e._vid] = li
    same_line = where.get(1) == where.get(2)
    cls = None
    space = False
    if same_line:
        l = lines[where[1]]
        cls = "V" if isinstance(l, LTTextLineVertical) else "H"
        el = list(l)
        i1 = next(i for i, e in enumerate(el) if isinstance(e, LTChar) and e._vid == 1)
        space = isinstance(el[i1 + 1], LTAnno) and el[i1 + 1].get_text() == " "
    boxof = {}
    for bi, bx in enumerate(boxes):
        for l in bx:
            for e in l:
                if isinstance(e, LTChar):
                    boxof[e._vid] = bi
    same_box = (1 in boxof) and boxof.get(1) == boxof.get(2)
    return same_line, cls, space, same_box, case


def impl_neighbors(a, b, ratio, vertical: bool, bbox=BIG_PAGE) -> Tuple[bool, bool]:
    """find_neighbors of line A (a single glyph `a`) in a plane holding lines A and B: is B returned? is A?"""
    from pdfminer.layout import LTTextLineHorizontal, LTTextLineVertical
    from pdfminer.utils import Plane
    cls = LTTextLineVertical if vertical else LTTextLineHorizontal
    la_, lb_ = cls(F(1, 8)), cls(F(1, 8))
    la_.add(L.make_char(1, *a, "a"))
    lb_.add(L.make_char(2, *b, "b"))
    plane = Plane(tuple(F(v) for v in bbox))
    plane.extend([la_, lb_])
    res = la_.find_neighbors(plane, ratio)
    return any(x is lb_ for x in res), any(x is la_ for x in res)


# --------------------------------------------------------------------------- threshold generators

# translations applied to whole test arrangements: the documented predicates do not depend on where on the
# plane the glyphs are - also not beyond 2^31 (a former integer sentinel of the layout containers)
FAR = [(F(0), F(0))] * 6 + [(F(1 << 31), F(0)), (F(0), F(1 << 31)), (-F(1 << 31) - 512, -F(1 << 33)),
                            (F(1 << 40), F(1 << 36)), (F(1 << 31) - 300, F(1 << 31) - 300), (F(-(1 << 31)) + 100, F(0))]


def shift(box, off):
    return (box[0] + off[0], box[1] + off[1], box[2] + off[0], box[3] + off[1])


def pick_params(rng):
    lo = rng.choice([F(1, 2), F(1, 2), F(0), F(1, 4), F(3, 4), F(1), F(5, 4), F(-1, 4)])
    cm = rng.choice([F(2), F(2), F(0), F(1, 2), F(1), F(4), F(-1)])
    return lo, cm


def gen_join_pair(rng, vertical: bool):
    """Two boxes whose (vertical overlap, horizontal gap) sit around the join thresholds; the
    transposed pair is used for the vertical predicate."""
    lo, cm = pick_params(rng)
    wa, wb = rng.choice([F(4), F(6), F(8), F(0), F(1, 2)]), rng.choice([F(4), F(6), F(8), F(0)])
    ha, hb = rng.choice([F(8), F(10), F(12), F(0), F(20)]), rng.choice([F(8), F(10), F(12), F(0), F(5)])
    ax0, ay0 = F(rng.randint(0, 200)), F(rng.randint(0, 200))
    a = (ax0, ay0, ax0 + wa, ay0 + ha)
    mode = rng.random()
    minh, maxw = min(ha, hb), max(wa, wb)
    # vertical placement of b
    if mode < 0.45:      # overlap == lo*minh + eps  (b shifted upwards: overlap = a.y1 - b.y0)
        ov = lo * minh + rng.choice(EPS)
        by0 = a[3] - ov
    elif mode < 0.6:     # shifted downwards
        ov = lo * minh + rng.choice(EPS)
        by0 = a[1] + ov - hb
    elif mode < 0.75:    # nested / containing
        by0 = a[1] + (ha - hb) * rng.choice([F(1, 2), F(0), F(1), F(1, 4)])
    elif mode < 0.85:    # touching or disjoint
        by0 = a[3] + rng.choice([F(0), F(1, 64), F(3)])
    else:
        by0 = a[1] + rng.choice([F(0), F(1), F(-2)])
    # horizontal placement of b
    hm = rng.random()
    gap = cm * maxw + rng.choice(EPS) if hm < 0.55 else rng.choice([F(0), F(1), F(-1), F(-3), F(40)])
    if rng.random() < 0.8:
        bx0 = a[2] + gap                  # b to the right
    else:
        bx0 = a[0] - gap - wb             # b to the left
    b = (bx0, by0, bx0 + wb, by0 + hb)
    if vertical:
        a = (a[1], a[0], a[3], a[2])
        b = (b[1], b[0], b[3], b[2])
    return lo, cm, a, b


def gen_space_pair(rng, vertical: bool):
    wm = rng.choice([F(1, 8), F(1, 8), F(1, 2), F(1), F(0), F(1, 16), F(-1, 4), F(2)])
    w, h = rng.choice([F(4), F(6), F(8)]), rng.choice([F(8), F(10), F(12), F(4)])
    wb, hb = rng.choice([F(4), F(6), F(8), F(0), F(12)]), rng.choice([F(8), F(10), F(12)])
    a = (F(100), F(100), F(100) + w, F(100) + h)
    gap = wm * max(wb, hb) + rng.choice(EPS) if rng.random() < 0.7 else rng.choice([F(0), F(1), F(-1), F(3)])
    b = (a[2] + gap, F(100), a[2] + gap + wb, F(100) + hb)
    if vertical:   # next glyph below: gap between a's bottom and b's top
        a = (F(100), F(100), F(100) + h, F(100) + w)
        b = (F(100), a[1] - gap - wb, F(100) + hb, a[1] - gap)
    return wm, a, b


def gen_neighbor_pair(rng, vertical: bool):
    r = rng.choice([F(1, 2), F(1, 2), F(1, 4), F(1), F(0), F(2), F(-1, 2)])
    w, h = rng.choice([F(40), F(60), F(100)]), rng.choice([F(8), F(10), F(12)])
    a = (F(100), F(300), F(100) + w, F(300) + h)
    d = r * h
    e = lambda: rng.choice(EPS)
    hb = h + rng.choice([F(0), F(0), d + e(), -d + e(), F(1)])       # height difference around d
    if hb <= 0:
        hb = h
    kind = rng.random()
    wb = rng.choice([w, w, F(30), F(80)])
    if kind < 0.3:       # left edge around d
        bx0 = a[0] + rng.choice([1, -1]) * (d + e())
    elif kind < 0.5:     # right edge around d
        bx0 = a[2] + rng.choice([1, -1]) * (d + e()) - wb
    elif kind < 0.7:     # centre around d
        bx0 = (a[0] + a[2]) / 2 + rng.choice([1, -1]) * (d + e()) - wb / 2
    elif kind < 0.8:     # horizontally just (not) overlapping
        bx0 = a[2] + rng.choice([F(0), F(-1, 64), F(1, 64)])
    else:
        bx0 = a[0] + rng.choice([F(0), F(3), F(50)])
    vk = rng.random()
    if vk < 0.5:         # below: gap between a's bottom and b's top around d
        by1 = a[1] - (d + e())
        by0 = by1 - hb
    elif vk < 0.8:       # above
        by0 = a[3] + (d + e())
    else:
        by0 = a[1] + rng.choice([F(0), F(2), -hb - F(30)])
    b = (bx0, by0, bx0 + wb, by0 + hb)
    if vertical:
        a = (a[1], a[0], a[3], a[2])
        b = (b[1], b[0], b[3], b[2])
    return r, a, b


# --------------------------------------------------------------------------- predicate checks

def gen_word_run(rng, vertical: bool):
    """2-4 glyphs of one line in ARBITRARY drawing order (a later glyph may lie left of an earlier one, a
    word may be drawn to the left of a word drawn before): every gap to the PREVIOUS glyph sits on / around
    the word_margin threshold."""
    wm = rng.choice([F(1, 8), F(1, 8), F(1, 2), F(1), F(0), F(1, 16), F(-1, 4), F(2)])
    n = rng.choice([2, 3, 3, 4])
    h = rng.choice([F(8), F(10), F(12), F(16)])
    boxes = []
    x = F(100)
    for i in range(n):
        w = rng.choice([F(4), F(6), F(8), F(0), F(12)])
        if i > 0:
            prev = boxes[-1]
            r = rng.random()
            thr = wm * max(w, h)
            if r < 0.55:      # forward, gap around the threshold
                x = prev[1] + (thr + rng.choice(EPS) if rng.random() < 0.7 else rng.choice([F(0), F(1), F(3), F(-1)]))
            elif r < 0.85:    # drawn to the LEFT of everything so far
                x = min(b[0] for b in boxes) - w - rng.choice([F(0), F(1), abs(thr) + rng.choice(EPS), F(7)])
            else:             # somewhere over the earlier glyphs
                x = min(b[0] for b in boxes) + rng.choice([F(1), F(5), F(11)])
        boxes.append((x, x + w))
    y = F(200)
    if vertical:     # the run goes DOWN: position p along the run becomes the interval [-p-w, -p] in y
        return wm, [(F(100), -b[1] + 1000, F(100) + h, -b[0] + 1000) for b in boxes]
    return wm, [(b[0], y, b[1], y + h) for b in boxes]


def run_word_run(ctx: C.Ctx, rng, vertical: bool, ask) -> None:
    from pdfminer.layout import LTAnno, LTChar, LTTextBox, LTTextLine, LTTextLineVertical
    wm, boxes = gen_word_run(rng, vertical)
    off = rng.choice(FAR)
    boxes = [shift(b, off) for b in boxes]
    la = dict(LA0, line_overlap="0", char_margin=str(1 << 45), word_margin=S(wm), detect_vertical=vertical)
    case = {"bbox": list(BIG_PAGE), "la": la,
            "items": [["c", i + 1] + [S(v) for v in b] + ["abcd"[i]] for i, b in enumerate(boxes)]}
    page, err = L.run_impl(case)
    if err is not None:
        raise err
    lines = [l for o in page for l in (o if isinstance(o, LTTextBox) else [o]) if isinstance(l, LTTextLine)]
    if len(lines) != 1 or isinstance(lines[0], LTTextLineVertical) != vertical:
        ctx.branch("pred:space:not-one-line")
        return
    got = []          # what precedes each glyph: [] or [" "]
    pend = []
    for e in lines[0]:
        if isinstance(e, LTChar):
            got.append(("c%d" % e._vid, list(pend)))
            pend = []
        elif isinstance(e, LTAnno):
            pend.append(e.get_text())
    if [g[0] for g in got] != ["c%d" % (i + 1) for i in range(len(boxes))] or pend != ["\n"]:
        report(ctx, C.Failure("a line does not hold its glyphs in content order followed by one line break", case,
                           "c1..cn then \\n", [g[0] for g in got] + pend, {"check": "word-run"}))
        return
    pattern = [g[1] for g in got]
    ctx.case(("run", vertical, wm, tuple(boxes)), True, sample={"pred": "word run", "wm": S(wm), "boxes": [[S(v) for v in b] for b in boxes]},
             branch="pred:word-run:%s:%d" % ("v" if vertical else "h", len(boxes)))
    backwards = any((boxes[i][3] > boxes[i - 1][3]) if vertical else (boxes[i][0] < boxes[i - 1][0]) for i in range(1, len(boxes)))
    if backwards:
        ctx.branch("pred:word-run:backwards")
    for i in range(1, len(boxes)):
        last = boxes[i - 1][1] if vertical else boxes[i - 1][2]
        ask("space_v" if vertical else "space_h", [wm, last] + list(boxes[i]), pattern[i] == [" "],
            {"case": case, "wm": wm, "run": i, "leading": pattern[0], "anno": pattern[i]})


def nested(a, b, vertical) -> bool:
    lo_a, hi_a, lo_b, hi_b = (a[0], a[2], b[0], b[2]) if vertical else (a[1], a[3], b[1], b[3])
    return (lo_a <= lo_b and hi_b <= hi_a) or (lo_b <= lo_a and hi_a <= hi_b)


def run_predicates(ctx: C.Ctx) -> None:
    rng = ctx.rng
    reqs: List[str] = []
    meta: List[Any] = []

    def ask(name, nums, impl_val, info):
        reqs.append("pred " + name + " " + " ".join(S(x) for x in nums))
        meta.append((name, impl_val, info))

    n = ctx.n(3000, 40000)
    for i in range(n):
        if not ctx.time_left():
            break
        vertical = i % 4 == 3
        k = i % 3
        try:
            if k == 0:
                lo, cm, a, b = gen_join_pair(rng, vertical)
                off = rng.choice(FAR)
                a, b = shift(a, off), shift(b, off)
                ctx.branch("pred:far" if off != (0, 0) else "pred:near")
                la = dict(LA0, line_overlap=S(lo), char_margin=S(cm), word_margin="0", detect_vertical=vertical)
                same_line, cls, _, _, case = impl_pair(a, b, la)
                # with detect_vertical both predicates may hold; then the code keeps two lines: evaluate
                # the predicate under test with the other one switched off
                if vertical:
                    # with detect_vertical both predicates may hold and then the code keeps two lines:
                    # a vertical line is observed iff valign and not halign
                    joined = same_line and cls == "V"
                    ctx.case(("join", vertical, lo, cm, a, b), True, branch="pred:valign:" + ("1" if joined else "0"))
                    ask("valign", [lo, cm] + list(a) + list(b), joined, {"case": case, "a": a, "b": b, "lo": lo,
                                                                         "vertical": True, "minus": "halign"})
                    ask("halign", [lo, cm] + list(a) + list(b), None, {"skip": True})
                else:
                    joined = same_line and cls == "H"
                    ctx.case(("join", vertical, lo, cm, a, b), True, sample={"pred": "halign", "lo": S(lo), "cm": S(cm),
                                                                          "a": [S(v) for v in a], "b": [S(v) for v in b]},
                             branch="pred:halign:" + ("1" if joined else "0"))
                    ask("halign", [lo, cm] + list(a) + list(b), joined, {"case": case, "a": a, "b": b, "lo": lo,
                                                                         "vertical": False})
            elif k == 1:
                run_word_run(ctx, rng, vertical, ask)
            else:
                r, a, b = gen_neighbor_pair(rng, vertical)
                off = rng.choice(FAR)
                a, b = shift(a, off), shift(b, off)
                pg = rng.choice(PAGES)
                ctx.branch("pred:page:" + ",".join(pg))
                nb, self_nb = impl_neighbors(a, b, r, vertical, pg)
                ctx.case(("nb", vertical, r, a, b), True, sample={"pred": "neighbour", "ratio": S(r),
                                                                  "a": [S(v) for v in a], "b": [S(v) for v in b]},
                         branch="pred:neighbor_%s:%d" % ("v" if vertical else "h", nb))
                ask("neighbor_v" if vertical else "neighbor_h", [r] + list(a) + list(b), nb,
                    {"a": a, "b": b, "ratio": r, "vertical": vertical, "page": tuple(F(v) for v in pg)})
                # end to end: two single-glyph lines share a box iff neighbours in one direction
                if i % 2 == 0:
                    nb2, _ = impl_neighbors(b, a, r, vertical, pg)
                    la = dict(LA0, line_overlap="1", char_margin="0", line_margin=S(r), detect_vertical=vertical,
                              boxes_flow=None)
                    same_line, _, _, same_box, case = impl_pair(a, b, la, texts=("a", "b"), bbox=pg)
                    ctx.branch("pred:same_box:%d" % same_box)
                    if not same_line and same_box != (nb or nb2):
                        report(ctx, C.Failure("two lines share a box although neither is a neighbour of the other (or vice versa)",
                                           case, nb or nb2, same_box, {"check": "box-vs-find_neighbors"}))
                    if not same_line and not vertical:
                        # ... and iff the DOCUMENTED relation holds in one of the two directions
                        ask("neighbor_h", [r] + list(a) + list(b), same_box, {"case": case, "either": True})
                        ask("neighbor_h", [r] + list(b) + list(a), None, {"skip": True})
        except Exception as e:  # noqa: BLE001
            report(ctx, C.Failure("layout analysis raised on a two-glyph page", {"i": i}, "no exception", repr(e),
                               {"check": "exception"}))
    if ctx.driver is None or not reqs:
        return
    outs = ctx.driver.ask(reqs)
    for idx, ((name, impl_val, info), out) in enumerate(zip(meta, outs)):
        if info.get("skip"):
            continue
        parts = out.split()
        if len(parts) != 2:
            ctx.disagree("pred." + name, str(info)[:300], impl_val, out)
            continue
        model_val, spec_val = parts[0] == "1", parts[1] == "1"
        if info.get("minus"):
            other = outs[idx + 1].split()
            model_val = model_val and other[0] != "1"
            spec_val = spec_val and other[1] != "1"
        if info.get("either"):
            other = outs[idx + 1].split()
            model_val = model_val or other[0] == "1"
            spec_val = spec_val or other[1] == "1"
            if spec_val != impl_val:
                report(ctx, C.Failure("two lines are (not) joined into one box against the documented neighbour relation",
                                   info["case"], spec_val, impl_val, {"check": "box-vs-neighbour"}))
            continue
        if model_val != impl_val:
            ctx.disagree("pred." + name, {k: str(v) for k, v in info.items() if k != "case"}, impl_val, model_val)
        if info.get("run") is not None and (info["leading"] != [] or info["anno"] not in ([], [" "])):
            report(ctx, C.Failure("annotations other than one word space between glyphs of a line", info["case"],
                               "nothing before the first glyph, at most one space between glyphs",
                               {"before_first": info["leading"], "before_glyph_%d" % (info["run"] + 1): info["anno"]},
                               {"check": "word-run-annos"}))
            continue
        if spec_val != impl_val:
            tags = {"check": "pred:" + name}
            if "lo" in info:
                tags["nested"] = nested(info["a"], info["b"], info["vertical"])
                tags["lo_ge_1"] = info["lo"] >= 1
            report(ctx, C.Failure("grouping differs from the documented %s predicate" % name,
                               info.get("case") or {k: [S(x) for x in v] if isinstance(v, tuple) else
                                                    (v if isinstance(v, bool) else S(v)) for k, v in info.items()},
                               spec_val, impl_val, tags))


# --------------------------------------------------------------------------- boxes = connected components

def run_components(ctx: C.Ctx) -> None:
    """"Lines are joined into a box exactly when connected by the documented neighbour relation": on whole
    generated pages the partition of the text lines into boxes must be the connected components of the
    documented relation (taken in either direction) among lines of the same class."""
    from pdfminer.layout import LTChar, LTTextBox, LTTextLineVertical
    if ctx.driver is None:
        return
    rng = ctx.rng
    cases = []
    for i in range(ctx.n(250, 3000)):
        case = L.gen_case(rng, rng.choice([6, 12, 20]))
        case["items"] = [it for it in case["items"] if it[0] != "f"]
        cases.append(case)
    check_components(ctx, cases)


def check_components(ctx: C.Ctx, cases) -> None:
    from pdfminer.layout import LTChar, LTTextBox, LTTextLineVertical
    reqs: List[str] = []
    meta: List[Any] = []
    for case in cases:
        if not ctx.time_left():
            break
        page, err = L.run_impl(case)
        if err is not None:
            report(ctx, C.Failure("layout analysis raised", case, "no exception", repr(err), {"check": "exception"}))
            continue
        lines, boxof = [], []
        for bi, b in enumerate(o for o in page if isinstance(o, LTTextBox)):
            for l in b:
                lines.append(l)
                boxof.append(bi)
        if len(lines) < 2 or len(lines) > 24:
            continue
        r = F(case["la"]["line_margin"])
        start = len(reqs)
        pairs = []
        for x in range(len(lines)):
            for y in range(len(lines)):
                vx, vy = isinstance(lines[x], LTTextLineVertical), isinstance(lines[y], LTTextLineVertical)
                if x != y and vx == vy:
                    reqs.append("pred %s %s" % ("neighbor_v" if vx else "neighbor_h",
                                                " ".join(S(F(v)) for v in [r] + list(lines[x].bbox) + list(lines[y].bbox))))
                    pairs.append((x, y))
        ids = [[e._vid for e in l if isinstance(e, LTChar)] for l in lines]
        meta.append((case, start, pairs, boxof, ids))
        ctx.case(("components", json.dumps(case, sort_keys=True)), True, branch="components:lines:%s" % ("2-4" if len(lines) <= 4 else "5+"))
    outs = ctx.driver.ask(reqs) if reqs else []
    for case, start, pairs, boxof, ids in meta:
        n = len(boxof)
        parent = list(range(n))

        def find(a):
            while parent[a] != a:
                parent[a] = parent[parent[a]]
                a = parent[a]
            return a
        for k, (x, y) in enumerate(pairs):
            if outs[start + k].split()[1] == "1":
                parent[find(x)] = find(y)
        comp = {}
        for x in range(n):
            comp.setdefault(find(x), []).append(x)
        exp = sorted(sorted(ids[x][0] for x in c) for c in comp.values())
        got_d = {}
        for x in range(n):
            got_d.setdefault(boxof[x], []).append(x)
        got = sorted(sorted(ids[x][0] for x in c) for c in got_d.values())
        if len(comp) < n:
            ctx.branch("components:merged")
        if exp != got:
            report(ctx, C.Failure("the text boxes are not the connected components of the documented neighbour relation",
                                  case, exp, got, {"check": "components"}))


# --------------------------------------------------------------------------- column order

def gen_columns(rng):
    """One or two columns of single-line boxes with pairwise distinct pitches; returns
    (case, expected reading order as lists of glyph ids per box)."""
    bf = rng.choice([F(1, 2), F(1, 2), F(0), F(-1, 2), F(3, 4), F(-3, 4), F(1, 4)])
    la = dict(LA0, boxes_flow=S(bf), line_margin="1/4")
    ncol = rng.choice([1, 2, 2])
    nrow = rng.randint(2, 5)
    h, w = F(10), F(6)
    # distinct, strictly increasing gaps so that no two box distances are equal
    gaps = rng.sample([F(4), F(6), F(8), F(11), F(14), F(18), F(23)], nrow - 1)
    ys = [F(700)]
    for g in gaps:
        ys.append(ys[-1] - h - g)
    colx = [F(72), F(72) + rng.choice([F(300), F(360)])]
    items = []
    order = []
    cid = 0
    per_col = []
    for c in range(ncol):
        col = []
        for r in range(nrow):
            nch = rng.randint(2, 5) + (3 if c == 1 else 0)     # right column a bit wider: no distance ties
            ids = []
            y = ys[r]
            if c == 1 and 0 < r < nrow - 1:
                y = y + F(1, 2)                                # inner rows need not line up
            for k in range(nch):
                cid += 1
                ids.append(cid)
                items.append(["c", cid, S(colx[c] + k * w), S(y), S(colx[c] + (k + 1) * w), S(y + h), "x"])
            col.append(ids)
        per_col.append(col)
    for col in per_col:
        order.extend(col)
    case = {"bbox": ["0", "0", "612", "792"], "la": la, "items": items}
    return case, order, ncol


def run_columns(ctx: C.Ctx, batch) -> None:
    from pdfminer.layout import LTChar, LTTextBox
    rng = ctx.rng
    for i in range(ctx.n(100, 1500)):
        if not ctx.time_left():
            break
        case, order, ncol = gen_columns(rng)
        page, err = L.run_impl(case)
        if err is not None:
            report(ctx, C.Failure("layout analysis raised", case, "no exception", repr(err), {"check": "exception"}))
            continue
        got = [[e._vid for l in b for e in l if isinstance(e, LTChar)] for b in page if isinstance(b, LTTextBox)]
        ctx.case(("col", json.dumps(case, sort_keys=True)), True, branch="columns:%d" % ncol)
        batch.add(case, page)
        if got != order:
            report(ctx, C.Failure("boxes of a column layout do not come out in reading order (top to bottom, left column first)",
                               case, order, got, {"check": "column-order", "ncol": ncol}))


# --------------------------------------------------------------------------- pages with two text boxes

def gen_two_boxes(rng):
    """Two words (runs of 6 x 10 glyphs) that cannot share a box, placed as a column (same left edge), as two columns
    (same vertical extent) or anywhere; numeric boxes_flow incl. the end points -1 and 1; drawn in either order."""
    bf = rng.choice([F(1, 2), F(0), F(-1, 2), F(3, 4), F(-3, 4), F(1), F(-1), F(1, 4), F(-1, 8)])
    la = dict(LA0, boxes_flow=S(bf), line_margin=rng.choice(["1/4", "1/2", "0"]))
    h, w = F(10), F(6)
    x0, y0 = F(rng.randint(40, 200)), F(rng.randint(300, 600))
    kind = rng.choice(["column", "columns", "free", "free"])
    if kind == "column":
        x1, y1 = x0, y0 + rng.choice([-1, 1]) * F(rng.randint(30, 200))
    elif kind == "columns":
        x1, y1 = x0 + rng.choice([-1, 1]) * F(rng.randint(60, 300)), y0
    else:
        x1, y1 = x0 + F(rng.randint(-150, 300)), y0 + rng.choice([-1, 1]) * F(rng.randint(30, 250), rng.choice([1, 2, 4]))
    items, cid = [], 0
    for (x, y) in ((x0, y0), (x1, y1)):
        for k in range(rng.randint(1, 4)):
            cid += 1
            items.append(["c", cid, S(x + k * w), S(y), S(x + (k + 1) * w), S(y + h), "x"])
    return {"bbox": ["0", "0", "612", "792"], "la": la, "items": items}, kind


def check_two_boxes(ctx: C.Ctx, cases) -> None:
    """Theorems C09_order_two_boxes / C09_column_order_two on the implementation: when a page ends with exactly two
    (horizontal) text boxes a, b in output order then key_lrtb(a) <= key_lrtb(b) for the regenerated key, the lower
    box of a column is never first (boxes_flow > -1) and the right one of two columns is never first (boxes_flow < 1)."""
    from pdfminer.layout import LTTextBox, LTTextBoxVertical
    if ctx.driver is None:
        return
    reqs, meta = [], []
    for case, kind in cases:
        page, err = L.run_impl(case)
        if err is not None:
            report(ctx, C.Failure("layout analysis raised", case, "no exception", repr(err), {"check": "exception"}))
            continue
        boxes = [b for b in page if isinstance(b, LTTextBox)]
        ctx.case(("two", json.dumps(case, sort_keys=True)), len(boxes) == 2, branch="two-boxes:%s:%d" % (kind, len(boxes)))
        if len(boxes) != 2 or any(isinstance(b, LTTextBoxVertical) for b in boxes) or case["la"].get("boxes_flow") is None:
            continue
        bf = F(case["la"]["boxes_flow"])
        for b in boxes:
            reqs.append("pred key_lrtb " + " ".join(S(x) for x in [bf] + [F(v) for v in b.bbox]))
        meta.append((case, bf, [tuple(F(v) for v in b.bbox) for b in boxes]))
    outs = ctx.driver.ask(reqs) if reqs else []
    for i, (case, bf, (a, b)) in enumerate(meta):
        ka, kb = F(outs[2 * i]), F(outs[2 * i + 1])
        ctx.branch("two-boxes:keys-" + ("equal" if ka == kb else "distinct"))
        bad = None
        if ka > kb:
            bad = ("key_lrtb of the first box <= key_lrtb of the second", "%s > %s" % (ka, kb))
        elif bf > -1 and a[0] == b[0] and a[1] + a[3] < b[1] + b[3]:
            bad = ("upper box of a column first", "lower box first")
        elif bf < 1 and a[1] + a[3] == b[1] + b[3] and b[0] < a[0]:
            bad = ("left column first", "right column first")
        if bad:
            report(ctx, C.Failure("the two text boxes of a page do not come out in the documented reading order", case,
                                  bad[0], bad[1], {"check": "two-box-order"}))


def run_two_boxes(ctx: C.Ctx) -> None:
    rng = ctx.rng
    check_two_boxes(ctx, [gen_two_boxes(rng) for _ in range(ctx.n(150, 1500))])


# --------------------------------------------------------------------------- a single column of n boxes

def gen_column_n(rng):
    """One column of 2..8 single-line boxes with a common left edge: widths, heights (type sizes) and gaps differ from
    box to box (gaps also equal, so that distances tie), numeric boxes_flow > -1, drawn in arbitrary order."""
    bf = rng.choice([F(1, 2), F(0), F(-1, 2), F(3, 4), F(-3, 4), F(1), F(1, 4), F(-7, 8)])
    la = dict(LA0, boxes_flow=S(bf), line_margin=rng.choice(["1/4", "1/8", "0"]))
    n = rng.randint(2, 8)
    x = F(rng.randint(20, 100))
    y = F(rng.randint(650, 760))
    rows = []
    equal_gaps = rng.random() < 0.3
    g0 = F(rng.randint(8, 40))
    for r in range(n):
        h = F(rng.choice([6, 8, 10, 10, 12, 16]))
        w = h * F(3, 5)
        y = y - h
        rows.append((y, h, w, rng.randint(1, 12)))
        y = y - (g0 if equal_gaps else F(rng.randint(8, 60)))
    order = list(range(n))
    if rng.random() < 0.5:
        rng.shuffle(order)
    items, cid = [], 0
    for r in order:
        yy, h, w, nch = rows[r]
        for k in range(nch):
            cid += 1
            items.append(["c", cid, S(x + k * w), S(yy), S(x + (k + 1) * w), S(yy + h), "x"])
    return {"bbox": ["0", "0", "612", "792"], "la": la, "items": items}


def impl_separated(page):
    """`Node.Separated` evaluated on the implementation's group tree; None without hierarchy."""
    from pdfminer.layout import LTTextBox, LTTextGroup
    if page.groups is None:
        return None

    def leaves(g):
        if isinstance(g, LTTextBox):
            return [g]
        return [b for ch in g for b in leaves(ch)]

    def above(l, r):
        return all(F(b.y1) <= F(a.y0) for a in leaves(l) for b in leaves(r))

    def sep(g):
        if not isinstance(g, LTTextGroup):
            return True
        ch = list(g)
        if len(ch) != 2:
            return False
        return (above(ch[0], ch[1]) or above(ch[1], ch[0])) and sep(ch[0]) and sep(ch[1])
    return all(sep(g) for g in page.groups)


def check_column_n(ctx: C.Ctx, cases, batch=None) -> None:
    """C09_column_order_separated_partial on the implementation: hypotheses (horizontal boxes, common left edge,
    positive height, `Separated` hierarchy - also compared with the model's `Node.separatedB`, op `analyze colsep`) and
    conclusion (every box above every later one)."""
    from pdfminer.layout import LTTextBox, LTTextBoxVertical
    reqs, meta = [], []
    for case in cases:
        page, err = L.run_impl(case)
        if err is not None:
            report(ctx, C.Failure("layout analysis raised", case, "no exception", repr(err), {"check": "exception"}))
            continue
        boxes = [b for b in page if isinstance(b, LTTextBox)]
        ctx.case(("coln", json.dumps(case, sort_keys=True)), len(boxes) >= 3, branch="column-n:boxes:%d" % min(len(boxes), 8))
        if batch is not None:
            batch.add(case, page)
        hyp = (boxes and not any(isinstance(b, LTTextBoxVertical) for b in boxes)
               and len({F(b.x0) for b in boxes}) == 1 and all(F(b.y0) < F(b.y1) for b in boxes)
               and case["la"].get("boxes_flow") is not None and F(case["la"]["boxes_flow"]) > -1)
        sep = impl_separated(page)
        ctx.branch("column:" + ("separated" if sep else "not-separated" if sep is not None else "no-hierarchy"))
        reqs.append(L.model_line([F(v) for v in case["bbox"]], case["la"], case["items"], "colsep"))
        meta.append((case, sep))
        if not hyp:
            ctx.branch("column-n:hypotheses-not-met")
            continue
        ys = [(F(b.y0), F(b.y1)) for b in boxes]
        ok = all(ys[j][1] <= ys[i][0] for i in range(len(ys)) for j in range(i + 1, len(ys)))
        if not ok:
            ctx.branch("column-n:order-broken:" + ("separated" if sep else "not-separated"))
            report(ctx, C.Failure("the boxes of a single column do not come out top to bottom", case,
                                  "every box above every later one", [[S(a), S(b)] for a, b in ys],
                                  {"check": "column-n-order", "separated": bool(sep)}))
        elif not sep:
            ctx.branch("column-n:order-right-but-hierarchy-not-separated")
    if ctx.driver is None or not reqs:
        return
    for (case, sep), out in zip(meta, ctx.driver.ask(reqs)):
        want = "-" if sep is None else "1" if sep else "0"
        if out != want:
            ctx.disagree("colsep", case, want, out)


def run_column_n(ctx: C.Ctx, batch) -> None:
    rng = ctx.rng
    check_column_n(ctx, [gen_column_n(rng) for _ in range(ctx.n(120, 1500))], batch)


# --------------------------------------------------------------------------- scale invariance

def equal_key_lines(page) -> bool:
    from pdfminer.layout import LTTextBox, LTTextBoxVertical
    for b in page:
        if isinstance(b, LTTextBox):
            keys = [l.x1 if isinstance(b, LTTextBoxVertical) else l.y1 for l in b]
            if len(set(keys)) != len(keys):
                return True
    return False


MODEL_MAX_CELLS = 600     # the list-based Plane model is quadratic in the number of grid cells


def grid_cells(case) -> int:
    x0, y0, x1, y1 = (F(v) for v in case["bbox"])
    return (int((x1 - x0) // 50) + 2) * (int((y1 - y0) // 50) + 2)


def scale_check(ctx: C.Ctx, case, batch, ks) -> Optional[C.Failure]:
    """Analyse `case` at scale 1 and at 2^k; every scaled tree, divided by its factor, must be the base tree."""
    base_page, err = L.run_impl(case)
    if err is not None:
        return C.Failure("layout analysis raised", case, "no exception", repr(err), {"check": "exception"})
    L.UNSCALE = F(1)
    base = {tuple(path): L.dump_container(L.find_container(base_page, path)) for path, _, _, _ in L.containers(case)}
    base_canon = {tuple(path): L.canon_dump(L.find_container(base_page, path)) for path, _, _, _ in L.containers(case)}
    if grid_cells(case) <= MODEL_MAX_CELLS:
        batch.add(case, base_page)
    tie_free_only = False
    for k in ks:
        s = F(2) ** k
        sc = L.scale_case(case, s)
        page, err = L.run_impl(sc)
        if err is not None:
            return C.Failure("layout analysis raised at scale 2^%d" % k, sc, "no exception", repr(err),
                             {"check": "exception", "k": k})
        if grid_cells(sc) <= MODEL_MAX_CELLS:
            batch.add(sc, page)                 # model == implementation at this scale too
            ctx.branch("scale:model-tie")
        ctx.branch("scale:2^%d" % k)
        for path, _, _, _ in L.containers(sc):
            cont = L.find_container(page, path)
            try:
                L.UNSCALE = s
                full, weak = L.dump_container(cont)
                canon = L.canon_dump(cont)
            finally:
                L.UNSCALE = F(1)
            if full != base[tuple(path)][0]:
                weak_same = weak == base[tuple(path)][1]
                return C.Failure("layout result changes when all coordinates are multiplied by 2^%d" % k, case,
                                 base[tuple(path)][0][:600], full[:600],
                                 {"check": "scale", "k": k, "weak_same": weak_same,
                                  "equal_key_lines": equal_key_lines(base_page) or equal_key_lines(page),
                                  "only_equal_key_order": canon == base_canon[tuple(path)]})
    return None


def gen_blocks(rng):
    """A page of separate text blocks: a column of wide lines (each its own box) whose groups cover a large part
    of the page, and a few small boxes beside it with pairwise distinct distances.  Analysed at scale 1 and at
    scales where those groups cover thousands of cells of the 50-unit grid (the state of the two planes - objects
    added, removed again, searched for - then differs a lot from the unscaled run)."""
    bf = rng.choice([F(1, 2), F(1, 2), F(0), F(-1, 2), F(3, 4)])
    la = dict(LA0, boxes_flow=S(bf), line_margin="1/4", char_margin="2")
    items = []
    cid = 0
    h, w = F(10), F(6)
    nwide = rng.randint(2, 4)
    y = F(280)
    wide_chars = rng.randint(20, 34)
    x0 = F(10) + rng.randint(0, 20)
    gaps = rng.sample([F(6), F(8), F(11), F(15), F(19)], nwide)
    for r in range(nwide):
        for k in range(wide_chars - 2 * r):
            cid += 1
            items.append(["c", cid, S(x0 + k * w), S(y), S(x0 + (k + 1) * w), S(y + h), "w"])
        y -= h + gaps[r]
    # small boxes to the right / below, at distinct distances
    nsmall = rng.randint(2, 4)
    xs = x0 + wide_chars * w
    for r in range(nsmall):
        bx = xs + rng.choice([F(9), F(14), F(22), F(31), F(45)]) + 13 * r
        by = F(285) - rng.choice([F(0), F(17), F(41), F(66), F(95)]) - 7 * r
        for k in range(rng.randint(1, 3)):
            cid += 1
            items.append(["c", cid, S(bx + k * w), S(by), S(bx + (k + 1) * w), S(by + h), "s"])
    return {"bbox": ["0", "0", "420", "320"], "la": la, "items": items}


def run_big_scale(ctx: C.Ctx, batch) -> None:
    rng = ctx.rng
    for i in range(ctx.n(25, 400)):
        if not ctx.time_left():
            break
        case = gen_blocks(rng)
        ks = [rng.choice([5, 6]), 7] if ctx.tier == "quick" else [4, 5, 6, 7, 8]
        ctx.case(("blocks", json.dumps(case, sort_keys=True)), True, branch="gen:scale:blocks")
        f = scale_check(ctx, case, batch, ks)
        if f is not None:
            f.tags["blocks"] = True
            report(ctx, f)


def run_scale(ctx: C.Ctx, batch) -> None:
    rng = ctx.rng
    n = ctx.n(120, 3000)
    ties = TieOracle(ctx)
    for i in range(n):
        if not ctx.time_left():
            ctx.notes.append("time budget reached after %d scale cases" % i)
            break
        size = rng.choice([3, 6, 12, 20]) if ctx.tier == "quick" else rng.choice([3, 6, 12, 25, 60])
        # generated on a letter-size page, then shrunk by 8 so that the whole range of scales stays affordable
        case = L.scale_case(L.gen_case(rng, size), F(1, 8))
        ks = [-6, 6] + rng.sample([-5, -4, -3, -2, -1, 1, 2, 3, 4, 5], 2 if ctx.tier == "quick" else 10)
        if i % 3 == 2:
            # "all scale factors 2^k": large |k|.  The page box is made tiny (all glyphs lie beyond it and are
            # filed under its border cells), so that the 50-unit grid stays small when coordinates reach 2^40;
            # figures (containers with a box of their own) are left out for the same reason
            case = dict(case, bbox=["0", "0", "1/1073741824", "1/1073741824"],
                        items=[it for it in case["items"] if it[0] != "f"])
            ks = [22, 31, 40, -22] if ctx.tier == "quick" else [20, 22, 25, 31, 32, 40, 48, -22, -40]
            ctx.branch("gen:scale:far")
        ctx.case(("scale", json.dumps(case, sort_keys=True)), L.n_glyphs(case) >= 2,
                 sample={"la": case["la"], "n_items": len(case["items"]), "scales": ks}, branch="gen:scale")
        f = scale_check(ctx, case, batch, ks)
        if f is not None:
            ties.pending.append((case, f, ks))
        if len(batch.lines) >= 300:
            batch.flush()
    ties.resolve(batch)


class TieOracle:
    """A scale difference is only a violation when the model found no id()-dependent tie (at any
    of the scales): ask the model for the flags of the failing cases, then shrink and report."""

    def __init__(self, ctx):
        self.ctx = ctx
        self.pending: List[Any] = []

    def has_tie(self, case, ks) -> bool:
        ctx = self.ctx
        if ctx.driver is None:
            return False
        lines = []
        for k in [0] + list(ks):
            sc = L.scale_case(case, F(2) ** k)
            if grid_cells(sc) > MODEL_MAX_CELLS:
                continue
            for path, mode, bbox, items in L.containers(sc):
                lines.append(L.model_line(bbox, sc["la"], items, mode))
        outs = ctx.driver.ask(lines)
        return any(o.endswith("tie") or " tie" in o.split(" ||| ")[-1] for o in outs)

    def resolve(self, batch) -> None:
        ctx = self.ctx
        for case, f, ks in self.pending:
            if f.tags.get("check") == "scale" and self.has_tie(case, ks):
                # no exemption any more: since fix 0d18780 ties are broken by creation numbers (= `HEntry.le`,
                # the order `C09_scale` is proved for), so a scale difference under a tie is a violation too
                ctx.branch("scale:difference-under-tie")
            # shrink over the items
            if f.tags.get("check") == "scale":
                k = f.tags["k"]

                def still(items):
                    c2 = dict(case, items=items)
                    f2 = scale_check(ctx, c2, C8.Batch(ctx), [k])
                    return f2 is not None and f2.tags.get("check") == "scale"
                if still(case["items"]):
                    items = C.ddmin(list(case["items"]), still, max_tests=120)
                    c2 = dict(case, items=items)
                    f2 = scale_check(ctx, c2, C8.Batch(ctx), [k])
                    if f2 is not None:
                        f = f2
            report(ctx, f)


# --------------------------------------------------------------------------- documents: extract_text

def pdf_threshold_doc(rng, la):
    """One page whose glyphs are placed one by one (Tm) with gaps / pitches on and around the thresholds;
    font: every width 500, descent -250, so at size 8 every glyph box is 4 x 8 with dyadic corners."""
    from harness import pdfwriter as W
    cm, lm, wm = F(la["char_margin"]), F(la["line_margin"]), F(la["word_margin"])
    font = {"Type": "Font", "Subtype": "Type1", "BaseFont": "VerifSans", "FirstChar": 32, "LastChar": 126,
            "Widths": [500] * 95, "FontDescriptor": W.Ref(4), "Encoding": "WinAnsiEncoding"}
    fd = {"Type": "FontDescriptor", "FontName": "VerifSans", "Flags": 32, "FontBBox": [0, -250, 1000, 750],
          "ItalicAngle": 0, "Ascent": 750, "Descent": -250, "CapHeight": 700, "StemV": 80}
    ops = [b"BT", b"/F1 8 Tf"]
    x, y, left = F(72), F(700), F(72)
    n = rng.randint(2, 24)
    k = 0
    for i in range(n):
        k += 1
        ch = rng.choice(b"abcdefghijklmnopqrstuvwxyz ")
        ops.append(b"1 0 0 1 %s %s Tm " % (W.ser_real(x), W.ser_real(y + F(k % 7, 512))) + W.ser_string(bytes([ch])) + b" Tj")
        r = rng.random()
        if r < 0.7:
            gap = rng.choice([F(0), F(1, 2), abs(wm) * 8 + rng.choice(EPS), abs(cm) * 4 + rng.choice(EPS), F(20)])
            x = x + 4 + gap
        elif r < 0.93:
            pitch = rng.choice([F(0), F(1), abs(lm) * 8 + rng.choice(EPS), F(16), F(24) + F(i % 5)])
            y = y - 8 - pitch
            x = left + rng.choice([F(0), F(0), abs(lm) * 8 + rng.choice(EPS), F(2)])
        else:
            left = left + rng.choice([F(120), F(200)])
            x, y = left, F(700) - F(rng.randint(0, 60))
    ops.append(b"ET")
    return W.simple_doc(b"\n".join(ops), resources={"Font": {"F1": W.Ref(3)}}, extra_objs={3: font, 4: fd})


def text_from_dump(full: str, texts: Dict[int, str]) -> str:
    """What TextConverter writes for the model's tree: every text box followed by a newline, the empty
    lines kept beside the boxes as they are, then a form feed."""
    import re
    page = full.split(" G", 1)[0]

    def line_text(elems: str) -> str:
        return "".join(" " if t == "s" else "\n" if t == "n" else texts.get(int(t[1:]), "?") for t in elems.split())
    out = []
    pos = 2     # after "P["
    tok = re.compile(r"(B[HV]#-?\d+\([^)]*\)\[((?:L[HV]\([^)]*\)\[[^\]]*\] ?)*)\])|(L[HV]\([^)]*\)\[([^\]]*)\])|(o\d+)")
    for m in tok.finditer(page, pos):
        if m.group(1):
            out.append("".join(line_text(l.group(1)) for l in re.finditer(r"L[HV]\([^)]*\)\[([^\]]*)\]", m.group(2))) + "\n")
        elif m.group(3):
            out.append(line_text(m.group(4)))
    return "".join(out) + "\x0c"


def run_documents(ctx: C.Ctx) -> None:
    import io
    from pdfminer.converter import PDFPageAggregator
    from pdfminer.high_level import extract_text
    from pdfminer.layout import LTChar
    from pdfminer.pdfinterp import PDFPageInterpreter, PDFResourceManager
    from pdfminer.pdfpage import PDFPage
    rng = ctx.rng
    if ctx.driver is None:
        return
    reqs, meta = [], []
    for i in range(ctx.n(40, 800)):
        if not ctx.time_left():
            break
        la = dict(LA0, char_margin=S(rng.choice([F(2), F(1), F(4)])), line_margin=S(rng.choice([F(1, 2), F(1, 4), F(1)])),
                  word_margin=S(rng.choice([F(1, 8), F(1, 4), F(1, 2)])),
                  boxes_flow=rng.choice([None, "1/2", "0", "-1/2"]))
        data = pdf_threshold_doc(rng, la)
        try:
            rm = PDFResourceManager()
            dev = PDFPageAggregator(rm, laparams=None)
            PDFPageInterpreter(rm, dev).process_page(next(PDFPage.get_pages(io.BytesIO(data))))
            raw = dev.get_result()
            items, texts = [], {}
            for k, o in enumerate(raw, 1):
                if isinstance(o, LTChar):
                    items.append(["c", k] + [S(F(v)) for v in (o.x0, o.y0, o.x1, o.y1)] + [o.get_text()])
                    texts[k] = o.get_text()
                else:
                    items.append(["o", k, "0", "0", "0", "0", "rect"])
            if not all(F(v).denominator <= 4096 for it in items if it[0] == "c" for v in it[2:6]):
                ctx.branch("doc:nondyadic")
                continue
            got = extract_text(io.BytesIO(data), laparams=L.make_laparams(la, "float"))
        except Exception as e:  # noqa: BLE001
            report(ctx, C.Failure("extract_text raised on a generated document", {"la": la, "pdf_hex": data.hex()[:4000]},
                               "text", repr(e), {"check": "exception"}))
            continue
        ctx.case(("doc", data), len(items) >= 2, branch="doc:extract_text")
        reqs.append(L.model_line([S(F(v)) for v in raw.bbox], la, items, "page"))
        meta.append((la, items, texts, got))
    outs = ctx.driver.ask(reqs) if reqs else []
    for (la, items, texts, got), out in zip(meta, outs):
        parts = out.split(" ||| ")
        if len(parts) != 3:
            ctx.disagree("doc", {"la": la, "items": items}, got, out[:200])
            continue
        if "tie" in parts[2]:
            ctx.branch("doc:tie")          # decided like every other case (tie-break = creation numbers)
        exp = text_from_dump(parts[0], texts)
        if exp != got:
            ctx.disagree("doc.extract_text", {"la": la, "items": items}, got, exp)


# --------------------------------------------------------------------------- translated tables

def run_defaults(ctx: C.Ctx) -> None:
    from pdfminer.layout import LAParams
    from pdfminer.utils import Plane
    if ctx.driver is None:
        return
    out = ctx.driver.ask(["defaults"])[0]
    p = LAParams()
    exp = " ".join(S(F(repr(v))) for v in (p.line_overlap, p.char_margin, p.line_margin, p.word_margin, p.boxes_flow))
    exp += " %d" % Plane((0, 0, 1, 1)).gridsize
    ctx.branch("defaults")
    if out != exp:
        ctx.disagree("defaults", None, exp, out)
    # dist and the sort keys
    rng = ctx.rng
    from pdfminer.layout import LTComponent
    reqs, exps = [], []
    for _ in range(200):
        a = [L.dyadic(rng, -50, 50) for _ in range(4)]
        b = [L.dyadic(rng, -50, 50) for _ in range(4)]
        a = [min(a[0], a[2]), min(a[1], a[3]), max(a[0], a[2]), max(a[1], a[3])]
        b = [min(b[0], b[2]), min(b[1], b[3]), max(b[0], b[2]), max(b[1], b[3])]
        bf = rng.choice([F(1, 2), F(-1), F(1), F(0), F(1, 4)])
        o = LTComponent(tuple(a))
        reqs.append("pred key_lrtb " + " ".join(S(x) for x in [bf] + a))
        exps.append(S((1 - bf) * o.x0 - (1 + bf) * (o.y0 + o.y1)))
        reqs.append("pred key_tbrl " + " ".join(S(x) for x in [bf] + a))
        exps.append(S(-(1 + bf) * (o.x0 + o.x1) - (1 - bf) * o.y1))
    outs = ctx.driver.ask(reqs)
    for r, e, o in zip(reqs, exps, outs):
        if e != o:
            ctx.disagree("pred.key", r, e, o)


# --------------------------------------------------------------------------- entry points

def run_corpus(ctx: C.Ctx, batch) -> None:
    for path in sorted(glob.glob(os.path.join(C.VERIF, "corpus", "C09", "*.json"))):
        with open(path) as fp:
            doc = json.load(fp)
        replay(ctx, doc, batch)


def _anno_groups(elems):
    """The runs of annotations that follow each glyph of a line (last run = after the last glyph)."""
    from pdfminer.layout import LTChar
    groups, cur, seen_char = [], [], False
    for e in elems:
        if isinstance(e, LTChar):
            if seen_char:
                groups.append(cur)
            cur, seen_char = [], True
        else:
            cur.append(e)
    groups.append(cur)
    return groups


def replay_pred(ctx: C.Ctx, name: str, inp, tags) -> None:
    """Re-evaluate one predicate case (implementation vs documented predicate) from a replay file."""
    if ctx.driver is None:
        return

    def spec_of(req: str) -> bool:
        return ctx.driver.ask([req])[0].split()[1] == "1"
    if name in ("neighbor_h", "neighbor_v"):
        a = tuple(F(x) for x in inp["a"])
        b = tuple(F(x) for x in inp["b"])
        r = F(inp["ratio"])
        got, _ = impl_neighbors(a, b, r, name.endswith("_v"), tuple(inp.get("page") or BIG_PAGE))
        exp = spec_of("pred %s %s" % (name, " ".join(S(x) for x in [r] + list(a) + list(b))))
    else:
        la = inp["la"]
        a = tuple(F(v) for v in inp["items"][0][2:6])
        b = tuple(F(v) for v in inp["items"][1][2:6])
        same_line, cls, space, _, _ = impl_pair(a, b, la)
        if name in ("halign", "valign"):
            args = " ".join(S(x) for x in [F(la["line_overlap"]), F(la["char_margin"])] + list(a) + list(b))
            exp = spec_of("pred %s %s" % (name, args))
            if name == "valign":
                exp = exp and not spec_of("pred halign " + args)
            got = same_line and cls == ("V" if name == "valign" else "H")
        else:
            # a word run: re-evaluate every gap of the stored line
            from pdfminer.layout import LTAnno, LTChar, LTTextBox, LTTextLine
            vertical = name.endswith("_v")
            boxes = [tuple(F(v) for v in it[2:6]) for it in inp["items"]]
            page, err = L.run_impl(inp)
            if err is not None:
                raise err
            lines = [l for o in page for l in (o if isinstance(o, LTTextBox) else [o]) if isinstance(l, LTTextLine)]
            exp, got = [], []
            if len(lines) == 1:
                pend = []
                for e in lines[0]:
                    if isinstance(e, LTChar):
                        got.append(pend == [" "])
                        pend = []
                    elif isinstance(e, LTAnno):
                        pend.append(e.get_text())
                got = got[1:]
                for i in range(1, len(boxes)):
                    last = boxes[i - 1][1] if vertical else boxes[i - 1][2]
                    exp.append(spec_of("pred %s %s" % (name, " ".join(S(x) for x in [F(la["word_margin"]), last] + list(boxes[i])))))
    if exp != got:
        report(ctx, C.Failure("grouping differs from the documented %s predicate" % name, inp, exp, got, tags))


def replay(ctx: C.Ctx, doc, batch=None) -> None:
    own = batch is None
    batch = batch or C8.Batch(ctx)
    inp = doc.get("input", {})
    tags = doc.get("tags", {}) or {}
    check = str(tags.get("check", ""))
    if isinstance(inp, dict) and check in ("word-run-annos", "word-run") and "items" in inp:
        from pdfminer.layout import LTAnno, LTChar, LTTextBox, LTTextLine
        ctx.case(("replay", json.dumps(inp, sort_keys=True)), True, branch="replay:word-run")
        page, err = L.run_impl(inp)
        if err is not None:
            report(ctx, C.Failure("layout analysis raised", inp, "no exception", repr(err), {"check": "exception"}))
        else:
            for l in [l for o in page for l in (o if isinstance(o, LTTextBox) else [o]) if isinstance(l, LTTextLine)]:
                el = list(l)
                annos = ["".join(e.get_text() for e in grp) for grp in _anno_groups(el)]
                if (el and isinstance(el[0], LTAnno)) or any(a not in ("", " ") for a in annos[:-1]) or annos[-1:] != ["\n"]:
                    report(ctx, C.Failure("annotations other than one word space between glyphs of a line", inp,
                                          "nothing before the first glyph, at most one space between glyphs",
                                          [L.dump_elem(e) for e in el], tags))
    elif isinstance(inp, dict) and check.startswith("pred:"):
        ctx.case(("replay", json.dumps(inp, sort_keys=True, default=str)), True, branch="replay:pred")
        replay_pred(ctx, check[5:], inp, tags)
    elif isinstance(inp, dict) and "items" in inp:
        ctx.case(("replay", json.dumps(inp, sort_keys=True)), True, branch="replay")
        if check == "components":
            ctx.branch("replay:components")
            check_components(ctx, [inp])
        elif check == "box-vs-neighbour" and ctx.driver is not None and len(inp["items"]) == 2:
            a = tuple(F(v) for v in inp["items"][0][2:6])
            b = tuple(F(v) for v in inp["items"][1][2:6])
            r = F(inp["la"]["line_margin"])
            same_line, _, _, same_box, _ = impl_pair(a, b, inp["la"], bbox=tuple(inp["bbox"]))
            o = ctx.driver.ask(["pred neighbor_h " + " ".join(S(x) for x in [r] + list(a) + list(b)),
                                "pred neighbor_h " + " ".join(S(x) for x in [r] + list(b) + list(a))])
            spec = o[0].split()[1] == "1" or o[1].split()[1] == "1"
            if not same_line and spec != same_box:
                report(ctx, C.Failure("two lines are (not) joined into one box against the documented neighbour relation",
                                   inp, spec, same_box, tags))
        elif check == "column-n-order":
            check_column_n(ctx, [inp])
        elif check == "two-box-order":
            check_two_boxes(ctx, [(inp, "replay")])
        elif check == "column-order":
            page, err = L.run_impl(inp)
            if err is not None:
                report(ctx, C.Failure("layout analysis raised", inp, "no exception", repr(err), {"check": "exception"}))
            else:
                from pdfminer.layout import LTChar, LTTextBox
                got = [[e._vid for l in b for e in l if isinstance(e, LTChar)] for b in page if isinstance(b, LTTextBox)]
                if doc.get("expected") is not None and got != doc["expected"]:
                    report(ctx, C.Failure("boxes of a column layout do not come out in reading order (top to bottom, left column first)",
                                       inp, doc["expected"], got, tags))
        else:
            ks = list(range(-6, 7)) if grid_cells(inp) < 5 else [-6, -3, -1, 1, 3, 6]
            if isinstance(tags.get("k"), int) and tags["k"] not in ks:
                ks.append(tags["k"])          # e.g. a far scale 2^31 of a page with a tiny box
            if grid_cells(inp) < 5:
                ks += [22, 31, 40]
            f = scale_check(ctx, inp, batch, ks)
            if f is not None:
                report(ctx, f)
    if own:
        batch.flush()
        ctx.extra.pop("_c09_kinds", None)


def run(ctx: C.Ctx) -> None:
    batch = C8.Batch(ctx)
    run_corpus(ctx, batch)
    run_defaults(ctx)
    run_predicates(ctx)
    run_columns(ctx, batch)
    run_two_boxes(ctx)
    run_column_n(ctx, batch)
    run_components(ctx)
    run_documents(ctx)
    run_big_scale(ctx, batch)
    run_scale(ctx, batch)
    batch.flush()
    kinds = ctx.extra.pop("_c09_kinds", None)
    if kinds:
        ctx.extra["failure_kinds"] = kinds
