"""C01 - every ISO 32000-conformant spelling of a PDF object value reads back as that value,
independently of read-buffer boundaries and of the object's offset.

  (prop)  value --(Python speller, every conformant freedom chosen at random)--> bytes
          --> PDFStreamParser(bytes).nextobject()  /  PDFDocument.getobj(n) on `n 0 obj ... endobj`
          at BUFSIZ 1..9/4096 and pad offsets 0..70 --> must be exactly the value
  (spec)  Lean `spec.spell` (clean recursive-descent reader per ISO 32000-1 7.2-7.3, Spec/Syntax.lean) must
          accept every generated spelling and denote the same value (ties the speller to the Lean grammar)
  (tie)   Lean `model.obj <bufsiz>` (lexer model + PSStackParser/PDFStreamParser model) == implementation
  (proof) lean/PdfVerif/Props/C01.lean
"""

from __future__ import annotations

import glob
import json
import os
from fractions import Fraction
from io import BytesIO
from typing import Any, Dict, List, Optional, Sequence, Set, Tuple

from harness import common as C
from harness import pdfwriter as W
from harness.props import c14 as LEX

LEVEL = "proof"
RULE = ("random object trees (all ten value kinds, depth <= 5, <= 40 nodes; strings/names over all bytes) x random "
        "conformant spelling (white space kinds incl. NUL, comments, minimal/redundant delimiters, integer signs and "
        "leading zeros, real forms, #xx, every string escape, 1-3 digit octal, line continuations CR/LF/CRLF, ignored "
        "backslash, raw balanced parentheses, hex case/white space/odd length) x BUFSIZ in 1..9,4096 x pad offset 0..70 "
        "x reader (PDFStreamParser.nextobject, PDFDocument.getobj); every scalar kind and every spelling feature is "
        "enumerated first; a case = one (value, spelling, bufsiz, offset, reader); non-trivial when the spelling uses at "
        "least one feature beyond the plain form or a buffer boundary falls inside the spelling; distinct by bytes+config")
TRUSTED_BASE = [
    "Python speller of tools/harness/props/c01.py (every spelling is re-read by the Lean spec reader spec.spell)",
    "hand models lean/PdfVerif/Model/Lexer.lean + Model/StackParser.lean (correspondence-checked at every BUFSIZ)",
    "Spec/Syntax.lean is my reading of ISO 32000-1 7.2-7.3",
    "real numbers: exact decimal value vs Python float() of the same text (correct rounding trusted)",
    "shared PDF writer (pdfwriter.build_pdf) for the getobj path",
]
ASSUMPTIONS = [
    "dictionary keys are names that are valid UTF-8 (pdfminer turns other keys into the repr of the bytes)",
    "integers have at most 4300 digits (CPython limit); reals are compared after float rounding",
    "raw CR / CRLF inside literal strings (EOL normalisation), duplicate keys and NUL inside names are outside the "
    "generated grammar",
]
STATEMENT_STATUS = {
    "C01_bufsize_indep / C01_offset_indep / C01_offset_indep_ws": "proved, FULL (every byte string, conformant or damaged, "
        "odd hex included): the objects read do not depend on the read-buffer size, nor on a token-free prefix (white "
        "space of every SPC byte, complete comments) in front; checked on the implementation for damaged spellings too",
    "C01_stream_object_spelled / C01_tree_complete": "proved, FULL for the spelled family: no hypothesis on the scanner state "
        "left - Complete (modeAfter head) is proved by the mode-tracking companion StreamSeam.unit_complete; getobjS on head + "
        "ws + stream + LF|CRLF + any payload + tail + endstream endobj = the stream object, every buffer size",
    "C01_stream_object_spelled_partial": "superseded by C01_stream_object_spelled (kept); proved: the same for the spelled family (ObjSpelling head + spelled dictionary, every "
        "spelling freedom); the token hypothesis is discharged by lex_tree (StreamSeam.head_tokens); partial: only the "
        "Complete-scanner-state hypothesis after the dictionary remains (checked: always main or wclose on 1200 objects/run)",
    "C01_stream_object_partial": "proved at every buffer size: objid gen obj <<dict with direct correct /Length>> + white space "
        "+ stream + LF|CRLF + ANY payload + marker-free tail + endstream endobj -> getobjS yields the stream with exactly that "
        "dictionary and payload; composes C14_compositional, feed_ser/nextobjectP_prefix and C03's Filters.streamRead. "
        "partial: the lexing of the part in front of the keyword (Complete scanner state, token values) is a hypothesis, "
        "checked on every generated object (reader:getobj-streamthm)",
    "C01_context_indep": "proved, full for the tokens: behind a spelled value any white-space/delimiter byte but '>' and then "
                         "ARBITRARY bytes - the token values are ser(value) followed by those of the tail read alone; checked "
                         "on the real tokenizer (reader:context)",
    "C01_concat_feed": "proved: when a ends in a complete token the stack parser fed with the tokens of a ++ ws ++ b is in "
                       "the state reached by feeding the tokens of a, then those of b (uses C14_compositional)",
    "C01_int_token / C01_name_token / C01_string_token (+_eof, _buffered)": "proved: every token-level spelling lexes to "
        "its value from any main-scanner state, at every buffer size",
    "C01_hex_statement": "full statement; FALSE on the code (C01_hex_statement_fails, C01_odd_hex_cex): odd digit "
                         "count, open finding odd-hex-digit; C01_hex_token_partial proved for even counts",
    "C01_hex_token_code / _buffered / C01_hex_code_even": "proved, every digit count: the code reads the digit pairs and a "
        "final odd digit as the LOW nibble (codePairUp) at every buffer size; equal to ISO's reading for even counts - "
        "the open finding is the ONLY deviation of the hex-string reader",
    "C01_nesting": "proved for every clean tree of any depth incl. a bare n g R with any generation (PDFStreamParser: "
                   "flush holds back two trailing integers, PSEOF hand-out)",
    "C01_getobj_nesting / C01_getobj_roundtrip_partial": "proved: n g obj <spelled tree> endobj read by the model of "
        "PDFDocument._getobj_parse + PDFParser.nextobject yields the value (bare reference included), any BUFSIZ, any "
        "separator in front",
    "C01_tokens / C01_roundtrip_partial / C01_roundtrip_buffered_partial / C01_offset_partial": "proved END TO END for "
        "spelled trees (STree) of any depth: every token-level freedom, ANY separator (white space of every kind, "
        "comments, or nothing where a delimiter follows = minimal delimiters, incl. <</K<41>>>), any generation number, "
        "bare n g R, any buffer size, any white space/comments in front; _partial only because of the even hex digit "
        "count (open finding)",
    "C01_spec_complete": "proved: the executable ISO reader Spec/Syntax.spellcheck accepts every well-formed spelled tree "
        "(odd hex included) with exactly the values used in the theorems; ESC_STRING / white space / digit tables of "
        "psparser.py proved equal to the ISO ones on the way",
    "C01_sequence_nesting / C01_sequence_roundtrip_partial": "proved: several top-level objects read by successive "
        "nextobject() calls (held-back integers, PSEOF hand-out) come out exactly once and in order, end to end from the "
        "bytes at every buffer size",
    "not proved": "the converse (everything spellcheck accepts is a spelled tree of the family); the stream hand-off of "
        "PDFParser.do_keyword is modelled (Model/ObjParser.lean) and tied by correspondence only",
}


def _has_feature(f: C.Failure, name: str) -> bool:
    return name in (f.tags.get("min_features") or [])


CLASSIFIERS = {
    # the minimal set of spelling freedoms that still fails is exactly {odd number of hex digits}
    "c01_odd_hex_digit": lambda f: (f.tags.get("min_features") == ["odd_hex"]),
}

SIZES = [1, 2, 3, 4, 5, 6, 7, 8, 9, 4096]
WS = [b" ", b"\t", b"\n", b"\r", b"\f", b"\r\n"]
DELIMS = b"()<>[]{}/%"
REGULAR = bytes(c for c in range(33, 127) if c not in DELIMS and c != 35)
ALL_FEATURES = ["ws_kinds", "nul_ws", "comments", "min_delims", "extra_ws", "int_forms", "real_forms", "name_hash",
                "str_escape", "str_octal", "str_short_octal", "str_continuation", "str_ignored_backslash",
                "str_raw_parens", "hex_case", "hex_ws", "odd_hex", "eof_end"]


# ------------------------------------------------------------------ values

def canon(v) -> str:
    k = v[0]
    if k == "null":
        return "null"
    if k == "bool":
        return "b:1" if v[1] else "b:0"
    if k == "int":
        return "i:%d" % v[1]
    if k == "real":
        return "r:" + real_canon(float(v[1]))
    if k == "str":
        return "s:" + C.hx(v[1])
    if k == "name":
        return "n:" + C.hx(v[1])
    if k == "arr":
        return "[ " + "".join(canon(x) + " " for x in v[1]) + "]"
    if k == "dict":
        items = sorted((kk, vv) for kk, vv in v[1] if vv[0] != "null")
        return "<< " + "".join("n:%s %s " % (C.hx(kk), canon(vv)) for kk, vv in items) + ">>"
    if k == "ref":
        return "R:%d" % v[1]
    raise ValueError(k)


def real_canon(x: float) -> str:
    if x != x or x in (float("inf"), float("-inf")):
        return repr(x)
    return C.frac_str(Fraction(x))


def canon_impl(o) -> str:
    from pdfminer.pdftypes import PDFObjRef
    from pdfminer.psparser import PSKeyword, PSLiteral
    if o is None:
        return "null"
    if o is True:
        return "b:1"
    if o is False:
        return "b:0"
    if isinstance(o, int):
        return "i:%d" % o
    if isinstance(o, float):
        return "r:" + real_canon(o)
    if isinstance(o, bytes):
        return "s:" + C.hx(o)
    if isinstance(o, PSLiteral):
        n = o.name
        return "n:" + C.hx(n.encode("utf-8", "surrogatepass") if isinstance(n, str) else n)
    if isinstance(o, PSKeyword):
        return "k:" + C.hx(o.name)
    if isinstance(o, list):
        return "[ " + "".join(canon_impl(x) + " " for x in o) + "]"
    if isinstance(o, dict):
        items = sorted((k.encode("utf-8", "surrogatepass") if isinstance(k, str) else bytes(k), v) for k, v in o.items())
        return "<< " + "".join("n:%s %s " % (C.hx(k), canon_impl(v)) for k, v in items) + ">>"
    if isinstance(o, PDFObjRef):
        return "R:%d" % o.objid
    from pdfminer.pdftypes import PDFStream
    if isinstance(o, PDFStream):
        return "S:" + canon_impl(o.attrs) + " " + C.hx(o.rawdata or b"")
    return "?:" + type(o).__name__


def norm_spec_line(line: str) -> str:
    """Lean prints reals as exact p/q of the decimal text; round like Python's float()."""
    if "r:" not in line:
        return line
    out = []
    for w in line.split(" "):
        if w.startswith("r:"):
            try:
                w = "r:" + real_canon(float(Fraction(w[2:])))
            except (ValueError, ZeroDivisionError, OverflowError):
                pass
        out.append(w)
    return " ".join(out)


def gen_bytes(rng, maxlen=8, lo=0) -> bytes:
    n = rng.choice([0, 1, 1, 2, 3, 5, maxlen])
    pool = [b"()\\\r\n\t\b\f", b"0123456789", b"abcXYZ", bytes(range(lo, 32)), bytes(range(127, 256)), b"#/%<>[]{} "]
    out = bytearray()
    for _ in range(n):
        p = rng.choice(pool)
        if p:
            out.append(rng.choice(p))
    return bytes(out)


def gen_paren_bytes(rng, depth: int) -> bytes:
    """bytes with balanced (and sometimes a stray) parentheses, digits after them, backslashes"""
    out = bytearray()
    for _ in range(rng.randint(1, 4)):
        r = rng.random()
        if r < 0.4 and depth > 0:
            out += b"(" + gen_paren_bytes(rng, depth - 1) + b")"
        elif r < 0.5:
            out += rng.choice([b"(", b")", b"\\", b"\r", b"\n"])
        else:
            out.append(rng.choice(b"ab017 \n"))
    return bytes(out)


def gen_key(rng) -> bytes:
    # valid UTF-8 keys: ASCII incl. delimiters/white space (written with #xx), or a two-byte sequence
    n = rng.randint(0, 4)
    out = bytearray()
    for _ in range(n):
        if rng.random() < 0.1:
            out += "é".encode()
        else:
            out.append(rng.choice(b"ABCabc019#/% ()_-.+") if rng.random() < 0.9 else rng.randint(1, 127))
    return bytes(out)


def gen_scalar(rng, kind=None):
    kind = kind or rng.choice(["null", "bool", "int", "real", "str", "name", "hexstr"])
    if kind == "null":
        return ("null",)
    if kind == "bool":
        return ("bool", rng.random() < 0.5)
    if kind == "int":
        return ("int", rng.choice([0, 1, -1, 7, -42, 255, 65536, 2 ** 31, -2 ** 63, 10 ** rng.randint(0, 30),
                                   rng.randint(-10 ** 6, 10 ** 6)]))
    if kind == "real":
        digs = rng.randint(0, 6)
        num = rng.randint(-10 ** rng.randint(0, 8), 10 ** rng.randint(0, 8))
        return ("real", Fraction(num, 10 ** digs), digs)
    if kind in ("str", "hexstr"):
        if kind == "str" and rng.random() < 0.3:
            return ("str", gen_paren_bytes(rng, 3), False)
        return ("str", gen_bytes(rng), kind == "hexstr")
    if kind == "name":
        return ("name", gen_bytes(rng, lo=1))
    raise ValueError(kind)


def gen_tree(rng, depth: int, budget: List[int]):
    budget[0] -= 1
    r = rng.random()
    if depth <= 0 or budget[0] <= 0 or r < 0.45:
        if rng.random() < 0.1 and depth < 5:
            return ("ref", rng.randint(1, 99999), rng.choice([0, 0, 1, 65535]))
        return gen_scalar(rng)
    if r < 0.75:
        return ("arr", [gen_tree(rng, depth - 1, budget) for _ in range(rng.randint(0, 5))])
    keys: Set[bytes] = set()
    items = []
    for _ in range(rng.randint(0, 4)):
        k = gen_key(rng)
        if k in keys:
            continue
        keys.add(k)
        items.append((k, gen_tree(rng, depth - 1, budget)))
    return ("dict", items)


def has_ref(v) -> bool:
    if v[0] == "ref":
        return True
    if v[0] == "arr":
        return any(has_ref(x) for x in v[1])
    if v[0] == "dict":
        return any(has_ref(x) for _, x in v[1])
    return False


def subtrees(v):
    if v[0] == "arr":
        for x in v[1]:
            yield x
            yield from subtrees(x)
    elif v[0] == "dict":
        for _, x in v[1]:
            yield x
            yield from subtrees(x)


def size(v) -> int:
    return 1 + sum(size(x) for x in subtrees(v)) if v[0] in ("arr", "dict") else 1


# ------------------------------------------------------------------ speller

class Speller:
    """Writes a value using the conformant freedoms listed in `feats` (chosen with rng).
    `used` collects the freedoms actually exercised."""

    def __init__(self, rng, feats: Sequence[str]):
        self.rng = rng
        self.feats = set(feats)
        self.used: Set[str] = set()

    def on(self, f: str, p: float = 0.5) -> bool:
        if f in self.feats and self.rng.random() < p:
            self.used.add(f)
            return True
        return False

    # -- white space and comments
    def ws1(self) -> bytes:
        if self.on("comments", 0.15):
            body = bytes(self.rng.choice(b"abc %()<>[]/\\\x00\xff#") for _ in range(self.rng.randint(0, 4)))
            return b"%" + body + self.rng.choice([b"\n", b"\r", b"\r\n"])
        if self.on("nul_ws", 0.15):
            return b"\x00"
        if self.on("ws_kinds", 0.5):
            return self.rng.choice(WS)
        return b" "

    def gap(self, required: bool) -> bytes:
        if required:
            if self.on("extra_ws", 0.3):
                return b"".join(self.ws1() for _ in range(self.rng.randint(2, 3)))
            return self.ws1()
        if self.on("min_delims", 0.5):
            return b""
        if self.on("extra_ws", 0.3):
            return b"".join(self.ws1() for _ in range(self.rng.randint(2, 3)))
        return b" "

    # -- scalars
    def integer(self, n: int) -> bytes:
        s = str(abs(n)).encode()
        if self.on("int_forms", 0.4):
            s = b"0" * self.rng.randint(1, 3) + s
        if n < 0:
            return b"-" + s
        if n == 0 and self.on("int_forms", 0.2):
            return b"-" + s
        if self.on("int_forms", 0.3):
            return b"+" + s
        return s

    def real(self, fr: Fraction, digs: int) -> bytes:
        num = abs(fr.numerator * (10 ** digs) // fr.denominator)
        s = str(num).rjust(digs + 1, "0")
        ip, fp = (s[:-digs], s[-digs:]) if digs else (s, "")
        if self.on("real_forms", 0.4):
            ip = "0" * self.rng.randint(1, 2) + ip
        if self.on("real_forms", 0.4):
            fp = fp + "0" * self.rng.randint(1, 3)
        if ip.strip("0") == "" and fp != "" and self.on("real_forms", 0.5):
            ip = ""            # .5
        sign = ""
        if fr < 0:
            sign = "-"
        elif self.on("real_forms", 0.25):
            sign = "+"
        elif fr == 0 and self.on("real_forms", 0.1):
            sign = "-"
        return (sign + ip + "." + fp).encode()

    def name(self, b: bytes) -> bytes:
        out = bytearray(b"/")
        for c in b:
            if c in REGULAR and not self.on("name_hash", 0.25):
                out.append(c)
            else:
                if c not in REGULAR:
                    self.used.add("name_hash")
                out += (b"#%02X" if self.rng.random() < 0.5 else b"#%02x") % c
        return bytes(out)

    def hexstring(self, b: bytes) -> bytes:
        digs = bytearray()
        for c in b:
            digs += (b"%02X" if self.on("hex_case", 0.5) else b"%02x") % c
        if b and b[-1] & 15 == 0 and self.on("odd_hex", 0.6):
            digs = digs[:-1]
        out = bytearray(b"<")
        for d in digs:
            if self.on("hex_ws", 0.15):
                out += self.hexws()
            out.append(d)
        if self.on("hex_ws", 0.2):
            out += self.hexws()
        return bytes(out) + b">"

    def hexws(self) -> bytes:
        if self.on("nul_ws", 0.3):
            return b"\x00"
        return self.rng.choice(WS)

    def string(self, b: bytes) -> bytes:
        # which parentheses may stay raw: matched pairs
        stack, match = [], {}
        for i, c in enumerate(b):
            if c == 40:
                stack.append(i)
            elif c == 41 and stack:
                j = stack.pop()
                match[i], match[j] = j, i
        raw_pair = set()
        for i, j in match.items():
            if i < j and self.on("str_raw_parens", 0.6):
                raw_pair.add(i)
                raw_pair.add(j)
        esc = {10: b"n", 13: b"r", 9: b"t", 8: b"b", 12: b"f", 40: b"(", 41: b")", 92: b"\\"}
        out = bytearray(b"(")
        after_cr_cont = False
        n = len(b)
        for i, c in enumerate(b):
            if self.on("str_continuation", 0.12):
                eol = self.rng.choice([b"\r", b"\n", b"\r\n"])
                out += b"\\" + eol
                after_cr_cont = eol == b"\r"
            nxt_digit = i + 1 < n and 48 <= b[i + 1] <= 55
            piece = None
            must_escape = c in (40, 41, 92, 13) and i not in raw_pair
            if c == 10 and after_cr_cont:
                must_escape = True
            if i in raw_pair:
                piece = bytes([c])
            elif not must_escape and not (c in esc and self.on("str_escape", 0.5)) and not self.on("str_octal", 0.15):
                if (c not in esc and not (48 <= c <= 55) and c not in (10, 13) and c not in b"nrtbf"
                        and self.on("str_ignored_backslash", 0.15)):
                    piece = b"\\" + bytes([c])          # backslash before an ordinary byte is ignored
                else:
                    piece = bytes([c])
            elif c in esc and not self.on("str_octal", 0.3):
                piece = b"\\" + esc[c]
                self.used.add("str_escape")
            else:
                self.used.add("str_octal")
                o = b"%o" % c
                if len(o) < 3 and (nxt_digit or not self.on("str_short_octal", 0.6)):
                    o = o.rjust(3, b"0")
                # a short octal must not be followed by an octal digit spelled raw: nxt_digit handles the data byte,
                # a following escape starts with a backslash, and the closing parenthesis is not a digit
                piece = b"\\" + o
            out += piece
            after_cr_cont = False
        if self.on("str_continuation", 0.1):
            out += b"\\" + self.rng.choice([b"\n", b"\r\n", b"\r"])
        return bytes(out) + b")"

    # -- trees; returns (bytes, first_is_regular, last_is_regular)
    def spell(self, v) -> bytes:
        k = v[0]
        if k == "null":
            return b"null"
        if k == "bool":
            return b"true" if v[1] else b"false"
        if k == "int":
            return self.integer(v[1])
        if k == "real":
            return self.real(v[1], v[2])
        if k == "str":
            if len(v) > 2 and v[2]:
                return self.hexstring(v[1])
            return self.string(v[1])
        if k == "name":
            return self.name(v[1])
        if k == "ref":
            return b"%d" % v[1] + self.gap(True) + b"%d" % v[2] + self.gap(True) + b"R"
        if k == "arr":
            parts = [self.spell(x) for x in v[1]]
            return self.join(b"[", parts, b"]")
        if k == "dict":
            parts = []
            for kk, vv in v[1]:
                parts.append(self.name(kk))
                parts.append(self.spell(vv))
            return self.join(b"<<", parts, b">>")
        raise ValueError(k)

    def join(self, op: bytes, parts: List[bytes], cl: bytes) -> bytes:
        out = bytearray(op)
        prev = op
        for p in parts + [cl]:
            need = prev[-1:] not in b"()<>[]{}" and p[:1] not in b"()<>[]{}/%" and prev[-1] not in b" \t\r\n\f\x00"
            out += self.gap(bool(need))
            out += p
            prev = p
        return bytes(out)


def ends_regular(s: bytes) -> bool:
    return s[-1:] not in b"()<>[]{}"


# ------------------------------------------------------------------ readers (implementation)

def read_stream(data: bytes, bufsiz: int) -> str:
    from pdfminer.pdfparser import PDFStreamParser
    from pdfminer.psparser import PSBaseParser, PSEOF
    old = PSBaseParser.BUFSIZ
    PSBaseParser.BUFSIZ = bufsiz
    out = []
    try:
        p = PDFStreamParser(data)
        try:
            while True:
                _, o = p.nextobject()
                out.append(canon_impl(o))
        except PSEOF:
            pass
        except BaseException as e:  # noqa: BLE001
            if isinstance(e, LEX.Watchdog):
                raise
            out.append("!" + type(e).__name__)
    finally:
        PSBaseParser.BUFSIZ = old
    return " | ".join(out) if out else "<nothing>"


def getobj_pdf(spelling: bytes, eol: bytes, pad: bytes) -> Tuple[bytes, int]:
    """(file, offset of object 5 as recorded in its cross-reference table)"""
    objs = {1: {"Type": "Catalog", "Pages": W.Ref(2)}, 2: {"Type": "Pages", "Kids": [], "Count": 0},
            5: W.Raw(pad + spelling)}
    pdf = W.build_pdf(objs, 1, eol=eol)
    return pdf, pdf.index(b"5 0 obj")


def read_getobj(spelling: bytes, bufsiz: int, eol: bytes, pad: bytes) -> str:
    from pdfminer.pdfdocument import PDFDocument
    from pdfminer.pdfparser import PDFParser
    from pdfminer.psparser import PSBaseParser
    pdf, _ = getobj_pdf(spelling, eol, pad)
    old = PSBaseParser.BUFSIZ
    PSBaseParser.BUFSIZ = bufsiz
    try:
        try:
            doc = PDFDocument(PDFParser(BytesIO(pdf)))
            return canon_impl(doc.getobj(5))
        except BaseException as e:  # noqa: BLE001
            if isinstance(e, LEX.Watchdog):
                raise
            return "!" + type(e).__name__
    finally:
        PSBaseParser.BUFSIZ = old


# ------------------------------------------------------------------ one case

def make_pad(rng, n: int) -> bytes:
    out = bytearray()
    while len(out) < n:
        if n - len(out) >= 3 and rng.random() < 0.2:
            out += b"%c\n"
        else:
            out += rng.choice([b" ", b"\n", b"\r", b"\t", b"\x00", b"\f"])
    return bytes(out[:n])


class Case:
    def __init__(self, value, spelling: bytes, used: Sequence[str], reader: str, bufsiz: int, pad: bytes,
                 trail: bytes, eol: bytes = b"\n"):
        self.value, self.spelling, self.used = value, spelling, sorted(used)
        self.reader, self.bufsiz, self.pad, self.trail, self.eol = reader, bufsiz, pad, trail, eol

    def data(self) -> bytes:
        return self.pad + self.spelling + self.trail

    def run(self) -> str:
        if self.reader == "stream":
            return read_stream(self.data(), self.bufsiz)
        return read_getobj(self.spelling + self.trail, self.bufsiz, self.eol, self.pad)

    def to_json(self) -> Dict[str, Any]:
        return {"spelling": self.spelling.hex(), "ascii": repr(self.spelling), "expected": canon(self.value),
                "reader": self.reader, "bufsiz": self.bufsiz, "pad": self.pad.hex(), "trail": self.trail.hex(),
                "eol": self.eol.hex(), "features": self.used}


def from_json(j) -> Tuple[bytes, str, str, int, bytes, bytes, bytes]:
    return (bytes.fromhex(j["spelling"]), j["expected"], j.get("reader", "stream"), int(j.get("bufsiz", 4096)),
            bytes.fromhex(j.get("pad", "")), bytes.fromhex(j.get("trail", "20")), bytes.fromhex(j.get("eol", "0a")))


def make_case(rng, value, feats: Sequence[str], reader: Optional[str] = None) -> Case:
    sp = Speller(rng, feats)
    s = sp.spell(value)
    reader = reader or ("getobj" if rng.random() < (0.5 if value[0] == "ref" else 0.12) else "stream")
    pad = make_pad(rng, rng.choice([0, 0, 1, 2, 3, 7, 8, 9, rng.randint(0, 70)]))
    if reader == "stream" and ends_regular(s) and sp.on("eof_end", 0.15):
        trail = b""
    elif ends_regular(s):
        trail = sp.ws1()
    else:
        trail = rng.choice([b"", b" ", b"\n"]) if reader == "stream" else sp.ws1()
    bufsiz = rng.choice(SIZES)
    return Case(value, s, sp.used, reader, bufsiz, pad, trail, rng.choice([b"\n", b"\r\n", b"\r"]))


def shrink_failure(ctx: C.Ctx, case: Case, got: str) -> Tuple[Case, str, List[str]]:
    """Smaller tree first (subtrees), then the smallest set of spelling freedoms that still fails."""
    import random
    best, best_got = case, got

    def fails(value, feats, reader, tries=12) -> Optional[Tuple[Case, str]]:
        for t in range(tries):
            r = random.Random("shrink/%d/%s" % (t, canon(value)))
            c2 = make_case(r, value, feats, reader)
            g = c2.run()
            if g != canon(value):
                return c2, g
        return None

    feats = list(best.used)
    changed = True
    while changed:
        changed = False
        for sub in sorted(subtrees(best.value), key=size):
            r = fails(sub, feats, best.reader)
            if r is not None:
                best, best_got = r
                changed = True
                break
    # minimal feature set
    feats = list(best.used)
    for f in list(feats):
        trial = [x for x in feats if x != f]
        r = fails(best.value, trial, best.reader, tries=25)
        if r is not None:
            feats = trial
            best, best_got = r
    return best, best_got, sorted(set(best.used) & set(feats)) if feats else []


class Batch:
    def __init__(self, ctx: C.Ctx):
        self.ctx = ctx
        self.req: List[str] = []
        self.exp: List[Tuple[str, Any, str]] = []

    def add(self, line: str, op: str, inp: Any, expected: str) -> None:
        self.req.append(line)
        self.exp.append((op, inp, expected))
        if op == "model.getobj":
            # the same read with the stream branch delegated to C03's `Filters.streamRead` (ObjParser.getobjS)
            self.req.append("model.getobjS" + line[len("model.getobj"):])
            self.exp.append(("model.getobjS", inp, expected))

    def flush(self) -> None:
        if self.req and self.ctx.driver is not None:
            outs = self.ctx.driver.ask(self.req)
            for (op, inp, exp), m in zip(self.exp, outs):
                m2 = norm_spec_line(m)
                if m2.endswith("!unmodelled"):
                    self.ctx.branch("model:unmodelled")
                    continue
                if m2 != exp:
                    self.ctx.disagree(op, inp, exp, m2)
        self.req, self.exp = [], []


def check_case(ctx: C.Ctx, batch: Batch, case: Case, origin: str, seen_fail: Set[str]) -> None:
    exp = canon(case.value)
    got = case.run()
    straddle = case.bufsiz < len(case.spelling)
    ctx.case((case.data(), case.reader, case.bufsiz), bool(case.used) or straddle,
             sample=case.to_json(), branch="reader:" + case.reader)
    ctx.branch("kind:" + case.value[0])
    ctx.branch("bufsiz:%d" % case.bufsiz)
    for f in case.used:
        ctx.branch("feat:" + f)
    if got != exp:
        key = ",".join(case.used) + "/" + case.reader
        ctx.branch("fail")
        if key in seen_fail or len(seen_fail) > 12:
            return
        seen_fail.add(key)
        small, sgot, minf = shrink_failure(ctx, case, got)
        ctx.fail(C.Failure("a conformant spelling does not read back as its value (%s)" % ",".join(minf or ["plain"]),
                           small.to_json(), canon(small.value), sgot,
                           {"min_features": minf, "reader": small.reader, "bufsiz": small.bufsiz,
                            "kind": small.value[0]}))
        return
    # the Lean spec reader must accept the spelling and denote the same value
    batch.add("spec.spell " + C.hx(case.spelling), "spec.spell", case.to_json(), exp)
    if case.reader == "stream":
        batch.add("model.obj %d %s" % (case.bufsiz, C.hx(case.data())), "model.obj", case.to_json(), got)
    else:
        pdf, off = getobj_pdf(case.spelling + case.trail, case.eol, case.pad)
        batch.add("model.getobj %d 5 %s" % (case.bufsiz, C.hx(pdf[off:])), "model.getobj", case.to_json(), got)


# ------------------------------------------------------------------ run

def enumerate_features(rng):
    """Every scalar kind x every feature alone, a few times (so each freedom is hit in every run)."""
    for kind in ["null", "bool", "int", "real", "str", "hexstr", "name"]:
        for f in ALL_FEATURES:
            for _ in range(3):
                yield gen_scalar(rng, kind), [f]
    for f in ALL_FEATURES:
        for _ in range(3):
            yield gen_tree(rng, 3, [15]), [f]


def run_corpus(ctx: C.Ctx, batch: Batch, seen: Set[str]) -> None:
    for path in sorted(glob.glob(os.path.join(C.VERIF, "corpus", "C01", "*.json"))):
        with open(path) as fp:
            doc = json.load(fp)
        replay(ctx, doc, batch=batch, origin="corpus", seen=seen)


def replay(ctx: C.Ctx, doc, batch: Optional[Batch] = None, origin: str = "replay", seen: Optional[Set[str]] = None):
    own = batch is None
    batch = batch or Batch(ctx)
    if "pdf" in doc.get("input", {}):
        replay_multi(ctx, doc)
        return
    spelling, exp, reader, bufsiz, pad, trail, eol = from_json(doc["input"])
    feats = doc["input"].get("features", [])
    sizes = [bufsiz] if origin == "replay" else SIZES
    for b in sizes:
        got = read_stream(pad + spelling + trail, b) if reader == "stream" else read_getobj(spelling + trail, b, eol, pad)
        ctx.case((spelling, reader, b, pad), True, sample=doc["input"], branch="origin:" + origin)
        if got != exp:
            ctx.fail(C.Failure("a conformant spelling does not read back as its value (%s)" % ",".join(feats or ["plain"]),
                               dict(doc["input"], bufsiz=b), exp, got,
                               {"min_features": feats, "reader": reader, "bufsiz": b}))
            break
    if "sequence" in feats:
        if "k:" not in exp:
            batch.add("spec.seq " + C.hx(spelling), "spec.seq", doc["input"], exp)
    else:
        batch.add("spec.spell " + C.hx(spelling), "spec.spell", doc["input"], exp)
    if own:
        batch.flush()


def replay_multi(ctx: C.Ctx, doc) -> None:
    from pdfminer.pdfdocument import PDFDocument
    from pdfminer.pdfparser import PDFParser
    from pdfminer.psparser import PSBaseParser
    inp = doc["input"]
    pdf = bytes.fromhex(inp["pdf"])
    old = PSBaseParser.BUFSIZ
    PSBaseParser.BUFSIZ = int(inp["bufsiz"])
    try:
        d = PDFDocument(PDFParser(BytesIO(pdf)))
        got = None
        for pos_, i in enumerate(inp["order"]):
            try:
                g = canon_impl(d.getobj(5 + i))
            except BaseException as e:  # noqa: BLE001
                g = "!" + type(e).__name__
            if pos_ == inp["fetch"]:
                got = g
    finally:
        PSBaseParser.BUFSIZ = old
    ctx.case((pdf, "replay-multi"), True, branch="origin:replay")
    if got != doc["expected"]:
        ctx.fail(C.Failure(doc.get("what", "multi getobj"), inp, doc["expected"], got,
                           {"min_features": ["multi_getobj"], "reader": "getobj"}))


def run(ctx: C.Ctx) -> None:
    import signal
    old = signal.signal(signal.SIGALRM, LEX._alarm)
    signal.setitimer(signal.ITIMER_REAL, 1400 if ctx.tier == "thorough" else 170)
    try:
        _run(ctx)
    except LEX.Watchdog:
        ctx.fail(C.Failure("reader did not terminate within the watchdog", {}, "termination", "timeout",
                           {"min_features": ["timeout"]}))
    finally:
        signal.setitimer(signal.ITIMER_REAL, 0)
        signal.signal(signal.SIGALRM, old)


def _run(ctx: C.Ctx) -> None:
    rng = ctx.rng
    batch = Batch(ctx)
    seen: Set[str] = set()
    run_corpus(ctx, batch, seen)
    for value, feats in enumerate_features(rng):
        for _ in range(2):
            check_case(ctx, batch, make_case(rng, value, feats), "enum", seen)
    for _ in range(60):
        check_sequence(ctx, batch, rng, seen)
    for i in range(ctx.n(12000, 400000)):
        if not ctx.time_left():
            break
        value = gen_tree(rng, rng.randint(0, 5), [40])
        k = rng.random()
        feats = ALL_FEATURES if k < 0.6 else rng.sample(ALL_FEATURES, rng.randint(0, 4))
        check_case(ctx, batch, make_case(rng, value, feats), "random", seen)
        if i % 4 == 0:
            check_mutant(ctx, batch, make_case(rng, value, feats, "stream"), rng)
        if i % 10 == 0:
            check_stream_object(ctx, batch, rng)
            check_stream_theorem(ctx, batch, rng)
        if i % 5 == 0:
            check_context(ctx, make_case(rng, value, feats, "stream"), rng)
        if i % 3 == 0:
            check_sequence(ctx, batch, rng, seen)
        if i % 12 == 0:
            check_multi_getobj(ctx, batch, rng, seen)
        if len(batch.req) > 100000:
            batch.flush()
    batch.flush()


def check_context(ctx: C.Ctx, case: Case, rng) -> None:
    """C01_context_indep on the real tokenizer: behind a conformant spelling, any white-space / delimiter byte but `>`
    and then ARBITRARY bytes - the token values are those of the spelling followed by those of the tail alone."""
    def values(line: str) -> List[str]:
        return [w.split(":", 1)[1] for w in line.split(" ") if w != "$" and not w.startswith("!")]
    sp = case.spelling
    d = bytes([rng.choice(b"\x00\t\n\x0c\r ()<[]{}/%")])
    tail = d + bytes(rng.choice(b"()<>[]{}/%#\\ \r\n\x0001a.RtrueG\xff") for _ in range(rng.randint(0, 12)))
    whole = LEX.impl_lex(sp + tail, rng.choice([1, 2, 3, 7, 4096]))
    ctx.case((sp, "context", tail), True, branch="reader:context")
    if whole.rsplit(" ", 1)[-1].startswith("!"):
        ctx.branch("context:exception")
        return
    parts = values(LEX.impl_lex(sp, 4096)) + values(LEX.impl_lex(tail, 4096))
    if parts != values(whole):
        ctx.disagree("impl.context", {"spelling": sp.hex(), "tail": tail.hex()}, " ".join(values(whole)), " ".join(parts))


def check_stream_object(ctx: C.Ctx, batch: Batch, rng) -> None:
    """The stream hand-off of PDFParser.do_keyword (tie only): `<< /Length n ... >> stream EOL data EOL endstream`."""
    n = rng.choice([0, 1, 2, 5, 17, 40])
    data = bytes(rng.choice(b"ab \r\n\x00endstream()<>/%") for _ in range(n))
    if rng.random() < 0.15:
        data += b"endstream"[: rng.randint(1, 9)] + b"x"
    length = rng.choice([n, n, n, n, max(0, n - rng.randint(1, 3)), n + rng.randint(1, 12), None])
    sp = Speller(rng, rng.sample(ALL_FEATURES, rng.randint(0, 5)))
    items = []
    if length is not None:
        items.append((b"Length", ("int", length)))
    for _ in range(rng.randint(0, 2)):
        k = gen_key(rng)
        if k and k != b"Length" and all(k != kk for kk, _ in items):
            items.append((k, gen_scalar(rng)))
    rng.shuffle(items)
    head = sp.spell(("dict", items))
    eol1 = rng.choice([b"\n", b"\r\n", b"\r", b" \n"])
    eol2 = rng.choice([b"\n", b"\r\n", b"", b"\r"])
    body = head + sp.gap(False) + b"stream" + eol1 + data + eol2 + b"endstream" + rng.choice([b"\n", b" ", b"\r\n"])
    bufsiz = rng.choice(SIZES)
    eol = rng.choice([b"\n", b"\r\n"])
    got = read_getobj(body, bufsiz, eol, b"")
    pdf, off = getobj_pdf(body, eol, b"")
    ctx.case((body, "stream-object", bufsiz), True, branch="reader:getobj-streamobj",
             sample={"object": repr(body), "bufsiz": bufsiz})
    batch.add("model.getobj %d 5 %s" % (bufsiz, C.hx(pdf[off:])), "model.getobj",
              {"object": body.hex(), "ascii": repr(body), "bufsiz": bufsiz, "eol": eol.hex()}, got)


def check_stream_theorem(ctx: C.Ctx, batch: Batch, rng) -> None:
    """Objects of exactly the shape of `C01_stream_object_partial`: spelled dictionary with a direct, correct /Length,
    non-empty white space, `stream`, LF|CRLF, ANY payload bytes, a marker-free tail, `endstream endobj`.  On the
    implementation: the scanner state after `5 0 obj <<dict>>` is a `Complete` one (hypothesis `hc`, checked here, not
    proved for the family) and getobj returns a stream with exactly the payload; `model.getobj` / `model.getobjS` tied."""
    n = rng.choice([0, 1, 2, 5, 17, 40])
    kind = rng.random()
    if kind < 0.5:
        data = bytes(rng.randrange(256) for _ in range(n))
    else:
        data = bytes(rng.choice(b"ab \r\n\x00endstream()<>/%") for _ in range(n))
        if rng.random() < 0.3:
            data += b"\nendstream endobj\n"[: rng.randint(1, 18)]
    sp = Speller(rng, rng.sample(ALL_FEATURES, rng.randint(0, 5)))
    items = [(b"Length", ("int", len(data)))]
    for _ in range(rng.randint(0, 2)):
        k = gen_key(rng)
        if k and k != b"Length" and all(k != kk for kk, _ in items):
            items.append((k, gen_scalar(rng)))
    rng.shuffle(items)
    head = sp.spell(("dict", items))
    ws = bytes(rng.choice(b"\x00\t\n\x0c\r ") for _ in range(rng.randint(1, 3)))
    tail = rng.choice([b"", b"\n", b"\r\n", b" x\n", b"\rends "])
    body = head + ws + b"stream" + rng.choice([b"\n", b"\r\n"]) + data + tail + b"endstream endobj"
    bufsiz = rng.choice(SIZES)
    eol = rng.choice([b"\n", b"\r\n"])
    got = read_getobj(body, bufsiz, eol, b"")
    pdf, off = getobj_pdf(body, eol, b"")
    p = pdf[off:]
    pre = p[: p.index(head) + len(head)]
    mode = LEX.impl_mode_after(pre)
    ctx.case((body, "stream-theorem", bufsiz), True, branch="reader:getobj-streamthm",
             sample={"object": repr(body)[:200], "bufsiz": bufsiz, "mode_after_dict": mode, "result": got[:120]})
    ctx.branch("streamthm:pre-" + mode)
    inp = {"object": body.hex(), "ascii": repr(body), "bufsiz": bufsiz, "eol": eol.hex()}
    if mode not in LEX.COMPLETE_MODES:
        ctx.disagree("impl.stream-pre", inp, "a Complete scanner after the dictionary", mode)
    if not (got.startswith("S:") and got.endswith(">> " + C.hx(data))):
        ctx.disagree("impl.stream-object", inp, "S:<< ... >> " + C.hx(data), got)
    batch.add("model.getobj %d 5 %s" % (bufsiz, C.hx(p)), "model.getobj", inp, got)


def check_multi_getobj(ctx: C.Ctx, batch: Batch, rng, seen_fail: Set[str]) -> None:
    """Several indirect objects of ONE document fetched in arbitrary order (some twice) through the same
    PDFDocument / PDFParser: the parser is re-positioned by seek() for every object, so tokenizer and operand
    stack state left over from the previous object must not leak into the next one."""
    from pdfminer.pdfdocument import PDFDocument
    from pdfminer.pdfparser import PDFParser
    from pdfminer.psparser import PSBaseParser
    k = rng.choice([2, 3, 3])
    vals = [gen_tree(rng, rng.randint(0, 3), [15]) for _ in range(k)]
    feats = rng.sample(ALL_FEATURES, rng.randint(0, 6))
    feats = [f for f in feats if f not in ("odd_hex", "eof_end")]
    sp = Speller(rng, feats)
    spellings = []
    for v in vals:
        sx = sp.spell(v)
        # some objects end in the middle of what would be a token for a tokenizer that is not reset
        trail = sp.ws1()
        spellings.append(sx + trail)
    eol = rng.choice([b"\n", b"\r\n"])
    objs = {1: {"Type": "Catalog", "Pages": W.Ref(2)}, 2: {"Type": "Pages", "Kids": [], "Count": 0}}
    for i, sx in enumerate(spellings):
        objs[5 + i] = W.Raw(sx)
    pdf = W.build_pdf(objs, 1, eol=eol)
    order = [rng.randrange(k) for _ in range(k + 2)]
    bufsiz = rng.choice(SIZES)
    old = PSBaseParser.BUFSIZ
    PSBaseParser.BUFSIZ = bufsiz
    got = []
    try:
        try:
            doc = PDFDocument(PDFParser(BytesIO(pdf)))
            doc.caching = rng.random() < 0.5
            for i in order:
                try:
                    got.append(canon_impl(doc.getobj(5 + i)))
                except BaseException as e:  # noqa: BLE001
                    if isinstance(e, LEX.Watchdog):
                        raise
                    got.append("!" + type(e).__name__)
        except BaseException as e:  # noqa: BLE001
            if isinstance(e, LEX.Watchdog):
                raise
            got = ["!" + type(e).__name__] * len(order)
    finally:
        PSBaseParser.BUFSIZ = old
    ctx.case((pdf, tuple(order), bufsiz), True, branch="reader:getobj-multi",
             sample={"objects": [repr(x) for x in spellings], "order": order, "bufsiz": bufsiz})
    for pos_, i in enumerate(order):
        exp = canon(vals[i])
        if got[pos_] != exp:
            ctx.branch("fail")
            key = "multi-getobj"
            if key in seen_fail:
                return
            seen_fail.add(key)
            ctx.fail(C.Failure("an object fetched after other objects of the same document does not read back as its value",
                               {"pdf": pdf.hex(), "order": order, "objects": [x.hex() for x in spellings],
                                "ascii": [repr(x) for x in spellings], "bufsiz": bufsiz, "fetch": pos_},
                               exp, got[pos_], {"min_features": ["multi_getobj"] + sorted(sp.used), "reader": "getobj",
                                                "bufsiz": bufsiz, "kind": "multi"}))
            return
    for i, sx in enumerate(spellings):
        off = pdf.index(b"%d 0 obj" % (5 + i))
        batch.add("model.getobj %d %d %s" % (bufsiz, 5 + i, C.hx(pdf[off:])), "model.getobj",
                  {"object": sx.hex(), "ascii": repr(sx), "bufsiz": bufsiz}, canon(vals[i]))


OPERATORS = [b"cm", b"Tj", b"re", b"BT", b"ET", b"q", b"Q", b"Do", b"TJ", b"gs", b"W*", b"b*", b"'", b'"', b"BDC"]


def gen_sequence(rng) -> List[Any]:
    """Several top-level objects in a row, as in a content or object stream: the reader is called again and
    again and carries its operand stack / results queue from one call to the next.  Integer-heavy, with every
    kind of ending (0..3 trailing integers, a reference, an operator, a container)."""
    n = rng.choice([1, 2, 2, 3, 3, 4, 6, 9])
    out = []
    for _ in range(n):
        r = rng.random()
        if r < 0.45:
            out.append(("int", rng.choice([0, 1, 2, 3, 7, 65535, -4, rng.randint(-999, 99999)])))
        elif r < 0.55:
            out.append(("ref", rng.randint(1, 999), rng.choice([0, 0, 3])))
        elif r < 0.65:
            out.append(("op", rng.choice(OPERATORS)))
        elif r < 0.8:
            out.append(gen_tree(rng, 2, [8]))
        else:
            out.append(gen_scalar(rng))
    tail = rng.random()
    if tail < 0.35:
        out += [("int", rng.randint(0, 9)) for _ in range(rng.choice([1, 2, 2, 3]))]
    elif tail < 0.45:
        out.append(("ref", rng.randint(1, 99), 0))
    elif tail < 0.55:
        out.append(("op", rng.choice(OPERATORS)))
    return out


def canon_seq(values) -> str:
    return " | ".join("k:" + C.hx(v[1]) if v[0] == "op" else canon(v) for v in values) if values else "<nothing>"


def spell_sequence(sp: "Speller", values) -> bytes:
    parts = [v[1] if v[0] == "op" else sp.spell(v) for v in values]
    out = bytearray()
    prev = b"["          # a delimiter: nothing is required in front of the first object
    for p_ in parts:
        need = prev[-1:] not in b"()<>[]{}" and p_[:1] not in b"()<>[]{}/%"
        if p_[:1] in (b"'", b'"') or prev[-1:] in (b"'", b'"', b"*"):
            need = True                       # these operators are runs of regular characters as well
        out += sp.gap(bool(need)) if out else b""
        out += p_
        prev = p_
    return bytes(out)


def run_sequence(values, feats, rng_seed: str, plain: bool = False):
    import random
    r = random.Random(rng_seed)
    sp = Speller(r, feats)
    data = spell_sequence(sp, values)
    pad = b"" if plain else make_pad(r, r.choice([0, 0, 1, 3, 8, r.randint(0, 40)]))
    trail = b"" if plain else r.choice([b"", b"", b" ", b"\n", b"%c\n", b"\r\n "])
    bufsiz = 4096 if plain and r.random() < 0.5 else r.choice(SIZES)
    full = pad + data + trail
    return full, bufsiz, sorted(sp.used), read_stream(full, bufsiz)


def check_sequence(ctx: C.Ctx, batch: Batch, rng, seen_fail: Set[str]) -> None:
    values = gen_sequence(rng)
    feats = ALL_FEATURES if rng.random() < 0.5 else rng.sample(ALL_FEATURES, rng.randint(0, 3))
    feats = [f for f in feats if f not in ("odd_hex", "eof_end")]
    seed = "seq/%d" % rng.getrandbits(48)
    full, bufsiz, used, got = run_sequence(values, feats, seed)
    exp = canon_seq(values)
    ints_at_end = 0
    for v in reversed(values):
        if v[0] != "int":
            break
        ints_at_end += 1
    ctx.case((full, "sequence", bufsiz), len(values) > 1, branch="reader:sequence",
             sample={"data": full.hex(), "ascii": repr(full), "expected": exp, "bufsiz": bufsiz})
    ctx.branch("seq:trailing-ints:%d" % min(ints_at_end, 3))
    ctx.branch("seq:len:%d" % min(len(values), 6))
    if got != exp:
        ctx.branch("fail")
        key = "sequence/" + str(min(ints_at_end, 3))
        if key in seen_fail:
            return
        seen_fail.add(key)
        # shrink: drop objects while the sequence still reads back wrongly
        def still(sub):
            for t in range(6):
                f2, b2, u2, g2 = run_sequence(sub, feats, "%s/%d" % (seed, t))
                if g2 != canon_seq(sub):
                    return True
            return False
        small = C.ddmin(list(values), still, max_tests=120) if len(values) > 1 else values
        chosen = None
        for t in range(12):
            f2, b2, u2, g2 = run_sequence(small, [], "%s/p%d" % (seed, t), plain=True)
            if g2 != canon_seq(small):
                chosen = (f2, b2, [], g2)
                break
        if chosen is None:
            for t in range(12):
                f2, b2, u2, g2 = run_sequence(small, feats, "%s/%d" % (seed, t))
                if g2 != canon_seq(small):
                    chosen = (f2, b2, u2, g2)
                    break
        if chosen is None:
            small, chosen = values, (full, bufsiz, used, got)
        f2, b2, u2, g2 = chosen
        ctx.fail(C.Failure("a sequence of conformant spellings does not read back as its values, in order",
                           {"spelling": f2.hex(), "ascii": repr(f2), "expected": canon_seq(small), "reader": "stream",
                            "bufsiz": b2, "pad": "", "trail": "", "eol": "0a", "features": ["sequence"] + list(u2)},
                           canon_seq(small), g2,
                           {"min_features": ["sequence"] + list(u2), "reader": "stream", "bufsiz": b2, "kind": "sequence"}))
        return
    batch.add("model.obj %d %s" % (bufsiz, C.hx(full)), "model.obj",
              {"data": full.hex(), "ascii": repr(full), "bufsiz": bufsiz, "sequence": True}, got)
    if not any(v[0] == "op" for v in values):
        batch.add("spec.seq " + C.hx(full), "spec.seq", {"data": full.hex(), "ascii": repr(full)}, exp)


def check_mutant(ctx: C.Ctx, batch: Batch, case: Case, rng) -> None:
    """Malformed stream, for the tie only: a damaged spelling must read the same in the model and in the code."""
    data = bytearray(case.data())
    for _ in range(rng.randint(1, 3)):
        k = rng.random()
        pos = rng.randrange(len(data) + 1)
        if k < 0.35 and data:
            del data[min(pos, len(data) - 1)]
        elif k < 0.7:
            data.insert(pos, rng.choice(b"()<>[]{}/%#\\ \r\n\x0001a."))
        elif data:
            data[min(pos, len(data) - 1)] = rng.randrange(256)
    data = bytes(data)
    got = read_stream(data, case.bufsiz)
    ctx.case((data, "mutant", case.bufsiz), True, branch="reader:mutant")
    if got.endswith("!RecursionError") or got.endswith("!MemoryError"):
        return
    batch.add("model.obj %d %s" % (case.bufsiz, C.hx(data)), "model.obj",
              {"data": data.hex(), "bufsiz": case.bufsiz, "mutant": True}, got)
    # C01_offset_indep_ws / C01_bufsize_indep on ANY bytes: white space in front and another buffer size change
    # nothing (the model provably behaves so; a difference means that model and code differ on one of the two)
    if rng.random() < 0.5:
        pad2 = bytes(rng.choice(b"\x00\t\n\x0b\x0c\r ") for _ in range(rng.randint(1, 9)))
        b2 = rng.choice([1, 2, 3, 5, 7, 4096])
        got3 = read_stream(pad2 + data, b2)
        ctx.case((data, "mutant-offset", pad2, b2), True, branch="reader:mutant-offset")
        if got3 != got and not (got3.endswith("!RecursionError") or got3.endswith("!MemoryError")):
            ctx.disagree("impl.offset", {"data": data.hex(), "pad": pad2.hex(), "bufsiz": [case.bufsiz, b2]}, got, got3)
    if rng.random() < 0.5 and b"stream" not in data and b"obj" not in data:
        got2 = read_getobj(data, case.bufsiz, case.eol, b"")
        pdf, off = getobj_pdf(data, case.eol, b"")
        ctx.case((data, "mutant-getobj", case.bufsiz), True, branch="reader:mutant-getobj")
        batch.add("model.getobj %d 5 %s" % (case.bufsiz, C.hx(pdf[off:])), "model.getobj",
                  {"data": data.hex(), "bufsiz": case.bufsiz, "mutant": True, "eol": case.eol.hex()}, got2)
