"""C16 - painted paths become shapes with the right points, class and graphics state.

Relations exercised on every run (DEVGUIDE "three artefacts, two relations"):
  (tie)   Lean model of PDFPageInterpreter.execute / paint_path / LTCurve..LTRect  ==  pdfminer, same token stream
  (prop)  pdfminer == executable specification (Python twin `spec_run`, itself compared with the Lean `Spec`)
  (proof) lean/PdfVerif/Props/C16.lean: model == spec for ALL well-formed programs

A program is a list of structured operations `[opname, operand, ...]`; operands are exact
dyadic rationals (strings "p/q"), names ("/X") or arrays (lists).  Each program is one page of a
generated PDF, interpreted with PDFPageAggregator(laparams=None); the shapes on the page are the
observation.
"""

from __future__ import annotations

import glob
import io
import json
import logging
import os
from fractions import Fraction as F
from typing import Any, Dict, List, Optional, Tuple

from harness import common as C
from harness import pdfwriter as W

LEVEL = "proof"
RULE = ("random content-stream programs over m l c v y h re / S s f F f* B B* b b* n / w d J j M i ri gs / "
        "g G rg RG k K cs CS sc scn SC SCN / q Q cm with dyadic operands, under random page CTMs (MediaBox "
        "origin, Rotate) and random dyadic cm matrices (rotations, mirrors, shears, singular); sub-paths are "
        "drawn from: single lines, m-l-h, closed/unclosed axis-aligned loops in both orientations, redundant "
        "closing l, zero-length segments, lone m, m-h, re followed by more segments, Bezier segments; a family "
        "`cm, re (w, h of either sign), [W|W*], paint` over nine matrix classes (quarter turns, scales, mirrors, "
        "x-/y-collapsing, shears, 45 degrees, general, zero) checked against theorem C16_rect_under_ctm; documents "
        "of 2-4 pages run through ONE interpreter (as extract_pages does) whose pages end in a dangling state "
        "(unpainted segments / closed sub-path / clip rectangle without n / lone m / Bezier / segment after h, "
        "unmatched q, changed width, dash, colours, CTM, colour spaces) - every page must show exactly what its "
        "own program demands; pages that invoke (between their path objects) a form XObject whose content ends "
        "in the same dangling states (tie only: `Do` leaks nothing into the page); operators "
        "with the right operand count and a non-numeric operand (name, array) at every position; a case "
        "is non-trivial when it is a distinct program that paints >= 1 sub-path with >= 1 segment under a "
        "non-identity CTM or a non-default graphics state; `wild` programs (wrong operand counts/types, "
        "segments without m, state changes inside a path) are used for the model/implementation tie only")
TRUSTED_BASE = [
    "hand model lean/PdfVerif/Model/Paths.lean of PDFPageInterpreter.execute (operand stack, path, colour, "
    "q/Q/cm operators), PDFLayoutAnalyzer.paint_path and the LTCurve/LTLine/LTRect constructors "
    "(correspondence-checked every run on the same token streams)",
    "tools/translate/gen_c16.py (ast -> Lean) for apply_matrix_pt, mult_matrix, PREDEFINED_COLORSPACE, the "
    "process_page CTM table, the painting-operator flag table and the straight-line tests of paint_path (shape "
    "strings, point indices, redundant-l constants, has_square_coordinates) - each also run against the Python "
    "original through the model",
    "exact rationals stand for Python floats: every generated operand is dyadic and small enough that all "
    "float operations of the anchored code are exact",
    "PDF writer / content-stream serialiser of the harness and pdfminer's own lexer (properties C01/C14)",
    "the Python twin of the specification used as the in-process oracle is compared with the Lean Spec "
    "on every case when the driver is available",
]
ASSUMPTIONS = [
    "operands are numbers (dyadic rationals); IEEE rounding is not modelled",
    "well-formed programs: every operator has the operands ISO 32000 gives it, segments and h only inside a "
    "sub-path begun by m/re, sc/scn/SC/SCN operand counts follow the current colour space",
    "the colour reported is None before any colour operator (pdfminer's representation of the default); "
    "cs/CS select the initial colour of the new space (ISO 32000-1 Table 74)",
    "zero-segment sub-paths (lone m, m h) are unconstrained: shapes without any l/c/v/y segment are ignored",
    "settings.STRICT is False (library default)",
]
STATEMENT_STATUS: Dict[str, str] = {
    "C16_shapes_statement": "counter-example proved (C16_shapes_statement_cex, C16_pattern_cex): pattern colours, "
                            "open finding pattern-colour-not-recorded",
    "C16_shapes_partial": "partial: whole token streams of all well-formed programs (incl. ill-typed operands), "
                          "every page set-up and resource colour-space map, ALL shape attributes; excludes only "
                          "sc-family operators while a Pattern colour space is current",
    "C16_paint_path": "proved (full: all attributes incl. rectangle points, every list of sub-paths)",
    "C16_subpath_shape": "proved (full)",
    "C16_rect_pts_fixed": "proved (regression instance of the fixed LTRect.pts finding)",
    "C16_arity_fixed": "proved (regression instance of the fixed colour-arity finding)",
    "C16_shapes_statement_cex": "proved counter-example", "C16_pattern_cex": "proved counter-example",
    "C16_ill_typed_ignored": "proved (operators with a non-numeric operand are ignored)",
    "C16_initial_colour": "proved (_initial_color = ISO Table 74 for every colour space)",
    "C16_cs_resets_colour": "proved",
    "C16_paint_flags": "proved (regenerated table = ISO table 60)", "C16_re_path": "proved (regenerated do_re)",
    "C16_page_ctm": "proved (regenerated process_page table)",
    "C16_never_raises": "proved (model: no exception on any token stream)",
    "C16_no_residue": "proved", "C16_n_paints_nothing": "proved",
    "C16_gstack_untouched": "proved", "C16_qQ_restores": "proved", "C16_q_saves": "proved",
    "C16_shape_tests": "proved (shape strings / point indices / redundant-l constants regenerated from "
                       "converter.paint_path = the ones the property demands)",
    "C16_square_coordinates": "proved (regenerated has_square_coordinates = axis-aligned quadrilateral)",
    "C16_rect_under_ctm": "proved (every matrix, every re with w, h != 0: LTRect iff a=d=0,c!=0 or b=c=0,d!=0; "
                          "points, original_path, flags, width, dash, colours)",
    "C16_clip_does_not_paint": "proved (W, W* are no-ops on every state)",
    "C16_paint_frame": "proved (painting operators and n clear the path and touch nothing else)",
    "C16_clip_then_paint": "proved",
    "C16_segment_operands": "proved (regenerated do_m do_l do_c do_v do_y append the ISO segment, operands in order)",
    "C16_cm_composes": "proved (regenerated do_cm pre-multiplies: new matrix first, then the old CTM)",
    "C16_one_shape_per_subpath": "proved (number of shapes with a segment = number of sub-paths with a segment)",
    "C16_paint_attributes": "proved (every path, ill-formed included: flags, width, dash, colours of the call)",
    "C16_painted_with_state_in_force": "proved (every painting operator on every interpreter state)",
    "C16_no_start_no_shape": "proved (a path that does not begin with m paints nothing)",
    "C16_initial_colour_bound": "proved (more than 32 components: no initial colour; regenerated bound)",
    "C16_page_isolation": "proved (pages through one interpreter: page k's shapes depend on page k only; "
                          "init_state's reset list regenerated)",
    "C16_page_starts_fresh": "proved",
}

# --------------------------------------------------------------------------- operators

PAINT = {  # name -> (stroke, fill, evenodd, close)
    "S": (1, 0, 0, 0), "s": (1, 0, 0, 1), "f": (0, 1, 0, 0), "F": (0, 1, 0, 0), "f*": (0, 1, 1, 0),
    "B": (1, 1, 0, 0), "B*": (1, 1, 1, 0), "b": (1, 1, 0, 1), "b*": (1, 1, 1, 1),
}
NARGS = {"m": 2, "l": 2, "c": 6, "v": 4, "y": 4, "h": 0, "re": 4, "n": 0, "w": 1, "d": 2, "J": 1, "j": 1,
         "M": 1, "i": 1, "ri": 1, "gs": 1, "g": 1, "G": 1, "rg": 3, "RG": 3, "k": 4, "K": 4, "cs": 1, "CS": 1,
         "q": 0, "Q": 0, "cm": 6, "W": 0, "W*": 0}
for _k in PAINT:
    NARGS[_k] = 0
SEGOPS = ("l", "c", "v", "y")
NUM_ARITY = {"m": 2, "l": 2, "c": 6, "v": 4, "y": 4, "re": 4, "w": 1, "cm": 6, "g": 1, "G": 1, "rg": 3, "RG": 3,
             "k": 4, "K": 4}
PREDEF = [("DeviceGray", 1), ("CalRGB", 3), ("CalGray", 1), ("Lab", 3), ("DeviceRGB", 3), ("DeviceCMYK", 4),
          ("Separation", 1), ("Indexed", 1), ("Pattern", 1)]


def num(x) -> str:
    return C.frac_str(x)


def is_num(o) -> bool:
    return isinstance(o, str) and not o.startswith("/")


def ser_operand(o, style: int = 0) -> bytes:
    if isinstance(o, list):
        return b"[" + b" ".join(ser_operand(x, style) for x in o) + b"]"
    if o.startswith("/"):
        return W.ser_name(o[1:].encode("latin-1"))
    f = F(o)
    if f.denominator == 1 and style == 0:
        return str(f.numerator).encode()
    return W.ser_real(f)


def to_content(ops, style_seed: int = 0) -> bytes:
    out = []
    k = style_seed
    for op in ops:
        for a in op[1:]:
            k = (k * 7 + 3) % 11
            out.append(ser_operand(a, 0 if k % 3 else 1))
        out.append(op[0].encode())
    return b" ".join(out) + b"\n"


def case_tokens(case) -> List[str]:
    return tok_line(case).split(" ")[6:]


def pages_line(cases) -> str:
    """`pages` request of the driver: the set-up of the (shared) document, then the pages separated by `|`."""
    head = tok_line(cases[0]).split(" ")[:6]
    body: List[str] = []
    for i, c in enumerate(cases):
        if i:
            body.append("|")
        body.extend(case_tokens(c))
    return " ".join(["pages"] + head + body)


def tok_line(case) -> str:
    """Token stream for the Lean driver: <rotate> <x0> <y0> <x1> <y1> <csdefs|-> tok tok ..."""
    toks = []
    for op in case["ops"]:
        for a in op[1:]:
            if isinstance(a, list):
                toks.append("[" + ",".join(a) + "]")
            else:
                toks.append(a)
        toks.append("!" + op[0])
    cs = ",".join(f"{k}={v[0]}:{v[1]}" for k, v in sorted(case["cs"].items())) or "-"
    return " ".join([str(case["rotate"])] + [num(F(x)) for x in case["mediabox"]] + [cs] + toks)


# --------------------------------------------------------------------------- canonical shapes

def cnum(x) -> str:
    if isinstance(x, bool):
        return "?bool"
    if isinstance(x, int):
        return str(x)
    if isinstance(x, float):
        if x != x or x in (float("inf"), float("-inf")):
            return "nan"
        return C.frac_str(F(x))
    if isinstance(x, F):
        return C.frac_str(x)
    return "?" + type(x).__name__


def ccolor(c) -> str:
    if c is None:
        return "-"
    if isinstance(c, (tuple, list)):
        return ",".join(cnum(x) for x in c)
    return cnum(c)


def coperand(o) -> str:
    from pdfminer.psparser import PSLiteral
    if isinstance(o, list):
        return "[" + ",".join(coperand(x) for x in o) + "]"
    if isinstance(o, PSLiteral):
        n = o.name
        return "/" + (n if isinstance(n, str) else n.decode("latin-1"))
    return cnum(o)


def cdash(d) -> str:
    if d is None:
        return "-"
    return coperand(d[0]) + coperand(d[1])


def cpt(p) -> str:
    return cnum(p[0]) + "," + cnum(p[1])


def shape_fields(kind, pts, path, bbox, lw, st, fi, eo, sc, nc, dash) -> Dict[str, str]:
    return {"kind": kind, "pts": ";".join(pts), "path": "|".join(path), "bbox": bbox, "lw": lw,
            "s": str(int(bool(st))), "f": str(int(bool(fi))), "e": str(int(bool(eo))), "sc": sc, "nc": nc, "d": dash}


FIELDS = ["kind", "pts", "path", "bbox", "lw", "s", "f", "e", "sc", "nc", "d"]


def fields_line(d: Dict[str, str]) -> str:
    return d["kind"] + " " + " ".join(f"{k}={d[k]}" for k in FIELDS[1:])


def parse_line(line: str):
    """Inverse of the canonical page line: list of field dicts, or the error string."""
    if line == "-":
        return []
    if line.startswith("EXC:") or line in ("outside-domain", "bad-op"):
        return line
    res = []
    for s in line.split(" # "):
        parts = s.split(" ")
        d = {"kind": parts[0]}
        for p in parts[1:]:
            k, _, v = p.partition("=")
            d[k] = v
        res.append(d)
    return res


def page_line(shapes: List[Dict[str, str]]) -> str:
    return " # ".join(fields_line(s) for s in shapes) if shapes else "-"


def has_segment(sh: Dict[str, str]) -> bool:
    return any(seg[:1] in SEGOPS for seg in sh["path"].split("|"))


def visible(shapes):
    """Shapes of sub-paths with at least one segment (zero-segment sub-paths are unconstrained)."""
    if isinstance(shapes, str):
        return shapes
    return [s for s in shapes if has_segment(s)]


# --------------------------------------------------------------------------- implementation adapter

def impl_shape(o) -> Dict[str, str]:
    kind = {"LTLine": "L", "LTRect": "R", "LTCurve": "C"}.get(type(o).__name__, "?" + type(o).__name__)
    path = []
    for seg in (o.original_path or []):
        path.append(str(seg[0]) + (":" + ",".join(cpt(p) for p in seg[1:]) if len(seg) > 1 else ""))
    return shape_fields(kind, [cpt(p) for p in o.pts], path, ",".join(cnum(v) for v in o.bbox), cnum(o.linewidth),
                        o.stroke, o.fill, o.evenodd, ccolor(o.stroking_color), ccolor(o.non_stroking_color),
                        cdash(o.dashing_style))


def cs_resource(cs: Dict[str, Any]):
    """ColorSpace resource dictionary + extra objects for the generated colour spaces."""
    res = {}
    extra = {}
    n = 4
    for k, (kind, v) in sorted(cs.items()):
        if kind == "icc":
            extra[n] = W.Stream({"N": int(v)}, b"")
            res[k] = ["ICCBased", W.Ref(n)]
            n += 1
        elif kind == "devn":
            res[k] = ["DeviceN", ["C%d" % i for i in range(int(v))], "DeviceCMYK", None]
        elif kind == "arr":           # e.g. [/Indexed /DeviceRGB 1 <..>]  ->  looked up by its first element
            res[k] = [v, "DeviceRGB"]
        else:                         # "name": alias of a predefined space (or of nothing)
            res[k] = v
    assert n <= 10
    return res, extra


def run_impl(cases, shared: bool = False) -> List[Any]:
    """All cases must share cs/rotate/mediabox (one document, one page per case).
    Returns per case: list of shape dicts, or 'EXC:<Type>'.
    shared=True: ONE resource manager, device and interpreter for all pages, in order - what
    extract_pages / extract_text / pdf2txt do; otherwise a fresh interpreter per page."""
    from pdfminer.converter import PDFPageAggregator
    from pdfminer.layout import LTCurve
    from pdfminer.pdfdocument import PDFDocument
    from pdfminer.pdfinterp import PDFPageInterpreter, PDFResourceManager
    from pdfminer.pdfpage import PDFPage
    from pdfminer.pdfparser import PDFParser
    c0 = cases[0]
    res, extra = cs_resource(c0["cs"])
    page_extra = {"Rotate": c0["rotate"]} if c0["rotate"] else {}
    resources: Dict[str, Any] = {"ColorSpace": res} if res else {}
    if c0.get("form") is not None:
        # a form XObject /Fm0 (object 9) whose content ends in a dangling state
        extra = dict(extra)
        extra[9] = W.Stream({"Type": "XObject", "Subtype": "Form", "BBox": [0, 0, 200, 200],
                             "Matrix": [F(x) for x in c0.get("form_matrix", ["1", "0", "0", "1", "0", "0"])]},
                            to_content(c0["form"]))
        resources["XObject"] = {"Fm0": W.Ref(9)}
    data = W.simple_doc([to_content(c["ops"], i) for i, c in enumerate(cases)],
                        resources=resources,
                        mediabox=[F(x) for x in c0["mediabox"]],
                        extra_objs=extra, page_extra=page_extra)
    doc = PDFDocument(PDFParser(io.BytesIO(data)))
    outs: List[Any] = []
    rm = PDFResourceManager()
    dev = PDFPageAggregator(rm, laparams=None)
    it = PDFPageInterpreter(rm, dev)
    for page in PDFPage.create_pages(doc):
        if not shared:
            rm = PDFResourceManager()
            dev = PDFPageAggregator(rm, laparams=None)
            it = PDFPageInterpreter(rm, dev)
        try:
            it.process_page(page)
            lt = dev.get_result()
            outs.append([impl_shape(o) for o in lt if isinstance(o, LTCurve)])
        except Exception as e:  # noqa: BLE001
            outs.append("EXC:" + type(e).__name__)
    if len(outs) != len(cases):
        raise C.Infra("page count mismatch in generated document")
    return outs


# --------------------------------------------------------------------------- executable specification (Python twin)

def page_ctm(rotate: int, mb) -> Tuple[F, ...]:
    x0, y0, x1, y1 = mb
    if rotate == 90:
        return (F(0), F(-1), F(1), F(0), -y0, x1)
    if rotate == 180:
        return (F(-1), F(0), F(0), F(-1), x1, y1)
    if rotate == 270:
        return (F(0), F(1), F(-1), F(0), y1, -x0)
    return (F(1), F(0), F(0), F(1), -x0, -y0)


def apply(m, p):
    a, b, c, d, e, f = m
    x, y = p
    return (a * x + c * y + e, b * x + d * y + f)


def mult(m1, m0):
    a1, b1, c1, d1, e1, f1 = m1
    a0, b0, c0, d0, e0, f0 = m0
    return (a0 * a1 + c0 * b1, b0 * a1 + d0 * b1, a0 * c1 + c0 * d1, b0 * c1 + d0 * d1,
            a0 * e1 + c0 * f1 + e0, b0 * e1 + d0 * f1 + f0)


class OutsideDomain(Exception):
    pass


def cs_space(cs: Dict[str, Any], name: str) -> Optional[Tuple[str, int]]:
    """(family, number of components) of a colour-space name, None when undefined."""
    pre = dict(PREDEF)
    if name in cs:
        kind, v = cs[name]
        if kind == "icc":
            return ("ICCBased", int(v))
        if kind == "devn":
            return ("DeviceN", int(v))
        if v in pre:
            return (v, pre[v])
    if name in pre:
        return (name, pre[name])
    return None


def cs_arity(cs: Dict[str, Any], name: str) -> Optional[Tuple[int, bool]]:
    """(number of components, is-pattern) of a colour-space name, None when undefined."""
    sp = cs_space(cs, name)
    return None if sp is None else (sp[1], sp[0] == "Pattern")


def iso_init(family: str, n: int):
    """ISO 32000-1 Table 74 (operator CS): the initial colour of a colour space."""
    if family == "Pattern" or n == 0 or n > 32:     # no colour space has more than 32 components
        return None
    if family == "DeviceCMYK":
        return (F(0), F(0), F(0), F(1))
    if family in ("Separation", "DeviceN"):
        return tuple([F(1)] * n)
    return tuple([F(0)] * n)


def subpath_shape(ctm, sp, gs, flags) -> Optional[Dict[str, str]]:
    """One sub-path (start, segments, closed) painted under `ctm` with graphics state gs."""
    start, segs, closed = sp
    if not segs:
        return None
    T = lambda p: apply(ctm, p)  # noqa: E731
    s = T(start)
    ends = [T(sg[-1]) for sg in segs]
    path = ["m:" + cpt(s)] + [sg[0] + ":" + ",".join(cpt(T(p)) for p in sg[1:]) for sg in segs] + (["h"] if closed else [])
    kinds = [sg[0] for sg in segs]
    # an explicit final `l` back to the start point of a closed sub-path IS its closing segment
    if closed and len(segs) >= 2 and kinds[-1] == "l" and ends[-1] == s:
        kinds = kinds[:-1]
        ends = ends[:-1]
    straight = all(k == "l" for k in kinds)
    loop = closed or (len(ends) == 4 and ends[3] == s)
    corners = [s] + ends[:3]
    if straight and len(kinds) == 1:
        kind, pts = "L", [s, ends[0]]
    elif straight and loop and len(kinds) == (3 if closed else 4) and axis_aligned(corners):
        kind, pts = "R", corners
    else:
        kind, pts = "C", [s] + ends + ([s] if closed else [])
    xs = [p[0] for p in pts]
    ys = [p[1] for p in pts]
    bbox = ",".join(num(v) for v in (min(xs), min(ys), max(xs), max(ys)))
    st, fi, eo = flags
    return shape_fields(kind, [cpt(p) for p in pts], path, bbox, num(gs["lw"]), st, fi, eo,
                        spec_color(gs["sc"]), spec_color(gs["nc"]), spec_dash(gs["d"]))


def axis_aligned(c) -> bool:
    (x0, y0), (x1, y1), (x2, y2), (x3, y3) = c
    return (x0 == x1 and y1 == y2 and x2 == x3 and y3 == y0) or (y0 == y1 and x1 == x2 and y2 == y3 and x3 == x0)


def spec_color(c) -> str:
    if c is None:
        return "-"
    if isinstance(c, tuple) and c and c[0] == "P":
        return "P:" + c[1] + (":" + ",".join(num(x) for x in c[2]) if c[2] else "")
    return ",".join(num(x) for x in c)


def spec_dash(d) -> str:
    if d is None:
        return "-"
    return "[" + ",".join(num(x) for x in d[0]) + "]" + num(d[1])


def spec_run(case) -> List[Dict[str, str]]:
    """What the property demands.  Raises OutsideDomain for programs that are not well formed."""
    cs = case["cs"]
    ctm = page_ctm(case["rotate"], [F(x) for x in case["mediabox"]])
    gs = {"lw": F(0), "d": None, "sc": None, "nc": None, "ss": (1, False), "ns": (1, False)}
    stack: List[Any] = []
    subpaths: List[Any] = []      # [start, segments, closed]
    out: List[Dict[str, str]] = []

    def nums(xs, n=None):
        if n is not None and len(xs) != n:
            raise OutsideDomain("operand count")
        if not all(is_num(x) for x in xs):
            raise OutsideDomain("operand type")
        return [F(x) for x in xs]

    for op in case["ops"]:
        k, a = op[0], op[1:]
        # an operator that takes numbers, given the right NUMBER of operands of which one is not a number
        # (a name, an array), is ignored as a whole
        ar = NUM_ARITY.get(k)
        if k in ("sc", "scn", "SC", "SCN"):
            n_, pat_ = gs["ss" if k.isupper() else "ns"]
            ar = None if pat_ else n_
        if ar is not None and len(a) == ar and not all(is_num(x) for x in a):
            continue
        if k == "m":
            x, y = nums(a, 2)
            subpaths.append([(x, y), [], False])
        elif k in SEGOPS:
            v = nums(a, NARGS[k])
            if not subpaths:
                raise OutsideDomain("segment without current point")
            if subpaths[-1][2]:
                # ISO 32000-1 8.5.2.1: a segment appended after h begins a new sub-path at the start point
                subpaths.append([subpaths[-1][0], [], False])
            subpaths[-1][1].append(tuple([k] + [(v[i], v[i + 1]) for i in range(0, len(v), 2)]))
        elif k == "h":
            nums(a, 0)
            if not subpaths:
                raise OutsideDomain("h without current point")
            subpaths[-1][2] = True
        elif k == "re":
            x, y, w, h = nums(a, 4)
            subpaths.append([(x, y), [("l", (x + w, y)), ("l", (x + w, y + h)), ("l", (x, y + h))], True])
        elif k in PAINT:
            nums(a, 0)
            st, fi, eo, close = PAINT[k]
            if close:
                if not subpaths:
                    raise OutsideDomain("close without current point")
                subpaths[-1][2] = True
            for sp in subpaths:
                sh = subpath_shape(ctm, sp, gs, (st, fi, eo))
                if sh is not None:
                    out.append(sh)
            subpaths = []
        elif k == "n":
            nums(a, 0)
            subpaths = []
        elif k in ("W", "W*"):
            nums(a, 0)
        elif k == "w":
            gs["lw"] = nums(a, 1)[0]
        elif k == "d":
            if len(a) != 2 or not isinstance(a[0], list) or not is_num(a[1]):
                raise OutsideDomain("d operands")
            gs["d"] = (nums(a[0]), F(a[1]))
        elif k in ("J", "j", "M", "i"):
            nums(a, 1)
        elif k in ("ri", "gs"):
            if len(a) != 1 or is_num(a[0]) or isinstance(a[0], list):
                raise OutsideDomain("name operand")
        elif k in ("g", "G", "rg", "RG", "k", "K"):
            v = nums(a, NARGS[k])
            gs["sc" if k.isupper() else "nc"] = tuple(v)
            gs["ss" if k.isupper() else "ns"] = (len(v), False)
        elif k in ("cs", "CS"):
            if len(a) != 1 or isinstance(a[0], list) or is_num(a[0]):
                raise OutsideDomain("cs operand")
            sp = cs_space(cs, a[0][1:])
            if sp is None:
                raise OutsideDomain("undefined colour space")
            gs["ss" if k == "CS" else "ns"] = (sp[1], sp[0] == "Pattern")
            # ISO 32000-1 8.6.8: cs/CS also select the initial colour of the new space
            gs["sc" if k == "CS" else "nc"] = iso_init(*sp)
        elif k in ("sc", "scn", "SC", "SCN"):
            n, pat = gs["ss" if k.isupper() else "ns"]
            key = "sc" if k.isupper() else "nc"
            if pat:
                if k in ("sc", "SC") or not a or isinstance(a[-1], list) or is_num(a[-1]):
                    raise OutsideDomain("pattern colour needs scn/SCN with a name")
                gs[key] = ("P", a[-1], tuple(nums(a[:-1])))
            else:
                if n == 0:
                    raise OutsideDomain("colour space without components")
                gs[key] = tuple(nums(a, n))
        elif k == "q":
            nums(a, 0)
            stack.append((ctm, dict(gs)))
        elif k == "Q":
            nums(a, 0)
            if stack:
                ctm, gs = stack.pop()
        elif k == "cm":
            ctm = mult(tuple(nums(a, 6)), ctm)
        else:
            raise OutsideDomain("operator " + k)
    return out


# --------------------------------------------------------------------------- generators

def dy(rng, lo=-64, hi=64, dens=(1, 1, 1, 2, 4, 8)) -> F:
    d = rng.choice(dens)
    return F(rng.randint(lo * d, hi * d), d)


def gen_matrix(rng) -> List[F]:
    r = rng.random()
    if r < 0.25:    # quarter rotations / mirrors with a scale
        s = rng.choice([F(1), F(1), F(2), F(1, 2), F(3)])
        a, b, c, d = rng.choice([(1, 0, 0, 1), (0, 1, -1, 0), (-1, 0, 0, -1), (0, -1, 1, 0), (-1, 0, 0, 1),
                                 (1, 0, 0, -1), (0, 1, 1, 0)])
        return [a * s, b * s, c * s, d * s, dy(rng, -32, 32), dy(rng, -32, 32)]
    if r < 0.35:    # pure translation / scale
        return [dy(rng, 1, 4, (1, 2)), F(0), F(0), dy(rng, -4, 4, (1, 2)), dy(rng, -32, 32), dy(rng, -32, 32)]
    if r < 0.45:    # singular
        m = [dy(rng, -2, 2, (1, 2)) for _ in range(6)]
        k = rng.choice([0, 1, 2])
        if k == 0:
            m[2], m[3] = m[0] * 2, m[1] * 2
        elif k == 1:
            m[0] = m[1] = m[2] = m[3] = F(0)
        else:
            m[1] = m[3] = F(0)
        return m
    return [dy(rng, -4, 4, (1, 2, 4)) for _ in range(4)] + [dy(rng, -32, 32), dy(rng, -32, 32)]


CS_POOL = [
    {},
    {"CS0": ("icc", 3), "CS1": ("icc", 4), "G1": ("icc", 1)},
    {"DN": ("devn", 3), "Sep": ("arr", "Separation"), "Idx": ("arr", "Indexed"), "P0": ("name", "Pattern")},
    {"PU": ("arr", "Pattern"), "Lb": ("arr", "Lab"), "CG": ("arr", "CalGray"), "CR": ("arr", "CalRGB"),
     "D4": ("devn", 4), "D1": ("devn", 1)},
]
# colour spaces with a number of components other than 1, 3, 4 (used by every 8th document only)
CS_ODD = {"D2": ("devn", 2), "D5": ("devn", 5), "I2": ("icc", 2), "D32": ("devn", 32), "I33": ("icc", 33)}


class Gen:
    """Builds a well-formed program while tracking the ISO state needed for operand counts."""

    def __init__(self, rng, cs, patterns: bool, after_h: bool):
        self.rng = rng
        self.cs = cs
        self.patterns = patterns
        self.after_h = after_h
        self.ops: List[List[Any]] = []
        self.ss = (1, False)
        self.ns = (1, False)
        self.stack: List[Any] = []
        self.nbad = 0

    def pt(self):
        return [num(dy(self.rng)), num(dy(self.rng))]

    def emit(self, *op):
        self.ops.append(list(op))

    # ---- state operators
    def state_op(self, nested: bool = False):
        rng = self.rng
        r = rng.random()
        if rng.random() < 0.12:
            self.bad_operand(["w", "cm", "g", "G", "rg", "RG", "k", "K", "sc", "scn", "SC", "SCN"])
        if not nested and r < 0.1:
            self.q_block()
        elif r < 0.12:
            self.emit("w", num(abs(dy(rng, 0, 8))))
        elif r < 0.22:
            n = rng.choice([0, 1, 2, 2, 3])
            self.emit("d", [num(abs(dy(rng, 0, 6, (1, 2)))) for _ in range(n)], num(abs(dy(rng, 0, 4, (1, 2)))))
        elif r < 0.27:
            k = rng.choice(["J", "j", "M", "i", "ri", "gs"])
            self.emit(k, "/Perceptual" if k == "ri" else "/GS0" if k == "gs" else str(rng.randint(0, 2)))
        elif r < 0.45:
            k = rng.choice(["g", "G", "rg", "RG", "k", "K"])
            self.emit(k, *[num(F(rng.randint(0, 8), 8)) for _ in range(NARGS[k])])
            if k.isupper():
                self.ss = (NARGS[k], False)
            else:
                self.ns = (NARGS[k], False)
        elif r < 0.6:
            names = [n for n, _ in PREDEF] + list(self.cs)
            if not self.patterns:
                names = [n for n in names if not cs_arity(self.cs, n)[1]]
            name = rng.choice(names)
            k = rng.choice(["cs", "CS"])
            self.emit(k, "/" + name)
            if k == "CS":
                self.ss = cs_arity(self.cs, name)
            else:
                self.ns = cs_arity(self.cs, name)
        elif r < 0.78:
            self.set_color(rng.random() < 0.5)
        elif r < 0.86:
            self.emit("q")
            self.stack.append((self.ss, self.ns))
        elif r < 0.93:
            self.emit("Q")
            if self.stack:
                self.ss, self.ns = self.stack.pop()
        else:
            self.emit("cm", *[num(x) for x in gen_matrix(rng)])

    def set_color(self, stroking: bool):
        rng = self.rng
        n, pat = self.ss if stroking else self.ns
        if pat:
            k = "SCN" if stroking else "scn"
            under = rng.choice([0, 0, 1, 3])
            self.emit(k, *[num(F(rng.randint(0, 8), 8)) for _ in range(under)], "/P%d" % rng.randint(0, 3))
        else:
            k = rng.choice(["SC", "SCN"] if stroking else ["sc", "scn"])
            self.emit(k, *[num(F(rng.randint(0, 8), 8)) for _ in range(n)])

    def bad_operand(self, ops: List[str]):
        """An operator of `ops` with the right operand count and ONE operand that is not a number, at a
        uniformly chosen position (every position of every operator is hit many times per run)."""
        rng = self.rng
        k = rng.choice(ops)
        if k in ("sc", "scn", "SC", "SCN"):
            n, pat = self.ss if k.isupper() else self.ns
            if pat:
                return
        else:
            n = NUM_ARITY[k]
        a: List[Any] = [num(F(rng.randint(0, 8), 8)) if k not in ("m", "l", "c", "v", "y", "re", "cm", "w")
                        else num(dy(rng, -8, 8)) for _ in range(n)]
        if n == 0:
            return
        a[rng.randrange(n)] = rng.choice(["/Nm", "/Nm", ["1", "2"], []])
        if rng.random() < 0.15 and n > 1:      # a second one
            a[rng.randrange(n)] = "/X"
        self.emit(k, *a)
        self.nbad += 1

    def q_block(self):
        """q, change colour space / colours / width / dash / CTM inside, paint, Q, then use the outer state."""
        rng = self.rng
        self.emit("q")
        self.stack.append((self.ss, self.ns))
        for _ in range(rng.randint(1, 4)):
            self.state_op(nested=True)
        if rng.random() < 0.6:
            self.path_object()
        self.emit("Q")
        if self.stack:
            self.ss, self.ns = self.stack.pop()
        if rng.random() < 0.8:
            self.set_color(rng.random() < 0.5)

    # ---- one sub-path
    def subpath(self):
        rng = self.rng
        r = rng.random()
        x, y = dy(rng), dy(rng)
        w, h = dy(rng, -16, 16), dy(rng, -16, 16)
        if r < 0.14:
            self.emit("re", num(x), num(y), num(w), num(h))
            if self.after_h and rng.random() < 0.25:
                self.emit("l", *self.pt())
            return
        if r < 0.40:      # axis-aligned loop, either orientation, closed in one of four ways
            cor = [(x, y), (x + w, y), (x + w, y + h), (x, y + h)]
            if rng.random() < 0.5:
                cor = [cor[0], cor[3], cor[2], cor[1]]
            if rng.random() < 0.3:      # not axis aligned after all: move one coordinate of one corner
                i = rng.randint(1, 3)
                d = rng.choice([F(1, 2), F(-3)])
                cor[i] = (cor[i][0] + d, cor[i][1]) if rng.random() < 0.5 else (cor[i][0], cor[i][1] + d)
            self.emit("m", num(cor[0][0]), num(cor[0][1]))
            for c in cor[1:]:
                self.emit("l", num(c[0]), num(c[1]))
            how = rng.choice(["h", "l", "lh", "open", "far"])
            if how in ("l", "lh"):
                self.emit("l", num(cor[0][0]), num(cor[0][1]))
            if how == "far":
                self.emit("l", *self.pt())
            if how in ("h", "lh"):
                self.emit("h")
            return
        if r < 0.46:      # lone m / m h (zero segments)
            self.emit("m", num(x), num(y))
            if rng.random() < 0.5:
                self.emit("h")
            return
        self.emit("m", num(x), num(y))
        nseg = rng.choice([1, 1, 1, 2, 2, 3, 4, 5, 6])
        last = (x, y)
        for _ in range(nseg):
            if rng.random() < 0.05:
                self.bad_operand(["l", "c", "v", "y"])
            q = rng.random()
            if q < 0.55:
                p = (dy(rng), dy(rng))
                if rng.random() < 0.12:
                    p = last            # zero-length segment
                elif rng.random() < 0.12:
                    p = (x, y)          # back to the start
                self.emit("l", num(p[0]), num(p[1]))
                last = p
            elif q < 0.75:
                self.emit("c", *self.pt(), *self.pt(), *self.pt())
            elif q < 0.88:
                self.emit("v", *self.pt(), *self.pt())
            else:
                self.emit("y", *self.pt(), *self.pt())
        if rng.random() < 0.35:
            self.emit("h")
            if self.after_h and rng.random() < 0.2:
                self.emit("l", *self.pt())

    def path_object(self):
        rng = self.rng
        for _ in range(rng.choice([1, 1, 1, 2, 2, 3])):
            self.subpath()
            if rng.random() < 0.1:
                self.bad_operand(["m", "l", "c", "v", "y", "re"])
        if rng.random() < 0.1:
            self.emit(rng.choice(["W", "W*"]))
        ends = ["S", "s", "f", "F", "f*", "B", "B*", "b", "b*", "n"]
        k = rng.choice(ends)
        # s b b* need a current point: always true here (>= 1 sub-path)
        self.emit(k)


def gen_case(rng, doc, patterns=False, after_h=False, fop=True) -> Dict[str, Any]:
    g = Gen(rng, doc["cs"], patterns, after_h)
    if rng.random() < 0.7:
        g.emit("cm", *[num(x) for x in gen_matrix(rng)])
    for _ in range(rng.randint(1, 5)):
        for _ in range(rng.choice([0, 1, 1, 2, 3])):
            g.state_op()
        g.path_object()
    ops = g.ops
    if not fop:
        ops = [["f"] if o[0] == "F" else o for o in ops]
    return {"rotate": doc["rotate"], "mediabox": doc["mediabox"], "cs": doc["cs"], "ops": ops}


def gen_doc(rng) -> Dict[str, Any]:
    if rng.random() < 0.5:
        mb = ["0", "0", "612", "792"]
    else:
        x0, y0 = dy(rng, -50, 50, (1, 2)), dy(rng, -50, 50, (1, 2))
        mb = [num(x0), num(y0), num(x0 + rng.randint(100, 600)), num(y0 + rng.randint(100, 800))]
    cs = rng.choice(CS_POOL)
    return {"rotate": rng.choice([0, 0, 0, 90, 180, 270]), "mediabox": mb, "cs": {k: list(v) for k, v in cs.items()}}


def make_wild(rng, case) -> Dict[str, Any]:
    """Damage a well-formed program: drop/duplicate operands, swap in names, delete m, move state ops
    into paths.  Used for the model/implementation tie only."""
    ops = [list(o) for o in case["ops"]]
    for _ in range(rng.randint(1, 3)):
        if not ops:
            break
        i = rng.randrange(len(ops))
        r = rng.random()
        if r < 0.25 and len(ops[i]) > 1:
            del ops[i][rng.randrange(1, len(ops[i]))]
        elif r < 0.4:
            ops[i].insert(1, num(dy(rng)))
        elif r < 0.55 and len(ops[i]) > 1:
            ops[i][rng.randrange(1, len(ops[i]))] = "/Nm"
        elif r < 0.7:
            del ops[i]
        elif r < 0.85:
            j = rng.randrange(len(ops))
            ops[i], ops[j] = ops[j], ops[i]
        else:
            ops.insert(i, [rng.choice(["BX", "EX", "zz", "sc", "SCN", "Q", "h", "l"])])
    if rng.random() < 0.25:       # a path object whose first construction operator is not m / re
        ms = [i for i, o in enumerate(ops) if o[0] in ("m", "re")]
        if ms:
            i = rng.choice(ms)
            if rng.random() < 0.5:
                del ops[i]
            else:
                ops[i] = [rng.choice(["l", "h", "c", "v"])] + ops[i][1:]
    c = dict(case)
    c["ops"] = ops
    return c


def path_without_m(ops) -> bool:
    """Some path object's first construction operator is a segment / h (theorem C16_no_start_no_shape)."""
    fresh = True
    for o in ops:
        if o[0] in PAINT or o[0] == "n":
            fresh = True
        elif o[0] in ("m", "re"):
            if len(o) - 1 == NARGS[o[0]] and all(is_num(x) for x in o[1:]):
                fresh = False
        elif o[0] in ("l", "c", "v", "y", "h") and fresh:
            if len(o) - 1 == NARGS[o[0]] and all(is_num(x) for x in o[1:]):
                return True
    return False


# --------------------------------------------------------------------------- comparison

GROUPS = [["kind", "pts", "path", "bbox"], ["sc", "nc"], ["lw", "s", "f", "e", "d"]]


def diff_all(exp, got) -> List[Dict[str, Any]]:
    """Differences between two page results (lists of field dicts or an error string): at most one per
    field group (geometry / colours / other graphics state) of the first differing shape of that group,
    so that independent deviations are reported (and classified) independently."""
    if isinstance(got, str) or isinstance(exp, str):
        return [] if exp == got else [{"index": None, "fields": ["exception"], "expected": exp, "got": got}]
    if len(exp) != len(got):
        return [{"index": None, "fields": ["count"], "expected": page_line(exp), "got": page_line(got)}]
    res = []
    for grp in GROUPS:
        for i, (e, g) in enumerate(zip(exp, got)):
            bad = [k for k in grp if e[k] != g[k]]
            if bad:
                res.append({"index": i, "fields": bad, "expected": fields_line(e), "got": fields_line(g), "e": e, "g": g})
                break
    return res


def diff_shapes(exp, got) -> Optional[Dict[str, Any]]:
    d = diff_all(exp, got)
    return d[0] if d else None


def rect_reversed(e: Dict[str, str], g: Dict[str, str]) -> bool:
    """LTRect.pts is [p0,p3,p2,p1] of the path's corner order [p0,p1,p2,p3]."""
    ep, gp = e["pts"].split(";"), g["pts"].split(";")
    return e["kind"] == "R" and g["kind"] == "R" and len(ep) == 4 and gp == [ep[0], ep[3], ep[2], ep[1]] and gp != ep


def failure_tags(case, d) -> Dict[str, Any]:
    tags: Dict[str, Any] = {"fields": d["fields"]}
    opnames = [o[0] for o in case["ops"]]
    tags["ops"] = sorted(set(opnames))
    if d["index"] is not None:
        e, g = d["e"], d["g"]
        tags["rect_pts_reversed"] = d["fields"] == ["pts"] and rect_reversed(e, g)
        tags["expected_pattern"] = all(e[k].startswith("P:") for k in d["fields"]) and set(d["fields"]) <= {"sc", "nc"}
        tags["arity_unsupported"] = set(d["fields"]) <= {"sc", "nc"} and all(
            not e[k].startswith("P:") and e[k] != "-" and len(e[k].split(",")) not in (1, 3, 4) for k in d["fields"])
    tags["segment_after_h"] = any(a == "h" and b in SEGOPS for a, b in zip(opnames, opnames[1:])) or \
        any(a == "re" and b in SEGOPS for a, b in zip(opnames, opnames[1:]))
    tags["has_F"] = "F" in opnames
    return tags


def signature(d) -> Tuple:
    return (tuple(d["fields"]), d["index"] is None)


def prop_failures(case) -> List[Dict[str, Any]]:
    """Evaluate the property on the implementation for one in-domain case."""
    try:
        exp = spec_run(case)
    except OutsideDomain:
        return []
    got = run_impl([case])[0]
    return diff_all(exp, visible(got))


def same_failure(case, sig, tags0) -> Optional[Dict[str, Any]]:
    for d in prop_failures(case):
        if signature(d) == sig:
            t = failure_tags(case, d)
            if all(t.get(k) == tags0.get(k) for k in ("rect_pts_reversed", "expected_pattern", "arity_unsupported")):
                return d
    return None


def shrink(case, d0) -> Tuple[Dict[str, Any], Dict[str, Any]]:
    sig = signature(d0)
    tags0 = failure_tags(case, d0)

    def still(ops):
        return same_failure(dict(case, ops=ops), sig, tags0) is not None
    ops = C.ddmin(list(case["ops"]), still, max_tests=150)
    small = dict(case, ops=ops)
    # simpler page set-up when the failure does not depend on it
    for alt in ({"rotate": 0, "mediabox": ["0", "0", "612", "792"], "cs": small["cs"]},
                {"rotate": small["rotate"], "mediabox": small["mediabox"], "cs": {}}):
        cand = dict(small, **alt)
        try:
            d = same_failure(cand, sig, tags0)
        except Exception:  # noqa: BLE001
            d = None
        if d is not None:
            small = cand
    d = same_failure(small, sig, tags0)
    if d is None:
        return case, d0
    return small, d


WHAT = {
    "exception": "interpreting a well-formed path program raised / page result differs in kind",
    "count": "number of shapes differs from the number of painted sub-paths with >= 1 segment",
    "kind": "shape class (line / rectangle / curve) differs from the stated rule",
    "pts": "shape points are not the transformed segment end points in order",
    "path": "original_path is not the transformed path",
    "bbox": "shape bbox is not the hull of its points",
    "lw": "line width is not the one in force", "s": "stroke flag wrong", "f": "fill flag wrong",
    "e": "even-odd flag wrong", "sc": "stroking colour is not the one in force",
    "nc": "non-stroking colour is not the one in force", "d": "dash pattern is not the one in force",
}


def report_failure(ctx: C.Ctx, case, d) -> None:
    small, d2 = shrink(case, d)
    tags = failure_tags(small, d2)
    what = "; ".join(WHAT.get(f, f) for f in d2["fields"][:3])
    ctx.fail(C.Failure(what, {k: small[k] for k in ("rotate", "mediabox", "cs", "ops")},
                       d2["expected"], d2["got"], tags))


CLASSIFIERS = {
    "c16_pattern_colour_not_recorded": lambda f: bool(f.tags.get("expected_pattern")),
}


# --------------------------------------------------------------------------- theorem C16_rect_under_ctm on the code

RECT_CTM_CLASSES = ("quarter", "scale", "mirror", "xcollapse", "ycollapse", "shear", "rot45", "general", "zero")


def gen_rect_ctm(rng, cls: str) -> List[F]:
    s = rng.choice([F(1), F(2), F(1, 2), F(3), F(-1), F(-2)])
    t = rng.choice([F(1), F(2), F(1, 2), F(-3), F(-1, 2)])
    e, f = dy(rng, -32, 32), dy(rng, -32, 32)
    if cls == "quarter":
        a, b, c, d = rng.choice([(0, 1, -1, 0), (0, -1, 1, 0), (-1, 0, 0, -1), (1, 0, 0, 1)])
        return [a * s, b * s, c * s, d * s, e, f]
    if cls == "scale":
        return [s, F(0), F(0), t, e, f]
    if cls == "mirror":
        a, b, c, d = rng.choice([(-1, 0, 0, 1), (1, 0, 0, -1), (0, 1, 1, 0), (0, -1, -1, 0)])
        return [a * s, b * s, c * t, d * t, e, f]
    if cls == "xcollapse":      # the x direction is mapped to 0 or into the axis the y direction does not use
        return rng.choice([[F(0), F(0), t, F(0), e, f], [F(0), F(0), F(0), t, e, f], [F(0), s, t, F(0), e, f]])
    if cls == "ycollapse":      # c = d = 0: the 4th side becomes the closing segment
        return rng.choice([[s, t, F(0), F(0), e, f], [s, F(0), F(0), F(0), e, f], [F(0), t, F(0), F(0), e, f]])
    if cls == "shear":
        k = rng.choice([F(1), F(-1, 2), F(2)])
        return rng.choice([[s, F(0), k, t, e, f], [s, k, F(0), t, e, f], [F(0), s, t, k, e, f]])
    if cls == "rot45":
        return [s, s, -s, s, e, f]
    if cls == "zero":
        return [F(0), F(0), F(0), F(0), e, f]
    m = [dy(rng, -4, 4, (1, 2, 4)) for _ in range(4)]
    return [x if x != 0 else F(1) for x in m] + [e, f]


def gen_rect_ctm_case(rng, cls: str) -> Dict[str, Any]:
    """`a b c d e f cm  [w / d / colour]  x y w h re  [W | W*]  <paint>` on an unrotated page with origin 0 0."""
    g = Gen(rng, {}, False, False)
    g.emit("cm", *[num(x) for x in gen_rect_ctm(rng, cls)])
    for _ in range(rng.choice([0, 0, 1, 2])):
        r = rng.random()
        if r < 0.3:
            g.emit("w", num(abs(dy(rng, 0, 8))))
        elif r < 0.5:
            g.emit("d", [num(F(rng.randint(1, 6)))], num(F(0)))
        else:
            k = rng.choice(["g", "G", "rg", "RG", "k", "K"])
            g.emit(k, *[num(F(rng.randint(0, 8), 8)) for _ in range(NARGS[k])])
    w = rng.choice([-1, 1]) * abs(dy(rng, 1, 16))
    h = rng.choice([-1, 1]) * abs(dy(rng, 1, 16))
    g.emit("re", num(dy(rng)), num(dy(rng)), num(w), num(h))
    if rng.random() < 0.3:
        g.emit(rng.choice(["W", "W*"]))
    g.emit(rng.choice(sorted(PAINT)))
    return {"rotate": 0, "mediabox": ["0", "0", "612", "792"], "cs": {}, "ops": g.ops, "rect_ctm_class": cls}


def rect_ctm_prediction(case) -> Optional[Tuple[str, List[str], Tuple[int, int, int]]]:
    """For programs of the form above: what theorem C16_rect_under_ctm says about the ONE shape -
    (class, points, (stroke, fill, evenodd)).  None for every other program."""
    if case["rotate"] != 0 or [F(x) for x in case["mediabox"][:2]] != [0, 0]:
        return None
    ops = case["ops"]
    if len(ops) < 3 or ops[0][0] != "cm" or ops[-1][0] not in PAINT:
        return None
    body = ops[1:-1]
    if body and body[-1][0] in ("W", "W*"):
        body = body[:-1]
    if not body or body[-1][0] != "re" or any(o[0] not in ("w", "d", "g", "G", "rg", "RG", "k", "K") for o in body[:-1]):
        return None
    if len(ops[0]) != 7 or len(body[-1]) != 5 or not all(is_num(x) for x in ops[0][1:] + body[-1][1:]):
        return None
    a, b, c, d, e, f = [F(x) for x in ops[0][1:]]
    x, y, w, h = [F(v) for v in body[-1][1:]]
    if w == 0 or h == 0:
        return None
    T = lambda p: (a * p[0] + c * p[1] + e, b * p[0] + d * p[1] + f)     # noqa: E731
    cor = [T((x, y)), T((x + w, y)), T((x + w, y + h)), T((x, y + h))]
    rect = (a == 0 and d == 0 and c != 0) or (b == 0 and c == 0 and d != 0)
    pts = cor if rect or (c == 0 and d == 0) else cor + [cor[0]]
    st, fi, eo, _ = PAINT[ops[-1][0]]
    return ("R" if rect else "C", [cpt(p) for p in pts], (st, fi, eo))


def check_rect_ctm(ctx: C.Ctx, case, got) -> None:
    pred = rect_ctm_prediction(case)
    if pred is None or isinstance(got, str):
        return
    kind, pts, flags = pred
    cls = case.get("rect_ctm_class", "other")
    ctx.branch("rect-under-ctm:%s:%s%d" % (cls, kind, len(pts)))
    exp = {"n": 1, "kind": kind, "pts": ";".join(pts), "s": flags[0], "f": flags[1], "e": flags[2]}
    g = got[0] if len(got) == 1 else None
    have = {"n": len(got)}
    if g is not None:
        have.update({"kind": g["kind"], "pts": g["pts"], "s": int(g["s"]), "f": int(g["f"]), "e": int(g["e"])})
    if have != exp:
        ctx.branch("propfail:rect-under-ctm")
        ctx.fail(C.Failure("a rectangle (re) painted under a matrix is not the one shape theorem C16_rect_under_ctm "
                           "states (LTRect iff a=d=0,c!=0 or b=c=0,d!=0; corners in path order)",
                           {k: case[k] for k in ("rotate", "mediabox", "cs", "ops")}, exp, have,
                           {"rect_under_ctm": True}))


# --------------------------------------------------------------------------- pages through ONE interpreter

DANGLING = ("segments", "closed", "re-clip", "lone-m", "q-state", "state", "q-path", "curve", "after-h", "none")


def gen_dangling_case(rng, doc, kind: str) -> Dict[str, Any]:
    """A well-formed page whose content ENDS in a dangling state: path construction that is never painted nor
    ended with n (plain segments, a closed sub-path, a clip rectangle whose n is missing, a lone m, Bezier
    segments, a segment after h), an unmatched q, changed colours / width / dash / CTM / colour spaces."""
    g = Gen(rng, doc["cs"], False, kind == "after-h")
    if rng.random() < 0.6:
        g.emit("cm", *[num(x) for x in gen_matrix(rng)])
    for _ in range(rng.randint(0, 2)):
        for _ in range(rng.choice([0, 1, 2])):
            g.state_op()
        g.path_object()
    if kind in ("q-state", "q-path"):
        g.emit("q")
        g.stack.append((g.ss, g.ns))
    if kind in ("q-state", "state"):
        g.emit("w", num(abs(dy(rng, 1, 8))))
        g.emit("d", [num(F(rng.randint(1, 6)))], num(F(0)))
        g.emit(rng.choice(["RG", "rg"]), *[num(F(rng.randint(0, 8), 8)) for _ in range(3)])
        g.emit("cm", *[num(x) for x in gen_matrix(rng)])
        for _ in range(rng.randint(0, 3)):
            g.state_op(nested=True)
    if kind in ("segments", "q-path"):
        g.emit("m", *g.pt())
        for _ in range(rng.randint(1, 3)):
            g.emit("l", *g.pt())
    elif kind == "closed":
        g.emit("m", *g.pt())
        g.emit("l", *g.pt())
        g.emit("l", *g.pt())
        g.emit("h")
    elif kind == "re-clip":
        g.emit("re", num(dy(rng)), num(dy(rng)), num(dy(rng, 1, 16)), num(dy(rng, 1, 16)))
        g.emit(rng.choice(["W", "W*"]))
    elif kind == "lone-m":
        g.emit("m", *g.pt())
    elif kind == "curve":
        g.emit("m", *g.pt())
        g.emit("c", *g.pt(), *g.pt(), *g.pt())
        g.emit("v", *g.pt(), *g.pt())
    elif kind == "after-h":
        g.emit("re", num(dy(rng)), num(dy(rng)), num(dy(rng, 1, 16)), num(dy(rng, 1, 16)))
        g.emit("l", *g.pt())
    return {"rotate": doc["rotate"], "mediabox": doc["mediabox"], "cs": doc["cs"], "ops": g.ops, "dangling": kind}


def doc_input(cases, k: int) -> Dict[str, Any]:
    c0 = cases[0]
    return {"rotate": c0["rotate"], "mediabox": c0["mediabox"], "cs": c0["cs"],
            "pages": [c["ops"] for c in cases], "page": k}


def pages_failures(cases, k: int) -> List[Dict[str, Any]]:
    """Property on the implementation: page k of the document, all pages run through ONE interpreter, must
    show exactly what its own program demands."""
    try:
        exp = spec_run(cases[k])
    except OutsideDomain:
        return []
    got = run_impl(cases, shared=True)[k]
    return diff_all(exp, visible(got))


def report_pages_failure(ctx: C.Ctx, cases, k: int, d0) -> None:
    sig = signature(d0)

    def still(cs, kk) -> Optional[Dict[str, Any]]:
        try:
            for d in pages_failures(cs, kk):
                if signature(d) == sig:
                    return d
        except Exception:  # noqa: BLE001
            return None
        return None
    # fewest pages: one earlier page + the failing page, when that is enough
    for j in range(k - 1, -1, -1):
        if still([cases[j], cases[k]], 1) is not None:
            cases, k = [cases[j], cases[k]], 1
            break
    # single page: not a page-isolation failure, report it as an ordinary one
    if still([cases[k]], 0) is not None:
        report_failure(ctx, cases[k], d0)
        return
    for idx in range(len(cases)):
        if len(cases[idx]["ops"]) < 2:
            continue

        def keep(ops, idx=idx):
            cand = list(cases)
            cand[idx] = dict(cases[idx], ops=ops)
            return still(cand, k) is not None
        ops = C.ddmin(list(cases[idx]["ops"]), keep, max_tests=60)
        cases = list(cases)
        cases[idx] = dict(cases[idx], ops=ops)
    d = still(cases, k) or d0
    what = ("the shapes of a page depend on what an earlier page run through the same interpreter left behind "
            "(unpainted path / graphics state): " + "; ".join(WHAT.get(f, f) for f in d["fields"][:3]))
    ctx.fail(C.Failure(what, doc_input(cases, k), d["expected"], d["got"],
                       {"pages": True, "fields": d["fields"], "npages": len(cases)}))


def check_pages(ctx: C.Ctx, cases: List[Dict[str, Any]], seen_sigs: set) -> None:
    """cases = the pages of ONE document in order.  Tie: Lean `runPagesFrom` (one interpreter state threaded
    through the pages) vs the implementation with ONE interpreter; property: every page vs its own program."""
    impl = run_impl(cases, shared=True)
    model = None
    if ctx.driver is not None:
        model = ctx.driver.ask([pages_line(cases)])[0].split(" || ")
        if len(model) != len(cases):
            model = [model[0]] * len(cases)
    for k, case in enumerate(cases):
        got = impl[k]
        got_line = got if isinstance(got, str) else page_line(got)
        try:
            exp = spec_run(case)
            dom = True
        except OutsideDomain:
            exp, dom = None, False
        painted = 0 if isinstance(got, str) else len(visible(got))
        ctx.case(("pp", k, case["rotate"], tuple(case["mediabox"]), sorted(case["cs"].items()),
                  json.dumps([c["ops"] for c in cases[:k + 1]])), k > 0 and painted > 0,
                 sample={"page": k, "after": [c.get("dangling", "?") for c in cases[:k]],
                         "content": to_content(case["ops"]).decode("latin-1")[:200]},
                 branch="pages:domain" if dom else "pages:wild")
        if k > 0:
            ctx.branch("page-after:" + cases[k - 1].get("dangling", "?") + (":paints" if painted else ":empty"))
        if model is not None and model[k] != got_line:
            ctx.disagree("model-pages", doc_input(cases, k), got_line, model[k])
        if dom:
            for d in diff_all(exp, visible(got)):
                ctx.branch("propfail:pages:" + "+".join(d["fields"]))
                sig = ("pages", signature(d))
                if sig not in seen_sigs and len(seen_sigs) < 12:
                    seen_sigs.add(sig)
                    report_pages_failure(ctx, cases, k, d)


# --------------------------------------------------------------------------- form XObjects ending in a dangling state

def gen_form_doc(rng) -> Dict[str, Any]:
    """Document set-up + a form XObject /Fm0 whose content changes the graphics state and ends with an
    unpainted path (and possibly an unmatched q): nothing of it may leak into the page that invokes it."""
    doc = gen_doc(rng)
    kind = rng.choice([k for k in DANGLING if k != "none"])
    form = gen_dangling_case(rng, dict(doc, cs={}), kind)["ops"]
    doc["form"] = form
    doc["form_kind"] = kind
    doc["form_matrix"] = [num(x) for x in gen_matrix(rng)]
    return doc


def gen_form_case(rng, doc) -> Dict[str, Any]:
    case = gen_case(rng, doc)
    ops = case["ops"]
    # `Do` only between path objects (ISO: not inside path construction)
    slots = [0] + [i + 1 for i, o in enumerate(ops) if o[0] in PAINT or o[0] == "n"]
    out = []
    chosen = set(rng.sample(slots, min(len(slots), rng.choice([1, 1, 2]))))
    for i, o in enumerate(ops):
        if i in chosen:
            out.append(["Do", "/Fm0"])
        out.append(o)
    if len(ops) in chosen:
        out.append(["Do", "/Fm0"])
    return dict(case, ops=out, form=doc["form"], form_matrix=doc["form_matrix"], form_kind=doc["form_kind"])


def form_failures(case) -> List[Dict[str, Any]]:
    """Property for a page that invokes the dangling form: at top level it must show exactly what the page's
    own program (without the `Do`s) demands."""
    plain = dict(case, ops=[o for o in case["ops"] if o[0] != "Do"])
    try:
        exp = spec_run(plain)
    except OutsideDomain:
        return []
    got = run_impl([case])[0]
    return diff_all(exp, visible(got))


def form_input(case) -> Dict[str, Any]:
    return {k: case[k] for k in ("rotate", "mediabox", "cs", "ops", "form", "form_matrix")}


def report_form_failure(ctx: C.Ctx, case, d0) -> None:
    sig = signature(d0)

    def fails(c) -> Optional[Dict[str, Any]]:
        try:
            for d in form_failures(c):
                if signature(d) == sig:
                    return d
        except Exception:  # noqa: BLE001
            return None
        return None

    ops = C.ddmin(list(case["ops"]), lambda o: any(x[0] == "Do" for x in o) and fails(dict(case, ops=o)) is not None,
                  max_tests=80)
    small = dict(case, ops=ops)
    if len(small["form"]) >= 2:
        form = C.ddmin(list(small["form"]), lambda f: fails(dict(small, form=f)) is not None, max_tests=60)
        small = dict(small, form=form)
    d = fails(small)
    if d is None:
        small, d = case, d0
    ctx.fail(C.Failure("a form XObject whose content ends with an unpainted path / changed graphics state leaks "
                       "into the page that invokes it: " + "; ".join(WHAT.get(f, f) for f in d["fields"][:3]),
                       form_input(small), d["expected"], d["got"], {"form": True, "fields": d["fields"]}))


# --------------------------------------------------------------------------- running a batch

def check_batch(ctx: C.Ctx, cases: List[Dict[str, Any]], in_domain: bool, seen_sigs: set) -> None:
    """cases share the document set-up.  Tie (model vs impl), property (impl vs spec), spec twin vs Lean spec."""
    if not cases:
        return
    impl = run_impl(cases)
    model = lean_spec = None
    if ctx.driver is not None:
        lines = ["model " + tok_line(c) for c in cases] + ["spec " + tok_line(c) for c in cases]
        outs = ctx.driver.ask(lines)
        model, lean_spec = outs[:len(cases)], outs[len(cases):]
    for i, case in enumerate(cases):
        got = impl[i]
        got_line = got if isinstance(got, str) else page_line(got)
        try:
            exp = spec_run(case)
            dom = True
        except OutsideDomain:
            exp, dom = None, False
        opnames = [o[0] for o in case["ops"]]
        painted = 0 if isinstance(got, str) else len(visible(got))
        nontriv = painted > 0 and any(k in opnames for k in ("cm", "w", "d", "g", "G", "rg", "RG", "k", "K", "sc",
                                                              "scn", "SC", "SCN", "q")) or case["rotate"] != 0
        ctx.case(("p", case["rotate"], tuple(case["mediabox"]), sorted(case["cs"].items()), json.dumps(case["ops"])),
                 nontriv, sample={"rotate": case["rotate"], "mediabox": case["mediabox"],
                                  "content": to_content(case["ops"]).decode("latin-1")[:300]},
                 branch="domain" if dom else "wild")
        for k in opnames:
            ctx.branch("op:" + k)
        if not dom and path_without_m(case["ops"]):
            ctx.branch("wild:path-without-m")
        if case.get("form") is not None and "Do" in opnames:
            ctx.branch("form-dangling:" + case.get("form_kind", "?") + (":page-paints" if painted else ":empty"))
        for o in case["ops"]:
            if (o[0] in NUM_ARITY or o[0] in ("sc", "scn", "SC", "SCN")) and not all(is_num(x) for x in o[1:]):
                pos = [i for i, x in enumerate(o[1:]) if not is_num(x)]
                ctx.branch("badoperand:%s:pos%d/%d" % (o[0], pos[0], len(o) - 1))
        if dom and in_domain:
            check_rect_ctm(ctx, case, got)
        if any(o[0] in ("W", "W*") for o in case["ops"]):
            nxt = [case["ops"][j + 1][0] if j + 1 < len(case["ops"]) else "end"
                   for j, o in enumerate(case["ops"]) if o[0] in ("W", "W*")]
            for k in nxt:
                ctx.branch("clip-then:" + k)
        if isinstance(got, str):
            ctx.branch("impl:" + got)
        else:
            for s in got:
                ctx.branch("shape:" + s["kind"] + ("" if has_segment(s) else ":zero-seg"))
        if model is not None:
            if model[i] != got_line:
                ctx.disagree("model", {k: case[k] for k in ("rotate", "mediabox", "cs", "ops")}, got_line, model[i])
            if dom:
                twin = page_line(exp)
                if lean_spec[i] != twin:
                    ctx.disagree("spec-twin", {k: case[k] for k in ("rotate", "mediabox", "cs", "ops")},
                                 twin, lean_spec[i])
            elif lean_spec[i] != "outside-domain":
                ctx.disagree("spec-domain", {k: case[k] for k in ("rotate", "mediabox", "cs", "ops")},
                             "outside-domain", lean_spec[i])
        if case.get("form") is not None and "Do" in opnames and not isinstance(got, str):
            plain = dict(case, ops=[o for o in case["ops"] if o[0] != "Do"])
            try:
                exp2 = spec_run(plain)
            except OutsideDomain:
                exp2 = None
            if exp2 is not None:
                for d in diff_all(exp2, visible(got)):
                    ctx.branch("propfail:form:" + "+".join(d["fields"]))
                    sig = ("form", signature(d))
                    if sig not in seen_sigs and len(seen_sigs) < 12:
                        seen_sigs.add(sig)
                        report_form_failure(ctx, case, d)
        if dom and in_domain:
            for d in diff_all(exp, visible(got)):
                ctx.branch("propfail:" + "+".join(d["fields"]))
                t = failure_tags(case, d)
                sig = (signature(d), t.get("rect_pts_reversed"), t.get("expected_pattern"), t.get("segment_after_h"),
                       t.get("has_F"), t.get("arity_unsupported"))
                if sig not in seen_sigs and len(seen_sigs) < 12:
                    seen_sigs.add(sig)
                    report_failure(ctx, case, d)


def run_corpus(ctx: C.Ctx) -> None:
    for path in sorted(glob.glob(os.path.join(C.VERIF, "corpus", "C16", "*.json"))):
        with open(path) as fp:
            doc = json.load(fp)
        replay(ctx, doc, from_corpus=True)


def replay(ctx: C.Ctx, doc, from_corpus: bool = False) -> None:
    logging.disable(logging.CRITICAL)
    inp = doc.get("input", doc)
    if "pages" in inp:
        cases = [{"rotate": inp.get("rotate", 0), "mediabox": inp.get("mediabox", ["0", "0", "612", "792"]),
                  "cs": {k: list(v) for k, v in inp.get("cs", {}).items()}, "ops": ops} for ops in inp["pages"]]
        ctx.branch("corpus:pages" if from_corpus else "replay:pages")
        check_pages(ctx, cases, set())
        return
    if "ops" not in inp:
        return
    case = {"rotate": inp.get("rotate", 0), "mediabox": inp.get("mediabox", ["0", "0", "612", "792"]),
            "cs": {k: list(v) for k, v in inp.get("cs", {}).items()}, "ops": inp["ops"]}
    if inp.get("form") is not None:
        case["form"] = inp["form"]
        case["form_matrix"] = inp.get("form_matrix", ["1", "0", "0", "1", "0", "0"])
    ctx.branch("corpus" if from_corpus else "replay")
    check_batch(ctx, [case], True, set())


def run(ctx: C.Ctx) -> None:
    logging.disable(logging.CRITICAL)
    run_corpus(ctx)
    rng = ctx.rng
    seen: set = set()
    # theorem C16_rect_under_ctm against the code: every matrix class x every painting operator
    for rep in range(ctx.n(1, 12)):
        cases = [gen_rect_ctm_case(rng, cls) for cls in RECT_CTM_CLASSES for _ in range(6)]
        check_batch(ctx, cases, True, seen)
    # page isolation (theorem C16_page_isolation): documents of 2-4 pages run through ONE interpreter, every
    # page but the last ending in a dangling state (each kind in turn)
    for rep in range(ctx.n(20, 400)):
        if not ctx.time_left():
            break
        doc = gen_doc(rng)
        if rep % 5 == 4:
            doc["rotate"] = 0
        npages = rng.choice([2, 2, 3, 4])
        kinds = [DANGLING[(rep * 3 + i) % len(DANGLING)] for i in range(npages)]
        cases = [gen_dangling_case(rng, doc, kinds[i]) if i < npages - 1 or rng.random() < 0.3
                 else dict(gen_case(rng, doc), dangling="none") for i in range(npages)]
        check_pages(ctx, cases, seen)
    # form XObjects whose content ends in a dangling state, invoked between the page's path objects (tie only:
    # the model says `Do` consumes its operand and changes nothing the page can see at top level)
    for rep in range(ctx.n(10, 200)):
        if not ctx.time_left():
            break
        doc = gen_form_doc(rng)
        check_batch(ctx, [gen_form_case(rng, doc) for _ in range(6)], False, seen)
    ndocs = ctx.n(240, 6000)
    per = 12
    for di in range(ndocs):
        if not ctx.time_left():
            ctx.notes.append(f"time budget reached after {di} documents")
            break
        doc = gen_doc(rng)
        mode = di % 6
        if di % 8 == 7:
            doc["cs"] = dict(doc["cs"], **{k: list(v) for k, v in CS_ODD.items()})
        # 0-2: plain in-domain; 3: + pattern colours; 4: + segments after h; 5: wild (tie only)
        cases = [gen_case(rng, doc, patterns=(mode == 3), after_h=(mode == 4)) for _ in range(per)]
        if mode == 5:
            cases = [make_wild(rng, c) for c in cases]
        check_batch(ctx, cases, mode != 5, seen)
