"""C20 - geometry helpers obey affine algebra; spatial index equals brute-force search.

Three relations are exercised on every run:
  (tie)   translated Lean definitions / hand model of Plane  ==  pdfminer.utils on the same inputs
  (prop)  pdfminer.utils itself satisfies the algebraic laws and find == brute force, iter == insertion order
  (proof) lean/PdfVerif/Props/C20.lean: the same laws for ALL rationals / ALL op sequences of the model
"""

from __future__ import annotations

from fractions import Fraction as F
from typing import Any, List, Tuple

from harness import common as C

LEVEL = "proof"
RULE = ("matrix cases: random rational matrices/points/rectangles incl. singular, zero and negative entries; "
        "plane cases: random op sequences (add/remove/find/iter) over boxes on, across and outside the grid and the "
        "plane bounds, negative non-integer coordinates, zero-size boxes; full-interface histories (add/extend/remove of "
        "live, removed and never-added objects/find/in/len/iter, gridsizes 1..500, zero-size planes); get_bound on "
        "0..10 points incl. coordinates at and beyond +-INF; uniq/fsplit on int lists with duplicates and two "
        "predicate families; a case is non-trivial when it is a distinct "
        "input that is not the identity/zero matrix resp. a sequence with >=1 find that returns >=1 object")
TRUSTED_BASE = [
    "tools/translate (Python ast -> Lean) for mult_matrix, translate_matrix, apply_matrix_pt, apply_matrix_rect, "
    "apply_matrix_norm, drange, MATRIX_IDENTITY, INF, get_bound (loop body translated, loop = List.foldl) - every "
    "translated definition is also run against the Python original",
    "uniq / fsplit: Lean definitions emitted by gen_c20.py only while the Python source has exactly the pinned "
    "ast shape (generic generator/loop code is outside the translator subset); run against the Python original",
    "hand model lean/PdfVerif/Model/Plane.lean of utils.Plane (correspondence-checked on op sequences)",
    "exact rationals stand for Python floats (no rounding modelled)",
]
ASSUMPTIONS = [
    "coordinates are exact rationals (fractions.Fraction on the Python side); IEEE rounding is not modelled",
    "boxes are well formed (x0<=x1, y0<=y1) and do not change while the object is in the index; add/extend insert "
    "new objects, objects that are already there (no-op) or objects removed before (added again, last); remove "
    "targets a live object or an object that is not in the index (then: KeyError, index unchanged)",
    "get_bound is the tight hull for non-empty point lists inside [-INF, INF]^2 (outside: the +-INF limit shows, "
    "modelled and proved as get_bound_attained_or_limit)",
]
STATEMENT_STATUS = {}

CLASSIFIERS = {
    # (historic; fixed in round 6) re-adding an object that was added before made __iter__ yield it twice
    "c20_readd_duplicate_in_iter": lambda f: f.tags.get("readd", False) and f.tags.get("op") == "iter",
}


class Box:
    __slots__ = ("id", "x0", "y0", "x1", "y1")

    def __init__(self, id, x0, y0, x1, y1):
        self.id, self.x0, self.y0, self.x1, self.y1 = id, x0, y0, x1, y1


def fr(rng, lo=-8, hi=8, den_choices=(1, 1, 2, 4, 8, 3, 10)):
    d = rng.choice(den_choices)
    return F(rng.randint(lo * d, hi * d), d)


def rmatrix(rng):
    kind = rng.random()
    if kind < 0.1:
        return (F(1), F(0), F(0), F(1), F(0), F(0))
    if kind < 0.2:
        return tuple(F(0) if rng.random() < 0.5 else fr(rng) for _ in range(6))
    if kind < 0.35:
        r = rng.choice([(1, 0, 0, 1), (0, 1, -1, 0), (-1, 0, 0, -1), (0, -1, 1, 0)])
        return tuple(F(x) for x in r) + (fr(rng, -100, 100), fr(rng, -100, 100))
    return tuple(fr(rng) for _ in range(6))


def show(xs) -> str:
    return " ".join(C.frac_str(x) for x in xs)


def run_matrix(ctx: C.Ctx) -> None:
    from pdfminer import utils as U
    rng = ctx.rng
    n = ctx.n(400, 20000)
    lines: List[str] = []
    impl: List[str] = []
    inputs: List[Any] = []

    def call(op, args, f):
        try:
            res = f()
            if not isinstance(res, tuple):
                res = tuple(res)
            out = show(res)
        except Exception as e:  # noqa: BLE001
            out = "EXC:" + type(e).__name__
        lines.append(op + " " + show(args))
        impl.append(out)
        inputs.append((op, [str(a) for a in args]))

    ident = (F(1), F(0), F(0), F(1), F(0), F(0))
    for i in range(n):
        a, b, c = rmatrix(rng), rmatrix(rng), rmatrix(rng)
        p = (fr(rng, -50, 50), fr(rng, -50, 50))
        x0, x1 = sorted((fr(rng, -50, 50), fr(rng, -50, 50)))
        y0, y1 = sorted((fr(rng, -50, 50), fr(rng, -50, 50)))
        rect = (x0, y0, x1, y1)
        nontriv = a != ident and any(a) and b != ident
        ctx.case(("m", a, b, c, p, rect), nontriv, sample={"m1": [str(x) for x in a], "m0": [str(x) for x in b],
                                                            "pt": [str(x) for x in p], "rect": [str(x) for x in rect]})
        # correspondence with the translated definitions
        call("mult", a + b, lambda: U.mult_matrix(a, b))
        call("translate", a + p, lambda: U.translate_matrix(a, p))
        call("applypt", a + p, lambda: U.apply_matrix_pt(a, p))
        call("applynorm", a + p, lambda: U.apply_matrix_norm(a, p))
        call("applyrect", a + rect, lambda: U.apply_matrix_rect(a, rect))
        # the property on the implementation itself (exact arithmetic)
        try:
            checks = []
            checks.append(("mult_assoc", U.mult_matrix(U.mult_matrix(a, b), c), U.mult_matrix(a, U.mult_matrix(b, c))))
            mi = tuple(F(x) for x in U.MATRIX_IDENTITY)
            checks.append(("mult_id_left", tuple(U.mult_matrix(mi, a)), a))
            checks.append(("mult_id_right", tuple(U.mult_matrix(a, mi)), a))
            checks.append(("apply_mult", tuple(U.apply_matrix_pt(U.mult_matrix(a, b), p)),
                           tuple(U.apply_matrix_pt(b, U.apply_matrix_pt(a, p)))))
            checks.append(("translate_spec", tuple(U.translate_matrix(a, p)),
                           tuple(U.mult_matrix((F(1), F(0), F(0), F(1), p[0], p[1]), a))))
            o = U.apply_matrix_pt(a, (F(0), F(0)))
            q = U.apply_matrix_pt(a, p)
            checks.append(("norm_spec", tuple(U.apply_matrix_norm(a, p)), (q[0] - o[0], q[1] - o[1])))
            corners = [U.apply_matrix_pt(a, (x, y)) for x in (x0, x1) for y in (y0, y1)]
            hull = (min(c[0] for c in corners), min(c[1] for c in corners),
                    max(c[0] for c in corners), max(c[1] for c in corners))
            checks.append(("rect_hull", tuple(U.apply_matrix_rect(a, rect)), hull))
            for name, got, exp in checks:
                ctx.branch("law:" + name)
                if tuple(got) != tuple(exp):
                    ctx.fail(C.Failure(f"matrix law {name} fails on the implementation",
                                       {"law": name, "m1": [str(x) for x in a], "m0": [str(x) for x in b],
                                        "m2": [str(x) for x in c], "pt": [str(x) for x in p],
                                        "rect": [str(x) for x in rect]},
                                       [str(x) for x in exp], [str(x) for x in got], {"law": name}))
        except Exception as e:  # noqa: BLE001
            ctx.fail(C.Failure(f"matrix helper raised {type(e).__name__}", {"m1": [str(x) for x in a]},
                               "a value", repr(e), {"law": "exception"}))
    # drange
    for i in range(ctx.n(600, 20000)):
        d = rng.choice([1, 2, 7, 50, 50, 50])
        v0 = fr(rng, -200, 200)
        v1 = v0 + abs(fr(rng, 0, 120)) if rng.random() < 0.9 else fr(rng, -200, 200)
        try:
            r = list(U.drange(v0, v1, d))
            out = " ".join(str(x) for x in r) if r else "-"
        except Exception as e:  # noqa: BLE001
            out = "EXC:" + type(e).__name__
        lines.append(f"drange {C.frac_str(v0)} {C.frac_str(v1)} {d}")
        impl.append(out)
        inputs.append(("drange", [str(v0), str(v1), d]))
        ctx.case(("dr", v0, v1, d), True, branch="drange:neg" if v0 < 0 else "drange:pos")
        if v0 <= v1 and not out.startswith("EXC"):
            # property-level oracle: the cells of [v0, v1] are floor(v0/d) .. floor(v1/d)
            import math
            exp = list(range(math.floor(v0 / d), math.floor(v1 / d) + 1))
            if r != exp:
                ctx.fail(C.Failure("drange does not cover exactly the grid cells of [v0, v1]",
                                   {"v0": str(v0), "v1": str(v1), "d": d}, exp, r,
                                   {"op": "drange", "neg_nonint": v0 < 0 and v0.denominator != 1 or
                                    (v1 < 0 and v1.denominator != 1)}))
    if ctx.driver is not None:
        outs = ctx.driver.ask(lines)
        for inp, i_out, m_out in zip(inputs, impl, outs):
            if i_out != m_out:
                ctx.disagree(inp[0], inp[1], i_out, m_out)


# ------------------------------------------------------------------ plane

def gen_box(rng, pb, gs) -> Tuple[F, F, F, F]:
    (px0, py0, px1, py1) = pb
    mode = rng.random()

    def coord(lo, hi):
        span = hi - lo
        m = rng.random()
        if m < 0.15:   # outside below
            return lo - abs(fr(rng, 0, 40)) - F(1, 8)
        if m < 0.3:    # outside above
            return hi + abs(fr(rng, 0, 40)) + F(1, 8)
        if m < 0.45:   # on a grid line
            k = rng.randint(-1, int(span // gs) + 1)
            return lo - (lo % gs) + k * gs
        if m < 0.5:
            return rng.choice([lo, hi])
        return lo + span * F(rng.randint(0, 64), 64) + rng.choice([0, 0, F(1, 3), F(-7, 10)])

    xa, xb = coord(px0, px1), coord(px0, px1)
    ya, yb = coord(py0, py1), coord(py0, py1)
    if mode < 0.1:
        xb = xa          # zero width
    if 0.05 < mode < 0.15:
        yb = ya
    if mode > 0.92:      # negative non-integer small box
        xa = F(-rng.randint(1, 400), 16)
        xb = xa + F(rng.randint(0, 8), 16)
    x0, x1 = sorted((xa, xb))
    y0, y1 = sorted((ya, yb))
    return (x0, y0, x1, y1)


def overlap(o, q) -> bool:
    (x0, y0, x1, y1) = q
    return not (o.x1 <= x0 or x1 <= o.x0 or o.y1 <= y0 or y1 <= o.y0)


def gen_plane_seq(rng, length: int, wild: bool):
    """Returns (plane bbox, gridsize, ops). ops: ('add',Box) ('remove',Box) ('find',rect) ('iter',)."""
    gs = rng.choice([1, 3, 7, 50, 50])
    x0 = fr(rng, -60, 60)
    y0 = fr(rng, -60, 60)
    pb = (x0, y0, x0 + abs(fr(rng, 1, 150)) + 1, y0 + abs(fr(rng, 1, 150)) + 1)
    if gs == 1:
        pb = (x0, y0, x0 + rng.randint(1, 6), y0 + rng.randint(1, 6))
    ops = []
    live: List[Box] = []
    dead: List[Box] = []
    asked: List[Any] = []   # (object the query was built around or None, query box)
    nid = 0
    for _ in range(length):
        r = rng.random()
        if r < 0.4 or not live:
            if wild and dead and rng.random() < 0.15:
                b = rng.choice(dead)            # re-add (outside the property's domain)
                dead.remove(b)
            elif wild and live and rng.random() < 0.05:
                b = rng.choice(live)            # double add
                ops.append(("add", b))
                continue
            else:
                nid += 1
                b = Box(nid, *gen_box(rng, pb, gs))
            live.append(b)
            ops.append(("add", b))
        elif r < 0.55:
            if wild and dead and rng.random() < 0.1:
                ops.append(("remove", rng.choice(dead)))   # KeyError path
                continue
            b = rng.choice(live)
            live.remove(b)
            dead.append(b)
            ops.append(("remove", b))
            # state carried across calls: repeat, right after the removal, a query that was
            # already asked (preferably one built around the removed object)
            prev = [q for (o, q) in asked if o is b] or [q for (_, q) in asked[-3:]]
            if prev and rng.random() < 0.6:
                ops.append(("find", rng.choice(prev)))
        elif r < 0.92:
            if live and rng.random() < 0.5:
                o = rng.choice(live)   # query around an existing object
                dx, dy = abs(fr(rng, 0, 3)), abs(fr(rng, 0, 3))
                q = (o.x0 - dx, o.y0 - dy, o.x1 + dx + F(1, 16), o.y1 + dy + F(1, 16))
                if rng.random() < 0.3:
                    q = (o.x1, o.y0, o.x1 + 5, o.y1 + 1)   # touching only: must not be returned
                asked.append((o, q))
            elif asked and rng.random() < 0.25:
                q = rng.choice(asked)[1]          # the very same query again
            else:
                q = gen_box(rng, pb, gs)
                asked.append((None, q))
            ops.append(("find", q))
        else:
            ops.append(("iter",))
    ops.append(("iter",))
    return pb, gs, ops


def added_boxes(ops):
    out = []
    for o in ops:
        if o[0] == "add":
            out.append(o[1])
        elif o[0] == "extend":
            out.extend(o[1])
    return out


def op_line(op) -> str:
    if op[0] == "extend":
        return "plane.extend" + "".join(f" {b.id} {show((b.x0, b.y0, b.x1, b.y1))}" for b in op[1])
    if op[0] == "len":
        return "plane.len"
    if op[0] in ("add", "remove", "contains"):
        b = op[1]
        return f"plane.{op[0]} {b.id} {show((b.x0, b.y0, b.x1, b.y1))}"
    if op[0] == "find":
        return "plane.find " + show(op[1])
    return "plane.iter"


def op_json(op):
    if op[0] == "extend":
        return ["extend"] + [[b.id, str(b.x0), str(b.y0), str(b.x1), str(b.y1)] for b in op[1]]
    if op[0] == "len":
        return ["len"]
    if op[0] in ("add", "remove", "contains"):
        b = op[1]
        return [op[0], b.id, str(b.x0), str(b.y0), str(b.x1), str(b.y1)]
    if op[0] == "find":
        return ["find"] + [str(x) for x in op[1]]
    return ["iter"]


def ops_from_json(js):
    boxes = {}
    ops = []
    def box(id, cs):
        b = boxes.get(id)
        if b is None:
            b = boxes[id] = Box(id, *(F(x) for x in cs))
        return b
    for j in js:
        if j[0] in ("add", "remove", "contains"):
            ops.append((j[0], box(j[1], j[2:6])))
        elif j[0] == "extend":
            ops.append(("extend", [box(e[0], e[1:5]) for e in j[1:]]))
        elif j[0] == "len":
            ops.append(("len",))
        elif j[0] == "find":
            ops.append(("find", tuple(F(x) for x in j[1:5])))
        else:
            ops.append(("iter",))
    return ops


def exec_plane(pb, gs, ops, in_domain: bool):
    """Run the real Plane.  Returns (impl output lines, first property failure or None)."""
    from pdfminer.utils import Plane
    plane = Plane(pb, gs)
    outs = []
    fail = None
    order: List[Box] = []     # insertion order of live objects (spec)
    ever = set()
    readd = False
    for idx, op in enumerate(ops):
        try:
            if op[0] == "add":
                plane.add(op[1])
                if op[1].id in ever:
                    readd = True
                ever.add(op[1].id)
                # set-like: an object that is there stays where it is; one that was removed is added again
                if not any(o is op[1] for o in order):
                    order.append(op[1])
                outs.append("ok")
            elif op[0] == "extend":
                plane.extend(list(op[1]))
                for b in op[1]:
                    if b.id in ever:
                        readd = True
                    ever.add(b.id)
                    if not any(o is b for o in order):
                        order.append(b)
                outs.append("ok")
            elif op[0] == "contains":
                got = op[1] in plane
                outs.append("true" if got else "false")
                exp = any(o is op[1] for o in order)
                if in_domain and fail is None and got != exp:
                    fail = (idx, "contains", exp, got)
            elif op[0] == "len":
                got = len(plane)
                outs.append(str(got))
                if in_domain and fail is None and got != len(order):
                    fail = (idx, "len", len(order), got)
            elif op[0] == "remove":
                was_live = any(o is op[1] for o in order)
                try:
                    plane.remove(op[1])
                    order = [o for o in order if o is not op[1]]
                    outs.append("ok")
                    if in_domain and fail is None and not was_live:
                        fail = (idx, "remove", "KeyError (object is not in the index)", "no exception")
                except KeyError:
                    outs.append("keyerror")
                    if in_domain and fail is None and was_live:
                        fail = (idx, "remove", "object removed", "KeyError")
            elif op[0] == "find":
                got = list(plane.find(op[1]))
                outs.append(" ".join(str(o.id) for o in got) if got else "-")
                if in_domain and fail is None:
                    # brute force, AS A LIST: live objects that properly overlap, in insertion order
                    # (the order no longer depends on the grid since the repair of Plane.find)
                    exp = [o.id for o in order if overlap(o, op[1])]
                    g = [o.id for o in got]
                    if g != exp:
                        fail = (idx, "find", exp, g)
            else:
                got = list(plane)
                outs.append(" ".join(str(o.id) for o in got) if got else "-")
                exp = [o.id for o in order]
                if in_domain and fail is None and [o.id for o in got] != exp:
                    fail = (idx, "iter", exp, [o.id for o in got])
        except Exception as e:  # noqa: BLE001
            outs.append("EXC:" + type(e).__name__)
            if in_domain and fail is None:
                fail = (idx, "exception", "no exception", type(e).__name__)
    return outs, fail, readd


def plane_tags(pb, gs, ops, idx, kind):
    q = ops[idx][1] if ops[idx][0] == "find" else None
    boxes = added_boxes(ops[:idx])

    def nonint_neg(v):
        return v < 0 and F(v).denominator != 1
    neg = any(nonint_neg(v) for b in boxes for v in (b.x0, b.y0, b.x1, b.y1))
    if q:
        neg = neg or any(nonint_neg(v) for v in q)
    outside = any(b.x1 <= pb[0] or b.x0 >= pb[2] or b.y1 <= pb[1] or b.y0 >= pb[3] or
                  b.x0 < pb[0] or b.y0 < pb[1] or b.x1 > pb[2] or b.y1 > pb[3] for b in boxes)
    ids = [b.id for b in boxes]
    return {"op": kind, "neg_nonint": neg, "outside_bounds": outside, "readd": len(ids) != len(set(ids))}


def check_plane_case(ctx: C.Ctx, pb, gs, ops, in_domain: bool, lines, impl_all, inputs):
    outs, fail, readd = exec_plane(pb, gs, ops, in_domain)
    nontriv = any(o[0] == "find" and r != "-" for o, r in zip(ops, outs))
    ctx.case(("plane", [op_json(o) for o in ops], str(pb), gs), nontriv,
             sample={"bounds": [str(x) for x in pb], "gridsize": gs, "ops": [op_json(o) for o in ops[:12]]},
             branch="plane:domain" if in_domain else "plane:wild")
    for o, r in zip(ops, outs):
        ctx.branch("planeop:" + o[0] + (":hit" if o[0] == "find" and r != "-" else "") +
                   (":" + r if o[0] in ("remove", "contains") else ""))
    lines.append(f"plane.new {show(pb)} {gs}")
    impl_all.append("ok")
    inputs.append(("plane.new", None))
    for k, (o, r) in enumerate(zip(ops, outs)):
        lines.append(op_line(o))
        impl_all.append(r)
        inputs.append(("plane", {"bounds": [str(x) for x in pb], "gridsize": gs,
                                 "ops": [op_json(x) for x in ops[:k + 1]]}))
    if fail is not None:
        idx, kind, exp, got = fail

        # shrink: keep the failing op last
        def still(sub):
            _, f2, _ = exec_plane(pb, gs, sub + [ops[idx]], True)
            return f2 is not None and f2[0] == len(sub)
        pre = C.ddmin(list(ops[:idx]), still) if idx > 0 else []
        small = pre + [ops[idx]]
        _, f2, _ = exec_plane(pb, gs, small, True)
        if f2 is None or f2[0] != len(small) - 1:
            small, f2 = list(ops[:idx + 1]), fail
        tags = plane_tags(pb, gs, small, len(small) - 1, f2[1])
        what = {"find": "Plane.find differs from brute-force overlap search",
                "iter": "Plane iteration is not the live objects in insertion order",
                "contains": "Plane.__contains__ differs from membership in the live objects",
                "len": "len(Plane) is not the number of live objects",
                "remove": "Plane.remove of an absent/live object: wrong outcome",
                "exception": "Plane operation raised"}[f2[1]]
        ctx.fail(C.Failure(what, {"bounds": [str(x) for x in pb], "gridsize": gs,
                                  "ops": [op_json(o) for o in small]}, f2[2], f2[3], tags))


def gen_plane_seq_big(rng):
    """Objects that cover MANY grid cells (around and beyond 256 / 1024 / 2048 cells of a fine grid), filed,
    removed again and searched for afterwards: add -> find -> remove -> find -> iter, with small objects in
    between.  (A layout page only reaches such cell counts at large scale factors.)"""
    gs = 1
    side = rng.choice([40, 48])
    x0 = F(rng.randint(-20, 20))
    y0 = F(rng.randint(-20, 20))
    pb = (x0, y0, x0 + side, y0 + side)
    ops = []
    nid = 0
    live: List[Box] = []

    def big():
        # w x h cells with w*h on and around the powers of two
        w, h = rng.choice([(16, 16), (32, 32), (33, 31), (41, 25), (32, 33), (40, 40), (side, 27), (45, 46)])
        w, h = min(w, side), min(h, side)
        bx = x0 + rng.randint(0, side - w) + F(1, 4)
        by = y0 + rng.randint(0, side - h) + F(1, 4)
        return (bx, by, bx + w - F(1, 2), by + h - F(1, 2))     # spans exactly w x h cells

    def small():
        bx = x0 + F(rng.randint(0, 4 * side - 8), 4)
        by = y0 + F(rng.randint(0, 4 * side - 8), 4)
        return (bx, by, bx + F(rng.randint(1, 6), 4), by + F(rng.randint(1, 6), 4))

    def around(o):
        return (o.x0 + F(1, 8), o.y0 + F(1, 8), o.x0 + 1, o.y0 + 1)
    for _ in range(rng.randint(1, 2)):
        nid += 1
        b = Box(nid, *big())
        live.append(b)
        ops.append(("add", b))
        for _ in range(rng.randint(0, 2)):
            nid += 1
            sb = Box(nid, *small())
            live.append(sb)
            ops.append(("add", sb))
        ops.append(("find", around(b)))
        if rng.random() < 0.8:
            live.remove(b)
            ops.append(("remove", b))
            ops.append(("find", around(b)))                      # the removed object must be gone
            ops.append(("find", (b.x1 - 1, b.y1 - 1, b.x1 + 1, b.y1 + 1)))
        ops.append(("iter",))
    ops.append(("find", pb))
    return pb, gs, ops


def gen_plane_seq_astro(rng):
    """Planes and objects of astronomic extent (up to 2^100 units; text or a form scaled by a huge matrix):
    an operation must not enumerate the grid cells of such a box, and find must still be brute force."""
    gs = rng.choice([50, 50, 1, 7])
    big = F(2) ** rng.choice([40, 64, 100])
    x0 = rng.choice([F(0), -big, F(-37, 2)])
    pb = (x0, x0, x0 + big, x0 + big / 2)
    ops = []
    live: List[Box] = []
    nid = 0

    def box():
        r = rng.random()
        if r < 0.35:      # huge
            a, b = sorted((x0 + big * F(rng.randint(0, 64), 64), x0 + big * F(rng.randint(0, 64), 64)))
            c, d = sorted((x0 + big * F(rng.randint(0, 32), 64), x0 + big * F(rng.randint(0, 32), 64)))
            return (a, c, b + 1, d + 1)
        if r < 0.5:       # a thin but astronomically long strip: few cells in one direction
            a = x0 + big * F(rng.randint(0, 60), 64)
            return (x0, a, x0 + big, a + F(rng.randint(1, 40)))
        a = x0 + big * F(rng.randint(0, 64), 64) + F(rng.randint(-100, 100), 4)
        c = x0 + big * F(rng.randint(0, 32), 64) + F(rng.randint(-100, 100), 4)
        return (a, c, a + F(rng.randint(0, 300), 4), c + F(rng.randint(0, 300), 4))
    for _ in range(rng.randint(4, 12)):
        r = rng.random()
        if r < 0.45 or not live:
            nid += 1
            b = Box(nid, *box())
            live.append(b)
            ops.append(("add", b))
        elif r < 0.6:
            b = rng.choice(live)
            live.remove(b)
            ops.append(("remove", b))
        elif r < 0.9:
            if rng.random() < 0.6:
                o = rng.choice(live)
                ops.append(("find", (o.x0 - 1, o.y0 - 1, o.x0 + 1, o.y0 + 1)))
            else:
                ops.append(("find", box()))
        else:
            ops.append(("iter",))
    ops.append(("find", pb))
    ops.append(("iter",))
    return pb, gs, ops


def gen_plane_seq_full(rng):
    """In-domain histories over the WHOLE public interface: add, extend, remove (of live objects, of objects
    removed before and of objects never added: KeyError, index unchanged), find, __contains__ (live / removed /
    never added), __len__, iteration; every gridsize incl. ones larger than the plane."""
    gs = rng.choice([1, 2, 3, 7, 20, 50, 50, 500])
    x0 = fr(rng, -60, 60)
    y0 = fr(rng, -60, 60)
    pb = (x0, y0, x0 + abs(fr(rng, 0, 150)), y0 + abs(fr(rng, 0, 150)))   # zero-size planes included
    if gs <= 2:
        pb = (x0, y0, x0 + rng.randint(0, 8), y0 + rng.randint(0, 8))
    ops = []
    live: List[Box] = []
    dead: List[Box] = []
    never: List[Box] = []
    nid = [0]

    def fresh():
        nid[0] += 1
        if rng.random() < 0.15:     # zero-area object
            (a, b, _, _) = gen_box(rng, pb, gs)
            return Box(nid[0], a, b, a if rng.random() < 0.7 else a + 1, b)
        return Box(nid[0], *gen_box(rng, pb, gs))
    for _ in range(rng.randint(4, 36)):
        r = rng.random()
        if r < 0.25 or not live:
            k = rng.random()
            if k < 0.12 and dead:               # an object that was removed is added again: it becomes the last
                b = rng.choice(dead)
                dead.remove(b)
                live.append(b)
            elif k < 0.22 and live:             # an object that is there is added again: no-op
                b = rng.choice(live)
            elif k < 0.32 and live:             # a NEW object with exactly the box of another one
                o = rng.choice(live)
                nid[0] += 1
                b = Box(nid[0], o.x0, o.y0, o.x1, o.y1)
                live.append(b)
            else:
                b = fresh()
                live.append(b)
            ops.append(("add", b))
        elif r < 0.33:
            bs = [fresh() for _ in range(rng.randint(0, 4))]
            if dead and rng.random() < 0.2:
                b = rng.choice(dead)
                dead.remove(b)
                bs.insert(rng.randint(0, len(bs)), b)
            live.extend(bs)
            if rng.random() < 0.15:             # a live object inside the list: skipped
                bs = list(bs)
                bs.insert(rng.randint(0, len(bs)), rng.choice(live))
            ops.append(("extend", bs))
        elif r < 0.48:
            k = rng.random()
            if k < 0.25 and dead:
                ops.append(("remove", rng.choice(dead)))          # removed before: KeyError
            elif k < 0.4:
                b = fresh()                                       # never added: KeyError
                never.append(b)
                ops.append(("remove", b))
            else:
                b = rng.choice(live)
                live.remove(b)
                dead.append(b)
                ops.append(("remove", b))
            ops.append(rng.choice([("len",), ("iter",)]))
        elif r < 0.63:
            pool = [x for x in (live, dead, never) if x]
            ops.append(("contains", rng.choice(rng.choice(pool))))
        elif r < 0.7:
            ops.append(("len",))
        elif r < 0.93:
            if live and rng.random() < 0.6:
                o = rng.choice(live)
                dx, dy = abs(fr(rng, 0, 3)), abs(fr(rng, 0, 3))
                q = (o.x0 - dx, o.y0 - dy, o.x1 + dx + F(1, 16), o.y1 + dy + F(1, 16))
            else:
                q = gen_box(rng, pb, gs)
            ops.append(("find", q))
        else:
            ops.append(("iter",))
    ops += [("len",), ("iter",)]
    return pb, gs, ops


# ------------------------------------------------------------------ list helpers

def run_helpers(ctx: C.Ctx) -> None:
    """get_bound / uniq / fsplit: tie to the regenerated Lean definitions + their specification on the
    implementation itself."""
    from pdfminer import utils as U
    rng = ctx.rng
    lines: List[str] = []
    impl: List[str] = []
    inputs: List[Any] = []
    INF = U.INF

    def ints(xs):
        return " ".join(str(x) for x in xs) if xs else "-"
    for i in range(ctx.n(300, 8000)):
        k = rng.random()
        n = rng.choice([0, 1, 1, 2, 3, 4, 4, 6, 9])

        def coord():
            t = rng.random()
            if k < 0.15 and t < 0.3:    # beyond +-INF: the initial limit shows through
                return rng.choice([-1, 1]) * (INF + rng.choice([0, 1, F(1, 2), 10 ** 12]))
            if t < 0.1:
                return F(rng.choice([INF, -INF, INF - 1, 1 - INF]))
            return fr(rng, -300, 300)
        pts = [(coord(), coord()) for _ in range(n)]
        if pts and rng.random() < 0.2:
            pts.append(rng.choice(pts))
        try:
            got = tuple(U.get_bound(pts))
            out = show(got)
        except Exception as e:  # noqa: BLE001
            got, out = None, "EXC:" + type(e).__name__
        lines.append("getbound" + "".join(" " + show(p) for p in pts))
        impl.append(out)
        inputs.append(("getbound", [[str(p[0]), str(p[1])] for p in pts]))
        inside = bool(pts) and all(-INF <= c <= INF for p in pts for c in p)
        ctx.case(("gb", tuple(pts)), len(set(pts)) >= 2,
                 branch="get_bound:" + ("empty" if not pts else "inside" if inside else "beyond-INF"))
        if inside:
            exp = (min(p[0] for p in pts), min(p[1] for p in pts), max(p[0] for p in pts), max(p[1] for p in pts))
            if got != exp:
                ctx.fail(C.Failure("get_bound is not the tight hull of the points",
                                   {"helper": "get_bound", "pts": [[str(p[0]), str(p[1])] for p in pts]},
                                   [str(x) for x in exp], out, {"op": "get_bound"}))
    for i in range(ctx.n(300, 8000)):
        n = rng.choice([0, 1, 2, 3, 5, 8, 13])
        span = rng.choice([1, 2, 4, 50])
        xs = [rng.randint(-span, span) for _ in range(n)]
        try:
            got = list(U.uniq(iter(xs)))
            out = ints(got)
        except Exception as e:  # noqa: BLE001
            got, out = None, "EXC:" + type(e).__name__
        lines.append("uniq " + " ".join(str(x) for x in xs))
        impl.append(out)
        inputs.append(("uniq", xs))
        ctx.case(("uniq", tuple(xs)), len(set(xs)) < len(xs), branch="uniq:dups" if len(set(xs)) < len(xs) else "uniq:nodup")
        exp = [x for j, x in enumerate(xs) if x not in xs[:j]]
        if got != exp:
            ctx.fail(C.Failure("uniq is not the list of first occurrences", {"helper": "uniq", "xs": xs}, exp, out,
                               {"op": "uniq"}))
        if rng.random() < 0.5:
            t = rng.randint(-span, span)
            pred, pl, pj = (lambda x: x < t), f"lt {t}", ["lt", t]
        else:
            m = rng.choice([2, 3, 5])
            r = rng.randint(0, m - 1)
            pred, pl, pj = (lambda x: x % m == r), f"mod {m} {r}", ["mod", m, r]
        try:
            gt, gf = U.fsplit(pred, iter(xs))
            out = ints(gt) + " | " + ints(gf)
        except Exception as e:  # noqa: BLE001
            gt = gf = None
            out = "EXC:" + type(e).__name__
        lines.append("fsplit " + pl + "".join(" " + str(x) for x in xs))
        impl.append(out)
        inputs.append(("fsplit", {"pred": pj, "xs": xs}))
        et, ef = [x for x in xs if pred(x)], [x for x in xs if not pred(x)]
        ctx.case(("fsplit", tuple(pj), tuple(xs)), bool(et) and bool(ef), branch="fsplit:" + pj[0])
        if (gt, gf) != (et, ef):
            ctx.fail(C.Failure("fsplit is not (filter pred, filter not pred)",
                               {"helper": "fsplit", "pred": pj, "xs": xs}, [et, ef], out, {"op": "fsplit"}))
    if ctx.driver is not None:
        outs = ctx.driver.ask(lines)
        for inp, i_out, m_out in zip(inputs, impl, outs):
            if i_out != m_out:
                ctx.disagree(inp[0], inp[1], i_out, m_out)


def replay_helper(ctx: C.Ctx, inp) -> None:
    from pdfminer import utils as U
    h = inp["helper"]
    if h == "get_bound":
        pts = [(F(a), F(b)) for a, b in inp["pts"]]
        got = tuple(U.get_bound(pts))
        exp = (min(p[0] for p in pts), min(p[1] for p in pts), max(p[0] for p in pts), max(p[1] for p in pts))
        ctx.case(("gb", tuple(pts)), True, branch="replay")
        if got != exp:
            ctx.fail(C.Failure("get_bound is not the tight hull of the points", inp, [str(x) for x in exp],
                               show(got), {"op": "get_bound"}))
    elif h == "uniq":
        xs = inp["xs"]
        got = list(U.uniq(iter(xs)))
        exp = [x for j, x in enumerate(xs) if x not in xs[:j]]
        ctx.case(("uniq", tuple(xs)), True, branch="replay")
        if got != exp:
            ctx.fail(C.Failure("uniq is not the list of first occurrences", inp, exp, got, {"op": "uniq"}))
    elif h == "fsplit":
        xs, pj = inp["xs"], inp["pred"]
        pred = (lambda x: x < pj[1]) if pj[0] == "lt" else (lambda x: x % pj[1] == pj[2])
        gt, gf = U.fsplit(pred, iter(xs))
        et, ef = [x for x in xs if pred(x)], [x for x in xs if not pred(x)]
        ctx.case(("fsplit", tuple(pj), tuple(xs)), True, branch="replay")
        if (gt, gf) != (et, ef):
            ctx.fail(C.Failure("fsplit is not (filter pred, filter not pred)", inp, [et, ef], [gt, gf],
                               {"op": "fsplit"}))


def run_plane(ctx: C.Ctx) -> None:
    rng = ctx.rng
    lines: List[str] = []
    impl: List[str] = []
    inputs: List[Any] = []
    for i in range(ctx.n(40, 1500)):
        pb, gs, ops = gen_plane_seq_astro(rng)
        ctx.branch("plane:astronomic")
        check_plane_case(ctx, pb, gs, ops, True, lines, impl, inputs)
    for i in range(ctx.n(8, 120)):
        pb, gs, ops = gen_plane_seq_big(rng)
        ctx.branch("plane:many-cells")
        check_plane_case(ctx, pb, gs, ops, True, lines, impl, inputs)
    for i in range(ctx.n(120, 4000)):
        pb, gs, ops = gen_plane_seq_full(rng)
        ctx.branch("plane:full-interface")
        check_plane_case(ctx, pb, gs, ops, True, lines, impl, inputs)
    for i in range(ctx.n(150, 6000)):
        wild = (i % 4 == 3)
        pb, gs, ops = gen_plane_seq(rng, rng.randint(3, 40), wild)
        # re-adds, duplicate adds and removals of absent objects are in the domain since the repair of Plane.add
        if wild:
            ctx.branch("plane:duplicates-and-readds")
        check_plane_case(ctx, pb, gs, ops, True, lines, impl, inputs)
    if ctx.driver is not None:
        outs = ctx.driver.ask(lines)
        bad_seq = False
        for inp, i_out, m_out in zip(inputs, impl, outs):
            if inp[0] == "plane.new":
                bad_seq = False
            # find order is part of the tie (both sides report in insertion order)
            if i_out != m_out and not bad_seq:
                ctx.disagree(inp[0], inp[1], i_out, m_out)
                bad_seq = True     # report the first divergence of a sequence only


def run_corpus(ctx: C.Ctx) -> None:
    import glob, json, os
    for path in sorted(glob.glob(os.path.join(C.VERIF, "corpus", "C20", "*.json"))):
        with open(path) as fp:
            doc = json.load(fp)
        replay(ctx, doc, from_corpus=True)


def replay(ctx: C.Ctx, doc, from_corpus: bool = False) -> None:
    inp = doc.get("input", {})
    if "helper" in inp:
        replay_helper(ctx, inp)
    elif "ops" in inp:
        pb = tuple(F(x) for x in inp["bounds"])
        ops = ops_from_json(inp["ops"])
        lines, impl, inputs = [], [], []
        check_plane_case(ctx, pb, inp["gridsize"], ops, True, lines, impl, inputs)
        ctx.branch("corpus" if from_corpus else "replay")
    elif "v0" in inp:
        from pdfminer import utils as U
        import math
        v0, v1, d = F(inp["v0"]), F(inp["v1"]), inp["d"]
        r = list(U.drange(v0, v1, d))
        exp = list(range(math.floor(v0 / d), math.floor(v1 / d) + 1))
        ctx.case(("dr", v0, v1, d), True, branch="corpus" if from_corpus else "replay")
        if r != exp:
            ctx.fail(C.Failure("drange does not cover exactly the grid cells of [v0, v1]", inp, exp, r,
                               {"op": "drange"}))


def run(ctx: C.Ctx) -> None:
    run_corpus(ctx)
    run_matrix(ctx)
    run_helpers(ctx)
    run_plane(ctx)
