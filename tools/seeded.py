#!/usr/bin/env python3
"""Seeded-change tooling.

  tools/seeded.py verify <candidate_dir> <id>   confirm a candidate (patch.diff, demo.py, meta.json) in a scratch
                                                worktree: applies cleanly, 216 tests pass with it, demo fails with it
                                                and passes without it; on success copy it to /verif/seeded/<id>/
  tools/seeded.py run [<id> ...] [--tier quick] apply each kept change to /repo, run the property's check, undo it
                                                (git -C /repo checkout -- .), and record the outcome in
                                                seeded/RESULTS.json + seeded/RESULTS.md
"""
import json
import os
import shutil
import subprocess
import sys
import tempfile
import time

V = os.path.dirname(os.path.dirname(os.path.abspath(__file__)))
REPO = os.environ.get("SEEDED_REPO", "/repo")   # a scratch worktree when several runs work in parallel clones
PY = "/venv/bin/python"


def sh(cmd, cwd=None, timeout=1800, env=None):
    p = subprocess.run(cmd, cwd=cwd, stdout=subprocess.PIPE, stderr=subprocess.STDOUT, text=True,
                       timeout=timeout, env=env, errors="replace")
    return p.returncode, p.stdout


def verify(cand, sid):
    patch = os.path.join(cand, "patch.diff")
    demo = os.path.join(cand, "demo.py")
    meta = json.load(open(os.path.join(cand, "meta.json")))
    wt = tempfile.mkdtemp(prefix="seedwt_", dir="/tmp")
    os.rmdir(wt)
    res = {"id": sid, "property": meta.get("property")}
    try:
        rc, out = sh(["git", "-C", REPO, "worktree", "add", "-q", "--detach", wt, "HEAD"])
        assert rc == 0, out
        env = dict(os.environ, PYTHONPATH=wt)
        rc, out = sh([PY, demo], cwd=wt, env=env, timeout=600)
        res["demo_passes_without"] = rc == 0
        rc, out = sh(["git", "apply", patch], cwd=wt)
        res["applies"] = rc == 0
        if rc == 0:
            rc, out = sh([PY, demo], cwd=wt, env=env, timeout=600)
            res["demo_fails_with"] = rc != 0
            rc, out = sh([PY, "-m", "pytest", "-q", "-p", "no:cacheprovider", "--timeout=900", "-x"], cwd=wt, env=env,
                         timeout=2400)
            res["tests_pass_with"] = rc == 0
            res["tests_tail"] = out.strip().split("\n")[-1]
    finally:
        sh(["git", "-C", REPO, "worktree", "remove", "--force", wt])
        shutil.rmtree(wt, ignore_errors=True)
    ok = all(res.get(k) for k in ("demo_passes_without", "applies", "demo_fails_with", "tests_pass_with"))
    res["kept"] = ok
    if ok:
        dst = os.path.join(V, "seeded", sid)
        os.makedirs(dst, exist_ok=True)
        shutil.copy(patch, os.path.join(dst, "patch.diff"))
        shutil.copy(demo, os.path.join(dst, "demo.py"))
        meta["confirmed"] = {"base_commit": sh(["git", "-C", REPO, "rev-parse", "--short", "HEAD"])[1].strip(),
                             "ran": ["git apply patch.diff in a scratch worktree of /repo HEAD",
                                     "pytest -q (216 tests) with the change: pass",
                                     "demo.py with the change: fails", "demo.py without the change: passes"]}
        json.dump(meta, open(os.path.join(dst, "meta.json"), "w"), indent=1)
    print(json.dumps(res))
    return ok


def run(ids, tier):
    sd = os.path.join(V, "seeded")
    results_path = os.path.join(sd, "RESULTS.json")
    results = json.load(open(results_path)) if os.path.exists(results_path) else {}
    all_ids = sorted(d for d in os.listdir(sd)
                     if os.path.isfile(os.path.join(sd, d, "meta.json")))   # skips seeded/retired/
    for sid in (ids or all_ids):
        d = os.path.join(sd, sid)
        meta = json.load(open(os.path.join(d, "meta.json")))
        prop = meta["property"]
        rc, out = sh(["git", "-C", REPO, "status", "--porcelain", "--untracked-files=no"])
        if out.strip():
            print("refusing: /repo has uncommitted changes:\n" + out)
            return 2
        entry = {"property": prop, "tier": tier}
        # the evidence file of the property must keep describing the UNCHANGED tree: save and restore it
        ev_path = os.path.join(V, "evidence", f"{prop}.json")
        ev_saved = open(ev_path, "rb").read() if os.path.exists(ev_path) else None
        try:
            rc, out = sh(["git", "-C", REPO, "apply", os.path.join(d, "patch.diff")])
            if rc != 0:
                entry["outcome"] = "patch-does-not-apply"
                entry["detail"] = out[-300:]
            else:
                t0 = time.time()
                rc, out = sh([os.path.join(V, "vcheck"), prop, "--tier", tier], cwd=V, timeout=3600,
                             env=dict(os.environ, VERIF_REPO=REPO))
                entry["exit"] = rc
                entry["wall_s"] = round(time.time() - t0, 1)
                lines = [l for l in out.split("\n") if l.startswith("VIOLATION") or l.startswith("  what") or
                         l.startswith("  broken") or l.startswith("KNOWN-FINDING") or l.startswith("INFRA")]
                entry["lines"] = lines[:8]
                viol = [l for l in lines if l.startswith("VIOLATION")]
                if rc == 1 and viol:
                    entry["outcome"] = ("caught-no-input" if all("no-failing-input-found" in l for l in viol)
                                        else "caught-with-replay")
                elif rc == 0:
                    entry["outcome"] = "MISSED"
                else:
                    entry["outcome"] = f"infra-exit-{rc}"
        finally:
            sh(["git", "-C", REPO, "checkout", "--", "."])
            # the regenerated Lean files must describe the UNCHANGED tree again
            sh([PY, "-c", "import sys; sys.path.insert(0, %r); from harness import common as C; "
                "C.regenerate(%r, C.BuildStatus())" % (os.path.join(V, "tools"), prop)],
               env=dict(os.environ, VERIF_REPO=REPO))
            if ev_saved is not None:
                with open(ev_path, "wb") as fp:
                    fp.write(ev_saved)
        results[sid] = entry
        print(sid, entry.get("outcome"), entry.get("wall_s"))
        json.dump(results, open(results_path, "w"), indent=1, sort_keys=True)
    with open(os.path.join(sd, "RESULTS.md"), "w") as fp:
        fp.write("# Seeded changes: which check catches which\n\n| id | property | outcome | first line |\n|---|---|---|---|\n")
        for sid in sorted(results):
            e = results[sid]
            what = next((l.strip() for l in e.get("lines", []) if l.startswith("  what") or l.startswith("  broken")), "")
            fp.write(f"| {sid} | {e['property']} | {e.get('outcome')} | {what[:110]} |\n")
    return 0


if __name__ == "__main__":
    if sys.argv[1] == "verify":
        sys.exit(0 if verify(sys.argv[2], sys.argv[3]) else 1)
    if sys.argv[1] == "run":
        args = sys.argv[2:]
        tier = "quick"
        if "--tier" in args:
            i = args.index("--tier")
            tier = args[i + 1]
            del args[i:i + 2]
        sys.exit(run(args, tier))
