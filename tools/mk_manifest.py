#!/usr/bin/env python3
"""Regenerate /verif/MANIFEST.json from meta/Cxx.json fragments and meta/not_applicable.json."""
import json, os, glob
V = os.path.dirname(os.path.dirname(os.path.abspath(__file__)))
props = [json.loads(l) for l in open(os.path.join(V, "properties.jsonl")) if l.strip()]
ids = [p["id"] for p in props]
na_path = os.path.join(V, "meta", "not_applicable.json")
na = json.load(open(na_path)) if os.path.exists(na_path) else {}
checks = []
claimed = set()
for pid in ids:
    path = os.path.join(V, "meta", f"{pid}.json")
    if not os.path.exists(path) or not os.path.exists(os.path.join(V, "tools", "harness", "props", f"{pid.lower()}.py")):
        continue
    m = json.load(open(path))
    claimed.add(pid)
    checks.append({
        "property_id": pid,
        "quick_cmd": f"./vcheck {pid} --tier quick",
        "thorough_cmd": f"./vcheck {pid} --tier thorough",
        "evidence_file": f"/verif/evidence/{pid}.json",
        "replay_cmd_template": f"./vcheck {pid} --replay {{path}}",
        "engine": "lean4-model+correspondence",
        "level_claimed": {"category": m["category"], "text": m["text"], "design_ref": m.get("design_ref", "DESIGN.md section 6")},
        "level_note": m["level_note"],
        "technique": m["technique"],
    })
manifest = {
    "version": 1,
    "setup_cmd": "./vcheck --setup",
    "hooks": {
        "guard": "PDFMINER_SIX_VERIF",
        "enable": "no source hooks are needed: the checks import /repo's working tree in-process and observe it through public APIs, sys.addaudithook and PSBaseParser.BUFSIZ",
        "baseline_off_cmd": "cd /repo && /venv/bin/python -m pytest -q -p no:cacheprovider --timeout=900",
        "source_commits": [],
        "add_only": True,
    },
    "engines": [{
        "name": "lean4-model+correspondence",
        "path": "/verif/lean",
        "serves_properties": sorted(claimed),
        "kind_free_text": "Lean 4 executable models (partly regenerated from /repo by tools/translate) with kernel-checked theorems, compiled line-protocol drivers, and a Python differential harness (tools/harness) against the real code",
    }],
    "checks": checks,
    "notes": "Fix commits in /repo and open findings are listed in known_findings.json; DESIGN.md explains the approach, trusted base and per-property status.",
    "not_applicable": [{"property_id": pid, "reason": na.get(pid, "check not built yet in this round; see DESIGN.md section 9 for the build order")}
                       for pid in ids if pid not in claimed],
}
with open(os.path.join(V, "MANIFEST.json"), "w") as fp:
    json.dump(manifest, fp, indent=1)
    fp.write("\n")
# known_findings.json = concatenation of the per-property fragments known_findings.d/Cxx.json
kf = {"findings": [], "fixed": []}
for path in sorted(glob.glob(os.path.join(V, "known_findings.d", "C*.json"))):
    frag = json.load(open(path))
    kf["findings"] += frag.get("findings", [])
    kf["fixed"] += frag.get("fixed", [])
with open(os.path.join(V, "known_findings.json"), "w") as fp:
    json.dump(kf, fp, indent=1)
    fp.write("\n")
print("claimed:", sorted(claimed), "open findings:", len(kf["findings"]), "fixed:", len(kf["fixed"]))
