#!/usr/bin/env python3
"""Run every claimed check (MANIFEST.json) for the given seeds; print a table.  tools/run_all.py [--tier quick] [--seeds 0,1,2] [--jobs 4] [Cxx ...]"""
import json, os, subprocess, sys, time
from concurrent.futures import ThreadPoolExecutor
V = os.path.dirname(os.path.dirname(os.path.abspath(__file__)))
args = sys.argv[1:]
def opt(name, default):
    if name in args:
        i = args.index(name); v = args[i + 1]; del args[i:i + 2]; return v
    return default
tier = opt("--tier", "quick"); seeds = [int(s) for s in opt("--seeds", "0").split(",")]; jobs = int(opt("--jobs", "4"))
props = args or [c["property_id"] for c in json.load(open(os.path.join(V, "MANIFEST.json")))["checks"]]
def one(ps):
    p, s = ps
    t0 = time.time()
    try:
        r = subprocess.run([os.path.join(V, "vcheck"), p, "--tier", tier], cwd=V, env=dict(os.environ, VERIF_SEED=str(s)),
                           stdout=subprocess.PIPE, stderr=subprocess.STDOUT, text=True, timeout=7200)
        rc, out = r.returncode, r.stdout
    except subprocess.TimeoutExpired:
        rc, out = 124, "TIMEOUT"
    lines = [l for l in out.split("\n") if l.startswith(("VIOLATION", "KNOWN-FINDING", "INFRA", p + " tier"))]
    return p, s, rc, time.time() - t0, lines
with ThreadPoolExecutor(jobs) as ex:
    for p, s, rc, w, lines in ex.map(one, [(p, s) for s in seeds for p in props]):
        print(f"{p} seed={s} exit={rc} {w:.0f}s")
        for l in lines:
            print("   " + l[:220])
