/-
C06: the path from the BYTES of an embedded Type 1 program to its built-in encoding:

  pdffont.PDFType1Font.__init__   `data = self.fontfile.get_data()[:length1]`            -> `headerBytes`
  psparser.PSBaseParser           tokeniser                                              -> `Lexer.specLex` (model of C14/C01,
                                                                                             = `Lexer.run b` for every buffer size)
  psparser.PSStackParser.nextobject + pdffont.Type1FontHeaderParser.do_keyword           -> `t1Feed`
  psparser.literal_name           UTF-8 decoding of a literal's bytes                    -> `utf8Chars`
  pdffont.Type1FontHeaderParser.get_encoding (loop until PSEOF; any other exception escapes) -> `t1Puts`
  the decision WHEN the header is read (no Encoding entry, FontFile in the descriptor in effect) -> `resolveFontFile`

No Mathlib imports.
-/
import PdfVerif.Model.SimpleFont
import PdfVerif.Model.StackParser

namespace PdfVerif.SimpleFont
open PdfVerif PdfVerif.Lexer PdfVerif.StackParser PdfVerif.Gen.FontCode

/-- Strict UTF-8 decoding (what `str(name, "utf-8")` accepts: shortest forms only, no surrogates, at most
U+10FFFF); `none` = `UnicodeDecodeError` (the literal then keeps its bytes and has no glyph name). -/
def utf8Chars : Bytes → Option (List Char)
  | [] => some []
  | a :: r =>
    if a < 0x80 then (utf8Chars r).map (fun cs => Char.ofNat a.toNat :: cs)
    else if 0xC2 ≤ a && a ≤ 0xDF then
      match r with
      | b :: r' =>
        if 0x80 ≤ b && b ≤ 0xBF then
          (utf8Chars r').map (fun cs => Char.ofNat ((a.toNat - 0xC0) * 64 + (b.toNat - 0x80)) :: cs)
        else none
      | _ => none
    else if 0xE0 ≤ a && a ≤ 0xEF then
      match r with
      | b :: c :: r' =>
        let lo : UInt8 := if a == 0xE0 then 0xA0 else 0x80
        let hi : UInt8 := if a == 0xED then 0x9F else 0xBF
        if (lo ≤ b && b ≤ hi) && (0x80 ≤ c && c ≤ 0xBF) then
          (utf8Chars r').map (fun cs =>
            Char.ofNat ((a.toNat - 0xE0) * 4096 + (b.toNat - 0x80) * 64 + (c.toNat - 0x80)) :: cs)
        else none
      | _ => none
    else if 0xF0 ≤ a && a ≤ 0xF4 then
      match r with
      | b :: c :: d :: r' =>
        let lo : UInt8 := if a == 0xF0 then 0x90 else 0x80
        let hi : UInt8 := if a == 0xF4 then 0x8F else 0xBF
        if (lo ≤ b && b ≤ hi) && (0x80 ≤ c && c ≤ 0xBF) && (0x80 ≤ d && d ≤ 0xBF) then
          (utf8Chars r').map (fun cs =>
            Char.ofNat ((a.toNat - 0xF0) * 262144 + (b.toNat - 0x80) * 4096 + (c.toNat - 0x80) * 64 + (d.toNat - 0x80)) :: cs)
        else none
      | _ => none
    else none

/-- `str.encode("utf-8")` of one character (a Lean `Char` is a Unicode scalar value: surrogates excluded). -/
def utf8EncodeChar (c : Char) : Bytes :=
  let n := c.toNat
  if n < 0x80 then [UInt8.ofNat n]
  else if n < 0x800 then [UInt8.ofNat (0xC0 + n / 64), UInt8.ofNat (0x80 + n % 64)]
  else if n < 0x10000 then
    [UInt8.ofNat (0xE0 + n / 4096), UInt8.ofNat (0x80 + n / 64 % 64), UInt8.ofNat (0x80 + n % 64)]
  else [UInt8.ofNat (0xF0 + n / 262144), UInt8.ofNat (0x80 + n / 4096 % 64), UInt8.ofNat (0x80 + n / 64 % 64),
        UInt8.ofNat (0x80 + n % 64)]

/-- `str.encode("utf-8")`. -/
def utf8Encode : List Char → Bytes
  | [] => []
  | c :: cs => utf8EncodeChar c ++ utf8Encode cs

/-- State of a `Type1FontHeaderParser` (a `PSStackParser` whose `flush` does nothing). -/
structure T1State where
  context : List (Option Ctx × List SObj) := []
  curtype : Option Ctx := none
  curstack : List SObj := []
  results : List (Int × Bytes) := []        -- `add_results((key, literal_name(value)))`, name still as bytes
  error : Option String := none               -- an exception other than PSEOF escaped from `nextobject`
deriving Repr

/-- the keyword `do_keyword` reacts to: regenerated from the source (`KEYWORD_PUT = KWD(b"put")`) -/
def kwPut : Bytes := T1_PUT_KEYWORD

def t1Push (st : T1State) (o : SObj) : T1State := { st with curstack := st.curstack ++ [o] }

def t1Start (st : T1State) (t : Ctx) : T1State :=
  { st with context := (st.curtype, st.curstack) :: st.context, curtype := some t, curstack := [] }

/-- `end_type`; `none` = PSTypeError (swallowed in non-strict mode). -/
def t1End (st : T1State) (t : Ctx) : Option (List SObj × T1State) :=
  if st.curtype != some t then none else
  match st.context with
  | [] => none
  | (ct, cs) :: rest => some (st.curstack, { st with context := rest, curtype := ct, curstack := cs })

/-- `Type1FontHeaderParser.do_keyword`: only `put` does something: `operands = self.pop(2)` (which removes
whatever is there); with fewer than two operands nothing else happens; otherwise a result when `key` is an
`int` (`bool` included) and `value` a literal. -/
def t1Keyword (st : T1State) (name : Bytes) : T1State :=
  if name == kwPut then
    let n := st.curstack.length
    if n < T1_PUT_ARITY then { st with curstack := [] } else
    let st' := { st with curstack := st.curstack.take (n - T1_PUT_ARITY) }
    match st.curstack.drop (n - T1_PUT_ARITY) with
    | [.int k, .lit nm] => { st' with results := st'.results ++ [(k, nm)] }
    | [.bool b, .lit nm] => { st' with results := st'.results ++ [((if b then 1 else 0), nm)] }
    | _ => st'
  else st

/-- One token through `PSStackParser.nextobject`. -/
def t1Feed (st : T1State) (tok : Token) : T1State :=
  if st.error.isSome then st else
  match tok with
  | .int v => t1Push st (.int v)
  | .real t => t1Push st (.real t)
  | .bool b => t1Push st (.bool b)
  | .str s => t1Push st (.str s)
  | .lit n => t1Push st (.lit n)
  | .err k => { st with error := some k }
  | .kwd name =>
    if name == [91] then t1Start st .a
    else if name == [93] then
      match t1End st .a with
      | some (objs, st') => t1Push st' (.arr objs)
      | none => st
    else if name == [60, 60] then t1Start st .d
    else if name == [62, 62] then
      match t1End st .d with
      | some (objs, st') =>
        if objs.length % 2 != 0 then { st' with error := some "PSSyntaxError" }
        else t1Push st' (.dict [])           -- the dictionary's content is never looked at
      | none => st
    else if name == [123] then t1Start st .p
    else if name == [125] then
      match t1End st .p with
      | some (objs, st') => t1Push st' (.arr objs)
      | none => st
    else t1Keyword st name

/-- `Type1FontHeaderParser(BytesIO(data)).get_encoding()` up to the name lookup: the `(cid, name)` results
in order, or the exception that escapes. -/
def t1Puts (data : Bytes) : Except String (List (Int × Option Name)) :=
  let st := ((specLex data).map (·.2)).foldl t1Feed {}
  match st.error with
  | some e => .error e
  | none => .ok (st.results.map (fun r => (r.1, utf8Chars r.2)))

/-- The FontFile stream of a descriptor and its `Length1`. -/
structure RawFontFile where
  data : Bytes
  length1 : Option Int
deriving Repr

/-- `data = get_data()`, and `data[:Length1]` when the stream has a Length1 entry (Python slice: a negative
bound counts from the end). -/
def headerBytes (rf : RawFontFile) : Bytes :=
  match rf.length1 with
  | none => rf.data
  | some l =>
    if 0 ≤ l then rf.data.take l.toNat
    else rf.data.take (rf.data.length - l.natAbs)

abbrev RawFontDict := FontDictOf RawFontFile

def RawFontDict.withFontFile (raw : RawFontDict) (ff : Option FontFile) : FontDict :=
  { isType3 := raw.isType3, baseFont := raw.baseFont, enc := raw.enc, toUnicode := raw.toUnicode,
    firstChar := raw.firstChar, widths := raw.widths,
    desc := raw.desc.map (fun d => { missingWidth := d.missingWidth, fontFile := ff }),
    fontMatrix := raw.fontMatrix }

/-- `"Encoding" not in spec and "FontFile" in descriptor` for a `PDFType1Font` whose descriptor is the one of
the font dictionary (a standard-14 BaseFont uses the built-in descriptor, which has no FontFile). -/
def headerToRead (fm : Metrics) (raw : RawFontDict) : Option RawFontFile :=
  if raw.isType3 then none
  else if (getMetrics fm (raw.baseFont.getD "unknown")).isSome then none
  else match raw.enc, raw.desc with
    | .absent, some d => d.fontFile
    | _, _ => none

/-- Read the header when (and only when) pdfminer does; an exception from the parser escapes. -/
def resolveFontFile (fm : Metrics) (raw : RawFontDict) : Except String FontDict :=
  match headerToRead fm raw with
  | some rf =>
    match t1Puts (headerBytes rf) with
    | .ok puts => .ok (raw.withFontFile (some { puts := puts }))
    | .error e => .error e
  | none => .ok (raw.withFontFile none)

/-- Font construction from the font dictionary with its raw FontFile stream. -/
def buildRaw (gl : GlyphList) (db : EncDB) (fm : Metrics) (raw : RawFontDict) : Except String Font :=
  match resolveFontFile fm raw with
  | .ok fd => .ok (build gl db fm fd)
  | .error e => .error e

end PdfVerif.SimpleFont

namespace PdfVerif.SimpleFont

/-! ### `PDFResourceManager.get_font`: construction and caching -/

/-- `PDFResourceManager`: the `caching` flag and `_cached_fonts` (object id -> font). -/
structure RsrcMgr where
  caching : Bool
  cache : List (Nat × Font)

def cacheLookup (c : List (Nat × Font)) (objid : Nat) : Option Font :=
  match c.find? (fun e => e.1 == objid) with
  | some e => some e.2
  | none => none

/-- `get_font(objid, spec)`: a cached font when `objid` is truthy and known; otherwise construct (an
exception escapes and nothing is cached) and remember it when `objid` is truthy and caching is on. -/
def getFont (mk : RawFontDict → Except String Font) (m : RsrcMgr) (objid : Nat) (spec : RawFontDict) :
    Except String Font × RsrcMgr :=
  match (if objid != 0 then cacheLookup m.cache objid else none) with
  | some f => (.ok f, m)
  | none =>
    match mk spec with
    | .ok f => (.ok f, if objid != 0 && m.caching then { m with cache := (objid, f) :: m.cache } else m)
    | .error e => (.error e, m)

/-- A document's pages asking for fonts one after the other (the object id determines the dictionary). -/
def getFonts (mk : RawFontDict → Except String Font) (doc : Nat → RawFontDict) :
    RsrcMgr → List Nat → List (Except String Font)
  | _, [] => []
  | m, i :: rest =>
    let r := getFont mk m i (doc i)
    r.1 :: getFonts mk doc r.2 rest

/-- `PDFPageInterpreter.init_resources`, the `Font` branch: for every entry of the resource dictionary
`objid = None` (here `0`), replaced by the object id when the entry is an indirect reference (`some id`);
then `get_font(objid, spec)`.  `none` = a font dictionary written directly into the resource dictionary. -/
def initFonts (mk : RawFontDict → Except String Font) :
    RsrcMgr → List (Option Nat × RawFontDict) → List (Except String Font) × RsrcMgr
  | m, [] => ([], m)
  | m, (ref, spec) :: rest =>
    let r := getFont mk m (ref.getD 0) spec
    let rr := initFonts mk r.2 rest
    (r.1 :: rr.1, rr.2)


end PdfVerif.SimpleFont
