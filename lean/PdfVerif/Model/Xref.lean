/-
C02 — executable model of pdfminer's cross-reference machinery (pdfdocument.py, psparser.py).

Granularity: everything that is *specific to cross-reference resolution* is modelled on bytes
(`nunpack`, xref-stream rows, `/Index` ranges, the classic table text with `nextline`, the chunked
backward reader `revreadlines`, `find_xref`, the body-scan cue).  Object syntax and stream filters
are parameters: an indirect object appears as its parsed header `(objnum, gen)` plus an opaque
value id, an object stream as its parsed token list (C01 / C03 cover those layers).

Literal / straight-line fragments (`nunpack`, the row-type chain of `get_pos`, the in-use test of
`get_objids`, the `/Index` default, `b"trailer"`, `b"startxref"`, `b"n"`, the field counts, the
object-stream index formula, the order in which `read_xref_from` follows trailer keys) come from
`Gen/Xref.lean`, REGENERATED from the Python source on every run.

Import-free apart from that (the driver links against this file).
-/
import PdfVerif.Gen.Xref

namespace PdfVerif.Xref

open PdfVerif.Gen.Xref

inductive Err
  | notFound      -- PDFObjectNotFound
  | syntax        -- PDFSyntaxError / PSEOF inside getobj (the search continues)
  | eof           -- PSEOF
  | noValidXRef   -- PDFNoValidXRef
  | recursion     -- RecursionError (fuel)
  | valueErr      -- ValueError (e.g. /W without three entries)
  | unmodelled    -- the input left the modelled fragment
  deriving DecidableEq, Repr

/-- One element of a parsed object stream (`PDFDocument._get_objects`). -/
inductive Tok
  | num (k : Nat)
  | val (id : Nat)
  deriving DecidableEq, Repr

/-- What `getobj` can return, as far as this property looks: an integer token, an opaque value,
or an object stream with its parsed token list (`N`, `objs`). -/
inductive Val
  | int (k : Nat)
  | plain (id : Nat)
  | objstm (id : Nat) (n : Nat) (objs : List Tok)
  deriving DecidableEq, Repr

def Tok.toVal : Tok → Val
  | .num k => .int k
  | .val id => .plain id

/-- Result of `get_pos`: `(strmid, index-or-position, genno)`. -/
structure Entry where
  strm : Option Nat
  idx : Nat
  gen : Nat
  deriving DecidableEq, Repr

/-! ### `utils.nunpack` and cross-reference stream rows -/

/-- `PDFXRefStream` after `load`. -/
structure XStream where
  ranges : List (Nat × Nat)
  fl1 : Nat
  fl2 : Nat
  fl3 : Nat
  data : Bytes
  deriving Repr

def XStream.entlen (x : XStream) : Nat := entlenOf x.fl1 x.fl2 x.fl3

/-- Python slice `d[off : off+len]`. -/
def slice (d : Bytes) (off len : Nat) : Bytes := (d.drop off).take len

/-- The `for start, nobjs in self.ranges` loop of `get_pos`: running row index of `n` (range test and
both `index +=` updates are the regenerated `inRange` / `indexHit` / `indexMiss`). -/
def findIndex : List (Nat × Nat) → Nat → Nat → Option Nat
  | [], _, _ => none
  | (s, c) :: rest, n, acc =>
    if inRange s c n then some (indexHit acc s c n) else findIndex rest n (indexMiss acc s c n)

/-- Decode row `i` as `get_pos` does: `(f1, f2, f3)` with the `nunpack` defaults. -/
def XStream.row (x : XStream) (i : Nat) : Nat × Nat × Nat :=
  let ent := rowBytes x.data (rowOffset x.entlen i) x.entlen
  (nunpack (field1 ent x.fl1 x.fl2 x.fl3) typeDefault, nunpack (field2 ent x.fl1 x.fl2 x.fl3) field2Default,
   nunpack (field3 ent x.fl1 x.fl2 x.fl3) field3Default)

/-- The type field of row `i` as `get_objids` decodes it (its own `nunpack` call). -/
def XStream.rowType (x : XStream) (i : Nat) : Nat :=
  nunpack (objidsField1 (objidsRowBytes x.data (objidsRowOffset x.entlen i) x.entlen) x.fl1 x.fl2 x.fl3)
    objidsTypeDefault

/-- The generated `if f1 == …` chain packaged as an `Entry`. -/
def rowEntry (r : Nat × Nat × Nat) : Option Entry :=
  (entryOfRow r.1 r.2.1 r.2.2).map (fun t => ⟨t.1, t.2.1, t.2.2⟩)

/-- `PDFXRefStream.get_pos`; `none` = `PDFKeyError`. -/
def XStream.getPos (x : XStream) (n : Nat) : Option Entry :=
  match findIndex x.ranges n indexStart with
  | none => none
  | some i => rowEntry (x.row i)

/-- `PDFXRefStream.get_objids` (the row index keeps counting across ranges; rows whose offset
lies at or beyond the end of the data are not read).  The code `return`s at the first such row;
the offset `entlen * index` never decreases along the loop, so every later row fails the same
test and skipping them one by one is the same thing. -/
def objidsAux (x : XStream) : List (Nat × Nat) → Nat → List Nat
  | [], _ => []
  | (s, c) :: rest, idx =>
    ((List.range c).filterMap (fun i =>
        if rowInData (objidsRowOffset x.entlen (idx + i)) x.data.length && inUseType (x.rowType (idx + i)) then some (s + i) else none))
      ++ objidsAux x rest (idx + c)

def XStream.getObjids (x : XStream) : List Nat := objidsAux x x.ranges 0

/-- The pinned (defective) `get_objids`: the row index restarts at 0 for every range. -/
def objidsPinned (x : XStream) : List (Nat × Nat) → List Nat
  | [] => []
  | (s, c) :: rest =>
    ((List.range c).filterMap (fun i => if inUseType (x.rowType i) then some (s + i) else none))
      ++ objidsPinned x rest

def choplist2 : List Nat → List (Nat × Nat)
  | a :: b :: rest => (a, b) :: choplist2 rest
  | _ => []

/-- `PDFXRefStream.load` once the stream dictionary is parsed. -/
def xsLoad (size : Nat) (index : Option (List Nat)) (w : List Nat) (data : Bytes) : Except Err XStream :=
  let ia := index.getD (defaultIndex size)
  if ia.length % 2 ≠ 0 then .error .syntax else
  if w.length != widthsArity then .error .noValidXRef else
  match w with
  | [a, b, c] => if zeroLengthRows a b c then .error .noValidXRef else .ok ⟨choplist2 ia, a, b, c, data⟩
  | _ => .error .unmodelled

/-! ### `PSBaseParser.nextline` and the classic table text (`PDFXRef.load`) -/

def isEol (b : UInt8) : Bool := b == 10 || b == 13

/-- One `nextline()` on the unread rest of the file: the line (with its EOL) and the number of
bytes consumed; `none` = `PSEOF` (no EOL before the end of data, or a CR as the very last byte). -/
def takeLine : Bytes → Option (Bytes × Nat)
  | [] => none
  | b :: rest =>
    if b == 10 then some ([b], 1)
    else if b == 13 then
      match rest with
      | [] => none
      | c :: _ => if c == 10 then some ([13, 10], 2) else some ([13], 1)
    else
      match takeLine rest with
      | none => none
      | some (l, k) => some (b :: l, k + 1)

/-- Python `bytes.strip()` white space. -/
def isPySpace (b : UInt8) : Bool := b == 32 || (9 ≤ b && b ≤ 13)

def strip (s : Bytes) : Bytes :=
  ((s.dropWhile isPySpace).reverse.dropWhile isPySpace).reverse

/-- `s.split(b" ")` (separator from the source). -/
def splitSp : Bytes → List Bytes
  | [] => [[]]
  | b :: rest =>
    match splitSp rest with
    | [] => [[b]]     -- unreachable
    | h :: t => if b == fieldSep then [] :: h :: t else (b :: h) :: t

def isDigit (b : UInt8) : Bool := 48 ≤ b && b ≤ 57

def decNat (s : Bytes) : Nat := s.foldl (fun a b => a * 10 + (b.toNat - 48)) 0

/-- `int(b"...")` restricted to an optional sign and ASCII digits (`none` = ValueError). -/
def parseInt (s : Bytes) : Option Int :=
  match s with
  | [] => none
  | c :: rest =>
    if c == 43 || c == 45 then
      if rest.isEmpty || !(rest.all isDigit) then none
      else some (if c == 45 then -(decNat rest : Int) else (decNat rest : Int))
    else if s.all isDigit then some (decNat s : Int) else none

def startsWith (s p : Bytes) : Bool := s.take p.length == p

/-- `self.offsets[objid] = …` on an association list in insertion order. -/
def insertOff (offs : List (Int × Entry)) (k : Int) (e : Entry) : List (Int × Entry) :=
  if offs.any (fun p => p.1 == k) then offs.map (fun p => if p.1 == k then (k, e) else p)
  else offs ++ [(k, e)]

/-- A stored `(strmid, pos, genno)` tuple as an `Entry`. -/
def mkEntry (t : Option Nat × Nat × Nat) : Entry := ⟨t.1, t.2.1, t.2.2⟩

/-- The `for objid in range(start, start + nobjs)` loop; returns offsets, rest, position. -/
def tableEntries : Nat → Int → Bytes → Nat → List (Int × Entry) → Except Err (List (Int × Entry) × Bytes × Nat)
  | 0, _, rest, pos, offs => .ok (offs, rest, pos)
  | cnt + 1, objid, rest, pos, offs =>
    match takeLine rest with
    | none => .error .noValidXRef
    | some (line, k) =>
      let f := splitSp (strip line)
      if f.length != entryFields then .error .noValidXRef else
      match f with
      | [f0, f1, f2] =>
        -- which field is the offset / generation / marker, and the stored tuple: regenerated from the source
        let t := entryTuple f0 f1 f2
        let offs' :=
          if t.2.2 == inUseMarker then
            match parseInt t.1, parseInt t.2.1 with
            | some pi, some gi =>
              if 0 ≤ pi ∧ 0 ≤ gi then insertOff offs objid (mkEntry (tableEntryOf pi.toNat gi.toNat)) else offs
            | _, _ => offs
          else offs
        tableEntries cnt (objid + 1) (rest.drop k) (pos + k) offs'
      | _ => .error .unmodelled      -- `(pos_b, genno_b, use_b) = f` with a field count other than 3

/-- Number of iterations of `for objid in range(first, stop)` (bounds regenerated from the source). -/
def subCount (start nobjs : Int) : Nat := (subsectionStop start nobjs - subsectionFirst start nobjs).toNat

/-- `PDFXRef.load` up to (not including) the trailer: the `while True` loop over subsections.
`rest` is the unread file from `pos`.  Returns the offsets and the position of the `trailer` line. -/
def tableLoop : Nat → Bytes → Nat → List (Int × Entry) → Except Err (List (Int × Entry) × Nat)
  | 0, _, _, _ => .error .recursion
  | fuel + 1, rest, pos, offs =>
    match takeLine rest with
    | none => .error .noValidXRef
    | some (line, k) =>
      let l := strip line
      if l.isEmpty then tableLoop fuel (rest.drop k) (pos + k) offs
      else if startsWith l kwTrailer then .ok (offs, pos)
      else if (splitSp l).length != headerFields then .error .noValidXRef
      else
        match splitSp l with
        | [a, b] =>
          match parseInt a, parseInt b with
          | some start, some nobjs =>
            match tableEntries (subCount start nobjs) (subsectionFirst start nobjs) (rest.drop k) (pos + k) offs with
            | .error e => .error e
            | .ok (offs', rest', pos') => tableLoop fuel rest' pos' offs'
          | _, _ => .error .noValidXRef
        | _ => .error .unmodelled    -- `(start, nobjs) = map(int, f)` with a field count other than 2

/-- `read_xref_from` on the `xref` keyword: `parser.nextline()` (rest of the keyword's line), then
`PDFXRef.load`.  `afterKw` is the offset just behind the keyword token. -/
def tableLoad (data : Bytes) (afterKw : Nat) : Except Err (List (Int × Entry) × Nat) :=
  let rest := data.drop afterKw
  match takeLine rest with
  | none => .error .noValidXRef      -- PSEOF escapes here in the code; never on a written file
  | some (_, k) => tableLoop (rest.length + 1) (rest.drop k) (afterKw + k) []

/-! ### `revreadlines` / `find_xref` -/

/-- `(s[:n], s[n:])` for `n = max(s.rfind(b"\r"), s.rfind(b"\n"))`; `none` when `n = -1`. -/
def splitLastEol : Bytes → Option (Bytes × Bytes)
  | [] => none
  | b :: rest =>
    match splitLastEol rest with
    | some (p, q) => some (b :: p, q)
    | none => if isEol b then some ([], b :: rest) else none

/-- The inner `while 1` of `revreadlines` on one chunk: yielded lines and the new `buf`. -/
def splitChunk : Nat → Bytes → Bytes → List Bytes × Bytes
  | 0, s, buf => ([], s ++ buf)
  | fuel + 1, s, buf =>
    match splitLastEol s with
    | none => ([], s ++ buf)
    | some (p, q) =>
      let r := splitChunk fuel p []
      ((q ++ buf) :: r.1, r.2)

/-- The outer `while pos > 0` loop. -/
def revLoop (bufsiz : Nat) (data : Bytes) : Nat → Nat → Bytes → List Bytes
  | 0, _, _ => []
  | fuel + 1, pos, buf =>
    if pos = 0 then [] else
    let pos' := pos - bufsiz
    let s := slice data pos' (pos - pos')
    if s.isEmpty then [] else
    let r := splitChunk (s.length + 1) s buf
    r.1 ++ revLoop bufsiz data fuel pos' r.2

/-- `PSBaseParser.revreadlines` with `BUFSIZ = bufsiz`: every yielded line, in order. -/
def revreadlines (bufsiz : Nat) (data : Bytes) : List Bytes :=
  revLoop bufsiz data (data.length + 1) data.length []

/-- `bytes.isdigit()`. -/
def isDigits (s : Bytes) : Bool := !s.isEmpty && s.all isDigit

/-- `PDFDocument.find_xref` over the lines produced by `revreadlines`. -/
def findXrefLines : List Bytes → Bytes → Except Err Nat
  | [], _ => .error .noValidXRef
  | line :: rest, prev =>
    let l := strip line
    if l == kwStartxref then
      if isDigits prev then .ok (decNat prev) else .error .noValidXRef
    else findXrefLines rest (if l.isEmpty then prev else l)

def findXref (bufsiz : Nat) (data : Bytes) : Except Err Nat :=
  findXrefLines (revreadlines bufsiz data) []

/-! ### Sections, chaining, `getobj` -/

/-- A loaded cross-reference section. -/
inductive Section
  | table (offs : List (Int × Entry))
  | stream (x : XStream)
  deriving Repr

def lookupOff : List (Int × Entry) → Int → Option Entry
  | [], _ => none
  | (k, e) :: rest, n => if k == n then some e else lookupOff rest n

def Section.getPos : Section → Nat → Option Entry
  | .table offs, n => lookupOff offs (n : Int)
  | .stream x, n => x.getPos n

def Section.getObjids : Section → List Int
  | .table offs => offs.map (·.1)
  | .stream x => x.getObjids.map (fun (n : Nat) => (n : Int))

/-- Trailer entries this property reads. -/
structure Trailer where
  prev : Option Nat
  xrefstm : Option Nat
  root : Option Nat
  info : Option Nat
  deriving Repr

/-- What stands at a cross-reference offset of the file (parsed by C01-level machinery). -/
inductive SecDesc
  | table (afterKw : Nat) (tr : Trailer)
  | stream (size : Nat) (index : Option (List Nat)) (w : List Nat) (data : Bytes) (tr : Trailer)
  deriving Repr

/-- The physical file as far as this model reads it. -/
structure Phys where
  data : Bytes
  secs : List (Nat × SecDesc)
  objs : List (Nat × Nat × Nat × Val)       -- offset ↦ (objnum, gen, value)
  deriving Repr

def lookupNat {α : Type} : List (Nat × α) → Nat → Option α
  | [], _ => none
  | (k, v) :: rest, n => if k == n then some v else lookupNat rest n

def loadSection (ph : Phys) (d : SecDesc) : Except Err (Section × Trailer) :=
  match d with
  | .table afterKw tr =>
    match tableLoad ph.data afterKw with
    | .error e => .error e
    | .ok (offs, _) => .ok (.table offs, tr)
  | .stream size index w data tr =>
    match xsLoad size index w data with
    | .error e => .error e
    | .ok x => .ok (.stream x, tr)

def Trailer.get (tr : Trailer) (k : String) : Option Nat :=
  if k == "XRefStm" then tr.xrefstm else if k == "Prev" then tr.prev else none

/-- `read_xref_from`: skip a position already visited (circular `/Prev` / `/XRefStm`), load the
section at `start`, then follow the trailer keys in the order of the source (`chainOrder`).
State = (sections so far, visited positions), shared along the whole chain like the Python set. -/
def readXrefFrom (ph : Phys) : Nat → Nat → List (Section × Trailer) × List Nat →
    Except Err (List (Section × Trailer) × List Nat)
  | 0, _, _ => .error .recursion
  | fuel + 1, start, (acc, visited) =>
    if visited.contains start then .ok (acc, visited) else
    match lookupNat ph.secs start with
    | none => .error .noValidXRef
    | some d =>
      match loadSection ph d with
      | .error e => .error e
      | .ok (s, tr) =>
        chainOrder.foldlM (fun st k =>
          match tr.get k with
          | some p => readXrefFrom ph fuel p st
          | none => .ok st) (acc ++ [(s, tr)], start :: visited)

/-- `_getobj_parse`: the object header at `pos` must carry the number asked for. -/
def parseAt (objs : List (Nat × Nat × Nat × Val)) (pos n : Nat) : Except Err Val :=
  match lookupNat objs pos with
  | none => .error .syntax
  | some (num, _, v) => if num = n then .ok v else .error .syntax

/-- `_getobj_objstm` on the container value: `objs[n * 2 + index]`. -/
def objstmMember (c : Val) (index : Nat) : Except Err Val :=
  match c with
  | .objstm _ n objs =>
    match objs[objstmIndex n index]? with
    | some t => .ok t.toVal
    | none => .error .syntax
  | _ => .error .syntax      -- stream_value of a non-stream is an empty stream: "index too big"

/-- The body of the `for xref in self.xrefs` loop for one entry. -/
def tryEntry (objs : List (Nat × Nat × Nat × Val)) (rec : Nat → Except Err Val) (n : Nat) (e : Entry) :
    Except Err Val :=
  match e.strm with
  | none => parseAt objs e.idx n
  | some c =>
    match rec c with
    | .error x => .error x
    | .ok cv => objstmMember cv e.idx

/-- `for xref in self.xrefs: …` — newest first, `KeyError` and `PSEOF/PDFSyntaxError` fall through. -/
def search (objs : List (Nat × Nat × Nat × Val)) (rec : Nat → Except Err Val) (n : Nat) :
    List Section → Except Err Val
  | [] => .error .notFound
  | s :: rest =>
    match s.getPos n with
    | none => search objs rec n rest
    | some e =>
      match tryEntry objs rec n e with
      | .ok v => .ok v
      | .error .syntax => search objs rec n rest
      | .error .eof => search objs rec n rest
      | .error x => .error x

/-- `getobj` without the cache.  `ip` is `_objstms_in_progress`: a container that is being
fetched is not fetched again (`PDFSyntaxError`, the search goes on with the next section); the
fuel only makes the recursion structural. -/
def getobjF (objs : List (Nat × Nat × Nat × Val)) (xrefs : List Section) : Nat → List Nat → Nat → Except Err Val
  | 0, _, _ => .error .recursion
  | fuel + 1, ip, n =>
    search objs (fun c => if ip.contains c then .error .syntax else getobjF objs xrefs fuel (c :: ip) c) n xrefs

def getobjFuel : Nat := 64

def getobj (objs : List (Nat × Nat × Nat × Val)) (xrefs : List Section) (n : Nat) : Except Err Val :=
  getobjF objs xrefs getobjFuel [] n

/-! ### `getobj` with `_cached_objs` (`caching=True`) -/

abbrev Cache := List (Nat × Val)

def tryEntryC (objs : List (Nat × Nat × Nat × Val)) (rec : Cache → Nat → Except Err Val × Cache)
    (c : Cache) (n : Nat) (e : Entry) : Except Err Val × Cache :=
  match e.strm with
  | none => (parseAt objs e.idx n, c)
  | some s =>
    match rec c s with
    | (.error x, c') => (.error x, c')
    | (.ok cv, c') => (objstmMember cv e.idx, c')

def searchC (objs : List (Nat × Nat × Nat × Val)) (rec : Cache → Nat → Except Err Val × Cache) (n : Nat) :
    List Section → Cache → Except Err Val × Cache
  | [], c => (.error .notFound, c)
  | s :: rest, c =>
    match s.getPos n with
    | none => searchC objs rec n rest c
    | some e =>
      match tryEntryC objs rec c n e with
      | (.ok v, c') => (.ok v, c')
      | (.error .syntax, c') => searchC objs rec n rest c'
      | (.error .eof, c') => searchC objs rec n rest c'
      | (.error x, c') => (.error x, c')

/-- `getobj` with `caching=True`: a hit returns the cached value, a successful search is stored. -/
def getobjC (objs : List (Nat × Nat × Nat × Val)) (xrefs : List Section) :
    Nat → List Nat → Cache → Nat → Except Err Val × Cache
  | 0, _, c, _ => (.error .recursion, c)
  | fuel + 1, ip, c, n =>
    match lookupNat c n with
    | some v => (.ok v, c)
    | none =>
      match searchC objs (fun c' s => if ip.contains s then (.error .syntax, c') else getobjC objs xrefs fuel (s :: ip) c' s)
          n xrefs c with
      | (.ok v, c') => (.ok v, (n, v) :: c')
      | (.error x, c') => (.error x, c')

/-- A sequence of `getobj` calls on one document with the cache on. -/
def queriesC (objs : List (Nat × Nat × Nat × Val)) (xrefs : List Section) :
    List Nat → Cache → List (Except Err Val)
  | [], _ => []
  | n :: rest, c =>
    let r := getobjC objs xrefs getobjFuel [] c n
    r.1 :: queriesC objs xrefs rest r.2

/-! ### The document: `PDFDocument.__init__` as far as cross-references go -/

structure Doc where
  xrefs : List (Section × Trailer)
  fallback : Bool

/-- Catalog / info selection: first trailer with `Root`; `Info` entries collected on the way. -/
def rootInfo : List (Section × Trailer) → List Nat → Option (Nat × List Nat)
  | [], _ => none
  | (_, tr) :: rest, infos =>
    let infos' := match tr.info with | some i => infos ++ [i] | none => infos
    match tr.root with
    | some r => some (r, infos')
    | none => rootInfo rest infos'

/-! ### Body scan (`PDFXRefFallback.load`) — cue lines only -/

def isReSpace (b : UInt8) : Bool := b == 32 || (9 ≤ b && b ≤ 13) || (28 ≤ b && b ≤ 31) || b == 133 || b == 160

def isWordByte (b : UInt8) : Bool :=
  isDigit b || (65 ≤ b && b ≤ 90) || (97 ≤ b && b ≤ 122) || b == 95 ||
  b == 170 || b == 178 || b == 179 || b == 181 || b == 185 || b == 186 ||
  (188 ≤ b && b ≤ 190) || (192 ≤ b && b != 215 && b != 247)

/-- `PDFOBJ_CUE = ^(\d+)\s+(\d+)\s+obj\b` on one line. -/
def matchCue (line : Bytes) : Option (Nat × Nat) :=
  let d1 := line.takeWhile isDigit
  let r1 := line.dropWhile isDigit
  let s1 := r1.takeWhile isReSpace
  let r2 := r1.dropWhile isReSpace
  let d2 := r2.takeWhile isDigit
  let r3 := r2.dropWhile isDigit
  let s2 := r3.takeWhile isReSpace
  let r4 := r3.dropWhile isReSpace
  if d1.isEmpty || s1.isEmpty || d2.isEmpty || s2.isEmpty then none
  else if r4.take 3 == [111, 98, 106] then
    match r4.drop 3 with
    | [] => some (decNat d1, decNat d2)
    | c :: _ => if isWordByte c then none else some (decNat d1, decNat d2)
  else none

/-- The scan loop.  `ends` maps the offset of an object header to the offset just behind its
`endobj` token and its parsed value (the scan resumes there, as `nextobject()` leaves the parser). -/
def fallbackLoop (data : Bytes) (ends : List (Nat × Nat × Val)) :
    Nat → Nat → List (Int × Entry) → Except Err (List (Int × Entry) × Option Nat)
  | 0, _, offs => .ok (offs, none)
  | fuel + 1, pos, offs =>
    match takeLine (data.drop pos) with
    | none => .ok (offs, none)
    | some (line, k) =>
      if startsWith line kwTrailer then .ok (offs, some pos)
      else
        match matchCue line with
        | none => fallbackLoop data ends fuel (pos + k) offs
        | some (objid, genno) =>
          let offs1 := insertOff offs (objid : Int) ⟨none, pos, genno⟩
          match lookupNat ends pos with
          | none => .error .unmodelled
          | some (endpos, v) =>
            let offs2 :=
              match v with
              | .objstm _ n objs =>
                let cnt := min n (objs.length / 2)
                (List.range cnt).foldl (fun (o : List (Int × Entry)) (i : Nat) =>
                  match (objs[i * 2]? : Option Tok) with
                  | some (Tok.num k1) => insertOff o (k1 : Int) ⟨some objid, i, 0⟩
                  | _ => o) offs1
              | _ => offs1
            if endpos ≤ pos then .error .unmodelled
            else fallbackLoop data ends fuel endpos offs2

def fallbackLoad (data : Bytes) (ends : List (Nat × Nat × Val)) : Except Err (List (Int × Entry) × Option Nat) :=
  fallbackLoop data ends (data.length + 1) 0 []

end PdfVerif.Xref
