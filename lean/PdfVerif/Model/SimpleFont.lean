/-
Hand model of pdfminer's simple-font machinery (C06), function by function:

  encodingdb.name2unicode, raise_key_error_for_invalid_unicode     -> `comp`, `name2unicode`
  encodingdb.EncodingDB (class body + get_encoding)                -> `buildTable`, `applyDiff`, `getEncoding`
  cmapdb.FileUnicodeMap.add_cid2unichr, CMapParser bfchar/bfrange  -> `utf16beIgnore`, `addCid2Unichr`, `tuDefs`, `buildUmap`
  pdffont.Type1FontHeaderParser.get_encoding (at the level of its `put` pairs) -> `builtinEncoding`
  pdffont.PDFSimpleFont / PDFType1Font / PDFTrueTypeFont / PDFType3Font.__init__ -> `build`
  pdffont.PDFSimpleFont.to_unichr, PDFFont.char_width              -> `toUnichr`, `charWidth`
  converter.PDFLayoutAnalyzer.render_char / handle_undefined_char  -> `glyphText`, `placeholder`

Conventions: a glyph name is a `List Char` (Python `str`), `none` = a name that is not a `str`
(bytes that are not UTF-8); a text is the list of its code points; Python dicts are association
lists where the FIRST entry for a key is the current one (assignment = cons, `pop` = filter);
`none` results stand for `KeyError` / `PDFUnicodeNotDefined`.  The tables (glyph list, ENCODING,
standard-14 metrics) are parameters: the driver and the theorems instantiate them with the
definitions regenerated from the Python source (`PdfVerif.Gen.FontTables`).
This file imports nothing from Mathlib.
-/
import PdfVerif.Model.Prelude
import PdfVerif.Gen.FontCode

namespace PdfVerif.SimpleFont
open PdfVerif PdfVerif.Gen.FontCode

abbrev Name := List Char
abbrev Text := List Nat
abbrev GlyphList := List (Name × Text)
/-- A Python `dict` with integer keys: first entry for a key is the live one. -/
abbrev Table := List (Int × Text)

/-! ### glyph names -/

def glLookup (gl : GlyphList) (n : Name) : Option Text :=
  match gl.find? (fun e => e.1 == n) with
  | some e => some e.2
  | none => none

/-- Value of one hexadecimal digit, either case (`[0-9a-fA-F]`), by code point. -/
def hexDigitVal (c : Char) : Option Nat :=
  let n := c.toNat
  if 48 ≤ n ∧ n ≤ 57 then some (n - 48)
  else if 97 ≤ n ∧ n ≤ 102 then some (n - 87)
  else if 65 ≤ n ∧ n ≤ 70 then some (n - 55)
  else none

def isHexDigit (c : Char) : Bool := (hexDigitVal c).isSome

/-- `HEXADECIMAL.fullmatch(s)`: non-empty, only hexadecimal digits. -/
def allHex (s : List Char) : Bool := !s.isEmpty && s.all isHexDigit

/-- `int(s, base=16)` on a string of hexadecimal digits (accumulator version). -/
def hexValAux : Nat → List Char → Nat
  | acc, [] => acc
  | acc, c :: cs => hexValAux (acc * 16 + (hexDigitVal c).getD 0) cs

def hexVal (s : List Char) : Nat := hexValAux 0 s

/-- `[int(s[i:i+4], 16) for i in range(0, len(s), 4)]` (the caller guarantees `len(s) % 4 == 0`). -/
def groups4 : List Char → List Nat
  | a :: b :: c :: d :: rest => hexVal [a, b, c, d] :: groups4 rest
  | _ => []

/-- `raise_key_error_for_invalid_unicode` does NOT raise (`invalidUnicode` is regenerated from its body). -/
def validUnicode (v : Nat) : Bool := !invalidUnicode v

/-- `name2unicode` on a name without `.` and `_` (the non-recursive branches).  The prefixes, the group
size and the length bounds are the constants regenerated from the Python source (`Gen/FontCode.lean`). -/
def comp (gl : GlyphList) (c : Name) : Option Text :=
  match glLookup gl c with
  | some t => some t
  | none =>
    if UNI_PREFIX.isPrefixOf c then
      let r := c.drop UNI_PREFIX.length
      if allHex r && r.length % UNI_GROUP == 0 then
        let vs := groups4 r
        if vs.all validUnicode then some vs else none
      else none
    else if U_PREFIX.isPrefixOf c then
      let r := c.drop U_PREFIX.length
      if allHex r && U_MIN ≤ r.length && r.length ≤ U_MAX then
        let v := hexVal r
        if validUnicode v then some [v] else none
      else none
    else none

/-- Python `str.split(sep)`: always at least one piece. -/
def splitOn (sep : Char) : List Char → List (List Char)
  | [] => [[]]
  | c :: cs =>
    if c == sep then [] :: splitOn sep cs
    else match splitOn sep cs with
      | p :: ps => (c :: p) :: ps
      | [] => [[c]]

/-- `name.split(".")[0]`. -/
def beforeDot (n : Name) : Name := n.takeWhile (fun c => c != SUFFIX_SEP)

/-- `"".join(map(name2unicode, components))`, `none` when any component raises. -/
def joinAll (gl : GlyphList) : List Name → Option Text
  | [] => some []
  | c :: cs =>
    match comp gl c, joinAll gl cs with
    | some t, some r => some (t ++ r)
    | _, _ => none

/-- `encodingdb.name2unicode`; `none` = `KeyError`. -/
def name2unicode (gl : GlyphList) : Option Name → Option Text
  | none => none
  | some name =>
    let base := beforeDot name
    let comps := splitOn COMPONENT_SEP base
    if comps.length > 1 then joinAll gl comps else comp gl base

/-! ### encodings -/

def tlookup (t : Table) (k : Int) : Option Text :=
  match t.find? (fun e => e.1 == k) with
  | some e => some e.2
  | none => none

def tpop (t : Table) (k : Int) : Table := t.filter (fun e => e.1 != k)

abbrev EncRow := Name × Option Nat × Option Nat × Option Nat × Option Nat

/-- Column `col` (1 = std, 2 = mac, 3 = win, 4 = pdf) of a row of `ENCODING`. -/
def rowCode (col : Nat) (r : EncRow) : Option Nat :=
  match col with
  | 1 => r.2.1
  | 2 => r.2.2.1
  | 3 => r.2.2.2.1
  | _ => r.2.2.2.2

/-- The class body of `EncodingDB`: `if code: table[code] = name2unicode(name)`, rows in order. -/
def buildTable (gl : GlyphList) (col : Nat) : List EncRow → Table → Table
  | [], t => t
  | r :: rs, t =>
    match rowCode col r, name2unicode gl (some r.1) with
    | some code, some c => if code != 0 then buildTable gl col rs ((Int.ofNat code, c) :: t) else buildTable gl col rs t
    | _, _ => buildTable gl col rs t

inductive DiffTok where
  | num (n : Int)
  | name (n : Option Name)
  | other
deriving Repr, DecidableEq

/-- The loop of `EncodingDB.get_encoding` over a Differences array. -/
def applyDiff (gl : GlyphList) : Table → Int → List DiffTok → Table
  | t, _, [] => t
  | t, _, .num n :: rest => applyDiff gl t n rest
  | t, cid, .other :: rest => applyDiff gl t cid rest
  | t, cid, .name nm :: rest =>
    match name2unicode gl nm with
    | some u => applyDiff gl ((cid, u) :: t) (cid + 1) rest
    | none => applyDiff gl (tpop t cid) (cid + 1) rest

/-- The data an `EncodingDB` holds: the named tables and the default one. -/
structure EncDB where
  tables : List (String × Table)
  default : Table

def EncDB.get (db : EncDB) (name : String) : Table :=
  match db.tables.find? (fun e => e.1 == name) with
  | some e => e.2
  | none => db.default

/-- The class body of `EncodingDB`: one table per entry of `encodings` (name, column) and the default table. -/
def EncDB.ofRows (gl : GlyphList) (rows : List EncRow) (cols : List (String × Nat)) (dflt : Nat) : EncDB :=
  { tables := cols.map (fun e => (e.1, buildTable gl e.2 rows [])),
    default := buildTable gl dflt rows [] }

/-- `EncodingDB.get_encoding(name, diff)`. -/
def getEncoding (gl : GlyphList) (db : EncDB) (name : String) (diff : List DiffTok) : Table :=
  let base := db.get name
  if diff.isEmpty then base else applyDiff gl base 0 diff

/-! ### ToUnicode -/

/-- `bytes.decode("UTF-16BE", "ignore")`. -/
def utf16beIgnore : List UInt8 → Text
  | a :: b :: rest =>
    let u := a.toNat * 256 + b.toNat
    if u < 0xD800 || u > 0xDFFF then u :: utf16beIgnore rest
    else if u ≤ 0xDBFF then
      match rest with
      | c :: d :: rest' =>
        let v := c.toNat * 256 + d.toNat
        if 0xDC00 ≤ v && v ≤ 0xDFFF then
          (0x10000 + (u - 0xD800) * 1024 + (v - 0xDC00)) :: utf16beIgnore rest'
        else utf16beIgnore (c :: d :: rest')
      | _ => []
    else utf16beIgnore rest
  | _ => []
termination_by bs => bs.length

/-- `nunpack`: big-endian unsigned integer, `0` for the empty string. -/
def nunpack (bs : List UInt8) : Nat := bs.foldl (fun acc b => acc * 256 + b.toNat) 0

/-- `struct.pack(">L", v)` (the caller keeps `v < 2^32`). -/
def be32 (v : Nat) : List UInt8 :=
  [UInt8.ofNat (v / 16777216 % 256), UInt8.ofNat (v / 65536 % 256), UInt8.ofNat (v / 256 % 256), UInt8.ofNat (v % 256)]

/-- `s[-n:]` for `0 < n`; (`s[-0:]` is the whole string). -/
def lastN (n : Nat) (s : List UInt8) : List UInt8 := if n == 0 then s else s.drop (s.length - n)

/-- `s[:-4]`. -/
def dropLast4 (s : List UInt8) : List UInt8 := s.take (s.length - 4)

inductive TuEntry where
  | bfchar (src dst : List UInt8)
  | bfrange (lo hi dst : List UInt8)
  | bfrangeArr (lo hi : List UInt8) (dsts : List (List UInt8))
deriving Repr, DecidableEq

/-- The calls `add_cid2unichr(cid, bytes)` that one bfchar / bfrange entry makes, in order. -/
def entryDefs : TuEntry → List (Int × List UInt8)
  | .bfchar src dst => [(Int.ofNat (nunpack src), dst)]
  | .bfrange lo hi dst =>
    if lo.length != hi.length then [] else
    let start := nunpack lo
    let stop := nunpack hi
    let var := lastN 4 dst
    let base := nunpack var
    let pre := dropLast4 dst
    let vlen := var.length
    (List.range (stop + 1 - start)).map (fun i => (Int.ofNat (start + i), pre ++ lastN vlen (be32 (base + i))))
  | .bfrangeArr lo hi dsts =>
    if lo.length != hi.length then [] else
    let start := nunpack lo
    let stop := nunpack hi
    ((List.range (stop + 1 - start)).zip dsts).map (fun p => (Int.ofNat (start + p.1), p.2))

def tuDefs (es : List TuEntry) : List (Int × List UInt8) := es.flatMap entryDefs

/-- `FileUnicodeMap.add_cid2unichr(cid, code: bytes)` incl. the space / no-break-space rule. -/
def addCid2Unichr (m : Table) (cid : Int) (code : List UInt8) : Table :=
  let u := utf16beIgnore code
  if u == COLLISION_NEW && tlookup m cid == some COLLISION_OLD then m else (cid, u) :: m

def buildUmap (es : List TuEntry) : Table :=
  (tuDefs es).foldl (fun m d => addCid2Unichr m d.1 d.2) []

/-! ### fonts -/

/-- The result of reading an embedded Type 1 program's clear-text header: the `(cid, name)` pairs of
its `put` keywords in order (see `Model/Type1Header.lean` for the tokeniser path). -/
structure FontFile where
  puts : List (Int × Option Name)
deriving Repr

/-- A font descriptor; `F` is what stands for the embedded font program (`FontFile` after the header has
been read, `RawFontFile` = the stream bytes before). -/
structure DescriptorOf (F : Type) where
  missingWidth : Option Rat
  fontFile : Option F
deriving Repr

abbrev Descriptor := DescriptorOf FontFile

inductive EncSpec where
  | absent
  | named (n : String)
  | dict (base : Option String) (diff : List DiffTok)
deriving Repr

/-- The entries of a font dictionary that the property talks about. -/
structure FontDictOf (F : Type) where
  isType3 : Bool                     -- Subtype Type3; Type1, MMType1, TrueType, absent, unknown are all PDFType1Font
  baseFont : Option String
  enc : EncSpec
  toUnicode : Option (List TuEntry)
  firstChar : Option Int
  widths : Option (List Rat)
  desc : Option (DescriptorOf F)
  fontMatrix : Matrix
deriving Repr

abbrev FontDict := FontDictOf FontFile

/-- The FontMatrix entry of a Type3 font dictionary as it stands in the file. -/
inductive MatSpec where
  | absent                                  -- no FontMatrix entry
  | notList                                 -- an object that is not an array (`list_value` gives `[]` when not strict)
  | list (xs : List (Option Rat))           -- an array; `none` = an element that is not a number
deriving Repr

/-- `PDFType3Font.__init__`: `font_matrix = [resolve1(v) for v in list_value(spec.get("FontMatrix", []))]`, replaced
by the default unless it has exactly `T3_MATRIX_LEN` elements, all numbers (constants regenerated from the source). -/
def type3Matrix (ms : MatSpec) : Matrix :=
  let xs : List (Option Rat) := match ms with
    | .list xs => xs
    | _ => []
  let vals : List Rat :=
    if xs.length != T3_MATRIX_LEN || !(xs.all Option.isSome) then T3_DEFAULT_MATRIX else xs.map (fun x => x.getD 0)
  match vals with
  | [a, b, c, d, e, f] => (a, b, c, d, e, f)
  | _ => (0, 0, 0, 0, 0, 0)

/-- `PDFResourceManager.get_font`: the class constructed for a font dictionary's Subtype (absent: Type1;
unknown: the fallback class).  The table is regenerated from the if/elif chain of the source. -/
def fontClassOf (subtype : Option String) : String :=
  let sub := subtype.getD SUBTYPE_WHEN_ABSENT
  match SUBTYPE_DISPATCH.find? (fun e => e.1.contains sub) with
  | some e => e.2
  | none => SUBTYPE_FALLBACK_CLASS

/-- The simple-font classes C06 is about: `some true` = Type3, `some false` = Type1 / TrueType (the translator
checks that `PDFTrueTypeFont` adds nothing to `PDFType1Font`), `none` = a composite font (C07). -/
def simpleClass (subtype : Option String) : Option Bool :=
  let c := fontClassOf subtype
  if c == "PDFType3Font" then some true
  else if c == "PDFType1Font" || c == "PDFTrueTypeFont" then some false
  else none

/-- What a constructed `PDFSimpleFont` keeps. -/
structure Font where
  cid2unicode : Table
  umap : Option Table
  widthsInt : List (Int × Rat)       -- `self.widths`, integer keys
  widthsStr : List (Nat × Int)       -- `self.widths`, one-character keys (standard-14 metrics)
  defaultWidth : Rat
  hscale : Rat

/-- `FONT_METRICS`, aliases resolved. -/
abbrev Metrics := List (String × List (Nat × Int))

def getMetrics (fm : Metrics) (name : String) : Option (List (Nat × Int)) :=
  match fm.find? (fun e => e.1 == name) with
  | some e => some e.2
  | none => none

/-- `{i + firstchar: w for (i, w) in enumerate(width_list)}` (later entries shadow earlier ones: cons order reversed). -/
def enumWidths (first : Int) : List Rat → List (Int × Rat)
  | [] => []
  | w :: ws => enumWidths (first + 1) ws ++ [(first, w)]

def wlookup (ws : List (Int × Rat)) (k : Int) : Option Rat :=
  match ws.find? (fun e => e.1 == k) with
  | some e => some e.2
  | none => none

def slookup (ws : List (Nat × Int)) (k : Nat) : Option Int :=
  match ws.find? (fun e => e.1 == k) with
  | some e => some e.2
  | none => none

/-- `Type1FontHeaderParser.get_encoding` over the `(cid, name)` results of its `put` keywords. -/
def putsEncoding (gl : GlyphList) : Table → List (Int × Option Name) → Table
  | t, [] => t
  | t, (cid, nm) :: rest =>
    match name2unicode gl nm with
    | some u => putsEncoding gl ((cid, u) :: t) rest
    | none => putsEncoding gl (tpop t cid) rest

/-- `Type1FontHeaderParser.get_encoding`: the dict built from the results of the `put` keywords. -/
def builtinEncoding (gl : GlyphList) (ff : FontFile) : Table := putsEncoding gl [] ff.puts

/-- `PDFSimpleFont.__init__`: the encoding part. -/
def specEncoding (gl : GlyphList) (db : EncDB) : EncSpec → Table
  | .absent => getEncoding gl db DEFAULT_ENCODING []
  | .named n => getEncoding gl db n []
  | .dict base diff => getEncoding gl db (base.getD DEFAULT_ENCODING) diff

def descMissingWidth {F : Type} (d : Option (DescriptorOf F)) : Rat :=
  match d with
  | some d => d.missingWidth.getD 0
  | none => 0

/-- `PDFType1Font.__init__` / `PDFTrueTypeFont` / `PDFType3Font.__init__` (with `PDFSimpleFont.__init__`, `PDFFont.__init__`). -/
def build (gl : GlyphList) (db : EncDB) (fm : Metrics) (fd : FontDict) : Font :=
  let umap := fd.toUnicode.map buildUmap
  let enc := specEncoding gl db fd.enc
  let first := fd.firstChar.getD 0
  if fd.isType3 then
    { cid2unicode := enc, umap := umap,
      widthsInt := enumWidths first (fd.widths.getD []), widthsStr := [],
      defaultWidth := descMissingWidth fd.desc,
      hscale := fd.fontMatrix.1 }
  else
    let basefont := fd.baseFont.getD "unknown"
    match getMetrics fm basefont with
    | some m =>
      -- standard-14: built-in metrics by character, explicit Widths laid over them, built-in descriptor
      -- (+ MissingWidth of an explicit one); the built-in descriptor has no FontFile
      { cid2unicode := enc, umap := umap,
        widthsInt := enumWidths first (fd.widths.getD []),   -- `if "Widths" in spec:` (no entries otherwise)
        widthsStr := m,
        defaultWidth := descMissingWidth fd.desc,
        hscale := DEFAULT_SCALE }
    | none =>
      let enc' := match fd.enc, fd.desc with
        | .absent, some d =>
          match d.fontFile with
          | some ff => builtinEncoding gl ff
          | none => enc
        | _, _ => enc
      { cid2unicode := enc', umap := umap,
        widthsInt := enumWidths first (fd.widths.getD []), widthsStr := [],
        defaultWidth := descMissingWidth fd.desc,
        hscale := DEFAULT_SCALE }

/-- `PDFSimpleFont.to_unichr`; `none` = `PDFUnicodeNotDefined`. -/
def toUnichr (f : Font) (cid : Int) : Option Text :=
  match f.umap with
  | some m =>
    match tlookup m cid with
    | some t => some t
    | none => tlookup f.cid2unicode cid
  | none => tlookup f.cid2unicode cid

/-- `self.widths.get(str_cid)` for a `str` key: only one-character keys exist. -/
def strWidth (f : Font) (t : Text) : Option Int :=
  match t with
  | [c] => slookup f.widthsStr c
  | _ => none

/-- `PDFFont.char_width`. -/
def charWidth (f : Font) (cid : Int) : Rat :=
  match wlookup f.widthsInt cid with
  | some w => w * f.hscale
  | none =>
    match toUnichr f cid with
    | some t =>
      match strWidth f t with
      | some w => (w : Rat) * f.hscale
      | none => f.defaultWidth * f.hscale
    | none => f.defaultWidth * f.hscale

/-- Decimal digits of a natural number as code points (`"%d" % n`). -/
def decDigits (n : Nat) : Text := (Nat.toDigits 10 n).map Char.toNat

/-- `handle_undefined_char`: `"(cid:%d)" % cid` (the text around the number is regenerated from the source). -/
def placeholder (cid : Int) : Text :=
  PLACEHOLDER_PREFIX ++ (if cid < 0 then [45] else []) ++ decDigits cid.natAbs ++ PLACEHOLDER_SUFFIX

/-- `render_char`: the text of the `LTChar`. -/
def glyphText (f : Font) (cid : Int) : Text :=
  match toUnichr f cid with
  | some t => t
  | none => placeholder cid

/-- `LTChar.adv` at font size 1 and 100 % horizontal scaling. -/
def glyphAdv (f : Font) (cid : Int) : Rat := charWidth f cid

end PdfVerif.SimpleFont
