/-
Symbols stored in the CCITT code tables of pdfminer/ccitt.py (import-free; shared by the
regenerated tables `Gen/CcittTables.lean`, the model and the specification).
-/

namespace PdfVerif.Ccitt

/-- Values of `CCITTG4Parser.MODE`: an `int` (vertical offset) or one of the strings
`"h" "p" "u" "x1".."x7" "e"`. -/
inductive Mode where
  | v (d : Int)
  | h
  | p
  | u
  | x (n : Nat)
  | e
  deriving DecidableEq, Repr

/-- Values of `CCITTG4Parser.UNCOMPRESSED`: a bit string, with a leading `T` for the terminators. -/
structure UVal where
  term : Bool
  bits : List Bool
  deriving DecidableEq, Repr

/-- Any value a trie leaf can hold. -/
inductive Sym where
  | mode (m : Mode)
  | run (n : Nat)
  | unc (u : UVal)
  deriving DecidableEq, Repr

end PdfVerif.Ccitt
