/-
C13 (round 6c) — executable model of `data_structures.NumberTree.__init__` / `_parse`: the number-tree walk over an
arbitrary object graph, with nodes given directly or by reference, `/Kids` arrays given directly or by reference
(the indirect Kids ARRAY of fix 8f4f6ca included) and the visited set handed through the whole walk.
Import-free apart from `Model/Lenient.lean`.
-/
import PdfVerif.Model.Lenient

namespace PdfVerif.Lenient
open PdfVerif

/-- `if k in self._obj: list_value(self._obj[k])`, else nothing (a null value is a present key: `list_value(None)`). -/
def ntList (strict : Bool) (g : Graph) (d : List (String × Obj)) (k : String) : Except Err (List Obj) :=
  match d.lookup k with
  | some v => listValue strict g v
  | none => .ok []

/-- `for k, v in choplist(2, self.nums): items.append((int_value(k), v))` — an odd last element is dropped. -/
def ntItems (strict : Bool) (g : Graph) : List Obj → Except Err (List (Obj × Obj))
  | k :: v :: rest =>
    match intValue strict g k with
    | .error e => .error e
    | .ok i =>
      match ntItems strict g rest with
      | .error e => .error e
      | .ok tl => .ok ((i, v) :: tl)
  | _ => .ok []

/-- `getattr(self._obj.get("Kids"), "objid", None)`: the object number of an indirect `/Kids` array. -/
def ntKidsRef (d : List (String × Obj)) : Option Nat :=
  match d.lookup "Kids" with
  | some (.ref n) => some n
  | _ => none

structure NTNode where
  items : List (Obj × Obj)
  kids : List Obj
  kidsRef : Option Nat

/-- `NumberTree(obj)` followed by the leaf part of `_parse`: dict_value, list_value of Nums / Kids / Limits in that
order, then int_value of every key. -/
def ntNode (strict : Bool) (g : Graph) (obj : Obj) : Except Err NTNode :=
  match dictValue strict g obj with
  | .error e => .error e
  | .ok d =>
    match ntList strict g d "Nums" with
    | .error e => .error e
    | .ok nums =>
      match ntList strict g d "Kids" with
      | .error e => .error e
      | .ok kids =>
        match ntList strict g d "Limits" with
        | .error e => .error e
        | .ok _ =>
          match ntItems strict g nums with
          | .error e => .error e
          | .ok items => .ok ⟨items, kids, ntKidsRef d⟩

mutual
/-- `NumberTree(obj)._parse(visited)`: the items in order and the visited set.  `fuel` bounds the recursion depth.
The indirect `/Kids` array is followed once (guard of fix 8f4f6ca, flag regenerated from data_structures.py). -/
def ntParseFuel (strict : Bool) (g : Graph) : Nat → Obj → List Nat → Except Err (List (Obj × Obj) × List Nat)
  | 0, _, _ => .error .fuel
  | fuel + 1, obj, visited =>
    match ntNode strict g obj with
    | .error e => .error e
    | .ok node =>
      if node.kids.isEmpty then .ok (node.items, visited)
      else
        match node.kidsRef with
        | some n =>
          if Gen.Lenient.numberTreeGuard && visited.contains n then .ok (node.items, visited)
          else
            match ntKidsFuel strict g fuel node.kids (n :: visited) with
            | .error e => .error e
            | .ok (its, v) => .ok (node.items ++ its, v)
        | none =>
          match ntKidsFuel strict g fuel node.kids visited with
          | .error e => .error e
          | .ok (its, v) => .ok (node.items ++ its, v)

/-- `for child_ref in self.kids`: a reference already visited is skipped, a new one is recorded; a node written
directly into the array is walked without a record. -/
def ntKidsFuel (strict : Bool) (g : Graph) : Nat → List Obj → List Nat → Except Err (List (Obj × Obj) × List Nat)
  | _, [], visited => .ok ([], visited)
  | fuel, .ref n :: cs, visited =>
    if visited.contains n then ntKidsFuel strict g fuel cs visited
    else
      match ntParseFuel strict g fuel (.ref n) (n :: visited) with
      | .error e => .error e
      | .ok (i1, v1) =>
        match ntKidsFuel strict g fuel cs v1 with
        | .error e => .error e
        | .ok (i2, v2) => .ok (i1 ++ i2, v2)
  | fuel, c :: cs, visited =>
    match ntParseFuel strict g fuel c visited with
    | .error e => .error e
    | .ok (i1, v1) =>
      match ntKidsFuel strict g fuel cs v1 with
      | .error e => .error e
      | .ok (i2, v2) => .ok (i1 ++ i2, v2)
end

/-- `NumberTree(obj)._parse()`; depth fuel as for `resolve_all` (every reference followed is new, and inside an
object the walk descends through its nesting). -/
def numTree (strict : Bool) (g : Graph) (obj : Obj) : Except Err (List (Obj × Obj) × List Nat) :=
  ntParseFuel strict g (resolveAllBudget g obj) obj []

end PdfVerif.Lenient
