/-
C03 — executable model of pdfminer's stream decoders, predictors, filter pipeline and
stream delimitation (import-free; linked into `drv_c03`).

  ascii85.py    asciihexdecode, ascii85decode (strip regexes + base64.a85decode)
  runlength.py  rldecode
  lzw.py        LZWDecoder.readbits/feed/run, lzwdecode
  utils.py      apply_png_predictor (as repaired by the two `fix:` commits), apply_tiff_predictor,
                paeth_predictor (translated: `Gen.Filters.paeth_predictor`)
  pdftypes.py   PDFStream.get_filters / decode / _decode (translated: `Gen.Filters.LITERALS_*`, `DECODE_ERRORS`)
  pdfparser.py  PDFParser.do_keyword, `stream` branch (non-fallback), psparser.nextline

Errors are Python exception classes (`Err`); every loop is structural or fuelled with a fuel
that is a linear function of the input length.
-/
import PdfVerif.Model.Prelude
import PdfVerif.Gen.Filters

namespace PdfVerif.Filters
open PdfVerif PdfVerif.Gen.Filters

-- translated straight-line code used by name in this model (round 6)
export PdfVerif.Gen.Filters (nbitsAfter pngNbytes pngBpp)

inductive Err
  | binascii          -- binascii.Error
  | valueError        -- ValueError
  | indexError        -- IndexError
  | runtimeError      -- RuntimeError (generator raised StopIteration)
  | stopIteration     -- StopIteration
  | pdfValue          -- PDFValueError
  | pdfNotImplemented -- PDFNotImplementedError
  | psEOF             -- PSEOF (no stream object is produced)
  | outOfModel        -- a filter this model does not cover (CCITTFax)
  deriving DecidableEq, Repr

deriving instance DecidableEq for Except

def Err.name : Err → String
  | .binascii => "Error"
  | .valueError => "ValueError"
  | .indexError => "IndexError"
  | .runtimeError => "RuntimeError"
  | .stopIteration => "StopIteration"
  | .pdfValue => "PDFValueError"
  | .pdfNotImplemented => "PDFNotImplementedError"
  | .psEOF => "PSEOF"
  | .outOfModel => "out-of-model"

/-- Python's `\s` for bytes patterns: `[ \t\n\r\f\v]`. -/
def isWs (b : UInt8) : Bool :=
  b == 9 || b == 10 || b == 11 || b == 12 || b == 13 || b == 32

/-! ## ASCIIHexDecode -/

def hexv (b : UInt8) : Option Nat :=
  if 48 ≤ b.toNat ∧ b.toNat ≤ 57 then some (b.toNat - 48)
  else if 97 ≤ b.toNat ∧ b.toNat ≤ 102 then some (b.toNat - 87)
  else if 65 ≤ b.toNat ∧ b.toNat ≤ 70 then some (b.toNat - 55)
  else none

/-- `binascii.unhexlify`. -/
def unhexlify : Bytes → Except Err Bytes
  | [] => .ok []
  | [_] => .error .binascii
  | a :: b :: r =>
    match hexv a, hexv b with
    | some x, some y =>
      match unhexlify r with
      | .ok t => .ok (UInt8.ofNat (x * 16 + y) :: t)
      | .error e => .error e
    | _, _ => .error .binascii

def asciihexdecode (data : Bytes) : Except Err Bytes :=
  let d := data.filter (fun b => !isWs b)          -- bws_re.sub(b"", data)
  -- `AHX_EOD` (`b">"`), `ahxNeedsPad` (`idx % 2 == 1`), `AHX_PAD` (`b"0"`) are translated from ascii85.py
  let t := d.takeWhile (fun b => [b] != AHX_EOD)   -- data[:data.find(b">")]
  if t.length < d.length then
    unhexlify (if ahxNeedsPad t.length then t ++ AHX_PAD else t)
  else unhexlify d

/-! ## ASCII85Decode -/

/-- The optional `<` of `start_re`. -/
def dropLt : Bytes → Bytes
  | 60 :: t => t
  | l => l

/-- `start_re = ^\s*<?\s*~\s*` substituted by the empty string. -/
def stripStart (d : Bytes) : Bytes :=
  match (dropLt (d.dropWhile isWs)).dropWhile isWs with
  | 126 :: t => t.dropWhile isWs
  | _ => d

/-- `end_re = \s*~\s*>?\s*$` substituted by the empty string (leftmost match; it always extends
to the end of the data). -/
def stripEnd (d : Bytes) : Bytes :=
  match d.reverse.dropWhile isWs with
  | 126 :: t => (t.dropWhile isWs).reverse
  | 62 :: t =>
    match t.dropWhile isWs with
    | 126 :: t2 => (t2.dropWhile isWs).reverse
    | _ => d
  | _ => d

/-- `ignorechars=b' \t\n\r\v'` of `base64.a85decode`. -/
def isA85Ignore (b : UInt8) : Bool :=
  b == 32 || b == 9 || b == 10 || b == 13 || b == 11

def be32 (v : Nat) : Bytes :=
  [UInt8.ofNat (v / 16777216), UInt8.ofNat (v / 65536 % 256), UInt8.ofNat (v / 256 % 256), UInt8.ofNat (v % 256)]

def a85acc (curr : List Nat) : Nat := curr.foldl (fun acc x => 85 * acc + (x - 33)) 0

/-- The `for x in b + b'u' * 4` loop; returns the decoded bytes and the final `curr`. -/
def a85loop : List Nat → Bytes → Except Err (Bytes × List Nat)
  | curr, [] => .ok ([], curr)
  | curr, x :: rest =>
    if 33 ≤ x.toNat ∧ x.toNat ≤ 117 then
      let curr' := curr ++ [x.toNat]
      if curr'.length == 5 then
        let acc := a85acc curr'
        if acc ≥ 4294967296 then .error .valueError       -- struct.error -> 'Ascii85 overflow'
        else match a85loop [] rest with
          | .ok (out, c) => .ok (be32 acc ++ out, c)
          | .error e => .error e
      else a85loop curr' rest
    else if x == 122 then
      if !curr.isEmpty then .error .valueError             -- 'z inside Ascii85 5-tuple'
      else match a85loop [] rest with
        | .ok (out, c) => .ok ([0, 0, 0, 0] ++ out, c)
        | .error e => .error e
    else if isA85Ignore x then a85loop curr rest
    else .error .valueError                                -- 'Non-Ascii85 digit found'

def a85decode (b : Bytes) : Except Err Bytes :=
  -- `A85_PAD` (`b'u' * 4`) and `a85Padding` (`4 - len(curr)`) are translated from CPython's base64.py
  match a85loop [] (b ++ A85_PAD) with
  | .error e => .error e
  | .ok (res, curr) =>
    let padding := a85Padding curr.length
    .ok (if padding != 0 then res.take (res.length - padding) else res)

def ascii85decode (data : Bytes) : Except Err Bytes :=
  a85decode (stripEnd (stripStart data))

/-! ## RunLengthDecode -/

def rldecodeAux : Nat → Bytes → Except Err Bytes
  | 0, _ => .ok []
  | _ + 1, [] => .ok []                                     -- next(data_iter, 128)
  | fuel + 1, l :: rest =>
    -- the EOD byte, the two tests and the two counts are translated from runlength.py (`Gen.Filters`);
    -- `rl_translated` proves that the two tests exhaust the non-EOD bytes and `RL_EOF_DEFAULT = RL_EOD`
    if l.toNat = RL_EOD then .ok []
    else if rlIsLiteral l.toNat then
      let n := rlLiteralCount l.toNat
      if rest.length < n then .error .runtimeError          -- StopIteration inside the generator expression
      else match rldecodeAux fuel (rest.drop n) with
        | .ok r => .ok (rest.take n ++ r)
        | .error e => .error e
    else
      match rest with
      | [] => .error .stopIteration
      | b :: rest' =>
        match rldecodeAux fuel rest' with
        | .ok r => .ok (List.replicate (rlRepeatCount l.toNat) b ++ r)
        | .error e => .error e

def rldecode (data : Bytes) : Except Err Bytes := rldecodeAux (data.length + 1) data

/-! ## LZWDecode

`readbits`/`lzwRunB` follow `LZWDecoder.readbits`/`run` on the reader state `(buff, bpos, unread
bytes)`.  `lzwRun` is the same loop on the MSB-first bit sequence of the input (the view the
proofs use); `Lemmas/FiltersLzw.lean` proves `lzwRunB = lzwRun` on the unread bits. -/

def bitsOfByte (b : UInt8) : List Bool :=
  [b.toNat / 128 % 2 == 1, b.toNat / 64 % 2 == 1, b.toNat / 32 % 2 == 1, b.toNat / 16 % 2 == 1,
   b.toNat / 8 % 2 == 1, b.toNat / 4 % 2 == 1, b.toNat / 2 % 2 == 1, b.toNat % 2 == 1]

def bitsOf : Bytes → List Bool
  | [] => []
  | b :: bs => bitsOfByte b ++ bitsOf bs

def natOfBits (bs : List Bool) : Nat := bs.foldl (fun a b => 2 * a + (if b then 1 else 0)) 0

/-- `LZWDecoder` state: `init = false` is the empty initial table; `ext` are the entries from
index 258; `prev` is `prevbuf` (`none` = `None`). -/
structure LzwSt where
  nbits : Nat
  init : Bool
  ext : List Bytes
  prev : Option Bytes

-- round 6: the constants below (`LZW_*`) are translated from lzw.py (`Gen.Filters`); `Lemmas/FiltersLit.lean`
-- states the same functions with the literals written out
def lzwInit : LzwSt := { nbits := LZW_INIT_NBITS, init := false, ext := [], prev := none }

def tableLen (st : LzwSt) : Nat := if st.init then LZW_FIRST_FREE + st.ext.length else 0

/-- `self.table[code]`; `none` = IndexError. -/
def tableGet (st : LzwSt) (code : Nat) : Option Bytes :=
  if !st.init then none
  else if code < LZW_LITERALS then some [UInt8.ofNat code]
  else if code < LZW_FIRST_FREE then none
  else st.ext[code - LZW_FIRST_FREE]?

inductive FeedRes
  | ok (st : LzwSt) (x : Bytes)
  | corrupt
  | indexError

-- `nbitsAfter` (the code-width schedule at the end of `feed`) is translated: `Gen.Filters.nbitsAfter`.

def feedGrow (st : LzwSt) (entry x : Bytes) : FeedRes :=
  let ext' := st.ext ++ [entry]
  .ok { st with ext := ext', nbits := nbitsAfter st.nbits (LZW_FIRST_FREE + ext'.length), prev := some x } x

def feed (st : LzwSt) (code : Nat) : FeedRes :=
  if code == LZW_CLEAR then .ok { nbits := LZW_NBITS_RESET, init := true, ext := [], prev := some [] } []
  else if code == LZW_EOD then .ok st []
  else
    match st.prev with
    | none | some [] =>                                     -- `elif not self.prevbuf`
      match tableGet st code with
      | some x => .ok { st with prev := some x } x
      | none => .indexError
    | some p =>
      if code < tableLen st then
        match tableGet st code with
        | some x => feedGrow st (p ++ x.take 1) x
        | none => .indexError
      else if code == tableLen st then feedGrow st (p ++ p.take 1) (p ++ p.take 1)
      else .corrupt

def lzwRun : Nat → LzwSt → List Bool → Except Err Bytes
  | 0, _, _ => .ok []
  | fuel + 1, st, bits =>
    let h := bits.take st.nbits
    if h.length < st.nbits then .ok []                      -- PDFEOFError -> break
    else
      match feed st (natOfBits h) with
      | .corrupt => .ok []                                  -- CorruptDataError -> break
      | .indexError => .error .indexError
      | .ok st' x =>
        match lzwRun fuel st' (bits.drop st.nbits) with
        | .ok r => .ok (x ++ r)
        | .error e => .error e

/-- `LZWDecoder.readbits(bits)` on the state `(buff, bpos, unread bytes)`, accumulating into `v`
(`(v << k) | x` written as `v * 2^k + x`, `>>`/`&` as `/`/`%`); `none` = PDFEOFError. -/
def readbits : Bytes → Nat → Nat → Nat → Nat → Option (Nat × Nat × Nat × Bytes)
  | rest, buff, bpos, bits, v =>
    if bits ≤ 8 - bpos then
      some (v * 2 ^ bits + buff / 2 ^ (8 - bpos - bits) % 2 ^ bits, buff, bpos + bits, rest)
    else
      match rest with
      | [] => none
      | x :: rest' => readbits rest' x.toNat 0 (bits - (8 - bpos)) (v * 2 ^ (8 - bpos) + buff % 2 ^ (8 - bpos))

/-- `LZWDecoder.run` on the reader state. -/
def lzwRunB : Nat → LzwSt → Bytes → Nat → Nat → Except Err Bytes
  | 0, _, _, _, _ => .ok []
  | fuel + 1, st, rest, buff, bpos =>
    match readbits rest buff bpos st.nbits 0 with
    | none => .ok []                                        -- PDFEOFError -> break
    | some (code, buff', bpos', rest') =>
      match feed st code with
      | .corrupt => .ok []
      | .indexError => .error .indexError
      | .ok st' x =>
        match lzwRunB fuel st' rest' buff' bpos' with
        | .ok r => .ok (x ++ r)
        | .error e => .error e

/-- `lzwdecode`: `buff = 0`, `bpos = 8` initially. -/
def lzwdecode (data : Bytes) : Except Err Bytes :=
  lzwRunB (8 * data.length + 1) lzwInit data LZW_INIT_BUFF LZW_INIT_BPOS

/-! ## Predictors -/

/-- The predicted value of PNG filter type `ft` from `a = Raw(x-bpp)`, `b = Prior(x)`,
`c = Prior(x-bpp)`. -/
def pngPred (ft : Nat) (a b c : UInt8) : UInt8 :=
  if ft == 1 then a
  else if ft == 2 then b
  else if ft == 3 then UInt8.ofNat ((a.toNat + b.toNat) / 2)
  else if ft == 4 then UInt8.ofNat (Int.toNat (paeth_predictor a.toNat b.toNat c.toNat % 256))
  else 0

/-- The `for j, v in enumerate(line_encoded)` loops of filter types 1, 3, 4. -/
def pngRowLoop (ft bpp : Nat) (above : Bytes) : Bytes → Bytes → Except Err Bytes
  | raw, [] => .ok raw
  | raw, x :: xs =>
    let j := raw.length
    let a : UInt8 := if j < bpp then 0 else raw.getD (j - bpp) 0
    if ft == 1 then pngRowLoop ft bpp above (raw ++ [x + pngPred 1 a 0 0]) xs
    else if ft == 3 then
      match above[j]? with
      | none => .error .indexError
      | some b => pngRowLoop ft bpp above (raw ++ [x + pngPred 3 a b 0]) xs
    else
      let c? : Option UInt8 := if j < bpp then some 0 else above[j - bpp]?
      match c?, above[j]? with
      | some c, some b => pngRowLoop ft bpp above (raw ++ [x + pngPred 4 a b c]) xs
      | _, _ => .error .indexError

def pngRow (ft : UInt8) (bpp : Nat) (above enc : Bytes) : Except Err Bytes :=
  if ft == 0 then .ok enc
  else if ft == 2 then .ok (List.zipWith (fun u p => u + p) enc above)
  else if ft == 1 || ft == 3 || ft == 4 then pngRowLoop ft.toNat bpp above [] enc
  else .error .pdfValue

def pngRows (nbytes bpp : Nat) : Nat → Bytes → Bytes → Except Err Bytes
  | 0, _, _ => .ok []
  | _ + 1, _, [] => .ok []
  | fuel + 1, above, ft :: rest =>
    match pngRow ft bpp above (rest.take nbytes) with
    | .error e => .error e
    | .ok raw =>
      match pngRows nbytes bpp fuel raw (rest.drop nbytes) with
      | .ok r => .ok (raw ++ r)
      | .error e => .error e

-- `pngNbytes` (bytes per row) and `pngBpp` (bytes per pixel) are translated: `Gen.Filters.pngNbytes/pngBpp`.

/-- `utils.apply_png_predictor` (the `pred` argument is unused by the code). -/
def apply_png_predictor (colors columns bpc : Nat) (data : Bytes) : Except Err Bytes :=
  if !PNG_BPC.contains bpc then .error .pdfValue           -- `bitspercomponent not in [8, 1]` (translated list)
  else
    pngRows (pngNbytes colors columns bpc) (pngBpp colors bpc) data.length
      (List.replicate (pngNbytes colors columns bpc) 0) data

def tiffRow (bpp : Nat) : Bytes → Bytes → Bytes
  | raw, [] => raw
  | raw, x :: xs =>
    let i := raw.length
    tiffRow bpp (raw ++ [if i ≥ bpp then x + raw.getD (i - bpp) 0 else x]) xs

def tiffRows (nbytes bpp : Nat) : Nat → Bytes → Except Err Bytes
  | 0, _ => .ok []
  | _ + 1, [] => .ok []
  | fuel + 1, data =>
    if data.length < nbytes then .error .indexError         -- data[scanline_i + i] on a short last row
    else match tiffRows nbytes bpp fuel (data.drop nbytes) with
      | .ok r => .ok (tiffRow bpp [] (data.take nbytes) ++ r)
      | .error e => .error e

def apply_tiff_predictor (colors columns bpc : Nat) (data : Bytes) : Except Err Bytes :=
  -- `TIFF_BPC`, `tiffBpp`, `tiffNbytes` are translated from utils.py
  if bpc != TIFF_BPC then .error .pdfValue
  else if tiffNbytes columns (tiffBpp colors bpc) == 0 then .error .valueError     -- range() arg 3 must not be zero
  else tiffRows (tiffNbytes columns (tiffBpp colors bpc)) (tiffBpp colors bpc) data.length data

/-! ## PDFStream.get_filters / decode -/

structure Parms where
  predictor : Option Nat
  colors : Option Nat
  columns : Option Nat
  bpc : Option Nat

inductive FilterVal
  | absent
  | name (n : Bytes)
  | list (ns : List Bytes)

inductive ParmsVal
  | absent
  | dict (p : Parms)
  | list (ps : List (Option Parms))     -- `none` = the null object

def getFilters (f : FilterVal) (p : ParmsVal) : List (Bytes × Option Parms) :=
  let fs := match f with
    | .absent => []
    | .name n => [n]
    | .list ns => ns
  if fs.isEmpty then []
  else
    let ps := match p with
      | .absent => List.replicate fs.length none
      | .dict d => List.replicate fs.length (some d)
      | .list l => l
    List.zip fs ps

def applyPredictor (pr : Option Parms) (data : Bytes) : Except Err Bytes :=
  match pr with
  | none => .ok data
  | some p =>
    match p.predictor with
    | none => .ok data
    | some pred =>
      -- `predKind` (the `pred == 1 / == 2 / >= 10 / else` chain) and the defaults are translated from pdftypes.py
      match predKind pred with
      | 0 => .ok data
      | 1 => apply_tiff_predictor (p.colors.getD PRED_TIFF_DEFAULTS.1) (p.columns.getD PRED_TIFF_DEFAULTS.2.1)
               (p.bpc.getD PRED_TIFF_DEFAULTS.2.2) data
      | 2 => apply_png_predictor (p.colors.getD PRED_PNG_DEFAULTS.1) (p.columns.getD PRED_PNG_DEFAULTS.2.1)
               (p.bpc.getD PRED_PNG_DEFAULTS.2.2) data
      | _ => .error .pdfNotImplemented

/-- One iteration of the `for f, params in filters` loop.  `inflate` stands for the Flate step
(zlib, with the non-strict salvage path), supplied from outside. -/
def decodeStep (inflate : Bytes → Bytes) (f : Bytes × Option Parms) (data : Bytes) : Except Err Bytes :=
  let name := f.1
  let r : Except Err Bytes :=
    if LITERALS_FLATE_DECODE.contains name then .ok (inflate data)
    else if LITERALS_LZW_DECODE.contains name then lzwdecode data
    else if LITERALS_ASCII85_DECODE.contains name then ascii85decode data
    else if LITERALS_ASCIIHEX_DECODE.contains name then asciihexdecode data
    else if LITERALS_RUNLENGTH_DECODE.contains name then rldecode data
    else if LITERALS_CCITTFAX_DECODE.contains name then .error .outOfModel
    else if LITERALS_DCT_DECODE.contains name then .ok data
    else if LITERALS_JBIG2_DECODE.contains name || LITERALS_JPX_DECODE.contains name then .ok data
    else .error .pdfNotImplemented                          -- Crypt and unknown names
  match r with
  | .ok d => applyPredictor f.2 d
  | .error e => .error e

def decodeChain (inflate : Bytes → Bytes) : List (Bytes × Option Parms) → Bytes → Except Err Bytes
  | [], d => .ok d
  | f :: fs, d =>
    match decodeStep inflate f d with
    | .ok d' => decodeChain inflate fs d'
    | .error e => .error e

/-- The Python class of an error that is not a `PDFException`, with its relevant base classes
(`binascii.Error` is a `ValueError`); `[]` for `PDFException` subclasses. -/
def Err.pyClasses : Err → List String
  | .binascii => ["binascii.Error", "ValueError"]
  | .valueError => ["ValueError"]
  | .indexError => ["IndexError", "LookupError"]
  | .runtimeError => ["RuntimeError"]
  | .stopIteration => ["StopIteration"]
  | _ => []

/-- `except _DECODE_ERRORS` in `PDFStream.decode` (after `except PDFException: raise`): does the
handler catch this error?  `DECODE_ERRORS` is regenerated from pdftypes.py. -/
def Err.isDecodeError (e : Err) : Bool := e.pyClasses.any (fun c => DECODE_ERRORS.contains c)

/-- `PDFStream._decode` without encryption. -/
def streamDecodeRaw (inflate : Bytes → Bytes) (f : FilterVal) (p : ParmsVal) (raw : Bytes) : Except Err Bytes :=
  decodeChain inflate (getFilters f p) raw

/-- `PDFStream.decode` (non-strict): errors of the decoders/predictors that are not
`PDFException`s are logged and the stream decodes to the empty string. -/
def streamDecode (inflate : Bytes → Bytes) (f : FilterVal) (p : ParmsVal) (raw : Bytes) : Except Err Bytes :=
  match streamDecodeRaw inflate f p raw with
  | .ok d => .ok d
  | .error e => if e.isDecodeError then .ok [] else .error e

/-! ## Stream delimitation (`PDFParser.do_keyword`, `stream` branch, non-fallback) -/

/-- `PSBaseParser.nextline` from the current position; `none` = PSEOF. -/
def nextline : Bytes → Option Bytes
  | [] => none
  | c :: rest =>
    if c == 10 then some [10]
    else if c == 13 then
      match rest with
      | [] => none                                          -- CR at end of file: fillbuf raises PSEOF
      | d :: _ => if d == 10 then some [13, 10] else some [13]
    else
      match nextline rest with
      | some l => some (c :: l)
      | none => none

/-- The bytes that become `PDFStream.rawdata` when the keyword `stream` stands at `pos` and
`Length` resolves to `objlen`. -/
def streamPayload (file : Bytes) (pos objlen : Nat) : Except Err Bytes :=
  match nextline (file.drop pos) with
  | none => .error .psEOF
  | some line => .ok ((file.drop (pos + line.length)).take objlen)

/-! ## The whole `stream` branch (round 6): Length clamp, fallback mode, the `endstream` scan

`streamRead` follows `PDFParser.do_keyword` line by line: `objlen` is `Length` (0 when the key is
missing or the parser is in fallback mode) clamped to the file (`Gen.Filters.streamClamp`,
translated); `data` is that many bytes after the keyword line; the `while 1` loop then reads lines
until one contains `Gen.Filters.ENDSTREAM_MARK` (translated) or the input ends (PSEOF -> break);
the bytes it passes over are appended to `data` only in fallback mode, and in both modes the parser
is left (`self.seek(pos + objlen)`) just after them. -/

/-- `bytes.startswith` on lists: is `pat` a prefix of `s`? -/
def startsWith : Bytes → Bytes → Bool
  | [], _ => true
  | _ :: _, [] => false
  | p :: ps, c :: cs => p == c && startsWith ps cs

/-- `pat in s` / `s.index(pat)`: the index of the first occurrence. -/
def findSub (pat : Bytes) : Bytes → Option Nat
  | [] => if startsWith pat [] then some 0 else none
  | c :: rest =>
    if startsWith pat (c :: rest) then some 0
    else match findSub pat rest with
      | some i => some (i + 1)
      | none => none

/-- The `while 1` loop of the `stream` branch from the byte after the Length bytes: the bytes
passed over before the end marker (whole lines, then the part of the marker's line before it). -/
def scanEndstream : Nat → Bytes → Bytes
  | 0, _ => []
  | fuel + 1, s =>
    match nextline s with
    | none => []                                            -- PSEOF -> break
    | some line =>
      match findSub ENDSTREAM_MARK line with
      | some i => line.take i
      | none => line ++ scanEndstream fuel (s.drop line.length)

/-- `objlen` after the clamp; `len = none` is a missing `Length` key (non-strict). -/
def streamObjlen (fallback : Bool) (len : Option Int) (fileLen start : Nat) : Nat :=
  (streamClamp (if fallback then 0 else len.getD 0) (Int.ofNat fileLen) (Int.ofNat start)).toNat

/-- `PDFStream.rawdata` and the position the parser is left at, when the keyword `stream` stands
at `pos`. -/
def streamRead (fallback : Bool) (file : Bytes) (pos : Nat) (len : Option Int) : Except Err (Bytes × Nat) :=
  match nextline (file.drop pos) with
  | none => .error .psEOF
  | some line =>
    let start := pos + line.length
    let objlen := streamObjlen fallback len file.length start
    let data := (file.drop start).take objlen
    let skipped := scanEndstream (file.length + 1) (file.drop (start + objlen))
    .ok (if fallback then data ++ skipped else data, start + objlen + skipped.length)

/-! ## `int_value(dic["Length"])`: direct, indirect, missing (round 6) -/

/-- The value of the `Length` key as the parser sees it: an integer, an indirect reference, or any
other object (`null`, a name, a string, …). -/
inductive LenObj
  | int (n : Int)
  | ref (id : Nat)
  | other
  deriving DecidableEq, Repr

/-- `resolve1` on a `Length` value.  `objs` is what `doc.getobj` returns (first entry of an id wins;
no entry = `PDFObjectNotFound` -> `default` = None).  An id met a second time makes `resolve1`
return `default` too, so following a reference may forget its id: the table shrinks, the loop ends. -/
def resolveLen : Nat → List (Nat × LenObj) → LenObj → LenObj
  | 0, _, _ => .other
  | _ + 1, _, .int n => .int n
  | _ + 1, _, .other => .other
  | fuel + 1, objs, .ref id =>
    match objs.find? (fun p => p.1 == id) with
    | none => .other
    | some p => resolveLen fuel (objs.filter (fun q => q.1 != id)) p.2

/-- `int_value(dic["Length"])` (non-strict): `none` = the key is missing (KeyError, `objlen` stays 0
in `do_keyword`), a non-integer gives 0. -/
def lengthValue (objs : List (Nat × LenObj)) (v : Option LenObj) : Option Int :=
  match v with
  | none => none
  | some x =>
    match resolveLen (objs.length + 1) objs x with
    | .int n => some n
    | _ => some 0

/-! ## `PDFStream.get_any` and the keys of `get_filters` (round 6) -/

/-- `PDFStream.get_any(names)`: the value of the first of `names` that is a key of the stream
dictionary (`attrs`: a dictionary, keys unique); `none` = the default. -/
def getAny {α : Type} : List Bytes → List (Bytes × α) → Option α
  | [], _ => none
  | n :: ns, attrs =>
    match attrs.find? (fun p => p.1 == n) with
    | some p => some p.2
    | none => getAny ns attrs

/-- `PDFStream.get_filters` from the stream dictionary: `F` before `Filter`, `DP` before `DecodeParms`
before `FDecodeParms` (`Gen.Filters.FILTER_KEYS` / `PARMS_KEYS`, translated); the defaults `[]` / `{}`
behave like absent keys. -/
def streamFilters (fattrs : List (Bytes × FilterVal)) (pattrs : List (Bytes × ParmsVal)) :
    List (Bytes × Option Parms) :=
  getFilters ((getAny FILTER_KEYS fattrs).getD .absent) ((getAny PARMS_KEYS pattrs).getD .absent)

/-- `PDFStream.decode` from the stream dictionary (`get_filters` reads the keys). -/
def streamDecodeDict (inflate : Bytes → Bytes) (fattrs : List (Bytes × FilterVal)) (pattrs : List (Bytes × ParmsVal))
    (raw : Bytes) : Except Err Bytes :=
  streamDecode inflate ((getAny FILTER_KEYS fattrs).getD .absent) ((getAny PARMS_KEYS pattrs).getD .absent) raw

end PdfVerif.Filters
