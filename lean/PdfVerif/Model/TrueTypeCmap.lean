/-
Hand model of `pdffont.TrueTypeFont.__init__` (table directory) and
`TrueTypeFont.create_unicode_map` (cmap subtable formats 0, 2 and 4; Unicode platforms only), as repaired by
the fixes 30b3801 / 30ab8e1 / 68573a5.  The font file is a byte list; `fp.read(n)` past the end returns fewer
bytes, and `struct.unpack` on a short buffer raises `struct.error` (caught only in `__init__`).
-/
import PdfVerif.Model.CIDFont

namespace PdfVerif.TrueType
open PdfVerif PdfVerif.CIDFont

inductive TErr where
  | structError | assertionError | cmapNotFound | valueError
deriving DecidableEq, Repr

def TErr.name : TErr → String
  | .structError => "struct.error"
  | .assertionError => "AssertionError"
  | .cmapNotFound => "CMapNotFound"
  | .valueError => "ValueError"

/-- `fp.seek(pos); fp.read(n)` checked by `struct.unpack` for exactly `n` bytes. -/
def readExact (data : Bytes) (pos n : Nat) : Option Bytes :=
  let s := (data.drop pos).take n
  if s.length = n then some s else none

def u16 (data : Bytes) (pos : Nat) : Option Nat :=
  match readExact data pos 2 with
  | some [a, b] => some (be2 a b)
  | _ => none

def u32 (data : Bytes) (pos : Nat) : Option Nat :=
  match readExact data pos 4 with
  | some [a, b, c, d] => some (be2 a b * 65536 + be2 c d)
  | _ => none

/-- `n` consecutive big-endian 16-bit values starting at `pos`. -/
def u16s (data : Bytes) (pos : Nat) : Nat → Option (List Nat)
  | 0 => some []
  | n + 1 =>
    match u16 data pos, u16s data (pos + 2) n with
    | some v, some vs => some (v :: vs)
    | _, _ => none

/-- `TrueTypeFont.__init__`: (tag, offset, length) entries read until the data runs out
(`struct.error` is swallowed there); later entries override earlier ones with the same tag. -/
def readTables (data : Bytes) : List (Bytes × Nat × Nat) :=
  match u16 data 4, readExact data 4 8 with
  | some ntables, some _ =>
    let rec go : Nat → Nat → List (Bytes × Nat × Nat) → List (Bytes × Nat × Nat)
      | 0, _, acc => acc
      | k + 1, pos, acc =>
        match readExact data pos 4, u32 data (pos + 8), u32 data (pos + 12), readExact data pos 16 with
        | some tag, some off, some len, some _ => go k (pos + 16) ((tag, off, len) :: acc)
        | _, _, _, _ => acc
    go ntables 12 []
  | _, _ => []

/-- `char2gid[c] = g` keeping Python's dict order (position of the first insertion of `c`). -/
def dset : List (Nat × Nat) → Nat → Nat → List (Nat × Nat)
  | [], c, g => [(c, g)]
  | (c', g') :: rest, c, g => if c' = c then (c, g) :: rest else (c', g') :: dset rest c g

/-- format 0: `char2gid.update(enumerate(struct.unpack(">256B", fp.read(256))))`. -/
def format0 (data : Bytes) (pos : Nat) (m : List (Nat × Nat)) : Except TErr (List (Nat × Nat)) :=
  match readExact data pos 256 with
  | none => .error .structError
  | some bs => .ok ((bs.zipIdx).foldl (fun m (p : UInt8 × Nat) => dset m p.2 p.1.toNat) m)

/-- glyph ids read consecutively from `pos` for the characters `first, first+1, …` with `f` applied. -/
def glyphRun (data : Bytes) (f : Nat → Nat) : Nat → Nat → Nat → List (Nat × Nat) → Except TErr (List (Nat × Nat))
  | 0, _, _, m => .ok m
  | n + 1, pos, c, m =>
    match u16 data pos with
    | none => .error .structError
    | some b => glyphRun data f n (pos + 2) (c + 1) (dset m c (f b))

def deltaRun (delta : Nat) : Nat → Nat → List (Nat × Nat) → List (Nat × Nat)
  | 0, _, m => m
  | n + 1, c, m => deltaRun delta n (c + 1) (dset m c ((c + delta) % 65536))

/-- format 4, after the 6-byte subtable header at `pos`. -/
def format4 (data : Bytes) (pos : Nat) (m : List (Nat × Nat)) : Except TErr (List (Nat × Nat)) :=
  match u16 data pos, readExact data pos 8 with
  | some sc2, some _ =>
    let segcount := sc2 / 2
    let pEnds := pos + 8
    let pStarts := pEnds + 2 * segcount + 2
    let pDeltas := pStarts + 2 * segcount
    let pRanges := pDeltas + 2 * segcount
    match u16s data pEnds segcount, u16s data pStarts segcount, u16s data pDeltas segcount,
          u16s data pRanges segcount with
    | some ecs, some scs, some idds, some idrs =>
      let segs := (ecs.zip (scs.zip (idds.zip idrs))).zipIdx
      let rec go : List ((Nat × Nat × Nat × Nat) × Nat) → List (Nat × Nat) → Except TErr (List (Nat × Nat))
        | [], m => .ok m
        | ((ec, sc, idd, idr), seg) :: rest, m =>
          let n := ec + 1 - sc
          if idr ≠ 0 then
            match glyphRun data (fun b => if b ≠ 0 then (b + idd) % 65536 else 0) n (pRanges + 2 * seg + idr) sc m with
            | .ok m' => go rest m'
            | .error e => .error e
          else go rest (deltaRun idd n sc m)
      go segs m
    | _, _, _, _ => .error .structError
  | _, _ => .error .structError

/-- format 2, after the 6-byte subtable header at `pos`. -/
def format2 (data : Bytes) (pos : Nat) (m : List (Nat × Nat)) : Except TErr (List (Nat × Nat)) :=
  match u16s data pos 256 with
  | none => .error .structError
  | some keys =>
    let nhdrs := keys.foldl max 0 / 8 + 1
    -- `firstbytes[k // 8] = i` for i = 0..255 in order: the LAST i with that key wins, default 0
    let firstbyte (h : Nat) : Nat :=
      (keys.zipIdx.foldl (fun acc (p : Nat × Nat) => if p.1 / 8 = h then p.2 else acc) 0)
    let pHdr := pos + 512
    let rec go : Nat → Nat → List (Nat × Nat) → Except TErr (List (Nat × Nat))
      | 0, _, m => .ok m
      | k + 1, i, m =>
        let p := pHdr + 8 * i
        match u16 data p, u16 data (p + 2), u16 data (p + 4), u16 data (p + 6) with
        | some firstcode, some entcount, some delta, some off =>
          if entcount = 0 then go k (i + 1) m else
          let first := if i ≠ 0 then firstcode + firstbyte i * 256 else firstcode
          match glyphRun data (fun g => if g ≠ 0 then (g + delta) % 65536 else 0) entcount (p + 6 + off) first m with
          | .ok m' => go k (i + 1) m'
          | .error e => .error e
        | _, _, _, _ => .error .structError
    -- all headers are read (and checked) before any glyph array
    match u16s data pHdr (4 * nhdrs) with
    | none => .error .structError
    | some _ => go nhdrs 0 m

/-- `TrueTypeFont(name, fp).create_unicode_map().cid2unichr`. -/
def createUnicodeMap (data : Bytes) : Except TErr UMap :=
  match (readTables data).lookup [0x63, 0x6D, 0x61, 0x70] with      -- b"cmap"
  | none => .error .cmapNotFound
  | some (base, _) =>
    match u16 data base, u16 data (base + 2) with
    | some _, some nsub =>
      match u16s data (base + 4) (4 * nsub) with
      | none => .error .structError
      | some _ =>
        let rec subs : Nat → Nat → List (Nat × Nat) → Except TErr (List (Nat × Nat))
          | 0, _, m => .ok m
          | k + 1, i, m =>
            let p := base + 4 + 8 * i
            match u16 data p, u16 data (p + 2), u32 data (p + 4) with
            | some pid, some eid, some off =>
              if !(pid = 0 || (pid = 3 && (eid = 1 || eid = 10))) then subs k (i + 1) m else
              let sp := base + off
              match u16 data sp, readExact data sp 6 with
              | some fmt, some _ =>
                let r := if fmt = 0 then format0 data (sp + 6) m
                         else if fmt = 2 then format2 data (sp + 6) m
                         else if fmt = 4 then format4 data (sp + 6) m
                         else .error .assertionError
                match r with
                | .ok m' => subs k (i + 1) m'
                | .error e => .error e
              | _, _ => .error .structError
            | _, _, _ => .error .structError
        match subs nsub 0 [] with
        | .error e => .error e
        | .ok [] => .error .cmapNotFound
        | .ok c2g => .ok (c2g.foldl (fun um (p : Nat × Nat) => umapPut um (p.2 : Int) [p.1]) [])
    | _, _ => .error .structError

end PdfVerif.TrueType
