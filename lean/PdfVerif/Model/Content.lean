/-
C05 — syntax of content streams at token level, fonts (width tables), resources, form XObjects and
the observable glyph record.  Shared by the model of pdfminer (`Model/Interp.lean`) and by the
ISO 32000-1 text-model specification (`Spec/TextModel.lean`).  Import-free apart from the
regenerated `Gen/` files.
-/
import PdfVerif.Gen.Utils
import PdfVerif.Gen.Interp

namespace PdfVerif.Content
open PdfVerif

/-- Element of a `TJ` array. `other` = anything that is neither a number nor a string. -/
inductive Elem where
  | num (q : Rat)
  | str (codes : List Nat)
  | other
  deriving Repr, DecidableEq, Inhabited

/-- Operand objects a content stream can push. -/
inductive Obj where
  | num (q : Rat)
  | str (codes : List Nat)
  | name (s : String)
  | arr (es : List Elem)
  | null
  | bool (b : Bool)
  deriving Repr, DecidableEq, Inhabited

/-- The operators of the property, `other` = any other keyword (by its name). -/
inductive Op where
  | q | Q | cm | BT | ET
  | Tc | Tw | Tz | TL | Tf | Ts | Tr
  | Td | TD | Tm | Tstar
  | Tj | TJ | quote | dquote
  | g | G | rg | RG | k | K | sc | scn | SC | SCN | cs | CS
  | Do
  | other (name : String)
  deriving Repr, DecidableEq, Inhabited

/-- Suffix of the `do_…` method `PDFPageInterpreter.execute` dispatches to
(`*` → `_a`, `"` → `_w`, `'` → `_q`). -/
def Op.method : Op → String
  | .q => "q" | .Q => "Q" | .cm => "cm" | .BT => "BT" | .ET => "ET"
  | .Tc => "Tc" | .Tw => "Tw" | .Tz => "Tz" | .TL => "TL" | .Tf => "Tf" | .Ts => "Ts" | .Tr => "Tr"
  | .Td => "Td" | .TD => "TD" | .Tm => "Tm" | .Tstar => "T_a"
  | .Tj => "Tj" | .TJ => "TJ" | .quote => "_q" | .dquote => "_w"
  | .g => "g" | .G => "G" | .rg => "rg" | .RG => "RG" | .k => "k" | .K => "K"
  | .sc => "sc" | .scn => "scn" | .SC => "SC" | .SCN => "SCN" | .cs => "cs" | .CS => "CS"
  | .Do => "Do"
  | .other n => n

def Op.ofKeyword (s : String) : Op :=
  match s with
  | "q" => .q | "Q" => .Q | "cm" => .cm | "BT" => .BT | "ET" => .ET
  | "Tc" => .Tc | "Tw" => .Tw | "Tz" => .Tz | "TL" => .TL | "Tf" => .Tf | "Ts" => .Ts | "Tr" => .Tr
  | "Td" => .Td | "TD" => .TD | "Tm" => .Tm | "T*" => .Tstar
  | "Tj" => .Tj | "TJ" => .TJ | "'" => .quote | "\"" => .dquote
  | "g" => .g | "G" => .G | "rg" => .rg | "RG" => .RG | "k" => .k | "K" => .K
  | "sc" => .sc | "scn" => .scn | "SC" => .SC | "SCN" => .SCN | "cs" => .cs | "CS" => .CS
  | "Do" => .Do
  | n => .other (((n.replace "*" "_a").replace "\"" "_w").replace "'" "_q")

inductive Tok where
  | opnd (o : Obj)
  | op (o : Op)
  deriving Repr, DecidableEq, Inhabited

/-- One instruction: the operands written before an operator, and the operator. -/
structure Instr where
  op : Op
  args : List Obj
  deriving Repr, DecidableEq, Inhabited

def Instr.toks (i : Instr) : List Tok := i.args.map Tok.opnd ++ [Tok.op i.op]

/-- Group a token list into instructions; operands after the last operator are returned apart. -/
def parseInstrs : List Tok → List Obj → List Instr × List Obj
  | [], acc => ([], acc)
  | .opnd o :: rest, acc => parseInstrs rest (acc ++ [o])
  | .op o :: rest, acc =>
    let (is, tr) := parseInstrs rest []
    (⟨o, acc⟩ :: is, tr)

/-- A simple font as far as the text model needs it (C06 owns the rest). -/
structure Font where
  name : String
  first : Nat
  widths : List Rat
  missing : Rat
  descent : Rat
  deriving Repr, DecidableEq, Inhabited

/-- The font `PDFResourceManager.get_font(None, {})` builds for an undefined font name:
`/Widths` defaults to 256 zeros, no descriptor. -/
def Font.fallback : Font := ⟨"unknown", 0, List.replicate 256 0, 0, 0⟩

/-- Glyph-space width (units of 1/1000) of a character code: `Widths[code - FirstChar]`, else `MissingWidth`. -/
def Font.width (f : Font) (code : Nat) : Rat :=
  if code < f.first then f.missing else (f.widths[code - f.first]?).getD f.missing

structure Res where
  fonts : List (String × Nat)
  xobjs : List (String × Nat)
  deriving Repr, DecidableEq, Inhabited

structure Form where
  matrix : Option Matrix
  res : Option Res
  body : List Tok
  deriving Repr, Inhabited

structure Env where
  fonts : List Font
  forms : List Form
  deriving Repr, Inhabited

abbrev Color := List Rat

/-- What is observed of one `LTChar`. -/
structure Glyph where
  m : Matrix
  adv : Rat
  bbox : Rect
  size : Rat
  font : String
  col : Option Color
  deriving Repr, DecidableEq, Inhabited

def lookup (k : String) : List (String × Nat) → Option Nat
  | [] => none
  | (k', v) :: rest => if k = k' then some v else lookup k rest

end PdfVerif.Content
