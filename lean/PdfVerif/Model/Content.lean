/-
C05 — syntax of content streams at token level, fonts (width tables), resources, form XObjects and
the observable glyph record.  Shared by the model of pdfminer (`Model/Interp.lean`) and by the
ISO 32000-1 text-model specification (`Spec/TextModel.lean`).  Import-free apart from the
regenerated `Gen/` files.
-/
import PdfVerif.Gen.Utils
import PdfVerif.Gen.Interp

namespace PdfVerif.Content
open PdfVerif

/-- Element of a `TJ` array. `other` = anything that is neither a number nor a string. -/
inductive Elem where
  | num (q : Rat)
  | str (codes : List Nat)
  | other
  deriving Repr, DecidableEq, Inhabited

/-- Operand objects a content stream can push. -/
inductive Obj where
  | num (q : Rat)
  | str (codes : List Nat)
  | name (s : String)
  | arr (es : List Elem)
  | null
  | bool (b : Bool)
  deriving Repr, DecidableEq, Inhabited

/-- The operators of the property, `other` = any other keyword (by its name). -/
inductive Op where
  | q | Q | cm | BT | ET
  | Tc | Tw | Tz | TL | Tf | Ts | Tr
  | Td | TD | Tm | Tstar
  | Tj | TJ | quote | dquote
  | g | G | rg | RG | k | K | sc | scn | SC | SCN | cs | CS
  | Do
  | other (name : String)
  deriving Repr, DecidableEq, Inhabited

/-- Suffix of the `do_…` method `PDFPageInterpreter.execute` dispatches to
(`*` → `_a`, `"` → `_w`, `'` → `_q`). -/
def Op.method : Op → String
  | .q => "q" | .Q => "Q" | .cm => "cm" | .BT => "BT" | .ET => "ET"
  | .Tc => "Tc" | .Tw => "Tw" | .Tz => "Tz" | .TL => "TL" | .Tf => "Tf" | .Ts => "Ts" | .Tr => "Tr"
  | .Td => "Td" | .TD => "TD" | .Tm => "Tm" | .Tstar => "T_a"
  | .Tj => "Tj" | .TJ => "TJ" | .quote => "_q" | .dquote => "_w"
  | .g => "g" | .G => "G" | .rg => "rg" | .RG => "RG" | .k => "k" | .K => "K"
  | .sc => "sc" | .scn => "scn" | .SC => "SC" | .SCN => "SCN" | .cs => "cs" | .CS => "CS"
  | .Do => "Do"
  | .other n => n

def Op.ofKeyword (s : String) : Op :=
  match s with
  | "q" => .q | "Q" => .Q | "cm" => .cm | "BT" => .BT | "ET" => .ET
  | "Tc" => .Tc | "Tw" => .Tw | "Tz" => .Tz | "TL" => .TL | "Tf" => .Tf | "Ts" => .Ts | "Tr" => .Tr
  | "Td" => .Td | "TD" => .TD | "Tm" => .Tm | "T*" => .Tstar
  | "Tj" => .Tj | "TJ" => .TJ | "'" => .quote | "\"" => .dquote
  | "g" => .g | "G" => .G | "rg" => .rg | "RG" => .RG | "k" => .k | "K" => .K
  | "sc" => .sc | "scn" => .scn | "SC" => .SC | "SCN" => .SCN | "cs" => .cs | "CS" => .CS
  | "Do" => .Do
  | n => .other (((n.replace "*" "_a").replace "\"" "_w").replace "'" "_q")

inductive Tok where
  | opnd (o : Obj)
  | op (o : Op)
  deriving Repr, DecidableEq, Inhabited

/-- One instruction: the operands written before an operator, and the operator. -/
structure Instr where
  op : Op
  args : List Obj
  deriving Repr, DecidableEq, Inhabited

def Instr.toks (i : Instr) : List Tok := i.args.map Tok.opnd ++ [Tok.op i.op]

/-- Group a token list into instructions; operands after the last operator are returned apart. -/
def parseInstrs : List Tok → List Obj → List Instr × List Obj
  | [], acc => ([], acc)
  | .opnd o :: rest, acc => parseInstrs rest (acc ++ [o])
  | .op o :: rest, acc =>
    let (is, tr) := parseInstrs rest []
    (⟨o, acc⟩ :: is, tr)

/-- A font as far as the text model needs it (C06/C07 own the rest).
* simple fonts: one-byte codes, `widths[code - first]` else `missing`, glyph space = 1/1000;
* Type 3: `fm` is the FontMatrix (glyph space → text space), `descent` comes from the FontBBox;
* CID fonts (`multibyte`): two-byte codes (Identity CMap), no word spacing; with a vertical CMap
  (`vertical`) `widths` holds the vertical displacement `w1y` per CID (`missing` = DW2[1]) and
  `disps` the position vector `(vx, vy)` per CID (`dvy` = DW2[0] when the CID has none). -/
structure Font where
  name : String
  first : Nat
  widths : List Rat
  missing : Rat
  descent : Rat
  fm : Option Matrix
  multibyte : Bool
  vertical : Bool
  disps : List (Rat × Rat)
  dvy : Rat
  deriving Repr, DecidableEq, Inhabited

/-- The font `PDFResourceManager.get_font(None, {})` builds for an undefined font name:
`/Widths` defaults to 256 zeros, no descriptor. -/
def Font.fallback : Font := ⟨"unknown", 0, List.replicate 256 0, 0, 0, none, false, false, [], 880⟩

/-- Horizontal scale from glyph space to text space: 1/1000, except for a Type 3 font where a
glyph-space displacement `(w, 0)` becomes `(w·a, w·b)` under the FontMatrix `[a b c d e f]` (9.6.5). -/
def Font.hscale (f : Font) : Rat :=
  match f.fm with
  | none => 1 / 1000
  | some m => m.1

/-- Vertical scale: 1/1000, resp. the `d` entry of the FontMatrix. -/
def Font.vscale (f : Font) : Rat :=
  match f.fm with
  | none => 1 / 1000
  | some m => m.2.2.2.1

/-- Glyph-space width of a character code / CID: `Widths[code - FirstChar]`, else `MissingWidth`
(vertical CID fonts: `w1y` from W2, else DW2[1]). -/
def Font.width (f : Font) (code : Nat) : Rat :=
  if code < f.first then f.missing else (f.widths[code - f.first]?).getD f.missing

/-- `char_disp` of a vertical font: `(vx, vy)` from W2, else `(None, DW2[0])`. -/
def Font.disp (f : Font) (cid : Nat) : Option Rat × Rat :=
  if cid < f.first then (none, f.dvy)
  else match f.disps[cid - f.first]? with
    | some (vx, vy) => (some vx, vy)
    | none => (none, f.dvy)

/-- Two-byte codes, high byte first; a trailing odd byte is not a code. -/
def pairCodes : List Nat → List Nat
  | hi :: lo :: rest => (hi * 256 + lo) :: pairCodes rest
  | _ => []

/-- `font.decode(bytes)`: the character codes / CIDs of a string operand. -/
def Font.decode (f : Font) (bytes : List Nat) : List Nat :=
  if f.multibyte then pairCodes bytes else bytes

/-- The environment a content stream is interpreted in: its resource dictionary (fonts, XObjects,
colour spaces: name ↦ (family, number of components)) and the form XObjects that are being painted
right now (`active`, innermost first; indices into `Env.forms`). -/
structure Res where
  fonts : List (String × Nat)
  xobjs : List (String × Nat)
  cspaces : List (String × (String × Nat)) := []
  active : List Nat := []
  deriving Repr, DecidableEq, Inhabited

structure Form where
  matrix : Option Matrix
  res : Option Res
  body : List Tok
  deriving Repr, Inhabited

structure Env where
  fonts : List Font
  forms : List Form
  deriving Repr, Inhabited

abbrev Color := List Rat

/-- What is observed of one `LTChar`. -/
structure Glyph where
  m : Matrix
  adv : Rat
  bbox : Rect
  size : Rat
  upright : Bool
  font : String
  col : Option Color
  deriving Repr, DecidableEq, Inhabited

def lookupCS (k : String) : List (String × (String × Nat)) → Option (String × Nat)
  | [] => none
  | (k', v) :: rest => if k = k' then some v else lookupCS k rest

def lookup (k : String) : List (String × Nat) → Option Nat
  | [] => none
  | (k', v) :: rest => if k = k' then some v else lookup k rest

end PdfVerif.Content
