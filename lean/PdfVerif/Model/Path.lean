/-
C15 model: POSIX lexical path algebra (`os.path.join`, component split, `normpath`), the file names
`CMapDB._load_data` probes, and the output path of `ImageWriter._create_unique_image_name`.

Paths and names are byte strings (Python `str` encoded as UTF-8: no multi-byte sequence contains
`/` or NUL, so the algebra is unaffected).  A normalised path is (absolute?, components).
This is the behaviour AFTER the `fix:` commits (`cmapProbes`, `safeName`); the pinned behaviour is
kept as `cmapProbesPinned` / `imagePathPinned` for the proved counter-examples.
-/
import PdfVerif.Model.ImageName
import PdfVerif.Gen.PathGen

namespace PdfVerif.Path
open PdfVerif PdfVerif.ImageName PdfVerif.Gen.PathGen

def isAbs (p : Bytes) : Bool := p.head? == some 47

/-- `os.path.join(a, b)` (posixpath, two arguments). -/
def join (a b : Bytes) : Bytes :=
  if isAbs b then b
  else if a.isEmpty || a.getLast? == some 47 then a ++ b
  else a ++ 47 :: b

/-- Split at every `/` (like `p.split("/")`): always at least one component. -/
def splitSlash : Bytes → List Bytes
  | [] => [[]]
  | c :: cs =>
    if c = 47 then [] :: splitSlash cs
    else match splitSlash cs with
      | h :: t => (c :: h) :: t
      | [] => [[c]]

/-- One step of `normpath`: the stack holds the components so far, last one first. -/
def normStep (abs : Bool) (stack : List Bytes) (c : Bytes) : List Bytes :=
  if c = [] ∨ c = [46] then stack
  else if c = [46, 46] then
    match stack with
    | [] => if abs then [] else [c]
    | t :: rest => if t = [46, 46] then c :: stack else rest
  else c :: stack

/-- `os.path.normpath` as (absolute?, components) — `.`/empty components dropped, `..` resolved
    lexically, `..` at the root dropped. (POSIX's special case of exactly two leading slashes is
    not modelled.) -/
def norm (p : Bytes) : Bool × List Bytes :=
  (isAbs p, ((splitSlash p).foldl (normStep (isAbs p)) []).reverse)

/-- Text form of a normalised path (driver output). -/
def render (n : Bool × List Bytes) : Bytes :=
  let body := (n.2.map (fun c => 47 :: c)).flatten
  if n.1 then (if body.isEmpty then [47] else body) else (if body.isEmpty then [46] else body.drop 1)

/-! ### CMap resources -/

/-- `name.replace("\0", "")`. -/
def stripNul (name : Bytes) : Bytes := name.filter (· != 0)

/-- `"%s.pickle.gz" % name`. -/
def cmapFilename (name : Bytes) : Bytes :=
  cmapPrefix ++ stripNul name ++ cmapSuffix

/-- `"to-unicode-%s" % name`: the CMap name `get_unicode_map` asks `_load_data` for. -/
def unicodeMapName (cidcoding : Bytes) : Bytes := toUnicodePrefix ++ cidcoding ++ toUnicodeSuffix

/-- `os.path.basename(f) == f` on POSIX: no `/`. -/
def plainFile (f : Bytes) : Bool := !f.contains 47

/-- `os.path.basename(p)` (posixpath): what follows the last `/` (`p[p.rfind("/") + 1:]`). -/
def basename (p : Bytes) : Bytes := (splitSlash p).getLastD []

/-- The paths `_load_data(name)` hands to `os.path.exists` / `gzip.open`, in order
    (none when the guard rejects the name: `CMapNotFound`).  The guard's test is the TRANSLATED
    comparison `Gen.PathGen.cmapGuardRejects` (round 6); `Lemmas/Path.lean: cmapProbes_eq` shows it to
    be "the file name contains no separator". -/
def cmapProbes (dirs : List Bytes) (name : Bytes) : List Bytes :=
  if cmapGuardRejects basename (stripNul name) (cmapFilename name) then []
  else dirs.map (fun d => join d (cmapFilename name))

/-- The resource directories `_load_data` searches, in order: the directory named by the environment
    variable `CMAP_PATH` (`env = none`: not set → the regenerated default literal) and `<package>/cmap`. -/
def cmapDirs (env : Option Bytes) (pkgdir : Bytes) : List Bytes :=
  [env.getD cmapPathDefault, join pkgdir cmapPkgSubdir]

def cmapProbesPinned (dirs : List Bytes) (name : Bytes) : List Bytes :=
  dirs.map (fun d => join d (cmapFilename name))

/-! ### image output paths -/

/-- Path separators and NUL in a document-supplied image name become `_`. -/
def safeName (name : Bytes) : Bytes :=
  name.map (fun c => if imageReplacedChars.contains c then imageReplacement else c)

/-- (file name, path) of `_create_unique_image_name` for a directory listing `existing`. -/
def imagePath (outdir name ext : Bytes) (existing : List Bytes) : Option (Bytes × Bytes) :=
  (uniqueName existing (safeName name) ext).map (fun nm => (nm, join outdir nm))

/-- A history of exports into one directory: each request is (image name, extension); every file
    created joins the listing the next request sees.  (`_create_unique_image_name` called again and
    again by one or several `ImageWriter`s on the same `outdir`.) -/
def exportHistory (outdir : Bytes) : List (Bytes × Bytes) → List Bytes → List (Bytes × Bytes)
  | [], _ => []
  | (name, ext) :: rest, existing =>
    match imagePath outdir name ext existing with
    | some (nm, p) => (nm, p) :: exportHistory outdir rest (nm :: existing)
    | none => []

/-- Pinned: the raw name is joined onto the output directory (first candidate, nothing exists). -/
def imagePathPinned (outdir name ext : Bytes) : Bytes := join outdir (name ++ ext)

end PdfVerif.Path
