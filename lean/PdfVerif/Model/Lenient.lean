/-
C13 — executable model of pdfminer's *lenient* object access under damaged input.

  pdftypes.resolve1 / resolve_all / int_value … stream_value / uint_value
  casting.safe_int / safe_float / safe_rect_list
  pdfpage.PDFPage.create_pages.depth_first_search      (page-tree walk, visited set)
  pdfdocument.PDFDocument.read_xref_from               (Prev / XRefStm chain, visited set)
  pdffont.get_widths                                   (W array of a CID font, ill-typed input)

A document is an object graph `List (Nat × Obj)` (object number ↦ value, first entry wins);
`getobj` either finds the object or raises `PDFObjectNotFound`.  Every function returns
`Except Err _`; `Err.fuel` is the artificial "loop did not finish within its fuel" outcome and
`Err.internal _` stands for the Python errors that must never escape.  The property theorems
(Props/C13.lean) say that neither can happen.

Import-free apart from the Prelude and the regenerated tables (Gen/Lenient.lean).
-/
import PdfVerif.Model.Prelude
import PdfVerif.Gen.Lenient

namespace PdfVerif.Lenient
open PdfVerif

/-- PDF values as pdfminer holds them after parsing. -/
inductive Obj where
  | null
  | bool (b : Bool)
  | int (i : Int)
  | real (q : Rat)
  | str (s : Bytes)
  | name (s : String)
  | arr (xs : List Obj)
  | dict (kvs : List (String × Obj))
  | ref (n : Nat)
  | stream (kvs : List (String × Obj)) (data : Bytes)

instance : Inhabited Obj := ⟨Obj.null⟩

/-- Python errors that are *not* in the library's family. -/
inductive Internal where
  | typeError | valueError | keyError | indexError | attributeError | overflowError | recursionError
  deriving DecidableEq, Repr

inductive Err where
  | pdfTypeError | pdfValueError | pdfObjectNotFound | pdfSyntaxError | pdfNoValidXRef
  | internal (k : Internal)
  | fuel
  deriving DecidableEq, Repr

/-- Python class name of a modelled error (`none` for the artificial fuel outcome). -/
def Err.className : Err → Option String
  | .pdfTypeError => some "PDFTypeError"
  | .pdfValueError => some "PDFValueError"
  | .pdfObjectNotFound => some "PDFObjectNotFound"
  | .pdfSyntaxError => some "PDFSyntaxError"
  | .pdfNoValidXRef => some "PDFNoValidXRef"
  | .internal .typeError => some "TypeError"
  | .internal .valueError => some "ValueError"
  | .internal .keyError => some "KeyError"
  | .internal .indexError => some "IndexError"
  | .internal .attributeError => some "AttributeError"
  | .internal .overflowError => some "OverflowError"
  | .internal .recursionError => some "RecursionError"
  | .fuel => none

/-- `cls` is `root` or inherits from it according to the regenerated class table
(breadth-first over base classes, `fuel` levels deep). -/
def inheritsFrom (table : List (String × List String)) (root : String) : Nat → List String → Bool
  | 0, _ => false
  | fuel + 1, cs =>
    if cs.contains root then true
    else
      let next := cs.flatMap (fun c => (table.lookup c).getD [])
      if next.isEmpty then false else inheritsFrom table root fuel next

/-- Membership in the documented exception family: a subclass of `psexceptions.PSException`
in the class table regenerated from the sources. -/
def isFamilyClass (c : String) : Bool :=
  inheritsFrom Gen.Lenient.excBases "PSException" 8 [c]

def Err.isFamily (e : Err) : Bool :=
  match e.className with
  | some c => isFamilyClass c
  | none => false

/-- The outcome classes the property allows: a value, or an error of the family. -/
def Allowed {α : Type} : Except Err α → Prop
  | .ok _ => True
  | .error e => e.isFamily = true

abbrev Graph := List (Nat × Obj)

def getobj (g : Graph) (n : Nat) : Except Err Obj :=
  match g.lookup n with
  | some o => .ok o
  | none => .error .pdfObjectNotFound

/-! ### resolve1 (with the cycle guard of the fix) -/

/-- `while isinstance(x, PDFObjRef): …` — one unit of fuel per loop iteration.
`seen` is the guard's set.  `PDFObjRef.resolve` turns `PDFObjectNotFound` into the default `None`.
Without the guard (flag regenerated from the source) membership is never tested. -/
def resolve1Fuel (strict : Bool) (g : Graph) : Nat → List Nat → Obj → Except Err Obj
  | 0, _, .ref _ => .error .fuel
  | fuel + 1, seen, .ref n =>
    if Gen.Lenient.resolve1Guard && seen.contains n then
      (if strict then .error .pdfValueError else .ok .null)
    else
      match g.lookup n with
      | none => .ok .null
      | some y => resolve1Fuel strict g fuel (n :: seen) y
  | _, _, x => .ok x

/-- fuel = number of objects + 1 (proved sufficient: `C13_fuel_resolve1`). -/
def resolve1 (strict : Bool) (g : Graph) (x : Obj) : Except Err Obj :=
  resolve1Fuel strict g (g.length + 1) [] x

/-- Number of `getobj` calls (`PDFObjRef.resolve`) the loop of `resolve1` makes: one per reference followed
(the call that ends in PDFObjectNotFound included), none for a reference the guard rejects.  Same recursion as
`resolve1Fuel`; measured on the implementation by the harness (`calls` op). -/
def resolve1CallsFuel (g : Graph) : Nat → List Nat → Obj → Nat
  | fuel + 1, seen, .ref n =>
    if Gen.Lenient.resolve1Guard && seen.contains n then 0
    else
      match g.lookup n with
      | none => 1
      | some y => 1 + resolve1CallsFuel g fuel (n :: seen) y
  | _, _, _ => 0

def resolve1Calls (g : Graph) (x : Obj) : Nat := resolve1CallsFuel g (g.length + 1) [] x

/-- The distinct object numbers of a graph. -/
def objids (g : Graph) : List Nat := (g.map Prod.fst).eraseDups

/-! ### typed accessors -/

def intValue (strict : Bool) (g : Graph) (x : Obj) : Except Err Obj := do
  match ← resolve1 strict g x with
  | .int i => pure (.int i)
  | .bool b => pure (.bool b)          -- Python: bool is a subclass of int
  | _ => if strict then throw .pdfTypeError else pure (.int 0)

def floatValue (strict : Bool) (g : Graph) (x : Obj) : Except Err Obj := do
  match ← resolve1 strict g x with
  | .real q => pure (.real q)
  | _ => if strict then throw .pdfTypeError else pure (.real 0)

def numValue (strict : Bool) (g : Graph) (x : Obj) : Except Err Obj := do
  match ← resolve1 strict g x with
  | .int i => pure (.int i)
  | .bool b => pure (.bool b)
  | .real q => pure (.real q)
  | _ => if strict then throw .pdfTypeError else pure (.int 0)

def strValue (strict : Bool) (g : Graph) (x : Obj) : Except Err Obj := do
  match ← resolve1 strict g x with
  | .str s => pure (.str s)
  | _ => if strict then throw .pdfTypeError else pure (.str [])

def listValue (strict : Bool) (g : Graph) (x : Obj) : Except Err (List Obj) := do
  match ← resolve1 strict g x with
  | .arr xs => pure xs
  | _ => if strict then throw .pdfTypeError else pure []

def dictValue (strict : Bool) (g : Graph) (x : Obj) : Except Err (List (String × Obj)) := do
  match ← resolve1 strict g x with
  | .dict kvs => pure kvs
  | _ => if strict then throw .pdfTypeError else pure []

def streamValue (strict : Bool) (g : Graph) (x : Obj) : Except Err Obj := do
  match ← resolve1 strict g x with
  | .stream kvs d => pure (.stream kvs d)
  | _ => if strict then throw .pdfTypeError else pure (.stream [] [])

def intOf : Obj → Int
  | .int i => i
  | .bool true => 1
  | _ => 0

/-- `uint_value(x, n_bits)` -/
def uintValue (strict : Bool) (g : Graph) (x : Obj) (nbits : Nat) : Except Err Int := do
  let xi := intOf (← intValue strict g x)
  pure (if xi > 0 then xi else xi + (2 : Int) ^ nbits)

/-! ### casting.safe_* -/

/-- Outcome of Python's `int(o)` / `float(o)` on a PDF value: a number or the builtin error raised.
`parse` stands for Python's parsing of a byte string (`int(b"12")`, `float(b"1.5")`): `none` = ValueError. -/
def pyInt' (parse : Bytes → Option Int) : Obj → Except Internal Int
  | .int i => .ok i
  | .bool b => .ok (if b then 1 else 0)
  | .real q => .ok (pyInt q)
  | .str s => match parse s with
    | some i => .ok i
    | none => .error .valueError
  | _ => .error .typeError

def pyFloat' (parse : Bytes → Option Rat) : Obj → Except Internal Rat
  | .int i => .ok (i : Rat)
  | .bool b => .ok (if b then 1 else 0)
  | .real q => .ok q
  | .str s => match parse s with
    | some q => .ok q
    | none => .error .valueError
  | _ => .error .typeError

def Internal.pyName : Internal → String
  | .typeError => "TypeError" | .valueError => "ValueError" | .keyError => "KeyError"
  | .indexError => "IndexError" | .attributeError => "AttributeError"
  | .overflowError => "OverflowError" | .recursionError => "RecursionError"

/-- `try: return conv(o)  except <caught>: return None` with the caught list regenerated from casting.py. -/
def safeConv {α : Type} (caught : List String) (r : Except Internal α) : Except Err (Option α) :=
  match r with
  | .ok v => .ok (some v)
  | .error k => if caught.contains k.pyName then .ok none else .error (.internal k)

def safeInt (parse : Bytes → Option Int) (o : Obj) : Except Err (Option Int) :=
  safeConv Gen.Lenient.safeIntCatch (pyInt' parse o)

def safeFloat (parse : Bytes → Option Rat) (o : Obj) : Except Err (Option Rat) :=
  safeConv Gen.Lenient.safeFloatCatch (pyFloat' parse o)

/-- `list(itertools.islice(value, 4))`: arrays, strings (bytes iterate as ints) and dictionaries (keys,
as names) are iterable; a PDFStream is "iterable" through its `__getitem__`, which raises KeyError on 0;
everything else raises TypeError. -/
def pyIter4 : Obj → Except Internal (List Obj)
  | .arr xs => .ok (xs.take 4)
  | .str s => .ok ((s.take 4).map (fun b => Obj.int b.toNat))
  | .dict kvs => .ok ((kvs.take 4).map (fun kv => Obj.name kv.1))
  | .stream _ _ => .error .keyError     -- PDFStream defines __getitem__: iteration calls attrs[0]
  | _ => .error .typeError

/-- `safe_rect_list(value)` (applied to an already resolved value, as `PDFFont._parse_bbox` does). -/
def safeRectList (parse : Bytes → Option Rat) (o : Obj) : Except Err (Option (List Rat)) := do
  match ← safeConv Gen.Lenient.safeRectListCatch (pyIter4 o) with
  | none => pure none
  | some vs =>
    if vs.length ≠ 4 then pure none
    else
      let fs ← vs.mapM (safeFloat parse)
      if fs.all Option.isSome then pure (some (fs.filterMap id)) else pure none

/-! ### resolve_all (with the path guard of the fix) -/

mutual
/-- `fuel` bounds the recursion DEPTH (Python stack frames), not the total work. -/
def resolveAllFuel (strict : Bool) (g : Graph) : Nat → List Nat → Obj → Except Err Obj
  | 0, _, _ => .error .fuel
  | fuel + 1, path, .ref n =>
    if Gen.Lenient.resolveAllGuard && path.contains n then
      (if strict then .error .pdfValueError else .ok .null)
    else
      match g.lookup n with
      | none => .ok .null
      | some y => resolveAllFuel strict g fuel (n :: path) y
  | fuel + 1, path, .arr xs => do
    let ys ← resolveAllList strict g fuel path xs
    pure (.arr ys)
  | fuel + 1, path, .dict kvs => do
    let ys ← resolveAllKvs strict g fuel path kvs
    pure (.dict ys)
  | _ + 1, _, x => .ok x

def resolveAllList (strict : Bool) (g : Graph) : Nat → List Nat → List Obj → Except Err (List Obj)
  | _, _, [] => .ok []
  | fuel, path, x :: xs => do
    let y ← resolveAllFuel strict g fuel path x
    let ys ← resolveAllList strict g fuel path xs
    pure (y :: ys)

def resolveAllKvs (strict : Bool) (g : Graph) : Nat → List Nat → List (String × Obj) → Except Err (List (String × Obj))
  | _, _, [] => .ok []
  | fuel, path, (k, x) :: xs => do
    let y ← resolveAllFuel strict g fuel path x
    let ys ← resolveAllKvs strict g fuel path xs
    pure ((k, y) :: ys)
end

/-! ### nesting depth (for the depth bound of resolve_all) -/

mutual
def Obj.depth : Obj → Nat
  | .arr xs => depthList xs + 1
  | .dict kvs => depthKvs kvs + 1
  | _ => 0
def depthList : List Obj → Nat
  | [] => 0
  | x :: xs => max x.depth (depthList xs)
def depthKvs : List (String × Obj) → Nat
  | [] => 0
  | (_, x) :: xs => max x.depth (depthKvs xs)
end

def graphDepth : Graph → Nat
  | [] => 0
  | (_, o) :: g => max o.depth (graphDepth g)

/-- Depth fuel of resolve_all: every object of the graph can be entered at most once on a path, and inside
an object the recursion descends through its nesting. -/
def resolveAllBudget (g : Graph) (x : Obj) : Nat :=
  (g.length + 1) * (graphDepth g + 2) + x.depth + 2

def resolveAll (strict : Bool) (g : Graph) (x : Obj) : Except Err Obj :=
  resolveAllFuel strict g (resolveAllBudget g x) [] x

/-! ### getobj calls of resolve_all (round 6)

Same recursion as `resolveAllFuel`; counts the `PDFObjRef.resolve` calls.  The guard cuts cycles by PATH, so an
object shared along several paths is resolved once per path: the count is NOT bounded by the number of objects
(`Props/C13.lean`, `C13_resolve_all_calls_cex`). -/

mutual
def resolveAllCallsFuel (g : Graph) : Nat → List Nat → Obj → Nat
  | 0, _, _ => 0
  | fuel + 1, path, .ref n =>
    if Gen.Lenient.resolveAllGuard && path.contains n then 0
    else
      match g.lookup n with
      | none => 1
      | some y => 1 + resolveAllCallsFuel g fuel (n :: path) y
  | fuel + 1, path, .arr xs => resolveAllCallsList g fuel path xs
  | fuel + 1, path, .dict kvs => resolveAllCallsKvs g fuel path kvs
  | _ + 1, _, _ => 0

def resolveAllCallsList (g : Graph) : Nat → List Nat → List Obj → Nat
  | _, _, [] => 0
  | fuel, path, x :: xs => resolveAllCallsFuel g fuel path x + resolveAllCallsList g fuel path xs

def resolveAllCallsKvs (g : Graph) : Nat → List Nat → List (String × Obj) → Nat
  | _, _, [] => 0
  | fuel, path, (_, x) :: xs => resolveAllCallsFuel g fuel path x + resolveAllCallsKvs g fuel path xs
end

def resolveAllCalls (g : Graph) (x : Obj) : Nat := resolveAllCallsFuel g (resolveAllBudget g x) [] x

/-- `k: [k+1 0 R  k+1 0 R]` for k = m+1 … m+n (object m+n+1 is missing): every object is shared by two paths. -/
def diamond : Nat → Nat → Graph
  | 0, _ => []
  | n + 1, m => (m + 1, .arr [.ref (m + 2), .ref (m + 2)]) :: diamond n (m + 1)

/-! ### page-tree walk -/

def isName (o : Option Obj) (s : String) : Bool :=
  match o with
  | some (.name n) => n == s
  | _ => false

/-- `dict.get(k)` where a null value counts as absent (pdfminer drops null entries while parsing). -/
def dget (kvs : List (String × Obj)) (k : String) : Option Obj :=
  match kvs.lookup k with
  | some .null => none
  | r => r

/-- `for k, v in parent.items(): if k in INHERITABLE_ATTRS and k not in props: props[k] = v` -/
def inherit (parent props : List (String × Obj)) : List (String × Obj) :=
  props ++ parent.filter (fun kv =>
    Gen.Lenient.inheritableAttrs.contains kv.1 && (props.lookup kv.1).isNone)

structure PageNode where
  objid : Option Nat
  props : List (String × Obj)

/-- Object id and (resolved) dictionary of a node of the walk:
`isinstance(obj, int)` → `getobj(obj)` (bool is an int in Python); otherwise `getattr(obj, "objid", None)`. -/
def nodeOf (strict : Bool) (g : Graph) (obj : Obj) : Except Err (Option Nat × List (String × Obj)) :=
  let viaGetobj (n : Nat) : Except Err (Option Nat × List (String × Obj)) :=
    match getobj g n with
    | .error e => .error e
    | .ok o =>
      match dictValue strict g o with
      | .error e => .error e
      | .ok d => .ok (some n, d)
  match obj with
  | .int i => if i < 0 then .error .pdfObjectNotFound else viaGetobj i.toNat
  | .bool b => viaGetobj (if b then 1 else 0)
  | .ref n =>
    match dictValue strict g obj with
    | .error e => .error e
    | .ok d => .ok (some n, d)
  | _ =>
    match dictValue strict g obj with
    | .error e => .error e
    | .ok d => .ok (none, d)

/-- `object_type`: `/Type`, or `/type` when that is missing and not STRICT. -/
def nodeType (strict : Bool) (props : List (String × Obj)) : Option Obj :=
  match dget props "Type" with
  | some t => some t
  | none => if strict then none else dget props "type"

mutual
/-- `depth_first_search(obj, parent, visited)`; returns the pages in order and the visited set.
`fuel` bounds the recursion depth.  A `/Pages` node that is not an indirect object is not descended
into (it cannot be tracked in `visited`). -/
def dfsFuel (strict : Bool) (g : Graph) : Nat → Obj → List (String × Obj) → List Nat →
    Except Err (List PageNode × List Nat)
  | 0, _, _, _ => .error .fuel
  | fuel + 1, obj, parent, visited =>
    match nodeOf strict g obj with
    | .error e => .error e
    | .ok (none, d) =>
      let props := inherit parent d
      if isName (nodeType strict props) "Pages" && (props.lookup "Kids").isSome then .ok ([], visited)
      else if isName (nodeType strict props) "Page" then .ok ([⟨none, props⟩], visited)
      else .ok ([], visited)
    | .ok (some n, d) =>
      if Gen.Lenient.pageTreeGuard && visited.contains n then .ok ([], visited)
      else
        let props := inherit parent d
        if isName (nodeType strict props) "Pages" && (props.lookup "Kids").isSome then
          match listValue strict g ((props.lookup "Kids").getD .null) with
          | .error e => .error e
          | .ok kids => dfsListFuel strict g fuel kids props (n :: visited)
        else if isName (nodeType strict props) "Page" then .ok ([⟨some n, props⟩], n :: visited)
        else .ok ([], n :: visited)

def dfsListFuel (strict : Bool) (g : Graph) : Nat → List Obj → List (String × Obj) → List Nat →
    Except Err (List PageNode × List Nat)
  | _, [], _, visited => .ok ([], visited)
  | fuel, c :: cs, parent, visited =>
    match dfsFuel strict g fuel c parent visited with
    | .error e => .error e
    | .ok (p1, v1) =>
      match dfsListFuel strict g fuel cs parent v1 with
      | .error e => .error e
      | .ok (p2, v2) => .ok (p1 ++ p2, v2)
end

/-- Depth fuel of the page-tree walk: only indirect nodes are descended into, each at most once. -/
def pageTreeBudget (g : Graph) : Nat := g.length + 2

/-- `create_pages`: the walk starts at `catalog["Pages"]` with the catalog as parent. -/
def pageTree (strict : Bool) (g : Graph) (catalog : List (String × Obj)) : Except Err (List PageNode) :=
  match catalog.lookup "Pages" with
  | none => .ok []
  | some root => do
    let (pages, _) ← dfsFuel strict g (pageTreeBudget g) root catalog []
    pure pages

/-! ### cross-reference chain (Prev / XRefStm) -/

/-- What `read_xref_from` finds at a byte position: nothing parseable (`none` in the table = PDFNoValidXRef),
or a section whose trailer may carry `XRefStm` and `Prev` entries (arbitrary values: `int_value` is applied). -/
structure XrefSection where
  xrefstm : Option Obj
  prev : Option Obj

abbrev XrefTable := List (Int × XrefSection)

/-- Follow one trailer entry (`XRefStm` or `Prev`): absent → nothing; else `int_value` and recurse. -/
def followRef (strict : Bool) (g : Graph) (next : Int → List Int → Except Err (List Int × List Int))
    (v : Option Obj) (visited : List Int) : Except Err (List Int × List Int) :=
  match v with
  | none => .ok ([], visited)
  | some o =>
    match intValue strict g o with
    | .error e => .error e
    | .ok i => next (intOf i) visited

/-- Returns the positions loaded, in order, and the visited set.  A negative position is rejected with
PDFNoValidXRef (in the pinned code `seek` raised ValueError there; fixed in the repo).
`fuel` bounds the recursion depth. -/
def readXrefFuel (strict : Bool) (g : Graph) (t : XrefTable) : Nat → Int → List Int →
    Except Err (List Int × List Int)
  | 0, _, _ => .error .fuel
  | fuel + 1, pos, visited =>
    if Gen.Lenient.xrefChainGuard && visited.contains pos then .ok ([], visited)
    else if pos < 0 then .error .pdfNoValidXRef
    else
      match t.lookup pos with
      | none => .error .pdfNoValidXRef
      | some sec =>
        match followRef strict g (readXrefFuel strict g t fuel) sec.xrefstm (pos :: visited) with
        | .error e => .error e
        | .ok (l1, v1) =>
          match followRef strict g (readXrefFuel strict g t fuel) sec.prev v1 with
          | .error e => .error e
          | .ok (l2, v2) => .ok (pos :: l1 ++ l2, v2)

def readXref (strict : Bool) (g : Graph) (t : XrefTable) (start : Int) : Except Err (List Int) := do
  let (l, _) ← readXrefFuel strict g t (t.length + 1) start []
  pure l

/-! ### get_widths on ill-typed W arrays -/

/-- One entry of the result: `c [w1 w2 …]` contributes `(c, ws)`, `c1 c2 w` contributes a range.
The Python code materialises one dictionary entry per code, i.e. `rangeWork` assignments. -/
inductive WEntry where
  | run (start : Obj) (ws : List Obj)
  | range (c1 c2 : Int) (w : Obj)

def isNumber : Obj → Bool
  | .int _ | .bool _ | .real _ => true
  | _ => false

def isInt : Obj → Bool
  | .int _ | .bool _ => true
  | _ => false

/-- One iteration of the loop of `get_widths` on the (resolved) element `v` with the pending numbers `r`
(at most 2 between iterations): the entry produced, if any, and the new pending list.  Ranges are clamped
to the CID range `0 .. MAX_CID` (constant regenerated from pdffont.py), as the repaired code does. -/
def widthStep (v : Obj) (r : List Obj) : Option WEntry × List Obj :=
  match v with
  | .arr ws =>
    match r.getLast? with
    | some c => (some (.run c ws), [])
    | none => (none, r)
  | _ =>
    if isNumber v then
      match r ++ [v] with
      | [c1, c2, w] =>
        if isInt c1 && isInt c2 then
          (some (.range (max (intOf c1) 0) (min (intOf c2) Gen.Lenient.maxCid) w), [])
        else (none, [])
      | r' => (none, r')
    else (none, r)

/-- The loop of `get_widths`. -/
def getWidthsLoop (strict : Bool) (g : Graph) : List Obj → List Obj → Except Err (List WEntry)
  | [], _ => .ok []
  | v :: rest, r =>
    match resolve1 strict g v with
    | .error e => .error e
    | .ok v' =>
      match widthStep v' r with
      | (some e, r') =>
        match getWidthsLoop strict g rest r' with
        | .error e' => .error e'
        | .ok tl => .ok (e :: tl)
      | (none, r') => getWidthsLoop strict g rest r'

def getWidths (strict : Bool) (g : Graph) (seq : List Obj) : Except Err (List WEntry) :=
  getWidthsLoop strict g seq []

/-- Total length of the `c [w1 w2 …]` arrays of the result (they are values of the document). -/
def runTotal : List WEntry → Nat
  | [] => 0
  | .run _ ws :: tl => ws.length + runTotal tl
  | .range _ _ _ :: tl => runTotal tl

/-- Number of dictionary assignments the Python loop performs for the result. -/
def widthsWork : List WEntry → Nat
  | [] => 0
  | .run _ ws :: tl => ws.length + widthsWork tl
  | .range c1 c2 _ :: tl => (c2 + 1 - c1).toNat + widthsWork tl

end PdfVerif.Lenient
