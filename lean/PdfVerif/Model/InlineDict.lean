/-
Model of the glue around inline images (pdfminer/pdfinterp.py, pdfminer/layout.py):

* `PDFContentParser.do_keyword` for `ID`: the operands collected since `BI` are chopped into
  key/value pairs (odd count: PSTypeError, swallowed — the image is dropped), the end marker is
  chosen from `/F` (`~>` for ASCII85), the size of unfiltered data is computed by
  `inline_image_size` (`image_data_size` and the colour-space table are REGENERATED, Gen/ImageGen),
  the data is scanned (Model/Inline.lean) and a stream object + `EI` are pushed;
* `PDFPageInterpreter.do_EI`: the image is rendered iff W|Width and H|Height are present;
* `LTImage.__init__`: srcsize, bits (default 1), colorspace (always a list), imagemask;
* the view `ImageWriter.export_image` takes of an LTImage (`toImgIn`).
-/
import PdfVerif.Model.Image
import PdfVerif.Model.Inline

namespace PdfVerif.InlineDict
open PdfVerif PdfVerif.Gen.ImageGen PdfVerif.Inline

/-- Operand values as far as this glue code looks into them. -/
inductive Val where
  | int (n : Int)
  | bool (b : Bool)
  | name (s : Bytes)
  | arr (xs : List Val)
  | str                   -- a (non-empty) string: opaque, but subscriptable like a list
  | other                 -- reals, dictionaries: opaque
  deriving Repr, Inhabited

abbrev Dict := List (Bytes × Val)

inductive IErr where
  | oddOperands      -- PSTypeError, swallowed by do_keyword: nothing is pushed
  | keyNotName       -- outside the model (literal_name(str(x)) of a non-name key)
  | eof              -- PSEOF while scanning
  deriving Repr, DecidableEq

def IErr.toString : IErr → String
  | .oddOperands => "dropped" | .keyNotName => "unmodelled" | .eof => "EOF"

/-- Python dict assignment: overwrite in place, or append. -/
def dictSet (d : Dict) (k : Bytes) (v : Val) : Dict :=
  if d.any (fun p => p.1 == k) then d.map (fun p => if p.1 == k then (k, v) else p) else d ++ [(k, v)]

/-- `{literal_name(k): resolve1(v) for (k, v) in choplist(2, objs)}`. -/
def assembleFrom : List Val → Dict → Except IErr Dict
  | [], d => .ok d
  | [_], _ => .error .oddOperands
  | .name k :: v :: rest, d => assembleFrom rest (dictSet d k v)
  | _ :: _ :: _, _ => .error .keyNotName

def assemble (objs : List Val) : Except IErr Dict :=
  if objs.length % 2 != 0 then .error .oddOperands else assembleFrom objs []

def lookup (d : Dict) (k : Bytes) : Option Val := (d.find? (fun p => p.1 == k)).map (·.2)

/-- `get_any(names)`: the value of the first name that is present. -/
def getAny (d : Dict) : List Bytes → Option Val
  | [] => none
  | n :: ns => match lookup d n with
    | some v => some v
    | none => getAny d ns

def kW : Bytes := [87]
def kWidth : Bytes := [87, 105, 100, 116, 104]
def kH : Bytes := [72]
def kHeight : Bytes := [72, 101, 105, 103, 104, 116]
def kBPC : Bytes := [66, 80, 67]
def kBitsPerComponent : Bytes := [66, 105, 116, 115, 80, 101, 114, 67, 111, 109, 112, 111, 110, 101, 110, 116]
def kCS : Bytes := [67, 83]
def kColorSpace : Bytes := [67, 111, 108, 111, 114, 83, 112, 97, 99, 101]
def kF : Bytes := [70]
def kFilter : Bytes := [70, 105, 108, 116, 101, 114]
def kIM : Bytes := [73, 77]
def kImageMask : Bytes := [73, 109, 97, 103, 101, 77, 97, 115, 107]

def nA85 : Bytes := [65, 56, 53]
def nASCII85Decode : Bytes := [65, 83, 67, 73, 73, 56, 53, 68, 101, 99, 111, 100, 101]

/-- The end marker `do_keyword` scans for: `~>` when `/F` — or, without `/F`, `/Filter` (round 6 `fix:`) — is a name, or a non-empty array whose first
    element is a name, of the ASCII85 filter; anything else names no filter (`EI`). -/
def eosOf (d : Dict) : Except IErr Bytes :=
  match getAny d keysEosFilter with
  | some (.name f) => .ok (if a85Names.contains f then [126, 62] else [69, 73])
  | some (.arr (.name f :: _)) => .ok (if a85Names.contains f then [126, 62] else [69, 73])
  | _ => .ok [69, 73]

def componentsOf (cs : Bytes) : Option Nat := (inlineComponents.find? (fun p => p.1 == cs)).map (·.2)

/-- `x is True`. -/
def isPyTrue : Option Val → Bool
  | some (.bool true) => true
  | _ => false

def posInt : Option Val → Option Int
  | some (.int n) => if n > 0 then some n else none
  | _ => none

/-- `inline_image_size(d)`. -/
def inlineSize (d : Dict) : Option Nat :=
  match getAny d sizeKeysFilter with
  | some _ => none
  | none =>
    let wh := (posInt (getAny d sizeKeysWidth), posInt (getAny d sizeKeysHeight))
    let bn : Option Int × Option Int :=
      if isPyTrue (getAny d sizeKeysImageMask) then (some 1, some 1)
      else
        (posInt (getAny d sizeKeysBits),
         match getAny d sizeKeysColorSpace with
         | some (.name s) => (componentsOf s).map (fun n => (n : Int))
         | some (.arr (.name s :: _)) => (componentsOf s).map (fun n => (n : Int))
         | _ => none)
    match wh.1, wh.2, bn.1, bn.2 with
    | some w, some h, some b, some n => some (image_data_size w h b n).toNat
    | _, _, _, _ => none

/-- What `do_keyword(ID)` pushes: the stream's dictionary and data, whether an `EI` keyword is pushed
    with it, and how many bytes after `ID␣` were consumed. -/
structure Pushed where
  dict : Dict
  data : Bytes
  pushEI : Bool
  consumed : Nat
  deriving Repr

def processID (objs : List Val) (input : Bytes) : Except IErr Pushed :=
  match assemble objs with
  | .error e => .error e
  | .ok d =>
    match eosOf d with
    | .error e => .error e
    | .ok eos =>
      match getInlineDataLen eos (inlineSize d) input with
      | none => .error .eof
      | some (data, n) =>
        .ok { dict := d, data := if eos = [69, 73] then data else data ++ eos, pushEI := eos = [69, 73], consumed := n }

/-- The fields `LTImage.__init__` reads from the stream. -/
structure LTFields where
  srcW : Val
  srcH : Val
  bits : Val
  colorspace : List (Option Val)
  imagemask : Option Val
  deriving Repr

/-- `do_EI` (accept iff width and height are present under `do_EI`'s own key tuples; all key tuples are the regenerated ones, round 6c) followed by `LTImage.__init__`. -/
def doEI (d : Dict) : Option LTFields :=
  match getAny d doEIKeysWidth, getAny d doEIKeysHeight, getAny d keysWidth, getAny d keysHeight with
  | some _, some _, some w, some h =>
    some { srcW := w, srcH := h,
           bits := (getAny d keysBits).getD (.int 1),
           colorspace := match getAny d keysColorSpace with
             | some (.arr xs) => xs.map some
             | some v => [some v]
             | none => [none],
           imagemask := getAny d keysImageMask }
  | _, _, _, _ => none

/-- The colour space literals `export_image` compares with ARE the regenerated `pdfcolor` literals (round 6c). -/
def nDeviceGray : Bytes := litDeviceGray
def nDeviceRGB : Bytes := litDeviceRGB
def nDeviceCMYK : Bytes := litDeviceCMYK
def nG : Bytes := litInlineGray
def nRGB : Bytes := litInlineRGB

def isName (n : Bytes) : Option Val → Bool
  | some (.name s) => s == n
  | _ => false

def hasName (cs : List (Option Val)) (n : Bytes) : Bool := cs.any (isName n)

/-- `LITERAL_DEVICE_RGB in image.colorspace or LITERAL_INLINE_DEVICE_RGB in …`, then the same for gray:
    membership anywhere in the list (so `[/Indexed /DeviceRGB …]` counts as RGB — open finding). -/
def csClass (cs : List (Option Val)) : Image.CS :=
  if hasName cs nDeviceRGB then .rgb else if hasName cs nRGB then .inlRgb
  else if hasName cs nDeviceGray then .gray else if hasName cs nG then .inlGray
  else if hasName cs nDeviceCMYK then .cmyk
  else match cs with
    | [] => .none
    | [none] => .none
    | _ => .other

/-- `LITERAL_DEVICE_CMYK in image.colorspace`. -/
def cmykMember (cs : List (Option Val)) : Bool := hasName cs nDeviceCMYK

/-- The view `ImageWriter.export_image` takes of an LTImage with these fields (non-negative integer
    width, height, bits — anything else raises inside the writer and is outside the model). -/
def toImgIn (f : LTFields) (filters : List Image.Flt) (name data : Bytes) : Option Image.ImgIn :=
  match f.srcW, f.srcH, f.bits with
  | .int w, .int h, .int b =>
    if 0 ≤ w ∧ 0 ≤ h ∧ 0 ≤ b then
      some ⟨filters, csClass f.colorspace, cmykMember f.colorspace, b.toNat, w.toNat, h.toNat, name, data⟩
    else none
  | _, _, _ => none

end PdfVerif.InlineDict
