/-
C17 — `PDFDocument.get_outlines.search` (after fix 331cdea) on an OBJECT GRAPH: outline
dictionaries are indirect objects that point to each other by object id, so First/Next links
may dangle, be shared, or form cycles.  The code keeps the set of visited object ids; the
model threads it through the traversal.  One unit of fuel per visited reference; the theorem
`C17_outline_terminates` shows that `|store| + 1` is never exhausted.
-/
import PdfVerif.Model.Outline

namespace PdfVerif.OutlineGraph
open PdfVerif PdfVerif.Labels PdfVerif.Outline

/-- One outline dictionary; links are object ids (indirect references). -/
structure GNode where
  info : Info
  first : Option Nat := none
  hasLast : Bool := false
  next : Option Nat := none
  deriving Repr

/-- Object id ↦ dictionary.  An id without entry resolves to null, i.e. `dict_value` gives `{}`. -/
abbrev Store := List (Nat × GNode)

def get (g : Store) (n : Nat) : Option GNode := (g.find? (fun p => p.1 == n)).map (·.2)

/-- `search(ref, level)` with the visited set.  `none` = fuel exhausted (never, see theorem).
Returns the yielded items and the visited set afterwards. -/
def searchG (g : Store) : Nat → List Nat → Nat → Nat → Option (List Item × List Nat)
  | 0, _, _, _ => none
  | fuel + 1, visited, ref, level =>
    if visited.contains ref then some ([], visited)
    else
      match get g ref with
      | none => some ([], ref :: visited)
      | some nd =>
        let kidsRes :=
          match nd.first, nd.hasLast with
          | some f, true => searchG g fuel (ref :: visited) f (level + 1)
          | _, _ => some ([], ref :: visited)
        match kidsRes with
        | none => none
        | some (kids, v2) =>
          match nd.next with
          | none => some (visible level nd.info ++ kids, v2)
          | some nx =>
            match searchG g fuel v2 nx level with
            | none => none
            | some (rest, v3) => some (visible level nd.info ++ kids ++ rest, v3)

/-- `get_outlines()` when the catalog's `Outlines` entry is the reference `root`. -/
def getOutlinesG (g : Store) (root : Nat) : Option (List Item) :=
  (searchG g (g.length + 1) [] root 0).map (·.1)

end PdfVerif.OutlineGraph
