/-
Line protocol shared by the C08 and C09 drivers.

  analyze <page|fig1|fig0> <line_overlap> <char_margin> <line_margin> <word_margin> <boxes_flow|N>
          <detect_vertical 0|1> <x0> <y0> <x1> <y1> <n> { c <id> <x0> <y0> <x1> <y1> <text> | o <id> }*
      -> <full dump> ||| <weak dump> ||| <flags>
  analyze colsep <same arguments>    -> 1/0: every group of the model's hierarchy joins vertically separated runs
                                        (`Node.separatedB`), "-" without hierarchy
  isspace <cp>*                      -> one 0/1 per code point
  pred <name> <rationals…>           -> value of a regenerated predicate / of its documented spec (C09)
  defaults                           -> LAParams defaults and the Plane grid size
  annospec <V|H> <word_margin> <n> { <id> <x0> <y0> <x1> <y1> }*
      -> members of a line with these glyphs as the word-margin SPECIFICATION prescribes (`Spec.lineElemsBreak`)
  heapmin <n> { <skip 0|1> <d> <seq1> <seq2> }*
      -> index (in the given list) of the entry that `popMin HEntry.le` returns, "-" for an empty heap
-/
import PdfVerif.Model.Layout
import PdfVerif.Spec.Layout
import PdfVerif.Spec.LayoutAnno

namespace LayoutIO
open PdfVerif PdfVerif.Gen.Layout PdfVerif.Layout

def showBB (b : BB) : String :=
  ",".intercalate ([b.x0, b.y0, b.x1, b.y1].map ratToString)

def join (xs : List String) : String := " ".intercalate xs

def hexOfNat (n : Nat) : String := hexOfBytes ((toString (Char.ofNat n)).toUTF8.toList)

def showElem : Elem → String
  | .ch g => "c" ++ toString g.id
  | .anno 32 => "s"
  | .anno 10 => "n"
  | .anno c => "a" ++ hexOfNat c

def showLine (l : Line) : String :=
  "L" ++ (if l.vertical then "V" else "H") ++ "(" ++ showBB l.bb ++ ")[" ++ join (l.elems.map showElem) ++ "]"

def showBox (withIndex : Bool) (b : Box) : String :=
  "B" ++ (if b.vertical then "V" else "H") ++ (if withIndex then "#" ++ toString b.index else "")
    ++ "(" ++ showBB b.bb ++ ")[" ++ join (b.lines.map showLine) ++ "]"

def showNode : Node → String
  | .leaf b => showBox true b
  | .grp t bb l r => "G" ++ (if t then "T" else "L") ++ "(" ++ showBB bb ++ ")[" ++ showNode l ++ " " ++ showNode r ++ "]"

def showChild : Child → String
  | .box b => showBox true b
  | .other i => "o" ++ toString i
  | .line l => showLine l
  | .glyph g => "c" ++ toString g.id

def boxMinId (b : Box) : Nat :=
  match b.glyphs.map (·.id) with
  | [] => 0
  | x :: xs => xs.foldl min x

def showResult (r : Result) : String :=
  let full := "P[" ++ join (r.children.map showChild) ++ "]" ++
    (match r.groups with
     | none => " G-"
     | some gs => " G[" ++ join (gs.map showNode) ++ "]")
  let boxes := r.children.filterMap (fun c => match c with | .box b => some b | _ => none)
  let rest := r.children.filter (fun c => match c with | .box _ => false | _ => true)
  let sorted := boxes.mergeSort (fun a b => decide (boxMinId a ≤ boxMinId b))
  let weak := "W[" ++ join (sorted.map (showBox false)) ++ " | " ++ join (rest.map showChild) ++ "]"
  let flags := (if r.flags.tie then ["tie"] else []) ++ (if r.flags.fuel then ["fuel"] else [])
    ++ (if r.flags.err then ["err"] else [])
  full ++ " ||| " ++ weak ++ " ||| " ++ (if flags.isEmpty then "ok" else join flags)

def parseText (s : String) : Option (List Nat) :=
  if s == "-" then some [] else (s.splitOn ",").mapM (·.toNat?)

def parseItems : Nat → List String → Option (List Item)
  | 0, [] => some []
  | 0, _ => none
  | n + 1, "c" :: id :: x0 :: y0 :: x1 :: y1 :: t :: rest =>
    match id.toNat?, ratOfString x0, ratOfString y0, ratOfString x1, ratOfString y1, parseText t, parseItems n rest with
    | some id, some x0, some y0, some x1, some y1, some t, some items =>
      some (Item.ch ⟨id, ⟨x0, y0, x1, y1⟩, t⟩ :: items)
    | _, _, _, _, _, _, _ => none
  | n + 1, "o" :: id :: rest =>
    match id.toNat?, parseItems n rest with
    | some id, some items => some (Item.other id :: items)
    | _, _ => none
  | _, _ => none

def parseBF (s : String) : Option (Option Rat) :=
  if s == "N" then some none else (ratOfString s).map some

def doAnalyze : List String → String
  | mode :: lo :: cm :: lm :: wm :: bf :: dv :: x0 :: y0 :: x1 :: y1 :: n :: rest =>
    match (([lo, cm, lm, wm, x0, y0, x1, y1].mapM ratOfString) : Option (List Rat)), parseBF bf, n.toNat? with
    | some [lo, cm, lm, wm, x0, y0, x1, y1], some bf, some n =>
      match parseItems n rest with
      | some items =>
        let p : LAParams := ⟨lo, cm, lm, wm, bf, dv == "1"⟩
        let bb : BB := ⟨x0, y0, x1, y1⟩
        if mode == "colsep" then
          (match (analyze HEntry.le p bb items).groups with
           | none => "-"
           | some gs => if gs.all Node.separatedB then "1" else "0")
        else if mode == "page" then showResult (analyze HEntry.le p bb items)
        else if mode == "fig1" then showResult (analyzeFigure HEntry.le true p bb items)
        else if mode == "fig0" then showResult (analyzeFigure HEntry.le false p bb items)
        else "bad-op"
      | none => "bad-items"
    | _, _, _ => "bad-op"
  | _ => "bad-op"

def showBool (b : Bool) : String := if b then "1" else "0"

/-- `pred <name> args…`: regenerated predicate and documented specification side by side. -/
def doPred : List String → String
  | name :: rest =>
    match (rest.mapM ratOfString : Option (List Rat)) with
    | none => "bad-op"
    | some a =>
      match name, a with
      -- lo cm | obj0 | obj1
      | "halign", [lo, cm, a0, a1, a2, a3, b0, b1, b2, b3] =>
        let p : LAParams := ⟨lo, cm, 0, 0, none, true⟩
        showBool (halign p ⟨a0, a1, a2, a3⟩ ⟨b0, b1, b2, b3⟩) ++ " " ++
          showBool (Layout.Spec.joinH lo cm ⟨a0, a1, a2, a3⟩ ⟨b0, b1, b2, b3⟩)
      | "valign", [lo, cm, a0, a1, a2, a3, b0, b1, b2, b3] =>
        let p : LAParams := ⟨lo, cm, 0, 0, none, true⟩
        showBool (valign p ⟨a0, a1, a2, a3⟩ ⟨b0, b1, b2, b3⟩) ++ " " ++
          showBool (Layout.Spec.joinV lo cm ⟨a0, a1, a2, a3⟩ ⟨b0, b1, b2, b3⟩)
      -- wm last | obj
      | "space_h", [wm, last, b0, b1, b2, b3] =>
        showBool (need_space_h wm last ⟨b0, b1, b2, b3⟩) ++ " " ++ showBool (Layout.Spec.spaceH wm last ⟨b0, b1, b2, b3⟩)
      | "space_v", [wm, last, b0, b1, b2, b3] =>
        showBool (need_space_v wm last ⟨b0, b1, b2, b3⟩) ++ " " ++ showBool (Layout.Spec.spaceV wm last ⟨b0, b1, b2, b3⟩)
      -- ratio | self | obj
      | "neighbor_h", [r, a0, a1, a2, a3, b0, b1, b2, b3] =>
        showBool (neighbor_filter_h ⟨a0, a1, a2, a3⟩ ⟨b0, b1, b2, b3⟩ true r &&
                  Plane.overlaps ⟨0, b0, b1, b2, b3⟩ (neighbor_query_h ⟨a0, a1, a2, a3⟩ r)) ++ " " ++
          showBool (Layout.Spec.neighborH r ⟨a0, a1, a2, a3⟩ ⟨b0, b1, b2, b3⟩)
      | "neighbor_v", [r, a0, a1, a2, a3, b0, b1, b2, b3] =>
        showBool (neighbor_filter_v ⟨a0, a1, a2, a3⟩ ⟨b0, b1, b2, b3⟩ true r &&
                  Plane.overlaps ⟨0, b0, b1, b2, b3⟩ (neighbor_query_v ⟨a0, a1, a2, a3⟩ r)) ++ " " ++
          showBool (Layout.Spec.neighborV r ⟨a0, a1, a2, a3⟩ ⟨b0, b1, b2, b3⟩)
      | "dist", [a0, a1, a2, a3, b0, b1, b2, b3] =>
        ratToString (dist ⟨a0, a1, a2, a3⟩ ⟨b0, b1, b2, b3⟩)
      | "key_lrtb", [bf, a0, a1, a2, a3] => ratToString (key_lrtb bf ⟨a0, a1, a2, a3⟩)
      | "key_tbrl", [bf, a0, a1, a2, a3] => ratToString (key_tbrl bf ⟨a0, a1, a2, a3⟩)
      | _, _ => "bad-op"
  | _ => "bad-op"

def parseGlyphs : Nat → List String → Option (List Glyph)
  | 0, [] => some []
  | 0, _ => none
  | n + 1, id :: x0 :: y0 :: x1 :: y1 :: rest =>
    match id.toNat?, ratOfString x0, ratOfString y0, ratOfString x1, ratOfString y1, parseGlyphs n rest with
    | some id, some x0, some y0, some x1, some y1, some gs => some (⟨id, ⟨x0, y0, x1, y1⟩, []⟩ :: gs)
    | _, _, _, _, _, _ => none
  | _, _ => none

def doAnnoSpec : List String → String
  | cls :: wm :: n :: rest =>
    match ratOfString wm, n.toNat? with
    | some wm, some n =>
      match parseGlyphs n rest with
      | some gs => join ((Layout.Spec.lineElemsBreak (cls == "V") wm gs).map showElem)
      | none => "bad-items"
    | _, _ => "bad-op"
  | _ => "bad-op"

def parseHeap : Nat → List String → Option (List HEntry)
  | 0, [] => some []
  | 0, _ => none
  | n + 1, sk :: d :: a :: b :: rest =>
    match ratOfString d, a.toNat?, b.toNat?, parseHeap n rest with
    | some d, some a, some b, some h => some (⟨sk == "1", d, a, b⟩ :: h)
    | _, _, _, _ => none
  | _, _ => none

def doHeapMin : List String → String
  | n :: rest =>
    match n.toNat? with
    | some n =>
      match parseHeap n rest with
      | some h =>
        match popMin HEntry.le h with
        | some (m, _) => toString (h.findIdx (· == m))
        | none => "-"
      | none => "bad-items"
    | none => "bad-op"
  | _ => "bad-op"

def step (line : String) : String :=
  match words line with
  | "analyze" :: rest => doAnalyze rest
  | "isspace" :: rest =>
    String.join (rest.map fun w => match w.toNat? with
      | some c => if cpIsSpace c then "1" else "0"
      | none => "?")
  | "pred" :: rest => doPred rest
  | "annospec" :: rest => doAnnoSpec rest
  | "heapmin" :: rest => doHeapMin rest
  | ["defaults"] =>
    join ([DEFAULT_LINE_OVERLAP, DEFAULT_CHAR_MARGIN, DEFAULT_LINE_MARGIN, DEFAULT_WORD_MARGIN, DEFAULT_BOXES_FLOW].map ratToString)
      ++ " " ++ toString PLANE_GRIDSIZE
  | _ => "bad-op"

partial def loop (h : IO.FS.Stream) (out : IO.FS.Stream) : IO Unit := do
  let line ← h.getLine
  if line.isEmpty then return ()
  out.putStrLn (step (line.trimAscii.toString))
  loop h out

end LayoutIO
