/-
C11 — hand model of `pdfminer.converter.TextConverter` / `XMLConverter` over the canonical dump of the
layout hierarchy.  Every `self.write` / `self.write_text` call is one element of the list a `…Writes`
function returns, in call order; the strings themselves come from the REGENERATED templates
(`Gen/ConvertXml.lean`).  Numbers arrive formatted (opaque `Str`s).
-/
import PdfVerif.Model.Prelude
import PdfVerif.Gen.ConvertXml

namespace PdfVerif.Convert
open PdfVerif.Gen.ConvertXml

/-- Layout items below a page, as `XMLConverter.receive_layout.render` distinguishes them. -/
inductive Item where
  | char (fontname bbox ncs ncolor size text : Str)      -- LTChar
  | anno (text : Str)                                     -- LTAnno
  | line (linewidth bbox : Str)                           -- LTLine
  | rect (linewidth bbox : Str)                           -- LTRect
  | curve (linewidth bbox pts : Str)                      -- LTCurve
  | image (width height : Str) (src : Option Str)         -- LTImage; src = name returned by imagewriter.export_image
  | figure (name bbox : Str) (kids : List Item)           -- LTFigure
  | textline (bbox : Str) (kids : List Item)              -- LTTextLine
  | textbox (index bbox : Str) (vertical : Bool) (kids : List Item)   -- LTTextBox(Vertical)

/-- `LTPage.groups` -/
inductive Group where
  | box (index bbox : Str)
  | group (bbox : Str) (kids : List Group)

structure Page where
  pageid : Str
  bbox : Str
  rotate : Str
  kids : List Item
  groups : Option (List Group)

/-! ### TextConverter.receive_layout: the sequence of `write_text` calls -/

mutual
def textWrites : Item → List Str
  | .char _ _ _ _ _ text => [text]
  | .anno text => [text]
  | .line _ _ => []
  | .rect _ _ => []
  | .curve _ _ _ => []
  | .image _ _ _ => []
  | .figure _ _ kids => textWritesL kids
  | .textline _ kids => textWritesL kids
  | .textbox _ _ _ kids => textWritesL kids ++ [t_text_box_end]
def textWritesL : List Item → List Str
  | [] => []
  | i :: is => textWrites i ++ textWritesL is
end

/-- one `receive_layout(ltpage)` call (showpageno is False on every path of high_level) -/
def textPageWrites (p : Page) : List Str := textWritesL p.kids ++ [t_text_page_end]

def textDocWrites (ps : List Page) : List Str := ps.flatMap textPageWrites

/-- one `receive_layout(ltpage)` call of a `TextConverter` constructed with `showpageno`: the
`if self.showpageno:` write (regenerated template of `ltpage.pageid`), `render(ltpage)`, the page terminator -/
def textPageWritesPn (showpageno : Bool) (p : Page) : List Str :=
  (if showpageno then [t_text_page_no p.pageid] else []) ++ textWritesL p.kids ++ [t_text_page_end]

def textDocWritesPn (showpageno : Bool) (ps : List Page) : List Str := ps.flatMap (textPageWritesPn showpageno)

/-! ### XMLConverter: the sequence of `write` calls -/

mutual
def xmlWrites (strip : Bool) : Item → List Str
  | .char f b cs nc sz text => [t_render_LTChar_0 strip f b cs nc sz, writeText strip text, t_render_LTChar_1]
  | .anno text => [t_render_LTText_0 text]
  | .line lw b => [t_render_LTLine_0 lw b]
  | .rect lw b => [t_render_LTRect_0 lw b]
  | .curve lw b pts => [t_render_LTCurve_0 lw b pts]
  | .image w h none => [t_render_LTImage_1 w h]
  | .image w h (some name) => [t_render_LTImage_0 strip name w h]
  | .figure n b kids => [t_render_LTFigure_0 strip n b] ++ xmlWritesL strip kids ++ [t_render_LTFigure_1]
  | .textline b kids => [t_render_LTTextLine_0 b] ++ xmlWritesL strip kids ++ [t_render_LTTextLine_1]
  | .textbox i b v kids =>
      [t_render_LTTextBox_2 i b (if v then t_render_LTTextBox_1 else t_render_LTTextBox_0)]
        ++ xmlWritesL strip kids ++ [t_render_LTTextBox_3]
def xmlWritesL (strip : Bool) : List Item → List Str
  | [] => []
  | i :: is => xmlWrites strip i ++ xmlWritesL strip is
end

mutual
def groupWrites : Group → List Str
  | .box i b => [t_show_group_LTTextBox_0 i b]
  | .group b kids => [t_show_group_LTTextGroup_0 b] ++ groupWritesL kids ++ [t_show_group_LTTextGroup_1]
def groupWritesL : List Group → List Str
  | [] => []
  | g :: gs => groupWrites g ++ groupWritesL gs
end

def layoutWrites : Option (List Group) → List Str
  | none => []
  | some gs => [t_render_LTPage_1] ++ groupWritesL gs ++ [t_render_LTPage_2]

def xmlPageWrites (strip : Bool) (p : Page) : List Str :=
  [t_render_LTPage_0 p.pageid p.bbox p.rotate] ++ xmlWritesL strip p.kids ++ layoutWrites p.groups
    ++ [t_render_LTPage_3]

/-- `write_header`: `codec` is `none` for a text sink (falsy codec) -/
def headerWrites : Option Str → List Str
  | some c => [t_write_header_0 c, t_write_header_2]
  | none => [t_write_header_1, t_write_header_2]

/-- constructor (header), one `receive_layout` per page, `close` (footer) -/
def xmlDocWrites (strip : Bool) (codec : Option Str) (ps : List Page) : List Str :=
  headerWrites codec ++ ps.flatMap (xmlPageWrites strip) ++ [t_write_footer_0]

/-! ### Sinks

A text sink (`StringIO`) receives the characters.  A binary sink receives, per write, what the
stream's incremental encoder (`codecs.getincrementalencoder(codec)`, one per converter) returns.
A codec is abstract: a state machine over characters; `none` = the character is not representable. -/

structure Codec (σ : Type) where
  init : σ
  step : σ → Char → Option (σ × Bytes)

/-- `IncrementalEncoder.encode(piece)`; with `ignore` an unrepresentable character is dropped
(TextConverter), otherwise the write fails (XMLConverter: `UnicodeEncodeError`). -/
def Codec.encodePiece (c : Codec σ) (ignore : Bool) : σ → Str → Option (σ × Bytes)
  | st, [] => some (st, [])
  | st, ch :: rest =>
    match c.step st ch with
    | some (st', bs) =>
      match c.encodePiece ignore st' rest with
      | some (st'', bs') => some (st'', bs ++ bs')
      | none => none
    | none => if ignore then c.encodePiece ignore st rest else none

def sinkText (writes : List Str) : Str := writes.flatten

def sinkBinaryFrom (c : Codec σ) (ignore : Bool) : σ → List Str → Option Bytes
  | _, [] => some []
  | st, w :: ws =>
    match c.encodePiece ignore st w with
    | some (st', bs) =>
      match sinkBinaryFrom c ignore st' ws with
      | some bs' => some (bs ++ bs')
      | none => none
    | none => none

def sinkBinary (c : Codec σ) (ignore : Bool) (writes : List Str) : Option Bytes :=
  sinkBinaryFrom c ignore c.init writes

end PdfVerif.Convert
