/-
C12 — the process-wide state that extraction only READS (or only lets grow), made explicit, and the
per-page state of the interpreter that `render_contents` re-creates (hand model, executable).

pdfminer names in brackets:
* `Globals.lits`, `Globals.kwds`  — the keys of `PSLiteralTable.dict` / `PSKeywordTable.dict` in insertion
  order; the identity of an interned symbol is its insertion index [`PSSymbolTable.intern`];
* `Globals.colorspaces` — `pdfcolor.PREDEFINED_COLORSPACE` (ordered: key ↦ (name, ncomponents));
* `Globals.metrics` — `fontmetrics.FONT_METRICS` (key ↦ digest of the entry);
* `Globals.strict` — `settings.STRICT`;
* `PState` — what `init_resources` + `init_state` re-create for every page: the colour-space map
  [`csmap`, a COPY of the predefined table extended by the page's `/ColorSpace` resources], the text state
  [`PDFTextState()`], the graphics-state stack, the current colour spaces (first value of `csmap`);
* `renderPage` = `PDFPageInterpreter.render_contents` on a page whose content consists of text-state,
  colour-space, `q`/`Q` operators, stray names and unknown operators; every name / operator it parses is
  interned in the process-wide tables.

The initial values (`G0`) are REGENERATED from pdfcolor.py, fontmetrics.py, settings.py and the class
body of `PDFTextState` (Gen/ProcGlobals.lean).  Names are natural numbers (the harness numbers them).
-/
import PdfVerif.Model.Prelude
import PdfVerif.Gen.ProcGlobals

namespace PdfVerif.ProcGlobals

/-! ### interned symbol tables -/

/-- index of the first occurrence (`name in self.dict` / `self.dict[name]`) -/
def find (k : Nat) : List Nat → Option Nat
  | [] => none
  | x :: xs => if x = k then some 0 else (find k xs).map (· + 1)

/-- `PSSymbolTable.intern`: the symbol (its identity = insertion index) and the table afterwards -/
def intern (t : List Nat) (name : Nat) : Nat × List Nat :=
  match find name t with
  | some i => (i, t)
  | none => (t.length, t ++ [name])

/-- `sym.name` -/
def nameOf (t : List Nat) (sym : Nat) : Option Nat := t[sym]?

def internAll (t : List Nat) (names : List Nat) : List Nat :=
  names.foldl (fun t n => (intern t n).2) t

/-! ### association lists with Python `dict` semantics (assignment to an existing key keeps its position) -/

def alookup {α : Type} (k : Nat) : List (Nat × α) → Option α
  | [] => none
  | (k', v) :: rest => if k' = k then some v else alookup k rest

def aset {α : Type} (k : Nat) (v : α) : List (Nat × α) → List (Nat × α)
  | [] => [(k, v)]
  | (k', v') :: rest => if k' = k then (k, v) :: rest else (k', v') :: aset k v rest

/-! ### the process-wide state -/

/-- a colour space: (name, number of components) -/
abbrev CS := Nat × Nat

structure Globals where
  lits : List Nat
  kwds : List Nat
  colorspaces : List (Nat × CS)
  metrics : List (Nat × Nat × Nat)
  strict : Bool
deriving DecidableEq, Repr

/-- the part no modelled operation may change -/
def Globals.static (g : Globals) : List (Nat × CS) × List (Nat × Nat × Nat) × Bool :=
  (g.colorspaces, g.metrics, g.strict)

/-- name numbers: a predefined colour space is numbered by its position in the regenerated table -/
def ICCBASED : Nat := 100
def DEVICEN : Nat := 101

/-- the process right after `import pdfminer` (tables of interned names: what the harness says is there) -/
def G0 (lits kwds : List Nat) : Globals :=
  { lits := lits, kwds := kwds,
    colorspaces := (List.range Gen.ProcGlobals.PREDEFINED_COLORSPACE.length).zip
      ((List.range Gen.ProcGlobals.PREDEFINED_COLORSPACE.length).zip Gen.ProcGlobals.PREDEFINED_COLORSPACE),
    metrics := (List.range Gen.ProcGlobals.FONT_METRICS.length).zip Gen.ProcGlobals.FONT_METRICS,
    strict := Gen.ProcGlobals.STRICT }

/-! ### per-page state -/

structure TextState where
  fontsize : Int
  charspace : Int
  wordspace : Int
  scaling : Int
  leading : Int
  render : Int
  rise : Int
deriving DecidableEq, Repr

/-- `PDFTextState()` — the defaults are regenerated from `PDFTextState.__init__` -/
def TextState.fresh : TextState :=
  let d := Gen.ProcGlobals.TEXTSTATE_DEFAULTS
  { fontsize := d.1, charspace := d.2.1, wordspace := d.2.2.1, scaling := d.2.2.2.1, leading := d.2.2.2.2.1,
    render := d.2.2.2.2.2.1, rise := d.2.2.2.2.2.2 }

/-- a value of a `/ColorSpace` resource as `get_colorspace` classifies it -/
inductive CsSpec where
  /-- a name, or an array whose first element is that name (`[/CalRGB <<…>>]`, bare `/ICCBased`, unknown) -/
  | named (name : Nat)
  /-- `[/ICCBased stream]` with `/N n` -/
  | icc (n : Nat)
  /-- `[/DeviceN [k names] …]` -/
  | devicen (k : Nat)
deriving DecidableEq, Repr

inductive TOp where
  | Tc (v : Int) | Tw (v : Int) | Tz (v : Int) | TL (v : Int) | Ts (v : Int) | Tr (v : Int)
  /-- `/name size Tf`; the modelled pages have no font resources: the name is always undefined -/
  | Tf (name : Nat) (v : Int)
  | q | Q
  /-- `/name cs`, `/name CS` -/
  | cs (name : Nat) | CS (name : Nat)
  /-- `G g` / `RG rg` / `K k`: the colour is set and the current colour space becomes
  `csmap["DeviceGray" / "DeviceRGB" / "DeviceCMYK"]` — the PAGE's map, which its resources may have redefined.
  `stroke`: upper-case operator; `dev`: 0 gray, 1 rgb, 2 cmyk -/
  | dev (stroke : Bool) (dev : Nat)
  /-- a name that no operator consumes -/
  | lit (name : Nat)
  /-- an operator pdfminer does not know (interned, then ignored; an error under `STRICT`) -/
  | unknown (kw : Nat)
deriving DecidableEq, Repr

structure GPage where
  /-- the page's `/ColorSpace` resource dictionary in source order -/
  cs : List (Nat × CsSpec)
  ops : List TOp
deriving DecidableEq, Repr

structure PState where
  csmap : List (Nat × CS)
  ts : TextState
  scs : Option CS
  ncs : Option CS
  /-- `gstack`: (text state, stroking and non-stroking colour space) saved by `q` -/
  gstack : List (TextState × Option CS × Option CS)
  /-- a `PDFInterpreterError` was raised (only under `settings.STRICT`); the rest of the page is not run -/
  err : Bool
deriving DecidableEq, Repr

/-- an interpreter that has not processed any page yet -/
def PState.init : PState := ⟨[], TextState.fresh, none, none, [], false⟩

def getColorspace (predefined : List (Nat × CS)) : CsSpec → Option CS
  | .named n => alookup n predefined
  | .icc n => some (ICCBASED, n)
  | .devicen k => some (DEVICEN, k)

/-- `init_resources`: `csmap = PREDEFINED_COLORSPACE.copy()`, then the page's colour spaces that
`get_colorspace` understands.  The process-wide table is an argument, not a result: it is not touched. -/
def initResources (predefined : List (Nat × CS)) (cs : List (Nat × CsSpec)) : List (Nat × CS) :=
  cs.foldl (fun m e => match getColorspace predefined e.2 with
    | some c => aset e.1 c m
    | none => m) predefined

/-- `init_state`: everything the previous page left behind (`_left`) is replaced -/
def initState (csmap : List (Nat × CS)) (_left : PState) : PState :=
  { csmap := csmap, ts := TextState.fresh, scs := csmap.head?.map (·.2), ncs := csmap.head?.map (·.2),
    gstack := [], err := false }

def execOp (strict : Bool) (s : PState) (op : TOp) : PState :=
  if s.err then s else
  match op with
  | .Tc v => { s with ts := { s.ts with charspace := v } }
  | .Tw v => { s with ts := { s.ts with wordspace := v } }
  | .Tz v => { s with ts := { s.ts with scaling := v } }
  | .TL v => { s with ts := { s.ts with leading := -v } }
  | .Ts v => { s with ts := { s.ts with rise := v } }
  | .Tr v => { s with ts := { s.ts with render := v } }
  | .Tf _ v => if strict then { s with err := true } else { s with ts := { s.ts with fontsize := v } }
  | .q => { s with gstack := (s.ts, s.scs, s.ncs) :: s.gstack }
  | .Q => match s.gstack with
    | [] => s
    | e :: rest => { s with ts := e.1, scs := e.2.1, ncs := e.2.2, gstack := rest }
  | .cs n => match alookup n s.csmap with
    | some c => { s with ncs := some c }
    | none => if strict then { s with err := true } else s
  | .CS n => match alookup n s.csmap with
    | some c => { s with scs := some c }
    | none => if strict then { s with err := true } else s
  | .dev stroke d =>
    let key := if d = 0 then Gen.ProcGlobals.IDX_DEVICEGRAY else if d = 1 then Gen.ProcGlobals.IDX_DEVICERGB
      else Gen.ProcGlobals.IDX_DEVICECMYK
    match alookup key s.csmap with
    | some c => if stroke then { s with scs := some c } else { s with ncs := some c }
    | none => s
  | .lit _ => s
  | .unknown _ => if strict then { s with err := true } else s

/-- the names / operators of one content operator, as the content parser interns them.
Operator keywords are numbered 0 … 10 in the order of the constructors, `G g RG rg K k` 11 … 16; unknown ones from 1000. -/
def opLits : TOp → List Nat
  | .Tf n _ => [n] | .cs n => [n] | .CS n => [n] | .lit n => [n] | _ => []

def opKwd : TOp → List Nat
  | .Tc _ => [0] | .Tw _ => [1] | .Tz _ => [2] | .TL _ => [3] | .Ts _ => [4] | .Tr _ => [5] | .Tf _ _ => [6]
  | .q => [7] | .Q => [8] | .cs _ => [9] | .CS _ => [10] | .lit _ => [] | .unknown k => [k]
  | .dev stroke d => [11 + 2 * d + (if stroke then 0 else 1)]

/-- one operator: the parser interns its tokens (unless an error stopped the page), then it is executed -/
def stepOp (acc : PState × Globals) (op : TOp) : PState × Globals :=
  if acc.1.err then acc else
  (execOp acc.2.strict acc.1 op,
   { acc.2 with lits := internAll acc.2.lits (opLits op), kwds := internAll acc.2.kwds (opKwd op) })

/-- `render_contents(resources, contents)` for one page; `left`: the interpreter as the previous page left it -/
def renderPage (g : Globals) (left : PState) (pg : GPage) : PState × Globals :=
  pg.ops.foldl stepOp (initState (initResources g.colorspaces pg.cs) left, g)

/-- one call (`extract_pages`): a fresh interpreter runs the pages in order; the states after each page -/
def renderCall : Globals → PState → List GPage → List PState × Globals
  | g, _, [] => ([], g)
  | g, left, pg :: rest =>
    let r := renderPage g left pg
    let rs := renderCall r.2 r.1 rest
    (r.1 :: rs.1, rs.2)

/-- a history: calls one after the other in one process -/
def runHistory : Globals → List (List GPage) → Globals
  | g, [] => g
  | g, c :: cs => runHistory (renderCall g PState.init c).2 cs

/-- `FONT_METRICS[name]` -/
def metricsOf (g : Globals) (name : Nat) : Option (Nat × Nat) := alookup name g.metrics

/-! ### a broken discipline: `csmap = PREDEFINED_COLORSPACE` without `.copy()` -/

def renderPageNoCopy (g : Globals) (left : PState) (pg : GPage) : PState × Globals :=
  let r := renderPage g left pg
  (r.1, { r.2 with colorspaces := r.1.csmap })

end PdfVerif.ProcGlobals
