/-
C11 — concrete incremental encoders as `Codec` state machines (hand model, import-free): what
`codecs.getincrementalencoder(name)(errors).encode(piece)` returns, call after call, for the codecs whose
state is a pending byte-order mark (`utf-16`, `utf-32`, `utf-8-sig`), their stateless relatives and `latin-1`
(the only one here with unrepresentable characters: exercises the `ignore` / strict error policies).
`PDFConverter._encode` threads ONE such encoder through all writes of a converter; the driver ops
`textbin` / `xmlbin` compare `sinkBinary <codec> …` byte by byte with what the real binary sink received.
-/
import PdfVerif.Model.Convert

namespace PdfVerif.Convert

def b8 (n : Nat) : UInt8 := UInt8.ofNat (n % 256)

/-- `utf-32` (native = little-endian): `FF FE 00 00` before the first character, then 4 bytes per character -/
def utf32Codec : Codec Bool where
  init := false
  step := fun started ch =>
    let n := ch.toNat
    some (true, (if started then [] else [0xFF, 0xFE, 0, 0]) ++
      [b8 n, b8 (n / 256), b8 (n / 65536), b8 (n / 16777216)])

/-- UTF-16 code units of a scalar value -/
def utf16Units (n : Nat) : List Nat :=
  if n < 0x10000 then [n] else [0xD800 + (n - 0x10000) / 1024, 0xDC00 + (n - 0x10000) % 1024]

/-- `utf-16` (`bom`, little-endian), `utf-16-le`, `utf-16-be`; state: no byte-order mark pending -/
def utf16Codec (bom be : Bool) : Codec Bool where
  init := !bom
  step := fun started ch =>
    some (true, (if started then [] else if be then [0xFE, 0xFF] else [0xFF, 0xFE]) ++
      (utf16Units ch.toNat).flatMap (fun u => if be then [b8 (u / 256), b8 u] else [b8 u, b8 (u / 256)]))

def utf8Bytes (ch : Char) : Bytes := (String.singleton ch).toUTF8.toList

/-- `utf-8` (`sig` = false) and `utf-8-sig` (`EF BB BF` before the first character) -/
def utf8Codec (sig : Bool) : Codec Bool where
  init := !sig
  step := fun started ch => some (true, (if started then [] else [0xEF, 0xBB, 0xBF]) ++ utf8Bytes ch)

/-- `latin-1`: code points below 256, everything else is unrepresentable -/
def latin1Codec : Codec Unit where
  init := ()
  step := fun _ ch => if ch.toNat < 256 then some ((), [b8 ch.toNat]) else none

/-! a decoder for the `utf-32` stream (strict: wants the byte-order mark the encoder writes) -/

def utf32Body : Bytes → Option Str
  | a :: b :: c :: d :: rest =>
    let n := a.toNat + 256 * b.toNat + 65536 * c.toNat + 16777216 * d.toNat
    if (Char.ofNat n).toNat = n then
      match utf32Body rest with
      | some s => some (Char.ofNat n :: s)
      | none => none
    else none
  | [] => some []
  | _ => none

def utf32Decode : Bytes → Option Str
  | [] => some []
  | 0xFF :: 0xFE :: 0 :: 0 :: rest => utf32Body rest
  | _ => none

/-! a decoder for the `utf-16` stream (strict: wants the little-endian byte-order mark the encoder writes;
surrogate pairs must be complete and in order) -/

def utf16Body : Bytes → Option Str
  | [] => some []
  | [_] => none
  | a :: b :: tl =>
    let u := a.toNat + 256 * b.toNat
    if u < 0xD800 ∨ 0xE000 ≤ u then
      match utf16Body tl with
      | some s => some (Char.ofNat u :: s)
      | none => none
    else if u < 0xDC00 then
      match tl with
      | c :: d :: rest =>
        let l := c.toNat + 256 * d.toNat
        if 0xDC00 ≤ l ∧ l < 0xE000 then
          match utf16Body rest with
          | some s => some (Char.ofNat (0x10000 + (u - 0xD800) * 1024 + (l - 0xDC00)) :: s)
          | none => none
        else none
      | _ => none
    else none

def utf16Decode : Bytes → Option Str
  | [] => some []
  | 0xFF :: 0xFE :: rest => utf16Body rest
  | _ => none

end PdfVerif.Convert
