/-
C12 — the process as a state machine (hand model, import-free, executable).

What is modelled (pdfminer names in brackets):
* per open document: the object cache [`PDFDocument._cached_objs`], the parsed object-stream
  cache [`_parsed_objs`], the font cache of the resource manager that serves it
  [`PDFResourceManager._cached_fonts`, one fresh manager per call in high_level], the page
  iterator position [`PDFPage.get_pages` generator];
* process-wide: the four shared encoding tables [`EncodingDB.std2unicode` …], the CMap and
  unicode-map caches [`CMapDB._cmap_cache/_umap_cache`];
* operations `open`, `next`, `close`, `extract` (= open; next*; close with a private handle)
  and `parseCMap` (a private CMap built with `usecmap` from a shared one and then extended).

"Fresh computations" are parameters: what a parse of object `n` of document `d` gives
(`DocSpec.objs`), what a CMap file contains (`World.loadCMap`), the initial encoding tables
(`World.encInit`).  The content of the theorems in Props/C12.lean is that caching with the
modelled discipline is observationally pure.
-/
import PdfVerif.Model.Prelude

namespace PdfVerif.Process

/-- first match in an association list (Python dict lookup) -/
def alookup {α : Type} (k : Nat) : List (Nat × α) → Option α
  | [] => none
  | (k', v) :: rest => if k' = k then some v else alookup k rest

/-- `d[k] = v` on an association list without duplicate keys -/
def aset {α : Type} (k : Nat) (v : α) : List (Nat × α) → List (Nat × α)
  | [] => [(k, v)]
  | (k', v') :: rest => if k' = k then (k, v) :: rest else (k', v') :: aset k v rest

/-- `d.pop(k, None)` -/
def aerase {α : Type} (k : Nat) : List (Nat × α) → List (Nat × α)
  | [] => []
  | (k', v') :: rest => if k' = k then aerase k rest else (k', v') :: aerase k rest

/-- memoised lookup: a hit returns the entry, a miss computes `fresh k` and stores it when
`store` is set.  This is the shape of `getobj`, `get_font`, `get_cmap`, `get_unicode_map`. -/
def memo {α : Type} (store : Bool) (fresh : Nat → Option α) (c : List (Nat × α)) (k : Nat) :
    Option α × List (Nat × α) :=
  match alookup k c with
  | some v => (some v, c)
  | none =>
    match fresh k with
    | none => (none, c)
    | some v => (some v, if store then (k, v) :: c else c)

/-! ### documents (abstract) -/

/-- where a fresh parse finds object `n`: directly in the file, or inside object stream `sid` -/
inductive Loc where
  | direct (payload : Nat)
  | inStream (sid : Nat) (payload : Nat)
  /-- a cross-reference entry that points into object stream `sid` at an index the stream does not
  have: the lookup fails (`index too big`, swallowed by `getobj`), the object reads as null -/
  | danglingIn (sid : Nat)
deriving DecidableEq, Repr

structure FontSpec where
  /-- 0 simple font, 1 composite font with Identity CMap and no collection, 2 composite font with a
  predefined CMap, 3 composite font with Identity CMap and a predefined character collection -/
  kind : Nat
  /-- writing mode of the font's CMap (`-V` names): selects the vertical unicode table -/
  vertical : Bool
  /-- index of the base encoding table (unknown names fall back to table 0) -/
  base : Nat
  /-- `/Differences` in source order: (code, unicode value of the glyph name); `none`: the glyph name
  has no unicode value, the code becomes undefined (the entry of the base table is removed) -/
  diffs : List (Nat × Option Nat)
  /-- `/ToUnicode` stream present, and its bfchar content (cid ↦ code points) -/
  hasToUnicode : Bool
  tounicode : List (Nat × List Nat)
  /-- predefined CMap name / unicode-map name / `usecmap` name inside ToUnicode (0 = none) -/
  cmap : Nat
  umap : Nat
  usecmap : Nat
  /-- further indirect objects read while the font is built -/
  reads : List Nat
deriving DecidableEq, Repr

inductive FontRef where
  | byId (n : Nat)
  | direct (spec : FontSpec)
deriving DecidableEq, Repr

/-- graphics operators of a content stream that touch the interpreter's per-page state -/
inductive GOp where
  /-- `x y w h re`: appends the five segments m l l l h -/
  | re
  | m
  | l
  | h
  /-- a painting operator (`S`, `f`, …): hands the current path to the device and clears it -/
  | paint
  /-- `n`: clears the current path without painting -/
  | n
  | q
  | Q
  /-- `v w`: line width (stands for every graphics-state parameter saved by `q`) -/
  | w (v : Nat)
  /-- an operand that no operator consumes (stays on the argument stack) -/
  | operand (v : Nat)
deriving DecidableEq, Repr

structure PageSpec where
  /-- objects read to reach and construct the page (tree walk, `PDFPage.__init__`) -/
  walk : List Nat
  /-- every `get_font` call made while the page is interpreted, forms included -/
  fonts : List FontRef
  /-- other objects read while interpreting (content streams, form XObjects) -/
  reads : List Nat
  /-- text-showing operations in paint order: (index into `fonts`, character codes) -/
  shows : List (Nat × List Nat)
  /-- path construction / painting / graphics-state operators of the page's own content, in order -/
  gops : List GOp
deriving DecidableEq, Repr

structure DocSpec where
  objs : List (Nat × Loc)
  fontSpecs : List (Nat × FontSpec)
  openReads : List Nat
  pages : List PageSpec
deriving DecidableEq, Repr

/-! ### fresh computations -/

structure World where
  encInit : List (List (Nat × Nat))
  loadCMap : Nat → Option (List (Nat × Nat))
  /-- a `to-unicode-*` file holds TWO tables: horizontal and vertical writing -/
  loadUMap : Nat → Option (List (Nat × Nat) × List (Nat × Nat))

/-- `_get_objects(stream)`: the objects parsed out of object stream `sid` -/
def streamObjs (d : DocSpec) (sid : Nat) : List (Nat × Nat) :=
  d.objs.filterMap (fun e => match e.2 with
    | .inStream s p => if s = sid then some (e.1, p) else none
    | _ => none)

/-- what `getobj(n)` returns on a document without any cache -/
def freshObj (d : DocSpec) (n : Nat) : Option Nat :=
  match alookup n d.objs with
  | none => none
  | some (.direct p) => some p
  | some (.inStream sid _) =>
    match alookup sid d.objs with
    | some (.direct _) => alookup n (streamObjs d sid)
    | _ => none
  | some (.danglingIn _) => none

/-! ### shared tables and fonts -/

structure Tables where
  enc : List (List (Nat × Nat))
  cmaps : List (Nat × List (Nat × Nat))
  umaps : List (Nat × (List (Nat × Nat) × List (Nat × Nat)))
deriving DecidableEq, Repr

/-- a built font: everything `to_unichr` / `decode` consult -/
structure Font where
  kind : Nat
  enc : List (Nat × Nat)
  tounicode : Option (List (Nat × List Nat))
  cmap : Option (List (Nat × Nat))
  umap : Option (List (Nat × Nat))
  /-- payloads of the objects the font was built from -/
  src : List (Option Nat)
deriving DecidableEq, Repr

/-- `CMapDB.get_cmap`: process-wide memo over the CMap files -/
def getCMap (W : World) (t : Tables) (name : Nat) : Option (List (Nat × Nat)) × Tables :=
  let r := memo true W.loadCMap t.cmaps name
  (r.1, { t with cmaps := r.2 })

/-- `CMapDB.get_unicode_map`: the cache is keyed by the collection name and holds BOTH tables -/
def getUMap (W : World) (t : Tables) (name : Nat) :
    Option (List (Nat × Nat) × List (Nat × Nat)) × Tables :=
  let r := memo true W.loadUMap t.umaps name
  (r.1, { t with umaps := r.2 })

/-- `EncodingDB.get_encoding`: the shared table itself when there are no differences, else a
COPY with the differences applied (later entries win; a glyph name without unicode value
removes the code).  The shared tables are not touched. -/
def getEncoding (enc : List (List (Nat × Nat))) (base : Nat) (diffs : List (Nat × Option Nat)) : List (Nat × Nat) :=
  let tbl := (enc[base]?).getD (enc.headD [])
  diffs.foldl (fun acc e => match e.2 with
    | some u => aset e.1 u acc
    | none => aerase e.1 acc) tbl

/-- a `usecmap` inside a ToUnicode stream is looked up in CMapDB (and cached) and then ignored:
`UnicodeMap.use_cmap` is a no-op -/
def useCMapEffect (W : World) (t : Tables) (spec : FontSpec) : Tables :=
  if spec.hasToUnicode && spec.usecmap != 0 then (getCMap W t spec.usecmap).2 else t

/-- the CMap of a composite font: Identity-H/V are built in, every other name goes through CMapDB -/
def cmapStep (W : World) (t : Tables) (spec : FontSpec) : Option (List (Nat × Nat)) × Tables :=
  if spec.kind = 3 then (none, t) else getCMap W t spec.cmap

/-- font construction (`PDFSimpleFont.__init__`, `PDFCIDFont.__init__`); may load CMaps -/
def buildFont (W : World) (t : Tables) (spec : FontSpec) (src : List (Option Nat)) : Font × Tables :=
  let t1 := useCMapEffect W t spec
  let tou := if spec.hasToUnicode then some spec.tounicode else none
  if spec.kind = 0 then
    ({ kind := 0, enc := getEncoding t1.enc spec.base spec.diffs, tounicode := tou, cmap := none,
       umap := none, src := src }, t1)
  else if spec.kind = 1 then
    ({ kind := 1, enc := [], tounicode := tou, cmap := none, umap := none, src := src }, t1)
  else
    let r := cmapStep W t1 spec
    if spec.hasToUnicode then
      ({ kind := spec.kind, enc := [], tounicode := tou, cmap := r.1, umap := none, src := src }, r.2)
    else
      let u := getUMap W r.2 spec.umap
      ({ kind := spec.kind, enc := [], tounicode := tou, cmap := r.1,
         umap := u.1.map (fun p => if spec.vertical then p.2 else p.1), src := src }, u.2)

def notdef (cid : Nat) : List Nat := [1114112 + cid]

/-- one character code through `decode` and `to_unichr`; `none`: the code yields no glyph -/
def decodeGlyph (f : Font) (code : Nat) : Option (List Nat) :=
  let viaToU (cid : Nat) : Option (List Nat) := f.tounicode.bind (alookup cid)
  if f.kind = 0 then
    match viaToU code with
    | some u => some u
    | none => match alookup code f.enc with
      | some u => some [u]
      | none => some (notdef code)
  else if f.kind = 1 then
    match viaToU code with
    | some u => some u
    | none => some (notdef code)
  else
    match (if f.kind = 3 then some code else f.cmap.bind (alookup code)) with
    | none => none
    | some cid =>
      match viaToU cid with
      | some u => some u
      | none => match f.umap.bind (alookup cid) with
        | some u => some [u]
        | none => some (notdef cid)

def decodeShow (fonts : List (Option Font)) (s : Nat × List Nat) : List (List Nat) :=
  match (fonts[s.1]?).join with
  | none => []
  | some f => s.2.filterMap (decodeGlyph f)

/-! ### per-document caches -/

structure Caches where
  /-- objid ↦ (payload, already decoded / resolved in place) -/
  objs : List (Nat × (Nat × Bool))
  pobjs : List (Nat × List (Nat × Nat))
  fonts : List (Nat × Font)
  /-- object streams whose lookup is under way (`_objstms_in_progress`, a guard against streams
  stored in themselves): set on entry, cleared on EVERY exit, so empty between two lookups -/
  busy : List Nat
deriving DecidableEq, Repr

def Caches.empty : Caches := ⟨[], [], [], []⟩

/-- in-place normalisation of a cached object (`PDFStream.decode`, `resolve_all`):
changes the representation, never the payload; idempotent -/
def touch (n : Nat) : List (Nat × (Nat × Bool)) → List (Nat × (Nat × Bool))
  | [] => []
  | (k, v) :: rest => if k = n then (k, (v.1, true)) :: rest else (k, v) :: touch n rest

/-- `_getobj_objstm`: the parsed content of object stream `sid`, through `_parsed_objs` -/
def pobjsLookup (d : DocSpec) (caching : Bool) (pobjs : List (Nat × List (Nat × Nat))) (sid : Nat) :
    List (Nat × Nat) × List (Nat × List (Nat × Nat)) :=
  match alookup sid pobjs with
  | some l => (l, pobjs)
  | none => (streamObjs d sid, if caching then (sid, streamObjs d sid) :: pobjs else pobjs)

/-- the object cache after `stream_value(self.getobj(strmid))` (the stream gets decoded in place) -/
def objsAfterStream (caching : Bool) (objs : List (Nat × (Nat × Bool))) (sid sp : Nat) :
    List (Nat × (Nat × Bool)) :=
  if caching && (alookup sid objs).isNone then (sid, (sp, true)) :: objs else touch sid objs

/-- `PDFDocument.getobj` followed by the use of the object -/
def readObj (d : DocSpec) (caching : Bool) (c : Caches) (n : Nat) : Option Nat × Caches :=
  match alookup n c.objs with
  | some v => (some v.1, { c with objs := touch n c.objs })
  | none =>
    match alookup n d.objs with
    | none => (none, c)
    | some (.direct p) => (some p, if caching then { c with objs := (n, (p, false)) :: c.objs } else c)
    | some (.danglingIn sid) =>
      if c.busy.contains sid then (none, c) else
      match alookup sid d.objs with
      | some (.direct sp) =>
        -- the stream is fetched and parsed (and cached), the index is not there; the guard is released
        (none, { c with objs := objsAfterStream caching c.objs sid sp,
                        pobjs := (pobjsLookup d caching c.pobjs sid).2 })
      | _ => (none, c)
    | some (.inStream sid _) =>
      if c.busy.contains sid then (none, c) else
      match alookup sid d.objs with
      | some (.direct sp) =>
        match alookup n (pobjsLookup d caching c.pobjs sid).1 with
        | none => (none, { c with objs := objsAfterStream caching c.objs sid sp,
                                  pobjs := (pobjsLookup d caching c.pobjs sid).2 })
        | some p => (some p, { c with objs := if caching then (n, (p, false)) :: objsAfterStream caching c.objs sid sp
                                              else objsAfterStream caching c.objs sid sp,
                                      pobjs := (pobjsLookup d caching c.pobjs sid).2 })
      | _ => (none, c)

def readMany (d : DocSpec) (caching : Bool) : Caches → List Nat → List (Option Nat) × Caches
  | c, [] => ([], c)
  | c, n :: ns =>
    let r := readObj d caching c n
    let rs := readMany d caching r.2 ns
    (r.1 :: rs.1, rs.2)

/-- `init_resources` for one font entry: `dict_value(spec)` then `rsrcmgr.get_font(objid, spec)` -/
def getFont (W : World) (d : DocSpec) (caching : Bool) (c : Caches) (t : Tables) (r : FontRef) :
    Option Font × Caches × Tables :=
  match r with
  | .direct spec =>
    let rv := readMany d caching c spec.reads
    let b := buildFont W t spec rv.1
    (some b.1, rv.2, b.2)
  | .byId n =>
    let r0 := readObj d caching c n
    match alookup n r0.2.fonts with
    | some f => (some f, r0.2, t)
    | none =>
      match alookup n d.fontSpecs with
      | none => (none, r0.2, t)
      | some spec =>
        let rv := readMany d caching r0.2 spec.reads
        let b := buildFont W t spec (r0.1 :: rv.1)
        (some b.1, if caching then { rv.2 with fonts := (n, b.1) :: rv.2.fonts } else rv.2, b.2)

def getFonts (W : World) (d : DocSpec) (caching : Bool) : Caches → Tables → List FontRef →
    List (Option Font) × Caches × Tables
  | c, t, [] => ([], c, t)
  | c, t, r :: rs =>
    let x := getFont W d caching c t r
    let xs := getFonts W d caching x.2.1 x.2.2 rs
    (x.1 :: xs.1, xs.2.1, xs.2.2)

/-! ### the interpreter's own state (`PDFPageInterpreter`: curpath, gstack, graphicstate, argstack) -/

structure Interp where
  /-- the path under construction: 0 = m, 1 = l, 2 = h -/
  curpath : List Nat
  /-- graphics states saved by `q` (their line width) -/
  gstack : List Nat
  /-- current line width -/
  lw : Nat
  /-- operands waiting for an operator -/
  argstack : List Nat
deriving DecidableEq, Repr

def Interp.init : Interp := ⟨[], [], 0, []⟩

/-- `init_state`, called by `render_contents` for every page: the per-page state starts afresh,
whatever the previous page left behind. -/
def initState (_left : Interp) : Interp := Interp.init

/-- `paint_path` splits the path at every `m` (regex `m[^m]+`): subpaths of one segment vanish, a
path that does not begin with `m` is ignored. -/
def subpathsAux : List Nat → List Nat → List (List Nat) → List (List Nat)
  | [], cur, acc => (if cur.length > 1 then acc ++ [cur] else acc)
  | s :: rest, cur, acc =>
    if s = 0 then subpathsAux rest [0] (if cur.length > 1 then acc ++ [cur] else acc)
    else subpathsAux rest (cur ++ [s]) acc

def subpaths (path : List Nat) : List (List Nat) :=
  match path with
  | 0 :: rest => subpathsAux rest [0] []
  | _ => []

/-- a painted shape as the device sees it: (number of segments, line width) -/
abbrev Shape := Nat × Nat

def stepG (i : Interp) : GOp → Interp × List Shape
  | .re => ({ i with curpath := i.curpath ++ [0, 1, 1, 1, 2] }, [])
  | .m => ({ i with curpath := i.curpath ++ [0] }, [])
  | .l => ({ i with curpath := i.curpath ++ [1] }, [])
  | .h => (if i.curpath.getLast? = some 2 then i else { i with curpath := i.curpath ++ [2] }, [])
  | .paint => ({ i with curpath := [] }, (subpaths i.curpath).map (fun sp => (sp.length, i.lw)))
  | .n => ({ i with curpath := [] }, [])
  | .q => ({ i with gstack := i.lw :: i.gstack }, [])
  | .Q => (match i.gstack with
           | [] => i
           | v :: rest => { i with lw := v, gstack := rest }, [])
  | .w v => ({ i with lw := v }, [])
  | .operand v => ({ i with argstack := i.argstack ++ [v] }, [])

def runG : Interp → List GOp → Interp × List Shape
  | i, [] => (i, [])
  | i, op :: ops =>
    let r := stepG i op
    let rs := runG r.1 ops
    (rs.1, r.2 ++ rs.2)

/-- result of one page: payloads of everything read, the decoded glyphs of every show, the painted shapes -/
structure PageOut where
  vals : List (Option Nat)
  glyphs : List (List (List Nat))
  shapes : List Shape
deriving DecidableEq, Repr

/-- `left` is what the interpreter was left with by the previous page of the same call -/
def processPage (W : World) (d : DocSpec) (caching : Bool) (c : Caches) (t : Tables) (left : Interp)
    (pg : PageSpec) : PageOut × Caches × Tables :=
  let w := readMany d caching c pg.walk
  let f := getFonts W d caching w.2 t pg.fonts
  let r := readMany d caching f.2.1 pg.reads
  (⟨w.1 ++ r.1, pg.shows.map (decodeShow f.1), (runG (initState left) pg.gops).2⟩, r.2, f.2.2)

/-- the interpreter state a page leaves behind -/
def interpAfter (left : Interp) (pg : PageSpec) : Interp := (runG (initState left) pg.gops).1

/-! ### the same page computed without any cache, from fresh values only (the specification) -/

def fontOf (W : World) (spec : FontSpec) (src : List (Option Nat)) : Font :=
  (buildFont W ⟨W.encInit, [], []⟩ spec src).1

def freshFont (W : World) (d : DocSpec) : FontRef → Option Font
  | .direct spec => some (fontOf W spec (spec.reads.map (freshObj d)))
  | .byId n =>
    match alookup n d.fontSpecs with
    | none => none
    | some spec => some (fontOf W spec (freshObj d n :: spec.reads.map (freshObj d)))

def freshPage (W : World) (d : DocSpec) (pg : PageSpec) : PageOut :=
  ⟨(pg.walk ++ pg.reads).map (freshObj d), pg.shows.map (decodeShow (pg.fonts.map (freshFont W d))),
   (runG Interp.init pg.gops).2⟩

/-! ### page iterators and the process state -/

/-- `page_numbers`: an empty selection means every page (Python truthiness) -/
def selPages (n : Nat) (sel : List Nat) : List Nat :=
  if sel.isEmpty then List.range n else (List.range n).filter (fun k => sel.contains k)

/-- pages `pos .. k-1` are constructed (tree walk + `PDFPage.__init__`) without being interpreted -/
def walkRange (d : DocSpec) (caching : Bool) (c : Caches) (pos k : Nat) : Caches :=
  ((d.pages.drop pos).take (k - pos)).foldl (fun c pg => (readMany d caching c pg.walk).2) c

structure Handle where
  doc : DocSpec
  caching : Bool
  todo : List Nat
  pos : Nat
  c : Caches
  /-- what the interpreter of this call was left with by the last interpreted page -/
  interp : Interp
deriving DecidableEq, Repr

structure State where
  tables : Tables
  handles : List (Nat × Handle)
deriving DecidableEq, Repr

def init (W : World) : State := ⟨⟨W.encInit, [], []⟩, []⟩

inductive Op where
  | open (hid : Nat) (d : DocSpec) (caching : Bool) (sel : List Nat)
  | next (hid : Nat)
  | close (hid : Nat)
  | extract (d : DocSpec) (caching : Bool) (sel : List Nat)
  | parseCMap (name : Nat) (ext : List (Nat × Nat))
deriving Repr

inductive Out where
  | ok
  | noHandle
  | done
  | page (p : PageOut)
  | pages (ps : List PageOut)
  /-- decode tables of the private CMap and of the shared one after the extension -/
  | cmap (priv : List (Nat × Nat)) (shared : Option (List (Nat × Nat)))
deriving DecidableEq, Repr

def openHandle (d : DocSpec) (caching : Bool) (sel : List Nat) : Handle :=
  { doc := d, caching := caching, todo := selPages d.pages.length sel, pos := 0,
    c := (readMany d caching Caches.empty d.openReads).2, interp := Interp.init }

/-- one `next()` on a page iterator -/
def advance (W : World) (h : Handle) (t : Tables) : Out × Handle × Tables :=
  match h.todo with
  | [] =>
    (.done, { h with pos := h.doc.pages.length,
                     c := walkRange h.doc h.caching h.c h.pos h.doc.pages.length }, t)
  | k :: rest =>
    match h.doc.pages[k]? with
    | none => (.done, { h with todo := [] }, t)
    | some pg =>
      let r := processPage W h.doc h.caching (walkRange h.doc h.caching h.c h.pos k) t h.interp pg
      (.page r.1, { h with todo := rest, pos := k + 1, c := r.2.1, interp := interpAfter h.interp pg }, r.2.2)

/-- all remaining pages of a handle (the body of `extract_pages` / `extract_text`) -/
def drain (W : World) : Nat → Handle → Tables → List PageOut × Handle × Tables
  | 0, h, t => ([], h, t)
  | fuel + 1, h, t =>
    let r := advance W h t
    match r.1 with
    | .page o =>
      let rs := drain W fuel r.2.1 r.2.2
      (o :: rs.1, rs.2.1, rs.2.2)
    | _ => ([], r.2.1, r.2.2)

def extract (W : World) (t : Tables) (d : DocSpec) (caching : Bool) (sel : List Nat) :
    List PageOut × Tables :=
  let h := openHandle d caching sel
  let r := drain W (h.todo.length + 1) h t
  (r.1, r.2.2)

def step (W : World) (s : State) : Op → State × Out
  | .open hid d caching sel =>
    ({ s with handles := aset hid (openHandle d caching sel) s.handles }, .ok)
  | .next hid =>
    match alookup hid s.handles with
    | none => (s, .noHandle)
    | some h =>
      let r := advance W h s.tables
      ({ tables := r.2.2, handles := aset hid r.2.1 s.handles }, r.1)
  | .close hid =>
    ({ s with handles := s.handles.filter (fun e => e.1 != hid) }, .ok)
  | .extract d caching sel =>
    let r := extract W s.tables d caching sel
    ({ s with tables := r.2 }, .pages r.1)
  | .parseCMap name ext =>
    -- CMap.use_cmap COPIES the shared table into the private CMap; extensions go to the copy
    let r := getCMap W s.tables name
    let priv := ext.foldl (fun acc e => aset e.1 e.2 acc) (r.1.getD [])
    ({ s with tables := r.2 }, .cmap priv (getCMap W r.2 name).1)

def run (W : World) : State → List Op → State
  | s, [] => s
  | s, op :: ops => run W (step W s op).1 ops

/-- the outputs of a history, in order -/
def outputs (W : World) : State → List Op → List Out
  | _, [] => []
  | s, op :: ops => (step W s op).2 :: outputs W (step W s op).1 ops

/-- the specification: the selected pages, each computed from fresh values only -/
def pagesSpec (W : World) (d : DocSpec) (sel : List Nat) : List PageOut :=
  (selPages d.pages.length sel).filterMap (fun k => (d.pages[k]?).map (freshPage W d))

end PdfVerif.Process
