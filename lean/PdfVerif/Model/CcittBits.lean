/-
Bits -> octets, most significant bit first (import-free): how the T.6 specification packs its code
bits and its sample data.  (The model's own packing / unpacking uses the masks regenerated from
`feedbytes` and `output_line`; `Lemmas/CcittImage.lean` proves that they agree with this.)
-/

namespace PdfVerif.Ccitt

def bitVal (b : Bool) (m : Nat) : Nat := if b then m else 0

/-- One output byte from up to 8 bits, MSB first, missing bits 0. -/
def byteOfBits (bs : List Bool) : UInt8 :=
  UInt8.ofNat (bitVal (bs.getD 0 false) 128 + bitVal (bs.getD 1 false) 64 + bitVal (bs.getD 2 false) 32 +
    bitVal (bs.getD 3 false) 16 + bitVal (bs.getD 4 false) 8 + bitVal (bs.getD 5 false) 4 +
    bitVal (bs.getD 6 false) 2 + bitVal (bs.getD 7 false) 1)

/-- `arr[i // 8] += (128, 64, …)[i % 8]` for every set bit: ⌈n/8⌉ bytes. -/
def packBits : List Bool → List UInt8
  | [] => []
  | b0 :: b1 :: b2 :: b3 :: b4 :: b5 :: b6 :: b7 :: rest =>
    byteOfBits [b0, b1, b2, b3, b4, b5, b6, b7] :: packBits rest
  | l => [byteOfBits l]

end PdfVerif.Ccitt
