/-
C19 round 6d: `ccittfaxdecode` with an invalid `Columns` (an integer ≤ 0, `false`, or an object that is
not an integer) — what the code raises, and what `PDFStream.decode` makes of it.

With `width ≤ 0` both line arrays are empty (`[1] * width == []`), so every access `_refline[x]` /
`_curline[x] = …` raises `IndexError`: `_do_vertical` and `_do_pass` always (their scan reads
`_refline[0]` whatever the colour), `_do_uncompressed` on its first pixel.  `_do_horizontal` never
indexes (`len(_curline) <= x` stops both loops at once) and `_flush_line` then emits an empty line, so the
remaining callbacks behave exactly as in the ordinary model at width 0.  A non-integer makes
`[1] * width` raise `TypeError` before any data is read.  Import-free (linked into the driver).
-/
import PdfVerif.Model.CcittStream
import PdfVerif.Gen.Filters

namespace PdfVerif.Ccitt
open PdfVerif.Gen

/-- What a direct call can raise in this corner. -/
inductive ColErr where
  | invalidData | indexError | typeError | unmodelled
  deriving DecidableEq, Repr

/-- Does `_accept(v)` index an (empty) line array?  Pass and vertical modes always, an uncompressed-mode
symbol as soon as it carries a pixel. -/
def indexesLine (st : St) (v : Option Sym) : Bool :=
  match st.acc, v with
  | .mode, some s =>
    (match modeAction (some s) with
     | .pass => true
     | .vertical => true
     | _ => false)
  | .unc, some (.unc u) =>
    if u.term then (match uncSplit u.bits with | some (_, rest) => !rest.isEmpty | none => false)
    else !u.bits.isEmpty
  | _, _ => false

def liftErr : Except Err (St × Sig) → Except ColErr (St × Sig)
  | .ok r => .ok r
  | .error .invalidData => .error .invalidData
  | .error _ => .error .unmodelled

/-- `_parse_bit` on a parser whose lines are empty. -/
def stepBitD (st : St) (b : Bool) : Except ColErr (St × Sig) :=
  match st.node with
  | .node l r =>
    match (if b then r else l) with
    | .node a c => .ok ({ st with node := .node a c }, .cont)
    | .empty => liftErr (accept { st with node := .empty } none)
    | .leaf s =>
      if indexesLine st (some s) then .error .indexError
      else liftErr (accept { st with node := .empty } (some s))
  | _ => .error .unmodelled

def feedBitsD (st : St) : List Bool → Except ColErr (St × Sig)
  | [] => .ok (st, .cont)
  | b :: bs =>
    match stepBitD st b with
    | .error e => .error e
    | .ok (st', .cont) => feedBitsD st' bs
    | .ok (st', s) => .ok (st', s)

def feedBytesD (st : St) : List UInt8 → Except ColErr St
  | [] => .ok st
  | b :: bs =>
    match feedBitsD st (bitsOfByte b) with
    | .error e => .error e
    | .ok (st', .eofb) => .ok st'
    | .ok (st', _) => feedBytesD st' bs

/-- The value of `/Columns` as far as it is invalid: `some 0`-like = an integer ≤ 0 (also `false`),
`none` = not an integer at all. -/
def invalidColumns : PObj → Option (Option Int)
  | .int i => if i ≤ 0 then some (some i) else none
  | .bool false => some (some 0)
  | .bool true => none                      -- `True` is the integer 1: a valid width
  | _ => some none

/-- `parser.feedbytes(data); return parser.close()` on a parser of width ≤ 0. -/
def decodeDegenerate (al rv : Bool) (data : List UInt8) : Except ColErr (List UInt8) :=
  match feedBytesD (initSt 0 al rv) data with
  | .error e => .error e
  | .ok st => .ok st.buf

/-- Direct call `ccittfaxdecode(data, {K: -1, Columns: v, …})` for an invalid `v`. -/
def decodeInvalidColumns (v : PObj) (al rv : Bool) (data : List UInt8) : Except ColErr (List UInt8) :=
  match invalidColumns v with
  | none => .error .unmodelled
  | some none => .error .typeError            -- `[1] * width`
  | some (some _) => decodeDegenerate al rv data

def ColErr.pyName : ColErr → String
  | .invalidData => "InvalidData" | .indexError => "IndexError" | .typeError => "TypeError"
  | .unmodelled => "unmodelled"

/-- Outcome of `PDFStream.get_data()`. -/
inductive Outcome where
  | data (d : List UInt8)       -- returned
  | pdfException (n : String)   -- the library's error family (`InvalidData`, or `PDFException` when STRICT)
  | leak (n : String)           -- anything else: must not happen
  deriving DecidableEq, Repr

/-- `PDFStream.decode`: `except PDFException: raise`, `except _DECODE_ERRORS` (the regenerated tuple
`Gen.Filters.DECODE_ERRORS`): STRICT → `PDFException`, otherwise a warning and `data = b""`. -/
def streamInvalidColumns (strict : Bool) (v : PObj) (al rv : Bool) (data : List UInt8) : Outcome :=
  match decodeInvalidColumns v al rv data with
  | .ok d => .data d
  | .error .invalidData => .pdfException "InvalidData"
  | .error e =>
    if Filters.DECODE_ERRORS.contains e.pyName then (if strict then .pdfException "PDFException" else .data [])
    else .leak e.pyName

end PdfVerif.Ccitt
