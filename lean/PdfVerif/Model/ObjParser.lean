/-
Executable model of `PDFDocument._getobj_parse` / `getobj` on the BYTES found at an object's offset,
including the hand-off of `PDFParser.do_keyword` at the `stream` keyword (seek back to the keyword,
`nextline`, read `Length` bytes, scan for `endstream`, seek, continue tokenizing).  The token-level
part is `StackParser.getobjToks` / `feedWith objDialect`; this file adds what needs the bytes.

Not modelled (answer `!unmodelled`): `Length` that is not a direct non-negative integer (an
indirect `Length` needs the whole document), the `fallback` mode, a `stream` keyword with an empty
operand stack, PSEOF while reading the `stream` line.
-/
import PdfVerif.Model.StackParser
import PdfVerif.Model.Filters

namespace PdfVerif.ObjParser
open PdfVerif PdfVerif.Lexer PdfVerif.StackParser

/-- index of the first CR or LF -/
def findEol : Bytes → Nat → Option Nat
  | [], _ => none
  | c :: t, i => if c == 10 || c == 13 then some i else findEol t (i + 1)

/-- `PSBaseParser.nextline` from the start of `rest`: the line with its end-of-line marker (`\r`, `\n`
    or `\r\n`); `none` = PSEOF (no marker before the end, or a `\r` that is the very last byte). -/
def nextline (rest : Bytes) : Option Bytes :=
  match findEol rest 0 with
  | none => none
  | some j =>
    if rest.getD j 0 == 10 then some (rest.take (j + 1))
    else if j + 1 < rest.length then
      (if rest.getD (j + 1) 0 == 10 then some (rest.take (j + 2)) else some (rest.take (j + 1)))
    else none

def kwEndstream : Bytes := [101, 110, 100, 115, 116, 114, 101, 97, 109]

/-- `line.index(b"endstream")` -/
def indexOf (pat : Bytes) : Bytes → Nat → Option Nat
  | [], i => if pat.isEmpty then some i else none
  | c :: t, i => if pat.isPrefixOf (c :: t) then some i else indexOf pat t (i + 1)

/-- the loop after the data: lines until one contains `endstream`; returns the new `objlen` -/
def scanEndstream (data : Bytes) : Nat → Nat → Nat → Nat
  | 0, _, objlen => objlen
  | f + 1, pos, objlen =>
    match nextline (data.drop (pos + objlen)) with
    | none => objlen                                   -- PSEOF: break
    | some line =>
      match indexOf kwEndstream line 0 with
      | some i => objlen + i
      | none => if line.isEmpty then objlen else scanEndstream data f pos (objlen + line.length)

def lookupLength : List (Bytes × SObj) → Option SObj
  | [] => none
  | (k, v) :: r => if k == [76, 101, 110, 103, 116, 104] then some v else lookupLength r

def shift (q : Nat) (ts : List PTok) : List PTok := ts.map (fun t => (t.1 + q, t.2))

/-- `getobj` on `data` = the file from the object's offset on; `b` = BUFSIZ.  `fuel` bounds the number of
    `stream` hand-overs (each one moves the read position forward). -/
def getobjLoop (b : Nat) (data : Bytes) : Nat → PState → List PTok → GetObj
  | 0, _, _ => .raised "fuel"
  | fuel + 1, st, toks =>
    if st.error.isSome then .raised (st.error.getD "") else
    match st.results with
    | o :: _ => .ok o
    | [] =>
      match toks with
      | [] => .notFound                                  -- PSEOF
      | (pos, tok) :: rest =>
        if tok == Token.kwd kwStream && st.context.isEmpty then
          -- do_keyword(stream): ((_, dic),) = self.pop(1)
          match st.curstack.reverse with
          | [] => .raised "unmodelled"
          | top :: below =>
            let attrs : List (Bytes × SObj) := match top with
              | .dict es => es
              | _ => []
            let objlen? : Option Nat :=
              match top with
              | .dict es =>
                match lookupLength es with
                | none => some 0
                | some (.int v) => if v < 0 then none else some v.toNat
                | some (.ref _) => none
                | some (.bool _) => none
                | some _ => some 0
              | .ref _ => none
              | _ => some 0
            match objlen? with
            | none => .raised "unmodelled"
            | some objlen =>
              match nextline (data.drop pos) with
              | none => .raised "unmodelled"
              | some line =>
                let p := pos + line.length
                let sdata := (data.drop p).take objlen
                let objlen' := scanEndstream data (data.length + 1) p objlen
                let q := p + objlen'
                let st' : PState := { st with curstack := below.reverse ++ [.stream attrs sdata] }
                match run b (data.drop q) with
                | none => .raised "fuel"
                | some ts => getobjLoop b data fuel st' (shift q ts)
        else
          getobjLoop b data fuel (feedWith objDialect st tok) rest

def getobjBytes (b : Nat) (objid : Int) (data : Bytes) : GetObj :=
  match run b data with
  | none => .raised "fuel"
  | some toks =>
    match toks with
    | (_, t1) :: _ :: (_, t3) :: rest =>
      match t1 with
      | .int n =>
        if n != objid then .raised "unmodelled"
        else if t3 != Token.kwd kwObj then .notFound
        else getobjLoop b data ((data.length + 2) * (data.length + 2) + toks.length) {} rest
      | _ => .raised "unmodelled"
    | _ => .notFound

/-! ### `getobj` with the `stream` branch delegated to C03's model `Filters.streamRead` (round 6c) -/

/-- tokens before the first `stream` keyword, its position, (nothing of what follows: the bytes behind the
    keyword are payload, not tokens) -/
def splitAtStream : List PTok → Option (List PTok × Nat)
  | [] => none
  | (p, t) :: r =>
    if t == Token.kwd kwStream then some ([], p)
    else match splitAtStream r with
      | some (bs, q) => some ((p, t) :: bs, q)
      | none => none

def resultOf (st : PState) : GetObj :=
  match st.error with
  | some e => .raised e
  | none =>
    match st.results with
    | o :: _ => .ok o
    | [] => .notFound

/-- `getobj` on the bytes at the object's offset.  Up to the `stream` keyword the tokens are fed to
    `PDFParser` (`nextobjectP`); at the keyword (no container open, a dictionary on top of the stack, a direct
    non-negative or missing `Length`) the raw data and the position to resume at come from
    `Filters.streamRead` (C03's model of that branch of `PDFParser.do_keyword`), the tokenizer restarts
    there and the tokens are fed on.  A second `stream` keyword is not modelled. -/
def getobjS (b : Nat) (objid : Int) (data : Bytes) : GetObj :=
  match run b data with
  | none => .raised "fuel"
  | some toks =>
    match splitAtStream toks with
    | none => getobjToks objid (toks.map (·.2))
    | some (before, pos) =>
      match before.map (·.2) with
      | t1 :: _ :: t3 :: rest =>
        match t1 with
        | .int n =>
          if n != objid then .raised "unmodelled"
          else if t3 != Token.kwd kwObj then .notFound
          else
            match nextobjectP {} rest with
            | some st => resultOf st                      -- complete (or failed) before the keyword
            | none =>
              let st := feedAllWith objDialect {} rest
              if !st.context.isEmpty then .raised "unmodelled" else
              match st.curstack.reverse with
              | .dict es :: below =>
                let len? : Option (Option Int) :=
                  match lookupLength es with
                  | none => some none
                  | some (.int v) => if v < 0 then none else some (some v)
                  | some (.ref _) => none
                  | some (.bool _) => none
                  | some _ => some (some 0)
                match len? with
                | none => .raised "unmodelled"
                | some len =>
                  match Filters.streamRead false data pos len with
                  | .error _ => .raised "unmodelled"
                  | .ok (raw, q) =>
                    match run b (data.drop q) with
                    | none => .raised "fuel"
                    | some ts =>
                      match nextobjectP { st with curstack := below.reverse ++ [.stream es raw] } (ts.map (·.2)) with
                      | some st' => resultOf st'
                      | none => .notFound
              | _ => .raised "unmodelled"
        | _ => .raised "unmodelled"
      | _ => .notFound

end PdfVerif.ObjParser
