/-
C05 — executable model of what pdfminer does with a content stream:

* `pdfinterp.PDFPageInterpreter`: `init_state`, `execute` (operand stack, dispatch by the arity of the
  `do_*` method, behaviour when operands are missing), `do_q/do_Q/do_cm`, `BT/ET`, text state and
  text positioning operators, text showing operators, colour operators, `do_Do` for form XObjects;
* `pdfdevice.PDFTextDevice.render_string / render_string_horizontal`;
* `converter.PDFLayoutAnalyzer.render_char` + `layout.LTChar.__init__` (matrix, adv, bbox, size);
* the multi-stream `PDFContentParser` at token level (`runStreams`: one parser over all streams,
  interpreter state and operand stack survive a stream boundary).

Arithmetic and tables come from the regenerated `Gen/Interp.lean` and `Gen/Utils.lean`.
Numbers are exact rationals.  No Mathlib.
-/
import PdfVerif.Model.Content

namespace PdfVerif.Interp
open PdfVerif PdfVerif.Content PdfVerif.Gen.Utils PdfVerif.Gen.Interp

/-- `textstate.font`: `None`, a font of the resource dictionary, or the fallback font of an undefined name. -/
inductive FontSel where
  | unset
  | idx (i : Nat)
  | fallback
  deriving Repr, DecidableEq, Inhabited

/-- `pdfinterp.PDFTextState`.  `leading` is stored negated by `TL` exactly as the code does. -/
structure TextState where
  font : FontSel
  fontsize : Rat
  charspace : Rat
  wordspace : Rat
  scaling : Rat
  leading : Rat
  render : Int
  rise : Rat
  matrix : Matrix
  linematrix : Point
  deriving Repr, DecidableEq, Inhabited

def TextState.init : TextState :=
  ⟨.unset, 0, 0, 0, 100, 0, 0, 0, MATRIX_IDENTITY, (0, 0)⟩

/-- `PDFColorSpace`: name and number of components. -/
abbrev CS := String × Nat

def csLookup (name : String) : Option CS :=
  (lookup name PREDEFINED_COLORSPACE).map (fun n => (name, n))

/-- `self.csmap[name]`: the predefined table overridden by the `ColorSpace` resources. -/
def csLookupIn (res : Res) (name : String) : Option CS :=
  match lookupCS name res.cspaces with
  | some cs => some cs
  | none => csLookup name

/-- `next(iter(self.csmap.values()))`. -/
def csDefault : CS := (PREDEFINED_COLORSPACE.head?).getD ("DeviceGray", 1)

/-- What `q` saves: `(ctm, textstate.copy(), graphicstate.copy())`; the colour spaces live in the
graphics state. -/
structure Saved where
  ctm : Matrix
  ts : TextState
  scolor : Option Color
  ncolor : Option Color
  scs : CS
  ncs : CS
  deriving Repr, DecidableEq, Inhabited

/-- Interpreter + device state. -/
structure MState where
  ctm : Matrix
  dctm : Matrix
  ts : TextState
  scolor : Option Color
  ncolor : Option Color
  scs : CS
  ncs : CS
  gstack : List Saved
  argstack : List Obj
  res : Res
  fuelOk : Bool
  deriving Repr, DecidableEq, Inhabited

/-- `init_resources` + `init_state(ctm)`. -/
def MState.init (ctm : Matrix) (res : Res) : MState :=
  { ctm := ctm, dctm := ctm, ts := TextState.init, scolor := none, ncolor := none,
    scs := csDefault, ncs := csDefault, gstack := [], argstack := [], res := res,
    fuelOk := true }

/-! ### casting.py -/

/-- `safe_float` on the operand kinds of the domain (`float(True) = 1.0`). -/
def safeFloat : Obj → Option Rat
  | .num q => some q
  | .bool b => some (if b then 1 else 0)
  | _ => none

/-- `safe_int`: `int(x)` truncates. -/
def safeInt : Obj → Option Int
  | .num q => some (pyInt q)
  | .bool b => some (if b then 1 else 0)
  | _ => none

def safeFloats : List Obj → Option (List Rat)
  | [] => some []
  | o :: rest =>
    match safeFloat o, safeFloats rest with
    | some q, some qs => some (q :: qs)
    | _, _ => none

/-! ### fonts, `LTChar.__init__`, `render_char` -/

def fontOf (env : Env) : FontSel → Option Font
  | .unset => none
  | .idx i => some ((env.fonts[i]?).getD Font.fallback)
  | .fallback => some Font.fallback

/-- `font.hscale`: the constant of `PDFFont.__init__`, overwritten by `PDFType3Font.__init__`. -/
def fontHScale (f : Font) : Rat :=
  match f.fm with
  | none => font_hscale
  | some m => type3_hscale m

def fontVScale (f : Font) : Rat :=
  match f.fm with
  | none => font_vscale
  | some m => type3_vscale m

/-- `PDFFont.char_width`. -/
def charWidth (f : Font) (cid : Nat) : Rat := char_width_scaled (f.width cid) (fontHScale f)

/-- `vx` of `LTChar.__init__` (vertical writing): half the font size when the font gives none. -/
def ltcharVx (f : Font) (fontsize : Rat) (cid : Nat) : Rat :=
  match (f.disp cid).1 with
  | none => ltchar_vx_default fontsize
  | some vx => ltchar_vx vx fontsize

/-- `LTChar.__init__`; `matrix` is what `render_char` receives. -/
def ltchar (matrix : Matrix) (f : Font) (fontsize scaling rise : Rat) (cid : Nat) (ncolor : Option Color) : Glyph :=
  let adv := if f.vertical then ltchar_adv_v (charWidth f cid) fontsize else ltchar_adv (charWidth f cid) fontsize scaling
  let bbox :=
    if f.vertical then
      let vx := ltcharVx f fontsize cid
      let vy := ltchar_vy (f.disp cid).2 fontsize
      ltchar_bbox_v vx vy rise adv fontsize
    else
      let descent := ltchar_descent (font_get_descent f.descent (fontVScale f)) fontsize
      ltchar_bbox_h descent rise adv fontsize
  let (x0, y0, x1, y1) := apply_matrix_rect matrix bbox
  let (x0, x1) := if x1 < x0 then (x1, x0) else (x0, x1)
  let (y0, y1) := if y1 < y0 then (y1, y0) else (y0, y1)
  let (a, b, c, d, _, _) := matrix
  { m := matrix, adv := adv, bbox := (x0, y0, x1, y1), size := if f.vertical then x1 - x0 else y1 - y0,
    upright := ltchar_upright a b c d scaling, font := f.name, col := ncolor }

/-! ### `PDFTextDevice.render_string_horizontal` / `render_string_vertical` -/

/-- The inner `for cid in font.decode(obj)` loop; returns the new `x` and the glyphs. -/
def renderCodes (f : Font) (matrix : Matrix) (fontsize scaling charspace wordspace rise : Rat)
    (ncolor : Option Color) (y : Rat) : Rat → List Nat → Rat × List Glyph
  | x, [] => (x, [])
  | x, cid :: rest =>
    let g := ltchar (translate_matrix matrix (x, y)) f fontsize scaling rise cid ncolor
    let x := x + g.adv
    let x := x + charspace
    let x := if cid = 32 ∧ wordspace ≠ 0 then x + wordspace else x
    let (x', gs) := renderCodes f matrix fontsize scaling charspace wordspace rise ncolor y x rest
    (x', g :: gs)

/-- The outer `for obj in seq` loop. -/
def renderSeq (f : Font) (matrix : Matrix) (fontsize scaling charspace wordspace rise dxscale : Rat)
    (ncolor : Option Color) (y : Rat) : Rat → List Elem → Rat × List Glyph
  | x, [] => (x, [])
  | x, .num n :: rest =>
    renderSeq f matrix fontsize scaling charspace wordspace rise dxscale ncolor y (x - n * dxscale) rest
  | x, .str bytes :: rest =>
    let (x1, g1) := renderCodes f matrix fontsize scaling charspace wordspace rise ncolor y x (f.decode bytes)
    let (x2, g2) := renderSeq f matrix fontsize scaling charspace wordspace rise dxscale ncolor y x1 rest
    (x2, g1 ++ g2)
  | x, .other :: rest =>
    renderSeq f matrix fontsize scaling charspace wordspace rise dxscale ncolor y x rest

/-- `render_string_vertical`: the same loops advancing `y`. -/
def renderCodesV (f : Font) (matrix : Matrix) (fontsize scaling charspace wordspace rise : Rat)
    (ncolor : Option Color) (x : Rat) : Rat → List Nat → Rat × List Glyph
  | y, [] => (y, [])
  | y, cid :: rest =>
    let g := ltchar (translate_matrix matrix (x, y)) f fontsize scaling rise cid ncolor
    let y := y + g.adv
    let y := y + charspace
    let y := if cid = 32 ∧ wordspace ≠ 0 then y + wordspace else y
    let (y', gs) := renderCodesV f matrix fontsize scaling charspace wordspace rise ncolor x y rest
    (y', g :: gs)

def renderSeqV (f : Font) (matrix : Matrix) (fontsize scaling charspace wordspace rise dxscale : Rat)
    (ncolor : Option Color) (x : Rat) : Rat → List Elem → Rat × List Glyph
  | y, [] => (y, [])
  | y, .num n :: rest =>
    renderSeqV f matrix fontsize scaling charspace wordspace rise dxscale ncolor x (y - n * dxscale) rest
  | y, .str bytes :: rest =>
    let (y1, g1) := renderCodesV f matrix fontsize scaling charspace wordspace rise ncolor x y (f.decode bytes)
    let (y2, g2) := renderSeqV f matrix fontsize scaling charspace wordspace rise dxscale ncolor x y1 rest
    (y2, g1 ++ g2)
  | y, .other :: rest =>
    renderSeqV f matrix fontsize scaling charspace wordspace rise dxscale ncolor x y rest

/-- `PDFTextDevice.render_string`. -/
def renderString (f : Font) (dctm : Matrix) (ts : TextState) (ncolor : Option Color) (seq : List Elem) :
    TextState × List Glyph :=
  let matrix := mult_matrix ts.matrix dctm
  let scaling := rs_scaling ts.scaling
  let charspace := rs_charspace ts.charspace scaling
  let wordspace := if f.multibyte then 0 else rs_wordspace ts.wordspace scaling
  let dxscale := rs_dxscale ts.fontsize scaling
  let (x, y) := ts.linematrix
  if f.vertical then
    let (y', gs) := renderSeqV f matrix ts.fontsize scaling (rs_charspace_v ts.charspace scaling) wordspace ts.rise
      (rs_dxscale_v ts.fontsize scaling) ncolor x y seq
    ({ ts with linematrix := (x, y') }, gs)
  else
    let (x', gs) := renderSeq f matrix ts.fontsize scaling charspace wordspace ts.rise dxscale ncolor y x seq
    ({ ts with linematrix := (x', y) }, gs)

/-! ### the `do_*` methods -/

def doTstar (st : MState) : MState :=
  let (a, b, c, d, e, f) := st.ts.matrix
  { st with ts := { st.ts with matrix := tstar_matrix a b c d st.ts.leading e f, linematrix := (0, 0) } }

/-- `do_TJ` once the operand is known to be a list. -/
def doShow (env : Env) (st : MState) (seq : List Elem) : MState × List Glyph :=
  match fontOf env st.ts.font with
  | none => (st, [])
  | some f =>
    let (ts, gs) := renderString f st.dctm st.ts st.ncolor seq
    ({ st with ts := ts }, gs)

/-- `_initial_color`. -/
def initialColor (cs : CS) : Option Color :=
  if cs.1 = "Pattern" ∨ cs.2 < 1 then none
  else if cs.1 = "DeviceCMYK" then some [0, 0, 0, 1]
  else
    let v : Rat := if cs.1 = "Separation" ∨ cs.1 = "DeviceN" then 1 else 0
    some (List.replicate cs.2 v)

/-- `pop(n)`: the last `n` operands (all of them when fewer) and the remaining stack. -/
def pop (n : Nat) (stack : List Obj) : List Obj × List Obj :=
  (stack.drop (stack.length - n), stack.take (stack.length - n))

/-- `do_scn` / `do_SCN` (`stroke = true`). -/
def doSetColor (st : MState) (stroke : Bool) : MState :=
  let n := if stroke then st.scs.2 else st.ncs.2
  let set (st : MState) (c : Color) : MState := if stroke then { st with scolor := some c } else { st with ncolor := some c }
  if n = 0 then st
  else
    -- `values = self.pop(n)`; the colour is set when there were n operands and all are numbers
    let (vals, rest) := pop n st.argstack
    let st := { st with argstack := rest }
    if vals.length = n then
      match safeFloats vals with
      | some c => set st c
      | none => st
    else st

/-- Body of a `do_*` method applied to exactly `arity` operands.
`runForm` executes a form XObject (`interpreter.render_contents`) from the given initial state of
the form's interpreter and returns its glyphs and whether the nesting budget sufficed. -/
def call (env : Env) (runForm : Form → MState → List Glyph × Bool) (st : MState) :
    Op → List Obj → MState × List Glyph
  | .q, [] =>
    ({ st with gstack := ⟨st.ctm, st.ts, st.scolor, st.ncolor, st.scs, st.ncs⟩ :: st.gstack }, [])
  | .Q, [] =>
    match st.gstack with
    | [] => (st, [])
    | s :: rest =>
      ({ st with ctm := s.ctm, dctm := s.ctm, ts := s.ts, scolor := s.scolor, ncolor := s.ncolor,
                 scs := s.scs, ncs := s.ncs, gstack := rest }, [])
  | .cm, [a, b, c, d, e, f] =>
    match safeFloats [a, b, c, d, e, f] with
    | some [a, b, c, d, e, f] =>
      let ctm := mult_matrix (a, b, c, d, e, f) st.ctm; ({ st with ctm := ctm, dctm := ctm }, [])
    | _ => (st, [])
  | .BT, [] => ({ st with ts := { st.ts with matrix := MATRIX_IDENTITY, linematrix := (0, 0) } }, [])
  | .ET, [] => (st, [])
  | .Tc, [x] =>
    match safeFloats [x] with
    | some [v] => ({ st with ts := { st.ts with charspace := v } }, [])
    | _ => (st, [])
  | .Tw, [x] =>
    match safeFloats [x] with
    | some [v] => ({ st with ts := { st.ts with wordspace := v } }, [])
    | _ => (st, [])
  | .Tz, [x] =>
    match safeFloats [x] with
    | some [v] => ({ st with ts := { st.ts with scaling := v } }, [])
    | _ => (st, [])
  | .TL, [x] =>
    match safeFloats [x] with
    | some [v] => ({ st with ts := { st.ts with leading := tl_leading v } }, [])
    | _ => (st, [])
  | .Ts, [x] =>
    match safeFloats [x] with
    | some [v] => ({ st with ts := { st.ts with rise := v } }, [])
    | _ => (st, [])
  | .Tr, [x] =>
    match safeInt x with
    | none => (st, [])
    | some v => ({ st with ts := { st.ts with render := v } }, [])
  | .Tf, [fontid, size] =>
    match safeFloats [size], fontid with
    | some [sz], .name n =>
      let font := match lookup n st.res.fonts with
        | some i => FontSel.idx i
        | none => FontSel.fallback
      ({ st with ts := { st.ts with font := font, fontsize := sz } }, [])
    | _, _ => (st, [])
  | .Td, [tx, ty] =>
    match safeFloats [tx, ty] with
    | some [tx, ty] =>
      let (a, b, c, d, e, f) := st.ts.matrix
      ({ st with ts := { st.ts with matrix := (a, b, c, d, td_e_new tx ty a b c d e f, td_f_new tx ty a b c d e f),
                                    linematrix := (0, 0) } }, [])
    | _ => (st, [])
  | .TD, [tx, ty] =>
    match safeFloats [tx, ty] with
    | some [tx, ty] =>
      let (a, b, c, d, e, f) := st.ts.matrix
      ({ st with ts := { st.ts with matrix := (a, b, c, d, tD_e_new tx ty a b c d e f, tD_f_new tx ty a b c d e f),
                                    leading := tD_leading tx ty, linematrix := (0, 0) } }, [])
    | _ => (st, [])
  | .Tm, [a, b, c, d, e, f] =>
    match safeFloats [a, b, c, d, e, f] with
    | some [a, b, c, d, e, f] => ({ st with ts := { st.ts with matrix := (a, b, c, d, e, f), linematrix := (0, 0) } }, [])
    | _ => (st, [])
  | .Tstar, [] => (doTstar st, [])
  | .TJ, [seq] =>
    match seq with
    | .arr es => doShow env st es
    | _ => (st, [])
  | .Tj, [s] =>
    match s with
    | .str codes => doShow env st [.str codes]
    | _ => (st, [])
  | .quote, [s] =>
    match s with
    | .str codes => doShow env (doTstar st) [.str codes]
    | _ => (st, [])
  | .dquote, [aw, ac, s] =>
    match safeFloats [aw, ac], s with
    | some [aw, ac], .str codes =>
      let st := { st with ts := { st.ts with wordspace := aw, charspace := ac } }
      doShow env (doTstar st) [.str codes]
    | _, _ => (st, [])
  | .g, [x] =>
    match safeFloats [x] with
    | some c => ({ st with ncolor := some c, ncs := (csLookup "DeviceGray").getD st.ncs }, [])
    | none => (st, [])
  | .G, [x] =>
    match safeFloats [x] with
    | some c => ({ st with scolor := some c, scs := (csLookup "DeviceGray").getD st.scs }, [])
    | none => (st, [])
  | .rg, [r, g, b] =>
    match safeFloats [r, g, b] with
    | none => (st, [])
    | some c => ({ st with ncolor := some c, ncs := (csLookup "DeviceRGB").getD st.ncs }, [])
  | .RG, [r, g, b] =>
    match safeFloats [r, g, b] with
    | none => (st, [])
    | some c => ({ st with scolor := some c, scs := (csLookup "DeviceRGB").getD st.scs }, [])
  | .k, [c, m, y, k] =>
    match safeFloats [c, m, y, k] with
    | none => (st, [])
    | some c => ({ st with ncolor := some c, ncs := (csLookup "DeviceCMYK").getD st.ncs }, [])
  | .K, [c, m, y, k] =>
    match safeFloats [c, m, y, k] with
    | none => (st, [])
    | some c => ({ st with scolor := some c, scs := (csLookup "DeviceCMYK").getD st.scs }, [])
  | .cs, [n] =>
    match n with
    | .name s =>
      match csLookupIn st.res s with
      | some cs => ({ st with ncs := cs, ncolor := initialColor cs }, [])
      | none => (st, [])
    | _ => (st, [])
  | .CS, [n] =>
    match n with
    | .name s =>
      match csLookupIn st.res s with
      | some cs => ({ st with scs := cs, scolor := initialColor cs }, [])
      | none => (st, [])
    | _ => (st, [])
  | .sc, [] => (doSetColor st false, [])
  | .scn, [] => (doSetColor st false, [])
  | .SC, [] => (doSetColor st true, [])
  | .SCN, [] => (doSetColor st true, [])
  | .Do, [n] =>
    match n with
    | .name s =>
      match lookup s st.res.xobjs with
      | none => (st, [])
      | some i =>
        match env.forms[i]? with
        | none => (st, [])
        | some fm =>
          -- a form that (directly or through other forms) invokes itself is ignored (`active_forms`)
          if st.res.active.contains i then (st, []) else
          let matrix := fm.matrix.getD MATRIX_IDENTITY
          let res : Res := { fm.res.getD st.res with active := i :: st.res.active }
          -- `init_resources` + `init_state(Matrix × ctm)`, then the caller's text and graphics state
          let st0 : MState := { MState.init (mult_matrix matrix st.ctm) res with
            ts := st.ts, scolor := st.scolor, ncolor := st.ncolor, scs := st.scs, ncs := st.ncs }
          let (gs, ok) := runForm fm st0
          -- the sub-interpreter shares the device: `init_state` set the device CTM to the form's,
          -- `do_Do` gives the caller's back after `end_figure`
          ({ st with dctm := st.ctm, fuelOk := st.fuelOk && ok }, gs)
    | _ => (st, [])
  | _, _ => (st, [])

/-- Number of operands `execute` pops for an operator: `co_argcount - 1` of the `do_*` method;
`none` when `hasattr(self, method)` is false. -/
def arity (o : Op) : Option Nat := lookup o.method arityTable

/-- One iteration of the loop in `PDFPageInterpreter.execute`. -/
def execTok (env : Env) (runForm : Form → MState → List Glyph × Bool) (st : MState) :
    Tok → MState × List Glyph
  | .opnd .null => (st, [])   -- `null` reaches `execute` as an unknown keyword, not as an operand
  | .opnd o => ({ st with argstack := st.argstack ++ [o] }, [])
  | .op o =>
    match arity o with
    | none => (st, [])
    | some 0 => call env runForm st o []
    | some n =>
      let (args, rest) := pop n st.argstack
      let st := { st with argstack := rest }
      if args.length = n then call env runForm st o args else (st, [])

def execToks (env : Env) (runForm : Form → MState → List Glyph × Bool) :
    MState → List Tok → MState × List Glyph
  | st, [] => (st, [])
  | st, t :: rest =>
    let (st1, g1) := execTok env runForm st t
    let (st2, g2) := execToks env runForm st1 rest
    (st2, g1 ++ g2)

/-- `PDFContentParser` over several streams feeding `execute`: nothing is reset at a stream boundary. -/
def execStreams (env : Env) (runForm : Form → MState → List Glyph × Bool) :
    MState → List (List Tok) → MState × List Glyph
  | st, [] => (st, [])
  | st, s :: rest =>
    let (st1, g1) := execToks env runForm st s
    let (st2, g2) := execStreams env runForm st1 rest
    (st2, g1 ++ g2)

/-- `execute` of a form body from the initial state `do_Do` prepared, with a nesting budget
(`fuel` levels of `Do` below this one). -/
def runForm (env : Env) : Nat → Form → MState → List Glyph × Bool
  | 0, _, _ => ([], false)
  | fuel + 1, fm, st0 =>
    let (st, gs) := execToks env (runForm env fuel) st0 fm.body
    (gs, st.fuelOk)

/-- `process_page` after the CTM has been chosen: `render_contents(page.resources, page.contents, ctm)`. -/
def runPage (env : Env) (fuel : Nat) (ctm : Matrix) (res : Res) (streams : List (List Tok)) : MState × List Glyph :=
  execStreams env (runForm env fuel) (MState.init ctm res) streams

end PdfVerif.Interp
