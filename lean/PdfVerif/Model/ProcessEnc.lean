/-
C12 — the concrete initial encoding tables of the process model, built from the regenerated
`latin_enc.ENCODING` exactly like the class body of `EncodingDB` does
(`if std: std2unicode[std] = c`, later rows overwrite earlier ones).
-/
import PdfVerif.Model.Process
import PdfVerif.Gen.ProcEncoding

namespace PdfVerif.Process
open PdfVerif.Gen.ProcEncoding

def encColumn (sel : Nat × Nat × Nat × Nat × Nat → Nat) : List (Nat × Nat) :=
  ENCODING.foldl (fun acc row => if sel row = 0 then acc else aset (sel row) row.1 acc) []

/-- std2unicode, mac2unicode, win2unicode, pdf2unicode -/
def encTables : List (List (Nat × Nat)) :=
  [encColumn (·.2.1), encColumn (·.2.2.1), encColumn (·.2.2.2.1), encColumn (·.2.2.2.2)]

/-- order-independent checksum of a table (the harness computes the same over the Python dicts) -/
def tableSum (t : List (Nat × Nat)) : Nat :=
  (t.foldl (fun acc e => acc + (e.1 * 65537 + e.2) * (e.1 + 7)) 0) % 2305843009213693951

def glyphUnicode (i : Nat) : Option Nat := GLYPHS[i]?

end PdfVerif.Process
