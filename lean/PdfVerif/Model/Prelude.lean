/-
Shared, import-free definitions used by all models, specs and drivers.
Only executable definitions live here; lemmas about them are in `PdfVerif/Lemmas`.
-/

namespace PdfVerif

abbrev Bytes := List UInt8

/-- 2-D affine matrix `(a, b, c, d, e, f)` as pdfminer's `Matrix` tuple. -/
abbrev Matrix := Rat × Rat × Rat × Rat × Rat × Rat
abbrev Point := Rat × Rat
abbrev Rect := Rat × Rat × Rat × Rat

/-- Python `abs` on integers. -/
def iabs (x : Int) : Int := if x < 0 then -x else x

/-- Python `int(x)` on a real: truncation toward zero. -/
def pyInt (q : Rat) : Int := if q < 0 then -((-q).floor) else q.floor

/-- Python `math.floor`. -/
def pyFloor (q : Rat) : Int := q.floor

/-- Python `a // b` on integers (floor division). -/
def pyDiv (a b : Int) : Int := Int.fdiv a b

/-- Python `a % b` on integers (sign of the divisor). -/
def pyMod (a b : Int) : Int := Int.fmod a b

/-- Python `range(lo, hi)` as a list. -/
def pyRange (lo hi : Int) : List Int :=
  (List.range (hi - lo).toNat).map (fun (i : Nat) => lo + (i : Int))

/-! ### Line-protocol helpers (drivers only) -/

def hexDigit (n : Nat) : Char :=
  if n < 10 then Char.ofNat (48 + n) else Char.ofNat (87 + n)

def hexOfByte (b : UInt8) : String :=
  String.ofList [hexDigit (b.toNat / 16), hexDigit (b.toNat % 16)]

def hexOfBytes (bs : Bytes) : String :=
  String.join (bs.map hexOfByte)

def hexVal (c : Char) : Option Nat :=
  if '0' ≤ c ∧ c ≤ '9' then some (c.toNat - 48)
  else if 'a' ≤ c ∧ c ≤ 'f' then some (c.toNat - 87)
  else if 'A' ≤ c ∧ c ≤ 'F' then some (c.toNat - 55)
  else none

def bytesOfHexChars : List Char → Option Bytes
  | [] => some []
  | [_] => none
  | a :: b :: rest =>
    match hexVal a, hexVal b, bytesOfHexChars rest with
    | some x, some y, some r => some (UInt8.ofNat (x * 16 + y) :: r)
    | _, _, _ => none

/-- Parse lowercase/uppercase hex; `-` denotes the empty string. -/
def bytesOfHex (s : String) : Option Bytes :=
  if s == "-" then some [] else bytesOfHexChars s.toList

def hexOrDash (bs : Bytes) : String :=
  if bs.isEmpty then "-" else hexOfBytes bs

/-- Parse `p/q` or `p` (with optional leading `-`) into a rational. -/
def ratOfString (s : String) : Option Rat :=
  match s.splitOn "/" with
  | [p] => (fun (n : Int) => (n : Rat)) <$> p.toInt?
  | [p, q] =>
    match p.toInt?, q.toNat? with
    | some n, some d => if d = 0 then none else some ((n : Rat) / (d : Rat))
    | _, _ => none
  | _ => none

/-- Canonical rational output `p/q` in lowest terms (`q = 1` printed as `p`). -/
def ratToString (r : Rat) : String :=
  if r.den = 1 then toString r.num else toString r.num ++ "/" ++ toString r.den

def words (s : String) : List String :=
  (s.splitOn " ").filter (fun w => w ≠ "")

end PdfVerif
