/-
Meaning of the regenerated scanner bodies (`Gen/LexScan.lean`, translated from the `_parse_*` methods of
psparser.py on every run): `interp` runs a decision tree `Prog` on the parser attributes `St` and the byte
`c` at absolute position `j`, giving the same `Hit` record the hand-written `parse*Hit` functions give.
`Lemmas/LexScanTie.lean` / `Props/C14.lean` prove the two equal for every state and every byte, so that an edit of the straight-line
code of any scanner breaks a proof.
-/
import PdfVerif.Model.Lexer
import PdfVerif.Gen.LexScan

namespace PdfVerif.Lexer
open PdfVerif PdfVerif.Gen.LexTables PdfVerif.Gen.LexScan

def modeOfScn : Scn → Mode
  | .main => .main | .comment => .comment | .literal => .literal | .literal_hex => .literalHex
  | .number => .number | .float => .float | .keyword => .keyword | .string => .string
  | .string_1 => .string1 | .string_2 => .string2 | .wopen => .wopen | .wclose => .wclose
  | .hexstring => .hexstring

def scnOfMode : Mode → Option Scn
  | .main => some .main | .comment => some .comment | .literal => some .literal | .literalHex => some .literal_hex
  | .number => some .number | .float => some .float | .keyword => some .keyword | .string => some .string
  | .string1 => some .string_1 | .string2 => some .string_2 | .wopen => some .wopen | .wclose => some .wclose
  | .hexstring => some .hexstring | .dead => none

def clsFn : Cls → UInt8 → Bool
  | .EOL => isEOL | .SPC => isSPC | .NONSPC => isNONSPC | .HEX => isHEX | .END_LITERAL => isEND_LITERAL
  | .END_HEX_STRING => isEND_HEX_STRING | .END_NUMBER => isEND_NUMBER | .END_KEYWORD => isEND_KEYWORD
  | .END_STRING => isEND_STRING | .OCT_STRING => isOCT_STRING

def constBytes : KConst → Bytes
  | .KEYWORD_DICT_BEGIN => KEYWORD_DICT_BEGIN
  | .KEYWORD_DICT_END => KEYWORD_DICT_END

/-- interpreter state: parser attributes, the locals `token`/`name`, `chrcode`, "`i += 1` happened", tokens added -/
structure IS where
  st : St
  tok : Token := .kwd []
  code : Nat := 0
  adv : Bool := false
  toks : List PTok := []

def getFld (st : St) : Fld → Bytes
  | .hex => st.hex
  | .oct => st.oct

def setFld (st : St) (f : Fld) (v : Bytes) : St :=
  match f with
  | .hex => { st with hex := v }
  | .oct => { st with oct := v }

def evalCond (cnd : Cond) (s : IS) (c : UInt8) : Bool :=
  match cnd with
  | .cEq b => c == b
  | .cNe b => c != b
  | .cInOrDigit bs => bs.contains c || isDigit c
  | .cAlpha => isAlpha c
  | .cInEsc => (escLookup c).isSome
  | .matchLen r f n => clsFn r c && (getFld s.st f).length < n
  | .fld f => !(getFld s.st f).isEmpty
  | .paren => s.st.paren != 0
  | .curEq bs => s.st.cur == bs

/-- an exception (ValueError) escapes from `nexttoken` -/
def raiseIS (s : IS) : Hit :=
  ⟨{ s.st with mode := .dead }, true, s.toks ++ emit s.st (.err "ValueError")⟩

/-- value of a token expression, handed to `k`; `fail` when the expression raises ValueError -/
def withTok (t : TokE) (s : IS) (c : UInt8) (k : Token → Hit) (fail : Hit) : Hit :=
  match t with
  | .kwdC => k (.kwd [c])
  | .kwdCur => k (.kwd s.st.cur)
  | .litCur => k (.lit s.st.cur)
  | .intCur =>
    match pyInt s.st.cur with
    | some v => k (.int v)
    | none => fail
  | .floatCur => if pyFloatOk s.st.cur then k (.real s.st.cur) else fail
  | .cur => k (.str s.st.cur)
  | .hexCur =>
    match hexPairs (s.st.cur.filter (fun c => !isSPC c)) with
    | some bs => k (.str bs)
    | none => fail
  | .bool b => k (.bool b)
  | .const kc => k (.kwd (constBytes kc))
  | .var => k s.tok

/-- one action, then the rest of the scanner `k`; an escaping ValueError ends the scanner (`raiseIS`) -/
def exec (a : Act) (s : IS) (c : UInt8) (j : Nat) (k : IS → Hit) : Hit :=
  match a with
  | .setPos => k { s with st := { s.st with tpos := j } }
  | .curSet bs => k { s with st := { s.st with cur := bs } }
  | .curSetC => k { s with st := { s.st with cur := [c] } }
  | .curPushC => k { s with st := { s.st with cur := s.st.cur ++ [c] } }
  | .setCode f base mask =>
    match pyIntBase base (getFld s.st f) with
    | some v => k { s with code := match mask with | some m => v &&& m | none => v }
    | none => raiseIS s
  | .curPushCode =>
    if s.code < 256 then k { s with st := { s.st with cur := s.st.cur ++ [UInt8.ofNat s.code] } } else raiseIS s
  | .curPushEsc =>
    match escLookup c with
    | some e => k { s with st := { s.st with cur := s.st.cur ++ [e] } }
    | none => raiseIS s
  | .clear f => k { s with st := setFld s.st f [] }
  | .pushC f => k { s with st := setFld s.st f (getFld s.st f ++ [c]) }
  | .parenSet v => k { s with st := { s.st with paren := v } }
  | .parenAdd d => k { s with st := { s.st with paren := s.st.paren + d } }
  | .goto m => k { s with st := { s.st with mode := modeOfScn m } }
  | .setTok t => withTok t s c (fun v => k { s with tok := v }) (raiseIS s)
  | .add t => withTok t s c (fun v => k { s with toks := s.toks ++ emit s.st v }) (raiseIS s)
  | .addTry t => withTok t s c (fun v => k { s with toks := s.toks ++ emit s.st v }) (k s)
  | .incI => k { s with adv := true }

def interp (p : Prog) (s : IS) (c : UInt8) (j : Nat) : Hit :=
  match p with
  | .ret plusOne => ⟨s.st, plusOne || s.adv, s.toks⟩
  | .seq a q => exec a s c j (fun s' => interp q s' c j)
  | .ite cnd t e => if evalCond cnd s c then interp t s c j else interp e s c j

/-- the regenerated body of scanner `m` at the byte `c` found at position `j` -/
def genHit (m : Scn) (st : St) (c : UInt8) (j : Nat) : Hit := interp (progOf m) { st := st } c j

/-- `atHit` with every scanner replaced by its regenerated body -/
def genAtHit (st : St) (c : UInt8) (j : Nat) : Hit :=
  match scnOfMode st.mode with
  | some m => genHit m st c j
  | none => ⟨st, true, []⟩

/-- One scanner call `self._parse_<m>(buf, charpos)` assembled from regenerated parts only: the searched
    regex (`searchRe`), whether skipped bytes are appended (`searchAccum`), the body (`progOf`). -/
def genCall (st : St) (rest : Bytes) (pos : Nat) : CallRes :=
  match scnOfMode st.mode, rest with
  | none, _ => call st rest pos
  | _, [] => ⟨st, [], pos, []⟩
  | some m, c0 :: tl0 =>
    match searchRe m with
    | some r =>
      let sr := search (clsFn r) rest
      let st1 := if searchAccum m then { st with cur := st.cur ++ sr.1 } else st
      match sr.2 with
      | [] => ⟨st1, [], pos + sr.1.length, []⟩
      | c :: tl => afterHit (genHit m st1 c (pos + sr.1.length)) c tl (pos + sr.1.length)
    | none => afterHit (genHit m st c0 pos) c0 tl0 pos

def modeOfPyName : String → Option Mode
  | "main" => some .main | "comment" => some .comment | "literal" => some .literal | "literal_hex" => some .literalHex
  | "number" => some .number | "float" => some .float | "keyword" => some .keyword | "string" => some .string
  | "string_1" => some .string1 | "string_2" => some .string2 | "wopen" => some .wopen | "wclose" => some .wclose
  | "hexstring" => some .hexstring | _ => none

/-- canonical line of a scanner call: attributes after the call, bytes consumed, tokens added -/
def showCall (r : CallRes) (pos : Nat) : String :=
  match r.toks.find? (fun t => match t.2 with | .err _ => true | _ => false) with
  | some (_, .err k) => "!" ++ k
  | _ =>
    r.st.mode.pyName ++ " " ++ hexOrDash r.st.cur ++ " " ++ toString r.st.tpos ++ " " ++ toString r.st.paren ++ " " ++
      hexOrDash r.st.oct ++ " " ++ hexOrDash r.st.hex ++ " " ++ toString (r.pos - pos) ++ " | " ++ showLine r.toks

end PdfVerif.Lexer
