/-
C17 — executable model of `PDFDocument.lookup_name` / `get_dest` (pdfminer/pdfdocument.py,
with the fixes baec492 "non-bytes key is not in a name tree" and a1535eb "None at the root is a
missing key").  Keys are byte strings compared like Python `bytes` (lexicographically by byte
value); values are opaque numbers, `0` standing for a falsy Python value (`[]`, `0`, `{}`).
-/
import PdfVerif.Model.Prelude

namespace PdfVerif.NameTree
open PdfVerif

abbrev Key := List Nat

/-- Python `a < b` on `bytes`. -/
def klt : Key → Key → Bool
  | [], [] => false
  | [], _ :: _ => true
  | _ :: _, [] => false
  | a :: as, b :: bs => if a < b then true else if b < a then false else klt as bs

/-- A name-tree node after `dict_value`.  `names = none` when the node has no `Names` entry
(an absent and an empty `Kids` array behave alike). -/
inductive Node where
  | node (limits : Option (Key × Key)) (names : Option (List (Key × Int))) (kids : List Node)

/-- Outcome of the inner `lookup(d)`. -/
inductive Res where
  | none_              -- `return None` (key outside the node's Limits)
  | found (v : Int)    -- `return v`
  | keyError           -- `raise KeyError` / `PDFKeyError`
  deriving DecidableEq, Repr

/-- `key < k1 or k2 < key` -/
def outside (key : Key) : Option (Key × Key) → Bool
  | none => false
  | some (k1, k2) => klt key k1 || klt k2 key

/-- `dict(choplist(2, objs))[key]`: the last pair with that key wins. -/
def dictGet (ns : List (Key × Int)) (key : Key) : Option Int :=
  ((ns.filter (fun p => p.1 == key)).getLast?).map (·.2)

mutual
def lookup (key : Key) : Node → Res
  | .node limits names kids =>
    if outside key limits then .none_
    else match names with
      | some ns =>
        match dictGet ns key with
        | some v => .found v
        | none => .keyError
      | none => lookupKids key kids
/-- `for c in Kids: v = lookup(c); if v: return v` … `raise PDFKeyError` -/
def lookupKids (key : Key) : List Node → Res
  | [] => .keyError
  | c :: cs =>
    match lookup key c with
    | .found v => if v ≠ 0 then .found v else lookupKids key cs
    | .none_ => lookupKids key cs
    | .keyError => .keyError
end

/-- The argument of `get_dest`: a PDF string (`bytes`) or the name of a name object (`str`). -/
inductive QKey where
  | bytes (k : Key)
  | name (utf8 : Key)
  deriving DecidableEq, Repr

/-- `lookup_name("Dests", key)`; `tree = none` when the catalog has no `Names` or `Names` has no
`Dests` (both raise `KeyError`). -/
def lookupName (tree : Option Node) (key : QKey) : Res :=
  match tree, key with
  | none, _ => .keyError
  | some _, .name _ => .keyError
  | some t, .bytes k =>
    match lookup k t with
    | .none_ => .keyError
    | r => r

/-- Result of `get_dest`. -/
inductive DestRes where
  | value (v : Int)
  | notFound           -- PDFDestinationNotFound
  deriving DecidableEq, Repr

def assocName (d : List (Key × Int)) (k : Key) : Option Int :=
  (d.find? (fun p => p.1 == k)).map (·.2)

/-- `get_dest(name)`; `dests` is the catalog's PDF-1.1 `/Dests` dictionary (keys are names). -/
def getDest (tree : Option Node) (dests : Option (List (Key × Int))) (key : QKey) : DestRes :=
  match lookupName tree key with
  | .found v => .value v
  | _ =>
    match dests, key with
    | some d, .name n =>
      match assocName d n with
      | some v => .value v
      | none => .notFound
    | _, _ => .notFound

end PdfVerif.NameTree
