/-
C17 — the few Python primitives the TRANSLATED numeral code (`Gen/LabelCode.lean`) is written
in: `list[i]`, `str[i]`, `list.insert`, `str * int`.  Import-free; trusted reading of Python.
-/
import PdfVerif.Model.Prelude

namespace PdfVerif.LabelsPy
open PdfVerif

inductive PyErr where
  | index          -- IndexError
  deriving DecidableEq, Repr

/-- The numeral functions `_format_page_label` chooses between: `str`, `format_int_roman`, `format_int_alpha`. -/
inductive PyNumeral where
  | str | roman | alpha
  deriving DecidableEq, Repr

/-- `l[i]` (negative indices count from the end; out of range raises IndexError). -/
def pyIndex {α : Type} (l : List α) (i : Int) : Except PyErr α :=
  if i < 0 then
    (if i + (l.length : Int) < 0 then .error .index
     else match l[(i + (l.length : Int)).toNat]? with
       | some x => .ok x
       | none => .error .index)
  else match l[i.toNat]? with
    | some x => .ok x
    | none => .error .index

/-- `s[i]` on a `str`: a one-character string. -/
def pyStrIndex (s : List Nat) (i : Int) : Except PyErr (List Nat) :=
  match pyIndex s i with
  | .ok c => .ok [c]
  | .error e => .error e

/-- `l.insert(k, x)` (k clipped into `0 … len(l)` as Python does). -/
def pyInsert {α : Type} (l : List α) (k : Int) (x : α) : List α :=
  let k' : Int := if k < 0 then (if k + (l.length : Int) < 0 then 0 else k + (l.length : Int)) else k
  l.take k'.toNat ++ x :: l.drop k'.toNat

/-- `s * n` for a `str` (empty when `n ≤ 0`). -/
def pyRepeat (s : List Nat) (n : Int) : List Nat := (List.replicate n.toNat s).flatten

end PdfVerif.LabelsPy
