/-
Hand model of the composite-font code paths of pdfminer (C07):

* `cmapdb.IdentityCMap.decode`, `IdentityCMapByte.decode`, `CMap.decode` (trie walk),
  `FileCMap.add_code2cid`, `CMapDB.get_cmap` name handling (tables in `Gen/CIDFont.lean`);
* `cmapdb.FileUnicodeMap.add_cid2unichr` (UTF-16BE with errors ignored, `chr`, the U+00A0 rule);
* `cmapdb.CMapParser.do_keyword` on the token list of a (ToUnicode) CMap stream;
* `pdffont.get_widths`, `get_widths2`, `PDFFont.char_width` for `PDFCIDFont`, DW / DW2 defaults;
* `pdfdevice.PDFTextDevice.render_string_horizontal/vertical` for a multibyte font with
  `Tc = 0`, `Tz = 100` (pen positions and advances).

Import-free (the driver links against it).  Python dictionaries are association lists with the
most recent binding first (`List.lookup` = `dict.get`).
-/
import PdfVerif.Model.Prelude
import PdfVerif.Gen.CIDFont

namespace PdfVerif.CIDFont
open PdfVerif

/-- Exceptions that can leave the modelled functions. -/
inductive Err where
  | structError | typeError | valueError | assertionError | pdfTypeError | indexError
deriving DecidableEq, Repr

def Err.name : Err → String
  | .structError => "struct.error"
  | .typeError => "TypeError"
  | .valueError => "ValueError"
  | .assertionError => "AssertionError"
  | .pdfTypeError => "PDFTypeError"
  | .indexError => "IndexError"

/-! ## Identity CMaps -/

/-- Big-endian value of two bytes (`struct.unpack(">H")`). -/
def be2 (a b : UInt8) : Nat := a.toNat * 256 + b.toNat

/-- `IdentityCMap.decode`: `struct.unpack(">%dH" % n, code[:2*n])` with `n = len(code) // 2`. -/
def identityDecode : Bytes → List Nat
  | a :: b :: rest => be2 a b :: identityDecode rest
  | _ => []

/-- `IdentityCMapByte.decode`: `struct.unpack(">%dB" % n, code)`. -/
def identityDecodeByte (s : Bytes) : List Nat := s.map (·.toNat)

/-- `PDFCIDFont._get_cmap_name` on a name-valued (or `CMapName`-carrying stream) Encoding:
`IDENTITY_ENCODER.get(cmap_name, cmap_name)`; the table is regenerated from pdffont.py. -/
def cmapName (enc : String) : String :=
  match Gen.CIDFont.IDENTITY_ENCODER.lookup enc with
  | some n => n
  | none => enc

/-- `CMapDB.get_cmap` for the names it special-cases: (bytes per code, WMode); the table is
regenerated from cmapdb.py. -/
def identityKind (name : String) : Option (Nat × Nat) :=
  Gen.CIDFont.IDENTITY_CMAPS.lookup name

/-! ## Which CID → Unicode map a `PDFCIDFont` uses (`PDFCIDFont.__init__`) -/

/-- The font's `ToUnicode` entry. -/
inductive ToUni where
  | stream
  | name (n : String)
  | absent
deriving DecidableEq, Repr

inductive MapSel where
  | file                                             -- `FileUnicodeMap` parsed from the ToUnicode stream
  | identity                                         -- `IdentityUnicodeMap`
  | ttf                                              -- `TrueTypeFont.create_unicode_map()`
  | collection (coding : String) (vertical : Bool)   -- `CMapDB.get_unicode_map(coding, vertical)`
  | none
deriving DecidableEq, Repr

def hasInfix (p : List Char) : List Char → Bool
  | [] => p.isEmpty
  | c :: t => p.isPrefixOf (c :: t) || hasInfix p t

def mentionsIdentity (s : String) : Bool := hasInfix "Identity".toList s.toList

/-- `ordering` = CIDSystemInfo.Ordering, `cidcoding` = "Registry-Ordering", `encoding` = the Encoding name,
`cmapVertical` = `self.cmap.is_vertical()`, `hasTTF` = a FontFile2 with a usable cmap table,
`shipped` = the collection's pickle exists.  The tuple of TrueType collections and whether the writing mode
is passed on are regenerated from pdffont.py. -/
def selectUnicodeMap (tu : ToUni) (ordering cidcoding encoding : String) (hasTTF cmapVertical shipped : Bool) : MapSel :=
  match tu with
  | .stream => .file
  | .name n =>
    if mentionsIdentity ordering || mentionsIdentity n || mentionsIdentity encoding then .identity else .none
  | .absent =>
    if Gen.CIDFont.TTF_CODINGS.contains cidcoding then (if hasTTF then .ttf else .none)
    else if shipped then .collection cidcoding (Gen.CIDFont.COLLECTION_MAP_USES_WMODE && cmapVertical)
    else .none

/-! ## Trie CMaps (`CMap.code2cid` is a nested dict) -/

inductive Trie where
  | leaf (cid : Nat)
  | node (children : List (UInt8 × Trie))

abbrev TDict := List (UInt8 × Trie)

/-- `CMap.decode`: `d` is the current dictionary, `root` is `self.code2cid`. -/
def trieDecodeAux (root : TDict) : TDict → Bytes → List Nat
  | _, [] => []
  | d, b :: rest =>
    match d.lookup b with
    | some (.leaf cid) => cid :: trieDecodeAux root root rest
    | some (.node d') => trieDecodeAux root d' rest
    | none => trieDecodeAux root root rest

def trieDecode (root : TDict) (s : Bytes) : List Nat := trieDecodeAux root root s

/-- `d[k] = v` on an association list (replace the binding or add one). -/
def dictSet (d : TDict) (k : UInt8) (v : Trie) : TDict :=
  match d with
  | [] => [(k, v)]
  | (k', v') :: rest => if k' == k then (k, v) :: rest else (k', v') :: dictSet rest k v

/-- `FileCMap.add_code2cid` (`TypeError` when the path runs into an existing integer,
`IndexError` on the empty code). -/
def trieInsert : TDict → Bytes → Nat → Except Err TDict
  | _, [], _ => .error .indexError
  | d, [c], cid => .ok (dictSet d c (.leaf cid))
  | d, c :: c2 :: rest, cid =>
    match d.lookup c with
    | some (.node d') =>
      match trieInsert d' (c2 :: rest) cid with
      | .ok t => .ok (dictSet d c (.node t))
      | .error e => .error e
    | some (.leaf _) => .error .typeError
    | none =>
      match trieInsert [] (c2 :: rest) cid with
      | .ok t => .ok (dictSet d c (.node t))
      | .error e => .error e

/-! ## UTF-16BE with errors ignored (`bytes.decode("UTF-16BE", "ignore")`) -/

/-- `pend` is a high surrogate read in the previous unit and still waiting for its low surrogate. -/
def utf16Aux : Option Nat → Bytes → List Nat
  | pend, a :: b :: rest =>
    match pend with
    | some hi =>
      if 0xDC00 ≤ be2 a b ∧ be2 a b < 0xE000 then
        (0x10000 + (hi - 0xD800) * 1024 + (be2 a b - 0xDC00)) :: utf16Aux none rest
      else if 0xD800 ≤ be2 a b ∧ be2 a b < 0xDC00 then utf16Aux (some (be2 a b)) rest
      else be2 a b :: utf16Aux none rest
    | none =>
      if 0xD800 ≤ be2 a b ∧ be2 a b < 0xDC00 then utf16Aux (some (be2 a b)) rest
      else if 0xDC00 ≤ be2 a b ∧ be2 a b < 0xE000 then utf16Aux none rest
      else be2 a b :: utf16Aux none rest
  | _, _ => []

/-- Unpaired surrogates and a trailing odd byte are dropped. -/
def utf16Ignore (s : Bytes) : List Nat := utf16Aux none s

/-! ## `FileUnicodeMap` -/

/-- `cid2unichr`: most recent binding first; values are code-point lists. -/
abbrev UMap := List (Int × List Nat)

/-- The assignment at the end of `add_cid2unichr`, with the U+00A0-after-space rule. -/
def umapPut (m : UMap) (cid : Int) (u : List Nat) : UMap :=
  if u = [0xA0] ∧ m.lookup cid = some [0x20] then m else (cid, u) :: m

/-- Operand of `add_cid2unichr` / element of a bfrange array. -/
inductive AElem where
  | str (b : Bytes)
  | int (n : Int)
  | other
deriving DecidableEq, Repr

/-- `FileUnicodeMap.add_cid2unichr(cid, code)`. -/
def addCid (m : UMap) (cid : Int) : AElem → Except Err UMap
  | .str b => .ok (umapPut m cid (utf16Ignore b))
  | .int n => if 0 ≤ n ∧ n < 0x110000 then .ok (umapPut m cid [n.toNat]) else .error .valueError
  | .other => .error .pdfTypeError

/-! ## `CMapParser` on tokens -/

inductive Tok where
  | str (b : Bytes)
  | int (n : Int)
  | name (b : Bytes)
  | arr (xs : List AElem)
  | other
  | kw (k : String)
deriving DecidableEq, Repr

/-- `utils.nunpack`. -/
def nunpack : Bytes → Nat
  | [] => 0
  | b :: rest => b.toNat * 256 ^ rest.length + nunpack rest

/-- `struct.pack(">L", v)`; `struct.error` outside 32 bits. -/
def pack32 (v : Nat) : Except Err Bytes :=
  if v < 4294967296 then
    .ok [UInt8.ofNat (v / 16777216 % 256), UInt8.ofNat (v / 65536 % 256), UInt8.ofNat (v / 256 % 256),
         UInt8.ofNat (v % 256)]
  else .error .structError

/-- `s[-n:]` (with Python's `s[-0:] == s`). -/
def takeLast (n : Nat) (s : Bytes) : Bytes := if n = 0 then s else s.drop (s.length - n)

/-- `s[:-4]`. -/
def dropLast4 (s : Bytes) : Bytes := s.take (s.length - 4)

/-- `utils.choplist(2, ·)`. -/
def chop2 {α : Type} : List α → List (α × α)
  | a :: b :: rest => (a, b) :: chop2 rest
  | _ => []

/-- `utils.choplist(3, ·)`. -/
def chop3 {α : Type} : List α → List (α × α × α)
  | a :: b :: c :: rest => (a, b, c) :: chop3 rest
  | _ => []

/-- The `for i in range(end - start + 1)` loop of `endbfrange` / `endcidrange`: entry `i` is
`prefix + struct.pack(">L", base + i)[-vlen:]` added under `key0 + i`. -/
def rangeLoop (pfx : Bytes) (base vlen : Nat) (key0 : Int) : Nat → Nat → UMap → Except Err UMap
  | 0, _, m => .ok m
  | n + 1, i, m =>
    match pack32 (base + i) with
    | .error e => .error e
    | .ok p => rangeLoop pfx base vlen key0 n (i + 1) (umapPut m (key0 + i) (utf16Ignore (pfx ++ takeLast vlen p)))

/-- `zip(range(start, end + 1), code)` loop of the array form. -/
def arrLoop : Nat → Int → List AElem → UMap → Except Err UMap
  | 0, _, _, m => .ok m
  | _, _, [], m => .ok m
  | n + 1, k, v :: vs, m =>
    match addCid m k v with
    | .error e => .error e
    | .ok m' => arrLoop n (k + 1) vs m'

def bfrangeEntry (m : UMap) : Tok × Tok × Tok → Except Err UMap
  | (.str s, .str e, code) =>
    if s.length ≠ e.length then .ok m else
    let start := nunpack s
    let stop := nunpack e
    match code with
    | .arr xs => arrLoop (stop + 1 - start) start xs m
    | .str c =>
      let var := takeLast 4 c
      rangeLoop (dropLast4 c) (nunpack var) var.length start (stop + 1 - start) 0 m
    | _ => .error .assertionError
  | _ => .ok m

def bfcharEntry (m : UMap) : Tok × Tok → Except Err UMap
  | (.str cid, .str code) => addCid m (nunpack cid) (.str code)
  | _ => .ok m

def cidcharEntry (m : UMap) : Tok × Tok → Except Err UMap
  | (.int cid, .str code) => addCid m cid (.str code)
  | _ => .ok m

def cidrangeEntry (m : UMap) : Tok × Tok × Tok → Except Err UMap
  | (.str s, .str e, .int cid) =>
    if s.length ≠ e.length then .ok m else
    if dropLast4 s ≠ dropLast4 e then .ok m else
    let svar := takeLast 4 s
    let evar := takeLast 4 e
    rangeLoop (dropLast4 s) (nunpack svar) svar.length cid (nunpack evar + 1 - nunpack svar) 0 m
  | _ => .ok m

def foldEntries {α : Type} (f : UMap → α → Except Err UMap) : List α → UMap → Except Err UMap
  | [], m => .ok m
  | x :: xs, m =>
    match f m x with
    | .error e => .error e
    | .ok m' => foldEntries f xs m'

structure PState where
  stack : List Tok        -- top of the stack first
  inCmap : Bool
  map : UMap

def PState.init : PState := { stack := [], inCmap := true, map := [] }

def popallKeywords : List String :=
  ["begincodespacerange", "endcodespacerange", "begincidrange", "begincidchar", "beginbfrange",
   "beginbfchar", "beginnotdefrange", "endnotdefrange"]

/-- `CMapParser.do_keyword`. -/
def doKeyword (st : PState) (k : String) : Except Err PState :=
  if k = "begincmap" then .ok { st with inCmap := true, stack := [] }
  else if k = "endcmap" then .ok { st with inCmap := false }
  else if !st.inCmap then .ok st
  -- `self.pop(2)` / `self.pop(1)` remove what is there; too few operands are tolerated (ValueError caught)
  else if k = "def" then .ok { st with stack := st.stack.drop 2 }
  else if k = "usecmap" then .ok { st with stack := st.stack.drop 1 }
  else if popallKeywords.contains k then .ok { st with stack := [] }
  else if k = "endcidrange" then
    match foldEntries cidrangeEntry (chop3 st.stack.reverse) st.map with
    | .ok m => .ok { st with stack := [], map := m }
    | .error e => .error e
  else if k = "endcidchar" then
    match foldEntries cidcharEntry (chop2 st.stack.reverse) st.map with
    | .ok m => .ok { st with stack := [], map := m }
    | .error e => .error e
  else if k = "endbfrange" then
    match foldEntries bfrangeEntry (chop3 st.stack.reverse) st.map with
    | .ok m => .ok { st with stack := [], map := m }
    | .error e => .error e
  else if k = "endbfchar" then
    match foldEntries bfcharEntry (chop2 st.stack.reverse) st.map with
    | .ok m => .ok { st with stack := [], map := m }
    | .error e => .error e
  else .ok { st with stack := .kw k :: st.stack }

/-- One iteration of `PSStackParser.nextobject` (tokens already grouped into objects). -/
def stepTok (st : PState) : Tok → Except Err PState
  | .kw k => doKeyword st k
  | t => .ok { st with stack := t :: st.stack }

def runToks : List Tok → PState → Except Err PState
  | [], st => .ok st
  | t :: ts, st =>
    match stepTok st t with
    | .error e => .error e
    | .ok st' => runToks ts st'

/-- `CMapParser(FileUnicodeMap(), stream).run()` followed by reading `cid2unichr`. -/
def parseToUnicode (toks : List Tok) : Except Err UMap :=
  match runToks toks PState.init with
  | .ok st => .ok st.map
  | .error e => .error e

/-! ## Width arrays -/

/-- A value stored in a width dictionary. -/
inductive WVal where
  | num (v : Rat)
  | other
deriving DecidableEq, Repr

/-- Element of a `W` / `W2` array after `resolve1`. -/
inductive WElem where
  | num (v : Rat) (isInt : Bool)
  | list (xs : List WVal)
  | other
deriving Repr

abbrev WMap := List (Rat × WVal)

/-- `for i, w in enumerate(v): widths[char1 + i] = w`. -/
def putList (char1 : Rat) : Nat → List WVal → WMap → WMap
  | _, [], m => m
  | i, w :: ws, m => putList char1 (i + 1) ws ((char1 + (i : Rat), w) :: m)

/-- `for i in range(c1, c2 + 1): widths[i] = w`. -/
def putRange {β : Type} (c1 : Int) (w : β) : Nat → Nat → List (Rat × β) → List (Rat × β)
  | 0, _, m => m
  | n + 1, i, m => putRange c1 w n (i + 1) ((((c1 + (i : Int) : Int) : Rat), w) :: m)

/-- Loop body of `get_widths`; state = (`widths`, `r`). -/
def widthsStep (st : WMap × List (Rat × Bool)) : WElem → WMap × List (Rat × Bool)
  | .list xs =>
    match st.2.getLast? with
    | some (c, _) => (putList c 0 xs st.1, [])
    | none => st
  | .num v isInt =>
    match st.2 with
    | [(c1, i1), (c2, i2)] =>
      if i1 ∧ i2 then
        -- `range(max(char1, 0), min(char2, MAX_CID) + 1)`
        (putRange (max c1.floor 0) (WVal.num v)
          (min c2.floor Gen.CIDFont.MAX_CID + 1 - max c1.floor 0).toNat 0 st.1, [])
      else (st.1, [])
    | r => (st.1, r ++ [(v, isInt)])
  | .other => st

/-- `pdffont.get_widths`. -/
def getWidths (seq : List WElem) : WMap := (seq.foldl widthsStep ([], [])).1

abbrev W2Map := List (Rat × (WVal × WVal × WVal))

def chop3W : List WVal → List (WVal × WVal × WVal)
  | a :: b :: c :: rest => (a, b, c) :: chop3W rest
  | _ => []

def isNum3 : WVal × WVal × WVal → Bool
  | (.num _, .num _, .num _) => true
  | _ => false

/-- `for i, (w, vx, vy) in enumerate(choplist(3, metrics))`: a triple with a non-number is skipped. -/
def putList2 (char1 : Rat) : Nat → List (WVal × WVal × WVal) → W2Map → W2Map
  | _, [], m => m
  | i, w :: ws, m => putList2 char1 (i + 1) ws (if isNum3 w then (char1 + (i : Rat), w) :: m else m)

/-- Loop body of `get_widths2` (a range whose ends are not both integers is skipped, ranges are clamped to
0..MAX_CID). -/
def widths2Step (st : W2Map × List (Rat × Bool)) : WElem → Except Err (W2Map × List (Rat × Bool))
  | .list xs =>
    match st.2.getLast? with
    | some (c, _) => .ok (putList2 c 0 (chop3W xs) st.1, [])
    | none => .ok st
  | .num v isInt =>
    match st.2 with
    | [(c1, i1), (c2, i2), (w, _), (vx, _)] =>
      if i1 ∧ i2 then
        .ok (putRange (max c1.floor 0) (WVal.num w, WVal.num vx, WVal.num v)
          (min c2.floor Gen.CIDFont.MAX_CID + 1 - max c1.floor 0).toNat 0 st.1, [])
      else .ok (st.1, [])
    | r => .ok (st.1, r ++ [(v, isInt)])
  | .other => .ok st

def getWidths2Aux : List WElem → W2Map × List (Rat × Bool) → Except Err W2Map
  | [], st => .ok st.1
  | e :: es, st =>
    match widths2Step st e with
    | .error err => .error err
    | .ok st' => getWidths2Aux es st'

/-- `pdffont.get_widths2`. -/
def getWidths2 (seq : List WElem) : Except Err W2Map := getWidths2Aux seq ([], [])

/-- `PDFFont.char_width(cid) / hscale` for a horizontal `PDFCIDFont`: the entry of `W`, else `DW`
(default from pdffont.py, regenerated). -/
def glyphWidth (widths : WMap) (dw : Option Rat) (cid : Nat) : Rat :=
  match widths.lookup (cid : Rat) with
  | some (.num v) => v
  | _ => dw.getD Gen.CIDFont.DW_DEFAULT

/-- The same for a vertical font: `w1y` of `W2`, else `DW2[1]`. -/
def glyphWidthV (widths : W2Map) (dw2 : Option (Rat × Rat)) (cid : Nat) : Rat :=
  match widths.lookup (cid : Rat) with
  | some (.num v, _, _) => v
  | _ => (dw2.getD Gen.CIDFont.DW2_DEFAULT).2

/-- `PDFCIDFont.char_disp(cid)` of a vertical font: the position vector `(vx, vy)` of the font's own `W2`
entry, else `default_disp = (None, DW2[0])`. -/
def glyphDispV (widths : W2Map) (dw2 : Option (Rat × Rat)) (cid : Nat) : Option Rat × Rat :=
  match widths.lookup (cid : Rat) with
  | some (_, .num vx, .num vy) => (some vx, vy)
  | _ => (none, (dw2.getD Gen.CIDFont.DW2_DEFAULT).1)

/-! ## `PDFCIDFont.__init__` glue: `cidcoding`, DW / DW2 validation, choice of the arrays by writing mode -/

/-- `str.isspace()` on the Latin-1 range (what `str.strip()` removes after `bytes.decode("latin1")`). -/
def isPySpace (c : UInt8) : Bool :=
  (9 ≤ c && c ≤ 13) || (28 ≤ c && c ≤ 32) || c == 0x85 || c == 0xA0

/-- `s.decode("latin1").strip()` (Latin-1 is byte-for-byte, so the model stays on bytes). -/
def pyStrip (s : Bytes) : Bytes := ((s.dropWhile isPySpace).reverse.dropWhile isPySpace).reverse

def unknownBytes : Bytes := [117, 110, 107, 110, 111, 119, 110]   -- b"unknown"

/-- `self.cidcoding = f"{registry.strip()}-{ordering.strip()}"` (separator regenerated from pdffont.py); `none` = the entry is absent or not a
string (`b"unknown"` is used). -/
def cidCoding (registry ordering : Option Bytes) : Bytes :=
  pyStrip (registry.getD unknownBytes) ++ Gen.CIDFont.CIDCODING_SEP ++ pyStrip (ordering.getD unknownBytes)

/-- `bytes.decode("latin1")`. -/
def latin1 (b : Bytes) : String := String.ofList (b.map (fun c => Char.ofNat c.toNat))

/-- Which CID → Unicode map `PDFCIDFont.__init__` picks, from the raw `CIDSystemInfo` entries (`none` = absent or
not a string): `"Identity" in cid_ordering` looks at the UNSTRIPPED ordering, the collection key is `cidcoding`. -/
def fontUnicodeMap (tu : ToUni) (registry ordering : Option Bytes) (encoding : String)
    (hasTTF cmapVertical shipped : Bool) : MapSel :=
  selectUnicodeMap tu (latin1 (ordering.getD unknownBytes)) (latin1 (cidCoding registry ordering)) encoding hasTTF
    cmapVertical shipped

/-- `default_width` of a horizontal font: `resolve1(spec.get("DW", 1000))`, replaced by the default when it
is not a number (`none` = absent). -/
def dwValue : Option WVal → Rat
  | some (.num v) => v
  | _ => Gen.CIDFont.DW_DEFAULT

/-- `(vy, w)` of a vertical font: `DW2` must be a list of exactly two numbers, else the default
(`none` = absent; a `DW2` that is not a list reads as the empty list). -/
def dw2Value : Option (List WVal) → Rat × Rat
  | some [.num vy, .num w] => (vy, w)
  | _ => Gen.CIDFont.DW2_DEFAULT

/-- `PDFCIDFont(spec).char_width(cid) / hscale`: the writing mode of the encoding CMap decides which pair of
entries (`W`/`DW` or `W2`/`DW2`) is read at all; arrays may be ill-formed, defaults ill-typed. -/
def cidCharWidth (vertical : Bool) (w : List WElem) (dw : Option WVal) (w2 : List WElem)
    (dw2 : Option (List WVal)) (cid : Nat) : Except Err Rat :=
  if vertical then
    match getWidths2 w2 with
    | .ok m => .ok (glyphWidthV m (some (dw2Value dw2)) cid)
    | .error e => .error e
  else .ok (glyphWidth (getWidths w) (some (dwValue dw)) cid)

/-- Result of `char_disp`: the integer 0 of a horizontal font, or a position vector. -/
inductive Disp where
  | zero
  | vec (vx : Option Rat) (vy : Rat)
deriving DecidableEq, Repr

/-- `PDFCIDFont(spec).char_disp(cid)`. -/
def cidCharDisp (vertical : Bool) (w2 : List WElem) (dw2 : Option (List WVal)) (cid : Nat) : Except Err Disp :=
  if vertical then
    match getWidths2 w2 with
    | .ok m => let d := glyphDispV m (some (dw2Value dw2)) cid; .ok (.vec d.1 d.2)
    | .error e => .error e
  else .ok .zero

/-! ## `PDFCIDFont.to_unichr` with a ToUnicode stream, text of a shown string -/

/-- `self.unicode_map.get_unichr(cid)` on the parsed ToUnicode map: the map is consulted with the **CID**
(`none` = `PDFUnicodeNotDefined`, rendered as `(cid:N)`). -/
def toUnichr (m : UMap) (cid : Nat) : Option (List Nat) := m.lookup (cid : Int)

/-- Text of the glyphs of a shown string: `font.decode(s)` (the encoding CMap), then `to_unichr` per CID. -/
def shownText (decode : Bytes → List Nat) (m : UMap) (s : Bytes) : List (Option (List Nat)) :=
  (decode s).map (toUnichr m)

/-! ## Pen movement of `render_string_horizontal / _vertical` (multibyte font, `Tc = 0`, `Tz = 100`) -/

inductive SeqItem where
  | num (n : Rat)
  | cids (cs : List Nat)
deriving Repr

structure Glyph where
  cid : Nat
  x : Rat
  y : Rat
  adv : Rat
deriving Repr

/-- Inner loop over the cids of one string; `width` is in glyph units (1/1000). -/
def showCids (vertical : Bool) (fs : Rat) (width : Nat → Rat) : List Nat → Rat × Rat → List Glyph × (Rat × Rat)
  | [], pos => ([], pos)
  | c :: cs, (x, y) =>
    let adv := width c * (1 / 1000) * fs
    let pos' := if vertical then (x, y + adv) else (x + adv, y)
    let (gs, fin) := showCids vertical fs width cs pos'
    ({ cid := c, x := x, y := y, adv := adv } :: gs, fin)

def renderSeq (vertical : Bool) (fs : Rat) (width : Nat → Rat) : List SeqItem → Rat × Rat → List Glyph × (Rat × Rat)
  | [], pos => ([], pos)
  | .num n :: rest, (x, y) =>
    let d := n * ((1 / 1000) * fs)
    renderSeq vertical fs width rest (if vertical then (x, y - d) else (x - d, y))
  | .cids cs :: rest, pos =>
    let (g1, p1) := showCids vertical fs width cs pos
    let (g2, p2) := renderSeq vertical fs width rest p1
    (g1 ++ g2, p2)

/-! ## Pen movement under a non-default text state (`PDFTextDevice.render_string`) -/

/-- Character spacing Tc, word spacing Tw, horizontal scaling Th = Tz / 100. -/
structure TState where
  tc : Rat
  tw : Rat
  th : Rat
deriving Repr

/-- The `wordspace` that `render_string` hands to `render_string_horizontal/_vertical`: `Tw * Th`, zeroed for a
multibyte font (the guard is regenerated from pdfdevice.py). -/
def wordspaceOf (multibyte : Bool) (ts : TState) : Rat :=
  if multibyte && Gen.CIDFont.MULTIBYTE_ZEROES_WORDSPACE then 0 else ts.tw * ts.th

/-- Pen displacement after the glyph of cid `c` (`x += adv; x += charspace; if cid == 32 and wordspace: x += wordspace`);
horizontal: everything scaled by Th; vertical: advance and Tc unscaled. -/
def penStep (vertical multibyte : Bool) (fs : Rat) (ts : TState) (width : Nat → Rat) (c : Nat) : Rat :=
  let ws := if c = 32 then wordspaceOf multibyte ts else 0
  if vertical then width c * (1 / 1000) * fs + ts.tc + ws
  else width c * (1 / 1000) * fs * ts.th + ts.tc * ts.th + ws

/-- Pen after showing the cids of one string. -/
def penAfter (vertical multibyte : Bool) (fs : Rat) (ts : TState) (width : Nat → Rat) : List Nat → Rat → Rat
  | [], p => p
  | c :: cs, p => penAfter vertical multibyte fs ts width cs (p + penStep vertical multibyte fs ts width c)

end PdfVerif.CIDFont
