/-
Executable model of `psparser.PSStackParser.nextobject` with `pdfparser.PDFStreamParser`
(`do_keyword`, `flush`), fed with the token sequence of the lexer model; non-strict mode
(`settings.STRICT = False`, the default).

`feed` handles one token exactly like one iteration of the `while not self.results` loop; since
`PDFStreamParser.flush` moves the operand stack to `results` whenever no array / dictionary /
procedure is open — holding back up to two trailing integers, which may still become the `n g`
of a top-level `n g R` and are handed out at PSEOF (`finish`) — the objects `nextobject()` returns
one by one are the `results` in order.  An exception that escapes from `nextobject` ends the sequence (`error`).

Python operations that are not modelled (they need `str()` / `int()` of arbitrary objects) give
`error "unmodelled"`; the harness does not claim the tie on those inputs: a dictionary key
that is not a name, `R` after a string or a real number.
-/
import PdfVerif.Model.Lexer

namespace PdfVerif.StackParser
open PdfVerif PdfVerif.Lexer

/-- What can sit on the operand stack (positions are dropped: they are not part of the value). -/
inductive SObj where
  | null
  | bool (b : Bool)
  | int (v : Int)
  | real (text : Bytes)
  | str (s : Bytes)
  | lit (name : Bytes)
  | kwd (name : Bytes)
  | arr (items : List SObj)           -- Python list: array or procedure
  | dict (entries : List (Bytes × SObj))   -- Python dict in insertion order
  | ref (objid : Int)
  | stream (attrs : List (Bytes × SObj)) (data : Bytes)   -- PDFStream(attrs, rawdata)
  deriving Repr, Inhabited

inductive Ctx where
  | a | d | p
  deriving DecidableEq, Repr

structure PState where
  context : List (Option Ctx × List SObj) := []   -- (curtype, curstack) saved by start_type
  curtype : Option Ctx := none
  curstack : List SObj := []
  results : List SObj := []
  error : Option String := none                    -- an exception escaped from nextobject
  deriving Repr, Inhabited

def isNullS : SObj → Bool
  | .null => true
  | _ => false

/-- `d[k] = v` on an insertion-ordered dict -/
def dictSet (k : Bytes) (v : SObj) : List (Bytes × SObj) → List (Bytes × SObj)
  | [] => [(k, v)]
  | (k', v') :: r => if k' == k then (k, v) :: r else (k', v') :: dictSet k v r

/-- Is `bs` valid UTF-8 as Python's strict decoder sees it (no overlong forms, no surrogates,
    at most U+10FFFF)?  `literal_name` returns the decoded text for such names only. -/
def utf8Valid : Bytes → Bool
  | [] => true
  | a :: r =>
    if a < 0x80 then utf8Valid r
    else if 0xC2 ≤ a && a ≤ 0xDF then
      match r with
      | b :: r' => (0x80 ≤ b && b ≤ 0xBF) && utf8Valid r'
      | _ => false
    else if 0xE0 ≤ a && a ≤ 0xEF then
      match r with
      | b :: c :: r' =>
        let lo : UInt8 := if a == 0xE0 then 0xA0 else 0x80
        let hi : UInt8 := if a == 0xED then 0x9F else 0xBF
        (lo ≤ b && b ≤ hi) && (0x80 ≤ c && c ≤ 0xBF) && utf8Valid r'
      | _ => false
    else if 0xF0 ≤ a && a ≤ 0xF4 then
      match r with
      | b :: c :: d :: r' =>
        let lo : UInt8 := if a == 0xF0 then 0x90 else 0x80
        let hi : UInt8 := if a == 0xF4 then 0x8F else 0xBF
        (lo ≤ b && b ≤ hi) && (0x80 ≤ c && c ≤ 0xBF) && (0x80 ≤ d && d ≤ 0xBF) && utf8Valid r'
      | _ => false
    else false

/-- `{literal_name(k): v for (k, v) in choplist(2, objs) if v is not None}`;
    `none` = a key that is not a name, or a name that is not UTF-8 (`literal_name` then returns the
    `repr` of the bytes) — not modelled. -/
def buildDict : List SObj → List (Bytes × SObj) → Option (List (Bytes × SObj))
  | [], acc => some acc
  | [_], acc => some acc                 -- unreachable: the length is even
  | .lit k :: v :: r, acc =>
    if utf8Valid k then buildDict r (if isNullS v then acc else dictSet k v acc) else none
  | _ :: _ :: _, _ => none

def push (st : PState) (o : SObj) : PState := { st with curstack := st.curstack ++ [o] }

def startType (st : PState) (t : Ctx) : PState :=
  { st with context := (st.curtype, st.curstack) :: st.context, curtype := some t, curstack := [] }

/-- `end_type`: `none` = PSTypeError (caught by the caller in non-strict mode, nothing changes). -/
def endType (st : PState) (t : Ctx) : Option (List SObj × PState) :=
  if st.curtype != some t then none else
  match st.context with
  | [] => none       -- IndexError is not reachable: curtype is only set together with a saved context
  | (ct, cs) :: rest => some (st.curstack, { st with context := rest, curtype := ct, curstack := cs })

def kwR : Bytes := [82]
def kwNull : Bytes := [110, 117, 108, 108]
def kwObj : Bytes := [111, 98, 106]
def kwEndobj : Bytes := [101, 110, 100, 111, 98, 106]

/-- `PDFStreamParser.do_keyword`. -/
def doKeyword (st : PState) (name : Bytes) : PState :=
  if name == kwR then
    -- (_, _object_id), _ = self.pop(2)
    let n := st.curstack.length
    if n < 2 then st else                       -- `if len(self.curstack) >= 2:` — otherwise nothing happens
    let st' := { st with curstack := st.curstack.take (n - 2) }
    match st.curstack.drop (n - 2) with
    | [.int v, _] => push st' (.ref v)
    | [.bool b, _] => push st' (.ref (if b then 1 else 0))
    | [.real _, _] => { st' with error := some "unmodelled" }
    | [.str _, _] => { st' with error := some "unmodelled" }
    | _ => st'                                   -- safe_int gives None: nothing is pushed
  else if name == kwNull then push st .null
  else if name == kwObj || name == kwEndobj then st
  else push st (.kwd name)

def kwXref : Bytes := [120, 114, 101, 102]
def kwStartxref : Bytes := [115, 116, 97, 114, 116, 120, 114, 101, 102]
def kwStream : Bytes := [115, 116, 114, 101, 97, 109]

/-- `self.add_results(*self.pop(k))` -/
def popToResults (st : PState) (k : Nat) : PState :=
  let n := st.curstack.length
  { st with curstack := st.curstack.take (n - k), results := st.results ++ st.curstack.drop (n - k) }

/-- `PDFParser.do_keyword` (the reader behind `PDFDocument.getobj`).  The `stream` keyword needs the
    bytes of the file (`Model/ObjParser.lean` handles it before calling this function). -/
def doKeywordP (st : PState) (name : Bytes) : PState :=
  if name == kwXref || name == kwStartxref then popToResults st 1
  else if name == kwEndobj then popToResults st 4
  else if name == kwNull then push st .null
  else if name == kwR then
    let n := st.curstack.length
    if n < 2 then st else
    let st' := { st with curstack := st.curstack.take (n - 2) }
    match st.curstack.drop (n - 2) with
    | [.int v, _] => push st' (.ref v)
    | [.bool b, _] => push st' (.ref (if b then 1 else 0))
    | [.real _, _] => { st' with error := some "unmodelled" }
    | [.str _, _] => { st' with error := some "unmodelled" }
    | _ => st'
  else if name == kwStream then { st with error := some "unmodelled" }
  else push st (.kwd name)

/-- The two subclasses of PSStackParser that read PDF objects differ in `do_keyword` and in `flush`. -/
structure Dialect where
  doKeyword : PState → Bytes → PState
  flushes : Bool        -- `flush()` moves the operand stack to `results` whenever no container is open

def streamDialect : Dialect := ⟨doKeyword, true⟩      -- PDFStreamParser
def objDialect : Dialect := ⟨doKeywordP, false⟩        -- PDFParser (PSStackParser.flush does nothing)

/-- how many trailing integers `PDFStreamParser.flush` holds back (at most two; `type(x) is int`, so
    booleans do not count): they may be the `n g` of a top-level `n g R` -/
def heldCount (cs : List SObj) : Nat :=
  match cs.reverse with
  | .int _ :: .int _ :: _ => 2
  | .int _ :: _ => 1
  | _ => 0

/-- `PDFStreamParser.flush`: everything but the held-back integers goes to `results` -/
def flushHold (st : PState) : PState :=
  let k := st.curstack.length - heldCount st.curstack
  { st with results := st.results ++ st.curstack.take k, curstack := st.curstack.drop k }

/-- One iteration of the loop of `PSStackParser.nextobject` for one token. -/
def feedWith (D : Dialect) (st : PState) (tok : Token) : PState :=
  if st.error.isSome then st else
  let st1 : PState :=
    match tok with
    | .int v => push st (.int v)
    | .real t => push st (.real t)
    | .bool b => push st (.bool b)
    | .str s => push st (.str s)
    | .lit n => push st (.lit n)
    | .err k => { st with error := some k }
    | .kwd name =>
      if name == [91] then startType st .a
      else if name == [93] then
        match endType st .a with
        | some (objs, st') => push st' (.arr objs)
        | none => st
      else if name == [60, 60] then startType st .d
      else if name == [62, 62] then
        match endType st .d with
        | some (objs, st') =>
          if objs.length % 2 != 0 then { st' with error := some "PSSyntaxError" }
          else
            match buildDict objs [] with
            | some d => push st' (.dict d)
            | none => { st' with error := some "unmodelled" }
        | none => st
      else if name == [123] then startType st .p
      else if name == [125] then
        match endType st .p with
        | some (objs, st') => push st' (.arr objs)
        | none => st
      else D.doKeyword st name
  if st1.error.isSome then st1
  else if st1.context.isEmpty && D.flushes then flushHold st1
  else st1

def feedAllWith (D : Dialect) (st : PState) (toks : List Token) : PState := toks.foldl (feedWith D) st

/-- PDFStreamParser -/
def feed (st : PState) (tok : Token) : PState := feedWith streamDialect st tok
def feedAll (st : PState) (toks : List Token) : PState := feedAllWith streamDialect st toks

/-- `PDFStreamParser.nextobject` at PSEOF: integers held back by `flush` were objects after all
    (unless a container is still open or an exception ended the sequence before). -/
def finish (st : PState) : PState :=
  if st.error.isSome || !st.context.isEmpty then st
  else { st with results := st.results ++ st.curstack, curstack := [] }

/-- Objects `PDFStreamParser(data).nextobject()` returns until PSEOF or an exception. -/
def objects (toks : List PTok) : PState := finish (feedAll {} (toks.map (·.2)))

/-! ### `PDFDocument._getobj_parse` / `getobj` for an object found through a cross-reference table -/

/-- `PSStackParser.nextobject` of PDFParser: feed tokens until `results` is not empty; the first result
    is returned.  `none` = the tokens ran out (PSEOF). -/
def nextobjectP : PState → List Token → Option PState
  | st, [] => if st.error.isSome || !st.results.isEmpty then some st else none
  | st, t :: r =>
    if st.error.isSome || !st.results.isEmpty then some st
    else nextobjectP (feedWith objDialect st t) r

inductive GetObj where
  | ok (o : SObj)
  | notFound            -- PSEOF / PDFSyntaxError inside getobj: the next xref is tried, then PDFObjectNotFound
  | raised (e : String)
  deriving Repr

/-- `getobj(objid)` on the tokens found at the object's offset: `objid gen obj <object> endobj`.
    A first token that is not the integer `objid` (pdfminer then searches for the next `obj`
    keyword) is not modelled. -/
def getobjToks (objid : Int) (toks : List Token) : GetObj :=
  match toks with
  | t1 :: _ :: t3 :: rest =>
    match t1 with
    | .int n =>
      if n != objid then .raised "unmodelled"
      else if t3 != Token.kwd kwObj then .notFound
      else
        match nextobjectP {} rest with
        | none => .notFound
        | some st =>
          match st.error with
          | some e => .raised e
          | none =>
            match st.results with
            | o :: _ => .ok o
            | [] => .notFound
    | _ => .raised "unmodelled"
  | _ => .notFound

/-! ### canonical text form (same as `Syntax.Obj.show`; reals as exact `p/q` of the decimal text) -/

def decimalNat (ds : Bytes) : Nat := ds.foldl (fun acc c => acc * 10 + (c.toNat - 48)) 0

/-- exact value of a token `[+-]?d*.d*` -/
def realValue (t : Bytes) : Rat :=
  let (neg, body) := match t with
    | 45 :: r => (true, r)
    | 43 :: r => (false, r)
    | r => (false, r)
  let ip := body.takeWhile Lexer.isDigit
  let fp := (body.dropWhile Lexer.isDigit).drop 1
  let q : Rat := ((decimalNat (ip ++ fp) : Nat) : Rat) / ((10 ^ fp.length : Nat) : Rat)
  if neg then -q else q

def bytesLt : Bytes → Bytes → Bool
  | [], [] => false
  | [], _ :: _ => true
  | _ :: _, [] => false
  | a :: s, b :: t => a < b || (a == b && bytesLt s t)

def insertSorted (e : Bytes × String) : List (Bytes × String) → List (Bytes × String)
  | [] => [e]
  | x :: r => if bytesLt e.1 x.1 then e :: x :: r else x :: insertSorted e r

mutual
def SObj.show : SObj → String
  | .null => "null"
  | .bool b => if b then "b:1" else "b:0"
  | .int v => "i:" ++ toString v
  | .real t => "r:" ++ ratToString (realValue t)
  | .str s => "s:" ++ hexOrDash s
  | .lit n => "n:" ++ hexOrDash n
  | .kwd n => "k:" ++ hexOrDash n
  | .arr items => "[ " ++ showItems items ++ "]"
  | .dict es => "<< " ++ String.join ((showEntries es).map (fun e => "n:" ++ hexOrDash e.1 ++ " " ++ e.2 ++ " ")) ++ ">>"
  | .ref n => "R:" ++ toString n
  | .stream es d => "S:<< " ++ String.join ((showEntries es).map (fun e => "n:" ++ hexOrDash e.1 ++ " " ++ e.2 ++ " ")) ++ ">> " ++ hexOrDash d

def showItems : List SObj → String
  | [] => ""
  | o :: r => o.show ++ " " ++ showItems r

def showEntries : List (Bytes × SObj) → List (Bytes × String)
  | [] => []
  | (k, v) :: r => insertSorted (k, v.show) (showEntries r)
end

def GetObj.show : GetObj → String
  | .ok o => o.show
  | .notFound => "!PDFObjectNotFound"
  | .raised e => "!" ++ e

def showState (st : PState) : String :=
  let objs := st.results.map SObj.show
  let all := match st.error with
    | some e => objs ++ ["!" ++ e]
    | none => objs
  if all.isEmpty then "<nothing>" else " | ".intercalate all

end PdfVerif.StackParser
