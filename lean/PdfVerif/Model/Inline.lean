/-
Model of `PDFContentParser.get_inline_data` (pdfminer/pdfinterp.py): the scanner that finds the end
of inline image data.  The Python code works on buffers (`self.buf`, `fillbuf`); its observable
behaviour is a byte automaton with state `i` = number of characters of `target` matched so far:

    i = 0          : copy bytes up to and including the next `target[0]`, then i = 1
    0 < i < len    : next byte == target[i] → i+1, otherwise i = 0   (no restart on target[0]!)
    i = len        : next byte is white space → i+1 (stop), otherwise i = 0
    end of input   : with i = len the marker ends the content (after the `fix:`), otherwise PSEOF

Afterwards `target` and the white-space byte are cut off and exactly one trailing EOL
(CR LF | CR | LF) is removed.
-/
import PdfVerif.Model.Prelude

namespace PdfVerif.Inline
open PdfVerif

/-- `bytes.isspace()` for one byte. -/
def isSpace (c : UInt8) : Bool :=
  c == 32 || c == 9 || c == 10 || c == 13 || c == 11 || c == 12

/-- One step of the automaton. -/
def step (target : Bytes) (i : Nat) (c : UInt8) : Nat :=
  if i = 0 then (if target.head? = some c then 1 else 0)
  else if (target.length ≤ i ∧ isSpace c) ∨ (i < target.length ∧ target[i]? = some c) then i + 1
  else 0

/-- Number of bytes consumed until the automaton stops, and whether it stopped at end of input. -/
def scan (target : Bytes) : Nat → Bytes → Nat → Option (Nat × Bool)
  | i, [], n => if i = target.length then some (n, true) else none
  | i, c :: cs, n =>
    let i' := step target i c
    if i' > target.length then some (n + 1, false) else scan target i' cs (n + 1)

/-- `re.sub(rb"(\r\n|[\r\n])\Z", b"", data)` on the reversed list. -/
def stripEolRev : Bytes → Bytes
  | 10 :: 13 :: rest => rest
  | 10 :: rest => rest
  | 13 :: rest => rest
  | rest => rest

def stripEol (d : Bytes) : Bytes := (stripEolRev d.reverse).reverse

/-- `get_inline_data(pos, target, length)` on the bytes from `pos` on: (data, bytes consumed) or
    `none` = PSEOF.  With `length = some n` (the size of an unfiltered image computed from its
    dictionary) and exactly one end-of-line after the first `n` bytes, the data is those `n` bytes;
    otherwise one trailing end-of-line is stripped. -/
def getInlineDataLen (target : Bytes) (length : Option Nat) (input : Bytes) : Option (Bytes × Nat) :=
  match scan target 0 input 0 with
  | none => none
  | some (n, atEof) =>
    let raw := input.take n
    let cut := target.length + (if atEof then 0 else 1)
    let body := raw.take (raw.length - cut)
    match length with
    | some len =>
      let tail := body.drop len
      if tail = [10] ∨ tail = [13, 10] ∨ tail = [13] then some (body.take len, n)
      else some (stripEol body, n)
    | none => some (stripEol body, n)

/-- `get_inline_data(pos, target)` without a size hint. -/
def getInlineData (target : Bytes) (input : Bytes) : Option (Bytes × Nat) :=
  getInlineDataLen target none input

end PdfVerif.Inline
