/-
C17 — executable model of `PDFDocument.get_outlines.search` (pdfminer/pdfdocument.py).

An outline dictionary is modelled with its `First` and `Next` links unfolded (the code reaches
them through `dict_value`, so direct and indirect entries behave alike); `nil` stands for an
absent link.  Finite terms = acyclic outlines.  Destinations, actions and structure elements
are opaque values (numbers handed out by the harness).
-/
import PdfVerif.Model.Labels

namespace PdfVerif.Outline
open PdfVerif PdfVerif.Labels

/-- The entries of one outline dictionary that `search` looks at. -/
structure Info where
  title : Option Bytes := none   -- /Title
  dest : Option Nat := none      -- /Dest
  a : Option Nat := none         -- /A
  se : Option Nat := none        -- /SE
  deriving DecidableEq, Repr

inductive Entry where
  | nil
  | mk (info : Info) (first : Entry) (hasLast : Bool) (next : Entry)

/-- One yielded tuple `(level, title, dest, action, se)`. -/
structure Item where
  level : Nat
  title : Text
  dest : Option Nat
  a : Option Nat
  se : Option Nat
  deriving DecidableEq, Repr

/-- `if "Title" in entry: if "A" in entry or "Dest" in entry: yield …` -/
def visible (level : Nat) (i : Info) : List Item :=
  match i.title with
  | some t => if i.a.isSome || i.dest.isSome then [⟨level, decodeText t, i.dest, i.a, i.se⟩] else []
  | none => []

/-- `search(entry, level)`: the entry itself, then `First` one level deeper (only when `Last`
is present as well), then `Next` on the same level. -/
def search : Entry → Nat → List Item
  | .nil, _ => []
  | .mk info first hasLast next, level =>
    visible level info
      ++ (if hasLast then search first (level + 1) else [])
      ++ search next level

/-- `get_outlines()` given the catalog's `Outlines` dictionary. -/
def getOutlines (root : Entry) : List Item := search root 0

end PdfVerif.Outline
