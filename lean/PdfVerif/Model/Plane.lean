/-
Hand model of `pdfminer.utils.Plane` (utils.py), over exact rationals.
`drange` is NOT modelled here: it is the definition regenerated from the Python
source (`PdfVerif.Gen.Utils.drange`).

Python identity of objects is modelled by a numeric `id`; `_objs` (a set) is a
duplicate-free list of ids; `_grid` (a dict of lists, missing key = no list) is one
flat list of `(cell, object)` pairs in insertion order: the list stored under cell
`k` is the sub-list of pairs whose first component is `k` (`cell`).
-/
import PdfVerif.Model.Prelude
import PdfVerif.Gen.Utils

namespace PdfVerif.Plane
open PdfVerif PdfVerif.Gen.Utils

structure PObj where
  id : Nat
  x0 : Rat
  y0 : Rat
  x1 : Rat
  y1 : Rat
deriving DecidableEq, Repr

abbrev Key := Int × Int

structure Plane where
  seq : List PObj                 -- `_seq`
  objs : List Nat                 -- `_objs`
  grid : List (Key × PObj)        -- `_grid`
  big : List PObj                 -- `_big`: objects covering more than MAXCELLS cells
  gridsize : Int
  x0 : Rat
  y0 : Rat
  x1 : Rat
  y1 : Rat

def init (bbox : Rect) (gridsize : Int) : Plane :=
  let (x0, y0, x1, y1) := bbox
  { seq := [], objs := [], grid := [], big := [], gridsize := gridsize,
    x0 := x0, y0 := y0, x1 := x1, y1 := y1 }

/-- `Plane._getrange`: the grid cells a box is filed under / looked up in. -/
def getrange (p : Plane) (bbox : Rect) : List Key :=
  -- the clamping to the plane bounds is the regenerated `plane_clamp` (body of `Plane._granges`)
  let (x0, y0, x1, y1) := plane_clamp p.x0 p.y0 p.x1 p.y1 bbox
  (drange y0 y1 p.gridsize).flatMap fun gy =>
    (drange x0 x1 p.gridsize).map fun gx => (gx, gy)

/-- `self._grid[k]` (empty when the key is missing). -/
def cell (g : List (Key × PObj)) (k : Key) : List PObj :=
  (g.filter (fun e => e.1 = k)).map (fun e => e.2)

def bboxOf (o : PObj) : Rect := (o.x0, o.y0, o.x1, o.y1)

/-- `xr.start` / `xr.stop` of `drange(v0, v1, d)` (see `Lemmas/Plane.lean: drange_bounds`). -/
def rStart (v0 : Rat) (d : Int) : Int := pyDiv (pyFloor v0) d
def rStop (v1 : Rat) (d : Int) : Int := pyDiv (pyFloor (v1 + ((d : Int) : Rat))) d

/-- `nx * ny` of `Plane._cells`: how many grid cells the (clamped) box covers, computed from the range
bounds without enumerating the cells. -/
def cellCount (p : Plane) (bbox : Rect) : Nat :=
  let (x0, y0, x1, y1) := bbox
  let x0 := min (max p.x0 x0) p.x1
  let y0 := min (max p.y0 y0) p.y1
  let x1 := max (min p.x1 x1) p.x0
  let y1 := max (min p.y1 y1) p.y0
  (rStop x1 p.gridsize - rStart x0 p.gridsize).toNat * (rStop y1 p.gridsize - rStart y0 p.gridsize).toNat

/-- `Plane._cells`: the cells of a box, or `none` when there are more than `MAXCELLS`. -/
def cells? (p : Plane) (bbox : Rect) : Option (List Key) :=
  -- `nx`, `ny` and the comparison with `MAXCELLS` are the regenerated `plane_cells_over`
  let (x0, y0, x1, y1) := plane_clamp p.x0 p.y0 p.x1 p.y1 bbox
  if plane_cells_over (rStart x0 p.gridsize) (rStop x1 p.gridsize) (rStart y0 p.gridsize) (rStop y1 p.gridsize)
  then none else some (getrange p bbox)

/-- `Plane.add`, the insertion proper (the method after its two guards, see `addPy`): an object covering more
than `MAXCELLS` cells goes to `_big`, the others into the grid. -/
def add (p : Plane) (o : PObj) : Plane :=
  let p' : Plane :=
    match cells? p (bboxOf o) with
    | none => { p with big := p.big ++ [o] }
    | some ks => { p with grid := ks.foldl (fun g k => g ++ [(k, o)]) p.grid }
  { p' with
    seq := p.seq ++ [o],
    objs := if o.id ∈ p.objs then p.objs else p.objs ++ [o.id] }

/-- `Plane.remove`.  The grid lists (or `_big`) are edited first, then `set.remove` runs;
`false` models its `KeyError` for an object that is not live (the edits stay). -/
def remove (p : Plane) (o : PObj) : Plane × Bool :=
  let p' : Plane :=
    match cells? p (bboxOf o) with
    | none => { p with big := p.big.erase o }
    | some ks => { p with grid := ks.foldl (fun g k => g.erase (k, o)) p.grid }
  if o.id ∈ p.objs then ({ p' with objs := p.objs.erase o.id }, true)
  else (p', false)

/-- The overlap test at the end of `Plane.find` (negated `continue` condition).  Kept in this unfolded form
because the layout lemmas of C09 unfold it; tied to the regenerated condition `plane_find_skip` by
`Lemmas/Plane.lean: overlaps_eq_not_skip` (a `rfl` that an edit of the Python condition breaks). -/
def overlaps (o : PObj) (q : Rect) : Bool :=
  let (x0, y0, x1, y1) := q
  !(decide (o.x1 ≤ x0) || decide (x1 ≤ o.x0) || decide (o.y1 ≤ y0) || decide (y1 ≤ o.y0))

/-- First-occurrence de-duplication (the `done` set of `find`). -/
def dedup : List PObj → List PObj
  | [] => []
  | o :: rest => o :: (dedup rest).filter (fun o' => o' ≠ o)

/-- `self._order[obj]`: the length of `_seq` right after the latest `add(obj)` (0: never added). -/
def rankIn : List PObj → PObj → Nat → Nat → Nat
  | [], _, _, acc => acc
  | x :: rest, o, i, acc => rankIn rest o (i + 1) (if x = o then i + 1 else acc)

def rank (p : Plane) (o : PObj) : Nat := rankIn p.seq o 0 0

/-- Stable insertion sort by a numeric key (`list.sort(key=…)`; structural, so that the kernel can
evaluate it). -/
def insertByKey (key : PObj → Nat) (x : PObj) : List PObj → List PObj
  | [] => [x]
  | y :: ys => if key x ≤ key y then x :: y :: ys else y :: insertByKey key x ys

def sortByKey (key : PObj → Nat) : List PObj → List PObj
  | [] => []
  | x :: xs => insertByKey key x (sortByKey key xs)

/-- `Plane.__iter__`. -/
def iter (p : Plane) : List PObj :=
  p.seq.filter (fun o => o.id ∈ p.objs)

/-- `Plane.__contains__`: membership in the set `_objs` (Python identity = the numeric `id`). -/
def contains (p : Plane) (o : PObj) : Bool := decide (o.id ∈ p.objs)

/-- `Plane.__len__`: `len(self._objs)`. -/
def len (p : Plane) : Nat := p.objs.length

/-- The re-add path of `Plane.add`: the stale entry of an object that was added before (and removed since)
is dropped from `_seq`; `_order` is rebuilt as the 1-based position in `_seq` (which is what `rank` computes). -/
def forget (p : Plane) (o : PObj) : Plane := { p with seq := p.seq.erase o }

/-- The whole of `Plane.add` (since the repair of duplicates): a no-op for an object that is already in the
index; an object that was added before is first forgotten (`obj in self._order` = it still has an entry in
`_seq`); then the insertion proper (`add`, the rest of the method - it is what the layout model of C09
calls, always with fresh objects, where `addPy = add`: `addPy_fresh`). -/
def addPy (p : Plane) (o : PObj) : Plane :=
  if o.id ∈ p.objs then p
  else add (if o ∈ p.seq then forget p o else p) o

/-- `Plane.extend`: `add` for every object, in order. -/
def extend (p : Plane) (os : List PObj) : Plane := os.foldl addPy p

/-- The candidates `find` looks at (`found` before it is sorted): the cells of the query plus `_big`, or -
for a query over more than `MAXCELLS` cells - every live object; de-duplicated, overlap-filtered. -/
def findScan (p : Plane) (q : Rect) : List PObj :=
  let cands :=
    match cells? p q with
    | none => iter p
    | some ks => ks.flatMap (cell p.grid) ++ p.big
  (dedup cands).filter (fun o => overlaps o q)

/-- Number of grid cells an operation on box `b` enumerates. -/
def cellsTouched (p : Plane) (b : Rect) : Nat :=
  match cells? p b with
  | none => 0
  | some ks => ks.length

/-- `Plane.find`: the objects found in the cells, reported in insertion order. -/
def find (p : Plane) (q : Rect) : List PObj :=
  sortByKey (rank p) (findScan p q)

/-- Brute-force specification of `find`: live objects that properly overlap. -/
def findSpec (p : Plane) (q : Rect) : List PObj :=
  (iter p).filter (fun o => overlaps o q)

end PdfVerif.Plane
