/-
Hand model of the path machinery of pdfminer.six (after the `fix:` commits of C16):

  pdfinterp.PDFPageInterpreter.execute          operand stack, `nargs` dispatch            (`execute`, `doOp`)
  do_m l c v y h re, S s f F f* B B* b b* n, W W*, w d J j M i ri gs,
  g G rg RG k K cs CS sc scn SC SCN, q Q cm                                              (`call`)
  converter.PDFLayoutAnalyzer.paint_path        implicit m after h, split at m, points,
                                                redundant closing l, line/rect/curve      (`paintPath`, `paintSingle`)
  layout.LTCurve / LTLine / LTRect              pts, bbox (`get_bound`)                    (`mkCurve`, `mkLine`, `mkRect`)

Regenerated from the Python source (Gen/PathsGen.lean): `apply_matrix_pt`, `mult_matrix`,
`PREDEFINED_COLORSPACE`, `opNargs`, `paintOps`, `rePath`, `pageCtm`, and the straight-line tests of
`paint_path` (`lineShapes`, `rectShapes`, `redundant*`, `has_square_coordinates`, `closedLoopPts`, `rectCorners`, ...).
Numbers are exact rationals (the harness only feeds dyadic values on which float arithmetic is exact).
-/
import PdfVerif.Model.Prelude
import PdfVerif.Gen.PathsGen

set_option linter.constructorNameAsVariable false

namespace PdfVerif.Paths
open PdfVerif PdfVerif.Gen.PathsGen

/-- An operand on the interpreter's argument stack. -/
inductive Operand where
  | num (r : Rat)
  | name (s : String)
  | arr (xs : List Rat)
deriving DecidableEq, Repr

/-- `casting.safe_float`: `float(o)` or `None`. -/
def safeFloat : Operand → Option Rat
  | .num r => some r
  | _ => none

/-- A pdfminer `PathSegment` (operator letter + operands, grouped into points). -/
inductive PSeg where
  | m (p : Point)
  | l (p : Point)
  | c (p1 p2 p3 : Point)
  | v (p2 p3 : Point)
  | y (p1 p3 : Point)
  | h
deriving DecidableEq, Repr

namespace PSeg
def isM : PSeg → Bool | .m _ => true | _ => false
def isH : PSeg → Bool | .h => true | _ => false
/-- `segment[0] in "lcvy"` -/
def isSeg : PSeg → Bool | .l _ => true | .c .. => true | .v .. => true | .y .. => true | _ => false
def isL : PSeg → Bool | .l _ => true | _ => false
/-- `p[-2:]` for a segment that carries operands. -/
def lastPt : PSeg → Point → Point
  | .m p, _ => p | .l p, _ => p | .c _ _ p, _ => p | .v _ p, _ => p | .y _ p, _ => p | .h, start => start
/-- every operand pair mapped through `f` (the `transformed_path` of paint_path). -/
def mapPts (f : Point → Point) : PSeg → PSeg
  | .m p => .m (f p) | .l p => .l (f p) | .c a b d => .c (f a) (f b) (f d)
  | .v a b => .v (f a) (f b) | .y a b => .y (f a) (f b) | .h => .h
end PSeg

inductive Colour where
  | comps (xs : List Rat)                        -- float (one component) or tuple
  | pattern (name : String) (xs : List Rat)      -- only the specification produces these
deriving DecidableEq, Repr

/-- `pdfcolor.PDFColorSpace`: family name and number of components. -/
structure CSpace where
  name : String
  n : Nat
deriving DecidableEq, Repr

def CSpace.pattern (cs : CSpace) : Bool := cs.name == "Pattern"

inductive Kind where | line | rect | curve
deriving DecidableEq, Repr

/-- The observable attributes of an `LTCurve` / `LTLine` / `LTRect`. -/
structure Shape where
  kind : Kind
  pts : List Point
  path : List PSeg                      -- `original_path`
  bbox : Option Rect                    -- `get_bound(pts)`; `none` stands for no point at all
  linewidth : Rat
  stroke : Bool
  fill : Bool
  evenodd : Bool
  scolor : Option Colour
  ncolor : Option Colour
  dash : Option (Operand × Operand)     -- `dashing_style`
deriving DecidableEq, Repr

/-- `PDFGraphicState` restricted to what shapes observe, plus (after the fix) the colour spaces,
represented by their number of components. -/
structure GState where
  linewidth : Rat
  dash : Option (Operand × Operand)
  scolor : Option Colour
  ncolor : Option Colour
  scs : Nat
  ncs : Nat
deriving DecidableEq, Repr

/-- Exceptions that can escape `execute` on the modelled operators.  Since the integrated fix
`SC/SCN/sc/scn with too few operands` no modelled operator raises any more; the type is kept so that
a re-introduced exception shows up as a correspondence disagreement (`EXC:<kind>`). -/
inductive Err where
  | typeError
  | indexError
deriving DecidableEq, Repr

structure IState where
  ctm : Matrix
  gs : GState
  gstack : List (Matrix × GState)
  curpath : List PSeg
  argstack : List Operand               -- top of the stack is the END of the list, as in Python
  csmap : List (String × CSpace)        -- `self.csmap`: resource / predefined name -> colour space
  out : List Shape                      -- what the device has collected so far

/-! ### layout.py -/

/-- `utils.get_bound`. -/
def getBound : List Point → Option Rect
  | [] => none
  | (x, y) :: rest =>
    some (rest.foldl (fun (b : Rect) (p : Point) =>
      let (x0, y0, x1, y1) := b
      (min x0 p.1, min y0 p.2, max x1 p.1, max y1 p.2)) (x, y, x, y))

structure PaintArgs where
  gs : GState
  stroke : Bool
  fill : Bool
  evenodd : Bool

def mkShape (k : Kind) (a : PaintArgs) (pts : List Point) (tpath : List PSeg) : Shape :=
  { kind := k, pts := pts, path := tpath, bbox := getBound pts, linewidth := a.gs.linewidth,
    stroke := a.stroke, fill := a.fill, evenodd := a.evenodd, scolor := a.gs.scolor,
    ncolor := a.gs.ncolor, dash := a.gs.dash }

/-- `LTCurve(...)`. -/
def mkCurve (a : PaintArgs) (pts : List Point) (tpath : List PSeg) : Shape := mkShape .curve a pts tpath
/-- `LTLine(linewidth, p0, p1, ...)`: `pts = [p0, p1]`. -/
def mkLine (a : PaintArgs) (p0 p1 : Point) (tpath : List PSeg) : Shape := mkShape .line a [p0, p1] tpath
/-- `LTRect(linewidth, (x0, y0, x1, y1), ...)`: `pts = [(x0,y0),(x1,y0),(x1,y1),(x0,y1)]`. -/
def mkRect (a : PaintArgs) (b : Rect) (tpath : List PSeg) : Shape :=
  let (x0, y0, x1, y1) := b
  mkShape .rect a [(x0, y0), (x1, y0), (x1, y1), (x0, y1)] tpath

/-! ### converter.paint_path -/

/-- Make the implicit `m` after `h` explicit (the loop added by the fix):
`start` is the last `m` seen, `prevH` says whether the previous element was `h`. -/
def explicitM (start : PSeg) (prevH : Bool) : List PSeg → List PSeg
  | [] => []
  | s :: rest =>
    if s.isM then s :: explicitM s false rest
    else if s.isSeg && prevH then start :: s :: explicitM start false rest
    else s :: explicitM start s.isH rest

def flushSub : Option (List PSeg) → List (List PSeg)
  | none => []
  | some acc => if acc.length > 1 then [acc] else []

/-- `re.finditer(r"m[^m]+", shape)`: every `m` followed by at least one non-`m`, with the maximal run. -/
def splitAux : Option (List PSeg) → List PSeg → List (List PSeg)
  | cur, [] => flushSub cur
  | cur, s :: rest =>
    if s.isM then flushSub cur ++ splitAux (some [s]) rest
    else match cur with
      | none => splitAux none rest
      | some acc => splitAux (some (acc ++ [s])) rest

def splitM (path : List PSeg) : List (List PSeg) := splitAux none path

def countM (path : List PSeg) : Nat := (path.filter PSeg.isM).length

/-- `has_square_coordinates` -/
def squareCoords (p0 p1 p2 p3 : Point) : Bool :=
  has_square_coordinates p0.1 p0.2 p1.1 p1.2 p2.1 p2.2 p3.1 p3.2   -- regenerated from converter.py

/-- `x[0]` of a path segment: the operator letter. -/
def PSeg.letter : PSeg → Char
  | .m _ => 'm' | .l _ => 'l' | .c .. => 'c' | .v .. => 'v' | .y .. => 'y' | .h => 'h'

/-- `len(shape) > 3 and shape[-2:] == "lh" and pts[-2] == pts[0]`; the constants are regenerated from
converter.py (`redundantMinLen`, `redundantSuffix`, `redundantPts`). -/
def redundantL (shape : List Char) (pts : List Point) : Bool :=
  decide (shape.length > redundantMinLen ∧
    shape.drop (shape.length - redundantSuffix.length) = redundantSuffix ∧
    pts[pts.length - redundantPts.1]? = pts[redundantPts.2]?)

/-- The classification at the end of paint_path on the string of operator letters `shape`.  The shape
strings, the point indices of `LTLine`, `is_closed_loop`, the `LTRect` corners and `rect.pts = pts[:4]` are
regenerated from converter.py (`lineShapes`, `linePts`, `rectShapes`, `closedLoopPts`, `rectCorners`,
`rectPtsTake`, `has_square_coordinates`). -/
def classifyShape (a : PaintArgs) (shape : List Char) (pts : List Point) (tpath : List PSeg) : List Shape :=
  if shape ∈ lineShapes then
    match pts[linePts.1]?, pts[linePts.2]? with
    | some p0, some p1 => [mkLine a p0 p1 tpath]
    | _, _ => []                                -- unreachable: two letters, two points
  else if shape ∈ rectShapes then
    match pts with
    | [p0, p1, p2, p3, _] =>
      if pts[closedLoopPts.1]? = pts[closedLoopPts.2]? ∧ squareCoords p0 p1 p2 p3 = true then
        -- `rect = LTRect(.., (*pts[0], *pts[2]), ..); rect.pts = pts[:4]` (bbox stays the one of the corners)
        match pts[rectCorners.1]?, pts[rectCorners.2]? with
        | some c0, some c2 => [{ mkRect a (c0.1, c0.2, c2.1, c2.2) tpath with pts := pts.take rectPtsTake }]
        | _, _ => []                            -- unreachable
      else [mkCurve a pts tpath]
    | _ => []                                   -- unreachable: five letters, five points
  else [mkCurve a pts tpath]

/-- The `else` branch of paint_path: a path with exactly one `m`, at its head.
`shape` is the string of operator letters, exactly as in the Python code. -/
def paintSingle (ctm : Matrix) (a : PaintArgs) (path : List PSeg) : List Shape :=
  match path with
  | [] => []
  | first :: _ =>
    let start := first.lastPt (0, 0)
    let pts0 := path.map (fun p => apply_matrix_pt ctm (p.lastPt start))
    let tpath := path.map (PSeg.mapPts (apply_matrix_pt ctm))
    let shape0 := path.map PSeg.letter
    -- Drop a redundant "l" on a path closed with "h"
    let shape := if redundantL shape0 pts0 then shape0.take (shape0.length - redundantCut) ++ redundantTail else shape0
    let pts := if redundantL shape0 pts0 then pts0.dropLast else pts0
    classifyShape a shape pts tpath

/-- `PDFLayoutAnalyzer.paint_path`. -/
def paintPath (ctm : Matrix) (a : PaintArgs) (path : List PSeg) : List Shape :=
  match path with
  | .m p :: rest =>
    let path := explicitM (.m p) false (.m p :: rest)
    if countM path > 1 then (splitM path).flatMap (paintSingle ctm a) else paintSingle ctm a path
  | _ => []          -- `shape[:1] != "m"`: nothing

/-! ### pdfinterp.PDFPageInterpreter -/

inductive OpK where
  | m | l | c | v | y | h | re
  | S | s | f | F | fstar | B | Bstar | b | bstar | n | W | Wstar
  | w | d | J | j | M | i | ri | gs
  | g | G | rg | RG | k | K | cs | CS | sc | scn | SC | SCN
  | q | Q | cm
  | other (name : String)     -- any other keyword
deriving DecidableEq, Repr

def OpK.name : OpK → String
  | .m => "m" | .l => "l" | .c => "c" | .v => "v" | .y => "y" | .h => "h" | .re => "re"
  | .S => "S" | .s => "s" | .f => "f" | .F => "F" | .fstar => "f*" | .B => "B" | .Bstar => "B*"
  | .b => "b" | .bstar => "b*" | .n => "n" | .W => "W" | .Wstar => "W*"
  | .w => "w" | .d => "d" | .J => "J" | .j => "j" | .M => "M" | .i => "i" | .ri => "ri" | .gs => "gs"
  | .g => "g" | .G => "G" | .rg => "rg" | .RG => "RG" | .k => "k" | .K => "K" | .cs => "cs" | .CS => "CS"
  | .sc => "sc" | .scn => "scn" | .SC => "SC" | .SCN => "SCN" | .q => "q" | .Q => "Q" | .cm => "cm"
  | .other nm => nm

def OpK.all : List OpK :=
  [.m, .l, .c, .v, .y, .h, .re, .S, .s, .f, .F, .fstar, .B, .Bstar, .b, .bstar, .n, .W, .Wstar,
   .w, .d, .J, .j, .M, .i, .ri, .gs, .g, .G, .rg, .RG, .k, .K, .cs, .CS, .sc, .scn, .SC, .SCN, .q, .Q, .cm]

def OpK.ofName (nm : String) : OpK :=
  match OpK.all.find? (fun op => op.name == nm) with
  | some op => op
  | none => .other nm

inductive Tok where
  | operand (o : Operand)
  | op (k : OpK)
deriving DecidableEq, Repr

/-- `self.pop(n)`: `x = self.argstack[-n:]; self.argstack = self.argstack[:-n]`. -/
def pop (n : Nat) (st : IState) : List Operand × IState :=
  if n = 0 then ([], st)
  else
    let k := st.argstack.length - n
    (st.argstack.drop k, { st with argstack := st.argstack.take k })

def csLookup (m : List (String × CSpace)) (name : String) : Option CSpace := m.lookup name

/-- `self.csmap[csid] = colorspace` on an ordered dict. -/
def csInsert (m : List (String × CSpace)) (name : String) (n : CSpace) : List (String × CSpace) :=
  if (m.lookup name).isSome then m.map (fun e => if e.1 == name then (name, n) else e) else m ++ [(name, n)]

def pushSeg (st : IState) (s : PSeg) : IState := { st with curpath := st.curpath ++ [s] }

def allNums (args : List Operand) : Option (List Rat) := args.mapM safeFloat

/-- `do_h` (after the fix: closing a closed sub-path does nothing). -/
def doH (st : IState) : IState :=
  match st.curpath.getLast? with
  | some .h => st
  | _ => pushSeg st .h

def segOfRaw : String × List Rat → Option PSeg
  | ("m", [x, y]) => some (.m (x, y))
  | ("l", [x, y]) => some (.l (x, y))
  | ("h", []) => some .h
  | ("c", [x1, y1, x2, y2, x3, y3]) => some (.c (x1, y1) (x2, y2) (x3, y3))
  | ("v", [x2, y2, x3, y3]) => some (.v (x2, y2) (x3, y3))
  | ("y", [x1, y1, x3, y3]) => some (.y (x1, y1) (x3, y3))
  | _ => none

/-- The segment `do_m / do_l / do_c / do_v / do_y` append for the float operands `xs`: letter and operand
order come from the regenerated table `segAppend` (nothing when the operand count is not the method's). -/
def segOf (k : OpK) (xs : List Rat) : Option PSeg :=
  match segAppend.lookup k.name with
  | some (letter, idx) => if xs.length = idx.length then segOfRaw (letter, idx.filterMap (fun i => xs[i]?)) else none
  | none => none

/-- `do_m l c v y`: every operand must convert (`safe_float`), then the segment is appended. -/
def doSeg (k : OpK) (args : List Operand) (st : IState) : IState :=
  match allNums args with
  | some xs => match segOf k xs with
    | some s => pushSeg st s
    | none => st
  | none => st

/-- `self.device.paint_path(self.graphicstate, stroke, fill, evenodd, self.curpath); self.curpath = []` -/
def doPaint (st : IState) (stroke fill evenodd : Bool) : IState :=
  { st with out := st.out ++ paintPath st.ctm ⟨st.gs, stroke, fill, evenodd⟩ st.curpath, curpath := [] }

def setColour (st : IState) (stroking : Bool) (xs : List Rat) : IState :=
  if stroking then { st with gs := { st.gs with scolor := some (.comps xs) } }
  else { st with gs := { st.gs with ncolor := some (.comps xs) } }

def setSpace (st : IState) (stroking : Bool) (n : Nat) : IState :=
  if stroking then { st with gs := { st.gs with scs := n } } else { st with gs := { st.gs with ncs := n } }

/-- `PDFPageInterpreter._initial_color` (ISO 32000-1 Table 74, operator CS). -/
def initialColour (cs : CSpace) : Option Colour :=
  -- the constants are regenerated from pdfinterp.py (`initNoneFamily` … `initOneFamilies`)
  if cs.name == initNoneFamily || cs.n < 1 || cs.n > initMaxComponents then none
  else if cs.name == initCmykFamily then some (.comps initCmyk)
  else
    let v : Rat := if initOneFamilies.contains cs.name then 1 else 0
    some (.comps (List.replicate cs.n v))

def setColourOpt (st : IState) (stroking : Bool) (c : Option Colour) : IState :=
  if stroking then { st with gs := { st.gs with scolor := c } } else { st with gs := { st.gs with ncolor := c } }

/-- `do_cs` / `do_CS` on a known colour space: select it and its initial colour. -/
def doSelectSpace (st : IState) (stroking : Bool) (cs : CSpace) : IState :=
  setColourOpt (setSpace st stroking cs.n) stroking (initialColour cs)

/-- `do_g/G/rg/RG/k/K`: all operands must convert, then colour and colour space are set. -/
def doDeviceColour (st : IState) (stroking : Bool) (space : String) (args : List Operand) : IState :=
  match allNums args with
  | some xs => setSpace (setColour st stroking xs) stroking (((csLookup st.csmap space).map (·.n)).getD 0)
  | none => st

/-- `do_SCN` / `do_scn` (and `SC` / `sc`, which call them). -/
def doSetColourN (st : IState) (stroking : Bool) : Except Err IState :=
  let n := if stroking then st.gs.scs else st.gs.ncs
  if n = 1 then
    let (vals, st) := pop 1 st
    match vals with
    | [] => .ok st                       -- `gray = values[0] if values else None`: warning, colour kept
    | x :: _ =>
      match safeFloat x with
      | some r => .ok (setColour st stroking [r])
      | none => .ok st
  else if n = 0 then .ok st              -- no components: warning only
  else
    -- n = 3 (`safe_rgb`), n = 4 (`safe_cmyk`) and, since the fix, any other n: pop n operands, all of
    -- them must be there and convert, then the colour is the tuple of the n floats
    let (vals, st) := pop n st
    if vals.length ≠ n then .ok st
    else match allNums vals with
      | some xs => .ok (setColour st stroking xs)
      | none => .ok st

/-- The body of `do_<k>` applied to exactly `nargs` operands. -/
def call (k : OpK) (args : List Operand) (st : IState) : Except Err IState :=
  match k with
  | .m => .ok (doSeg .m args st)
  | .l => .ok (doSeg .l args st)
  | .c => .ok (doSeg .c args st)
  | .v => .ok (doSeg .v args st)
  | .y => .ok (doSeg .y args st)
  | .h => .ok (doH st)
  | .re => match allNums args with
    | some [x, y, w, h] => .ok { st with curpath := st.curpath ++ (rePath x y w h).filterMap segOfRaw }
    | _ => .ok st
  | .S | .s | .f | .F | .fstar | .B | .Bstar | .b | .bstar =>
    match paintOps.lookup k.name with
    | some (close, stroke, fill, evenodd) => .ok (doPaint (if close then doH st else st) stroke fill evenodd)
    | none => .ok st
  | .n => .ok { st with curpath := [] }
  | .W | .Wstar => .ok st
  | .w => match args with
    | [x] => match safeFloat x with
      | some r => .ok { st with gs := { st.gs with linewidth := r } }
      | none => .ok st
    | _ => .ok st
  | .d => match args with
    | [dash, phase] => .ok { st with gs := { st.gs with dash := some (dash, phase) } }
    | _ => .ok st
  | .J | .j | .M | .i | .ri | .gs => .ok st
  | .g => .ok (doDeviceColour st false "DeviceGray" args)
  | .G => .ok (doDeviceColour st true "DeviceGray" args)
  | .rg => .ok (doDeviceColour st false "DeviceRGB" args)
  | .RG => .ok (doDeviceColour st true "DeviceRGB" args)
  | .k => .ok (doDeviceColour st false "DeviceCMYK" args)
  | .K => .ok (doDeviceColour st true "DeviceCMYK" args)
  | .cs => match args with
    | [.name s] => match csLookup st.csmap s with
      | some cs => .ok (doSelectSpace st false cs)
      | none => .ok st
    | _ => .ok st
  | .CS => match args with
    | [.name s] => match csLookup st.csmap s with
      | some cs => .ok (doSelectSpace st true cs)
      | none => .ok st
    | _ => .ok st
  | .sc | .scn => doSetColourN st false
  | .SC | .SCN => doSetColourN st true
  | .q => .ok { st with gstack := (st.ctm, st.gs) :: st.gstack }
  | .Q => match st.gstack with
    | (ctm, gs) :: rest => .ok { st with ctm := ctm, gs := gs, gstack := rest }
    | [] => .ok st
  | .cm => match allNums args with
    | some [a, b, c, d, e, f] =>
      .ok { st with ctm := if cmPremultiplies then mult_matrix (a, b, c, d, e, f) st.ctm
                           else mult_matrix st.ctm (a, b, c, d, e, f) }
    | _ => .ok st
  | .other _ => .ok st

/-- One keyword in `execute`: `hasattr`, `nargs`, `pop`, call only when enough operands were there. -/
def doOp (k : OpK) (st : IState) : Except Err IState :=
  match opNargs.lookup k.name with
  | none => .ok st                          -- unknown keyword: ignored (settings.STRICT is False)
  | some nargs =>
    if nargs = 0 then call k [] st
    else
      let (args, st') := pop nargs st
      if args.length = nargs then call k args st' else .ok st'

def step (st : IState) : Tok → Except Err IState
  | .operand o => .ok { st with argstack := st.argstack ++ [o] }
  | .op k => doOp k st

def execute : List Tok → IState → Except Err IState
  | [], st => .ok st
  | t :: rest, st =>
    match step st t with
    | .ok st' => execute rest st'
    | .error e => .error e

/-- A colour space of the page's resource dictionary as `init_resources.get_colorspace` sees it. -/
inductive CsSpec where
  | icc (n : Nat)            -- [/ICCBased stream]  with  /N n
  | devn (n : Nat)           -- [/DeviceN [names] ...]
  | named (base : String)    -- /Name or [/Name ...]
deriving DecidableEq, Repr

/-- `init_resources`: `PREDEFINED_COLORSPACE.copy()` updated with the resource colour spaces. -/
def initCsmap (res : List (String × CsSpec)) : List (String × CSpace) :=
  res.foldl (fun m (e : String × CsSpec) =>
    match e.2 with
    | .icc n => csInsert m e.1 ⟨"ICCBased", n⟩
    | .devn n => csInsert m e.1 ⟨"DeviceN", n⟩
    | .named base =>
      match PREDEFINED_COLORSPACE.lookup base with
      | some n => csInsert m e.1 ⟨base, n⟩
      | none => m) (PREDEFINED_COLORSPACE.map (fun e => (e.1, (⟨e.1, e.2⟩ : CSpace))))

/-- `init_state` after `init_resources`. -/
def initState (ctm : Matrix) (res : List (String × CsSpec)) : IState :=
  let csmap := initCsmap res
  let n0 := match csmap with | (_, cs) :: _ => cs.n | [] => 0
  { ctm := ctm,
    gs := { linewidth := 0, dash := none, scolor := none, ncolor := none, scs := n0, ncs := n0 },
    gstack := [], curpath := [], argstack := [], csmap := csmap, out := [] }

/-- `process_page` + `render_contents` for one content stream; the shapes on the page. -/
def runPage (rotate : Int) (mb : Rect) (res : List (String × CsSpec)) (toks : List Tok) : Except Err (List Shape) :=
  let (x0, y0, x1, y1) := mb
  match execute toks (initState (pageCtm rotate x0 y0 x1 y1) res) with
  | .ok st => .ok st.out
  | .error e => .error e

/-! ### several pages through ONE interpreter (what `extract_pages` / `pdf2txt` do) -/

/-- The state in which `render_contents` starts a page on an interpreter that has already processed other
pages (`prev` = where the previous page's content ended): `init_resources` rebuilds the colour-space map,
`begin_page` gives the device a new, empty page, and `init_state` overwrites exactly the attributes named in
the regenerated list `initStateResets` - everything else would survive from the previous page. -/
def initStateOn (prev : IState) (ctm : Matrix) (res : List (String × CsSpec)) : IState :=
  let fresh := initState ctm res
  let rs := initStateResets
  { ctm := if rs.contains "ctm" then fresh.ctm else prev.ctm,
    gs := { linewidth := if rs.contains "graphicstate" then fresh.gs.linewidth else prev.gs.linewidth,
            dash := if rs.contains "graphicstate" then fresh.gs.dash else prev.gs.dash,
            scolor := if rs.contains "graphicstate" then fresh.gs.scolor else prev.gs.scolor,
            ncolor := if rs.contains "graphicstate" then fresh.gs.ncolor else prev.gs.ncolor,
            scs := if rs.contains "scs" then fresh.gs.scs else prev.gs.scs,
            ncs := if rs.contains "ncs" then fresh.gs.ncs else prev.gs.ncs },
    gstack := if rs.contains "gstack" then fresh.gstack else prev.gstack,
    curpath := if rs.contains "curpath" then fresh.curpath else prev.curpath,
    argstack := if rs.contains "argstack" then fresh.argstack else prev.argstack,
    csmap := fresh.csmap, out := [] }

/-- One page of a document: /Rotate, MediaBox, colour-space resources, content tokens. -/
structure PageIn where
  rotate : Int
  mb : Rect
  res : List (String × CsSpec)
  toks : List Tok

/-- `for page in pages: interpreter.process_page(page)` with one interpreter: the state a page's content
leaves behind (dangling path, unmatched `q`, colours, operands) is what the next page's `init_state` sees.
After an exception the caller (`extract_pages`) stops; the model keeps the last good state. -/
def runPagesFrom (prev : IState) : List PageIn → List (Except Err (List Shape))
  | [] => []
  | p :: rest =>
    let (x0, y0, x1, y1) := p.mb
    match execute p.toks (initStateOn prev (pageCtm p.rotate x0 y0 x1 y1) p.res) with
    | .ok st => .ok st.out :: runPagesFrom st rest
    | .error e => .error e :: runPagesFrom prev rest

end PdfVerif.Paths
