/-
C05 — from the bytes of the content streams to the token level of `Model/Interp.lean`.

* `lexChunks` / `lexStreams`: `PDFContentParser` = the byte automaton of the lexer model (C14,
  `Model/Lexer.lean`) run over the streams one after the other — `fillbuf` moves on to the next
  stream with the scanner state intact (`_parse1`, `_curtoken`, `paren`, …), only the positions
  restart — and the newline `nexttoken` feeds at the end of the last stream.
* `assemble`: `PSStackParser.nextobject` + `PDFContentParser.do_keyword` as far as content streams
  of the text model need it: numbers, strings, names, booleans are operands, `[` … `]` builds an
  array (nested arrays / dictionaries inside are opaque elements), every other keyword is an
  operator.  Dictionaries and procedures at top level, and inline images (`BI … ID … EI`), are
  outside this view (`none`).
-/
import PdfVerif.Model.Lexer
import PdfVerif.Model.StackParser
import PdfVerif.Model.Content

namespace PdfVerif.ContentLex
open PdfVerif PdfVerif.Lexer PdfVerif.Content

def vals (ts : List PTok) : List Token := ts.map (·.2)

/-- One parser over several streams: state carried, positions restart at 0 in every stream. -/
def lexChunks : St → List Bytes → St × List Token
  | st, [] => (st, [])
  | st, b :: rest =>
    let r := foldBytes st b 0
    let r2 := lexChunks r.1 rest
    (r2.1, vals r.2 ++ r2.2)

/-- All tokens `nexttoken` delivers for a `Contents` array: the streams, then the flushed newline. -/
def lexStreams (streams : List Bytes) : List Token :=
  let r := lexChunks St.init streams
  r.2 ++ vals (stepByte r.1 10 0).2

def strOfBytes (bs : Bytes) : String := String.ofList (bs.map (fun b => Char.ofNat b.toNat))

def natsOfBytes (bs : Bytes) : List Nat := bs.map (·.toNat)

/-- A token as an element of a `TJ` array. -/
def elemOf : Token → Elem
  | .int v => .num (v : Rat)
  | .real t => .num (StackParser.realValue t)
  | .str s => .str (natsOfBytes s)
  | _ => .other

def isKw (t : Token) (name : Bytes) : Bool :=
  match t with
  | .kwd n => n == name
  | _ => false

/-- Inside an array: `depth` counts nested `[`/`<<`/`{` below the array being built; what is nested
becomes one opaque element when it closes. Returns the elements and the unread tokens after the
closing `]` (`none`: the array is never closed — `nextobject` then ends with PSEOF and the pending
operands are lost). -/
def takeArray : Nat → List Token → List Elem → Option (List Elem × List Token)
  | _, [], _ => none
  | depth, t :: rest, acc =>
    let opens := isKw t [91] || isKw t kwDictBegin || isKw t [123]
    let closes := isKw t [93] || isKw t kwDictEnd || isKw t [125]
    if depth = 0 then
      if isKw t [93] then some (acc, rest)
      else if opens then takeArray 1 rest acc
      else takeArray 0 rest (acc ++ [elemOf t])
    else
      if opens then takeArray (depth + 1) rest acc
      else if closes then
        if depth = 1 then takeArray 0 rest (acc ++ [Elem.other]) else takeArray (depth - 1) rest acc
      else takeArray depth rest acc

/-- Fuel-driven top level (the token list shrinks at every step; `fuel = length` suffices). -/
def assembleAux : Nat → List Token → List Tok → Option (List Tok)
  | 0, _, acc => some acc
  | _, [], acc => some acc
  | fuel + 1, t :: rest, acc =>
    match t with
    | .int v => assembleAux fuel rest (acc ++ [.opnd (.num (v : Rat))])
    | .real txt => assembleAux fuel rest (acc ++ [.opnd (.num (StackParser.realValue txt))])
    | .bool b => assembleAux fuel rest (acc ++ [.opnd (.bool b)])
    | .lit n => assembleAux fuel rest (acc ++ [.opnd (.name (strOfBytes n))])
    | .str s => assembleAux fuel rest (acc ++ [.opnd (.str (natsOfBytes s))])
    | .err _ => none
    | .kwd n =>
      if n == [91] then
        match takeArray 0 rest [] with
        | some (es, rest') => assembleAux fuel rest' (acc ++ [.opnd (.arr es)])
        | none => some acc
      else if n == [93] then assembleAux fuel rest acc            -- `]` without `[`: PSTypeError, ignored
      else if n == kwDictBegin || n == kwDictEnd || n == [123] || n == [125] then none
      else if n == [66, 73] || n == [73, 68] then none              -- BI / ID: inline image
      else if n == StackParser.kwNull then assembleAux fuel rest (acc ++ [.opnd .null])
      else assembleAux fuel rest (acc ++ [.op (Op.ofKeyword (strOfBytes n))])

def assemble (toks : List Token) : Option (List Tok) := assembleAux toks.length toks []

/-- The token-level program of a `Contents` array. -/
def contentToks (streams : List Bytes) : Option (List Tok) := assemble (lexStreams streams)

end PdfVerif.ContentLex
