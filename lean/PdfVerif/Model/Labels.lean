/-
C17 — executable model of
  pdfminer/utils.py          decode_text, format_int_roman, format_int_alpha
  pdfminer/data_structures.py NumberTree._parse / values            (settings.STRICT = False)
  pdfminer/pdfdocument.py    PageLabels.labels / _format_page_label

The tables ROMAN_ONES, ROMAN_FIVES and PDFDocEncoding are `PdfVerif.Gen.LabelTables.*`,
regenerated from utils.py on every run.  Import-free (the driver links against it).
-/
import PdfVerif.Model.Prelude
import PdfVerif.Gen.LabelTables

namespace PdfVerif.Labels
open PdfVerif PdfVerif.Gen.LabelTables

/-- Python `str` as a list of code points. -/
abbrev Text := List Nat

/-- Exceptions that can leave the modelled functions. -/
inductive Err where
  | assertion      -- `assert 0 < value < ROMAN_MAX`, `assert value > 0`
  | index          -- `ROMAN_ONES[index]` out of range
  | syntax         -- PDFSyntaxError (settings.STRICT only)
  | fuel           -- model artefact: loop bound exhausted (proved unreachable)
  deriving DecidableEq, Repr

/-! ### `decode_text` -/

def isHigh (u : Nat) : Bool := 0xD800 ≤ u && u ≤ 0xDBFF
def isLow (u : Nat) : Bool := 0xDC00 ≤ u && u ≤ 0xDFFF

/-- Big-endian 16-bit units; a trailing odd byte is dropped (`errors="ignore"`). -/
def units : Bytes → List Nat
  | a :: b :: rest => (a.toNat * 256 + b.toNat) :: units rest
  | _ => []

def pair (h l : Nat) : Nat := 0x10000 + (h - 0xD800) * 1024 + (l - 0xDC00)

/-- `str(_, "utf-16be", "ignore")` on code units, as the decoder's state machine: the state is
the pending high surrogate.  An unpaired surrogate is skipped; a high surrogate at the very end
of the data is dropped. -/
def decodeAux : Option Nat → List Nat → Text
  | _, [] => []
  | none, u :: rest =>
    if isHigh u then decodeAux (some u) rest
    else if isLow u then decodeAux none rest
    else u :: decodeAux none rest
  | some h, v :: rest =>
    if isLow v then pair h v :: decodeAux none rest
    else if isHigh v then decodeAux (some v) rest
    else v :: decodeAux none rest

def decodeUnits (us : List Nat) : Text := decodeAux none us

/-- `PDFDocEncoding[c]` (the table has 256 entries: `pdfdoc_table_total`). -/
def docChar (c : UInt8) : Nat := PDFDocEncoding.getD c.toNat 0

def hasBOM : Bytes → Bool
  | a :: b :: _ => a == 0xFE && b == 0xFF
  | _ => false

def decodeText (s : Bytes) : Text :=
  if hasBOM s then decodeUnits (units (s.drop 2)) else s.map docChar

/-! ### `format_int_roman` -/

def listGet (l : List Text) (i : Nat) : Except Err Text :=
  match l[i]? with
  | some x => .ok x
  | none => .error .index

/-- `s * n` for a Python string. -/
def rep (s : Text) : Nat → Text
  | 0 => []
  | n + 1 => s ++ rep s n

/-- One iteration of the `while` body: the pieces are put in front of `result`. -/
def romanStep (index remainder : Nat) (result : List Text) : Except Err (List Text) :=
  if remainder = 9 then do
    let a ← listGet ROMAN_ONES index
    let b ← listGet ROMAN_ONES (index + 1)
    pure (a :: b :: result)
  else if remainder = 4 then do
    let a ← listGet ROMAN_ONES index
    let b ← listGet ROMAN_FIVES index
    pure (a :: b :: result)
  else if remainder ≥ 5 then do
    let f ← listGet ROMAN_FIVES index
    let o ← listGet ROMAN_ONES index
    pure (f :: rep o (remainder - 5) :: result)
  else do
    let o ← listGet ROMAN_ONES index
    pure (rep o remainder :: result)

def romanLoop : Nat → Nat → Nat → List Text → Except Err (List Text)
  | 0, value, _, result => if value = 0 then .ok result else .error .fuel
  | fuel + 1, value, index, result =>
    if value = 0 then .ok result
    else do
      let r ← romanStep index (value % 10) result
      romanLoop fuel (value / 10) (index + 1) r

/-- `assert 0 < value < ROMAN_MAX` (the translated constant), `thousands, value = divmod(value, 1000)`,
the loop over the three low digits, then `result.insert(0, ROMAN_ONES[3] * thousands)`. -/
def formatIntRoman (value : Int) : Except Err Text :=
  if 0 < value ∧ value < ROMAN_MAX then do
    let r ← romanLoop 3 (value.toNat % 1000) 0 []
    let m ← listGet ROMAN_ONES 3
    pure ((rep m (value.toNat / 1000) :: r).flatten)
  else .error .assertion

/-! ### `format_int_alpha` -/

/-- `acc` is `result` reversed (the code appends and reverses at the end). -/
def alphaLoop : Nat → Nat → Text → Text
  | 0, _, acc => acc
  | fuel + 1, value, acc =>
    if value = 0 then acc
    else alphaLoop fuel ((value - 1) / 26) ((97 + (value - 1) % 26) :: acc)

def formatIntAlpha (value : Int) : Except Err Text :=
  if 0 < value then .ok (alphaLoop value.toNat value.toNat []) else .error .assertion

/-! ### `_format_page_label` -/

def upperChar (c : Nat) : Nat := if 97 ≤ c ∧ c ≤ 122 then c - 32 else c
def upper (t : Text) : Text := t.map upperChar

/-- `str(value)`. -/
def decimal (v : Int) : Text := (toString v).toList.map Char.toNat

def styleD : Bytes := [68]
def styleR : Bytes := [82]
def styler : Bytes := [114]
def styleA : Bytes := [65]
def stylea : Bytes := [97]

def formatPageLabel (value : Int) (style : Option Bytes) : Except Err Text :=
  match style with
  | none => .ok []
  | some s =>
    if s = styleD then .ok (decimal value)
    else if s = styleR then (formatIntRoman value).map upper
    else if s = styler then formatIntRoman value
    else if s = styleA then (formatIntAlpha value).map upper
    else if s = stylea then formatIntAlpha value
    else .ok []          -- "Unknown page label style" warning

/-! ### Number trees -/

/-- A node as the code sees it after `dict_value`/`list_value`: an absent and an empty
`Nums`/`Kids` array behave alike (`if self.nums:`), direct and indirect nodes alike. -/
inductive NumTree (α : Type) where
  | node (nums : List (Int × α)) (kids : List (NumTree α))

mutual
/-- `NumberTree._parse` -/
def NumTree.parse {α : Type} : NumTree α → List (Int × α)
  | .node nums kids => nums ++ NumTree.parseList kids
def NumTree.parseList {α : Type} : List (NumTree α) → List (Int × α)
  | [] => []
  | t :: ts => t.parse ++ NumTree.parseList ts
end

/-- Stable insertion (first among equal keys), the step of the stable sort. -/
def insertKey {α : Type} (x : Int × α) : List (Int × α) → List (Int × α)
  | [] => [x]
  | y :: ys => if x.1 ≤ y.1 then x :: y :: ys else y :: insertKey x ys

/-- `values.sort(key=lambda t: t[0])` (stable). -/
def sortKeys {α : Type} : List (Int × α) → List (Int × α)
  | [] => []
  | x :: xs => insertKey x (sortKeys xs)

/-- `NumberTree.values` with `settings.STRICT = False`. -/
def NumTree.values {α : Type} (t : NumTree α) : List (Int × α) := sortKeys t.parse

/-- `all(a[0] <= b[0] for a, b in zip(values, values[1:]))` -/
def nonDecreasingFrom (a : Int) : List Int → Bool
  | [] => true
  | b :: tl => decide (a ≤ b) && nonDecreasingFrom b tl

def nonDecreasing : List Int → Bool
  | [] => true
  | a :: tl => nonDecreasingFrom a tl

/-- `NumberTree.values` with `settings.STRICT = True`: no sort, out-of-order keys are an error. -/
def NumTree.valuesStrict {α : Type} (t : NumTree α) : Except Err (List (Int × α)) :=
  if nonDecreasing (t.parse.map (·.1)) then .ok t.parse else .error .syntax

/-! ### Page labels -/

structure LabelDict where
  style : Option Bytes := none     -- /S
  pfx : Option Bytes := none       -- /P
  st : Option Int := none          -- /St
  deriving DecidableEq, Repr

def firstValue (d : LabelDict) : Int := d.st.getD 1

/-- `prefix + self._format_page_label(value, style)` -/
def labelOf (d : LabelDict) (value : Int) : Except Err Text :=
  (formatPageLabel value d.style).map (fun l => decodeText (d.pfx.getD []) ++ l)

def rangeLabels (d : LabelDict) (len : Nat) : List (Except Err Text) :=
  (List.range len).map (fun (j : Nat) => labelOf d (firstValue d + (j : Int)))

/-- The `for next, (start, label_dict) in enumerate(ranges, 1)` loop from the range `(s, d)` on,
cut after `n` labels (the generator is unbounded: the last range uses `itertools.count`). -/
def labelsFrom (s : Int) (d : LabelDict) : List (Int × LabelDict) → Nat → List (Except Err Text)
  | [], n => rangeLabels d n
  | (e, d') :: rest, n =>
    let len := min (e - s).toNat n
    rangeLabels d len ++ labelsFrom e d' rest (n - len)

def labelsAux : List (Int × LabelDict) → Nat → List (Except Err Text)
  | [], _ => []
  | (s, d) :: tl, n => labelsFrom s d tl n

/-- "Try to cope, by assuming empty labels for the initial pages". -/
def withZero (r : List (Int × LabelDict)) : List (Int × LabelDict) :=
  match r with
  | [] => [(0, {})]
  | (k, d) :: rest => if k = 0 then (k, d) :: rest else (0, {}) :: (k, d) :: rest

/-- First `n` items of `PageLabels.labels`; an `error` item is where the generator raises. -/
def labels (t : NumTree LabelDict) (n : Nat) : List (Except Err Text) :=
  labelsAux (withZero t.values) n

/-- `PageLabels.labels` with `settings.STRICT = True`: an error in front = the generator raises
before its first item ("Number tree elements are out of order", "PageLabels is missing page index 0"). -/
def labelsStrict (t : NumTree LabelDict) (n : Nat) : Except Err (List (Except Err Text)) :=
  match t.valuesStrict with
  | .error e => .error e
  | .ok [] => .error .syntax
  | .ok ((k, d) :: rest) => if k = 0 then .ok (labelsAux ((k, d) :: rest) n) else .error .syntax

end PdfVerif.Labels
