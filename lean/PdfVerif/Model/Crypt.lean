/-
C10 - executable model of pdfminer/arcfour.py and of the standard security handlers in
pdfminer/pdfdocument.py (PDFStandardSecurityHandler, ...V4, ...V5), and of the places where
decryption is applied (PDFDocument.getobj -> decipher_all, PDFStream.decode).

Hash functions, AES-CBC and SASLprep are parameters (`Prims`): the theorems hold for every
instance (with AES-CBC an inverse pair); the driver instantiates them with a table of the values
the real libraries returned.  Import-free (the driver links against this file).
-/
import PdfVerif.Model.Prelude
import PdfVerif.Gen.Crypt

namespace PdfVerif.Crypt
open PdfVerif PdfVerif.Gen.Crypt

/-! ## arcfour.py -/

/-- `(s[i], s[j]) = (s[j], s[i])`. -/
def swap (s : Array UInt8) (i j : Nat) : Array UInt8 :=
  let a := s.getD i 0
  let b := s.getD j 0
  (s.setIfInBounds i b).setIfInBounds j a

def ksaStep (key : Array UInt8) (st : Array UInt8 × Nat) (i : Nat) : Array UInt8 × Nat :=
  let j := (st.2 + (st.1.getD i 0).toNat + (key.getD (i % key.size) 0).toNat) % 256
  (swap st.1 i j, j)

/-- `Arcfour.__init__` (key scheduling); for the empty key Python raises ZeroDivisionError,
    see `rc4`. -/
def ksa (key : Bytes) : Array UInt8 :=
  ((List.range 256).foldl (ksaStep key.toArray)
    (((List.range 256).map UInt8.ofNat).toArray, 0)).1

/-- `Arcfour.process` from state `(s, i, j)`. -/
def prga (s : Array UInt8) (i j : Nat) : Bytes → Bytes
  | [] => []
  | c :: cs =>
    let i' := (i + 1) % 256
    let j' := (j + (s.getD i' 0).toNat) % 256
    let s' := swap s i' j'
    let k := s'.getD (((s'.getD i' 0).toNat + (s'.getD j' 0).toNat) % 256) 0
    (c ^^^ k) :: prga s' i' j' cs

/-- `Arcfour(key).process(data)` for a non-empty key (total version). -/
def rc4Core (key data : Bytes) : Bytes := prga (ksa key) 0 0 data

inductive Err where
  | passwordIncorrect    -- PDFPasswordIncorrect
  | encryption           -- PDFEncryptionError (unknown filter / algorithm / revision / crypt filter)
  | zeroDivision         -- Arcfour with an empty key
  | structError          -- struct.pack("<L", x) out of range
  | unicodeError         -- password.encode("utf-8") on a lone surrogate
  | keyError             -- missing StmF / StrF
  deriving DecidableEq, Repr

def Err.toString : Err → String
  | .passwordIncorrect => "PDFPasswordIncorrect"
  | .encryption => "PDFEncryptionError"
  | .zeroDivision => "ZeroDivisionError"
  | .structError => "error"
  | .unicodeError => "UnicodeEncodeError"
  | .keyError => "KeyError"

/-- `Arcfour(key).process(data)`. -/
def rc4 (key data : Bytes) : Except Err Bytes :=
  if key.isEmpty then .error .zeroDivision else .ok (rc4Core key data)

/-! ## primitives -/

/-- The character classes of RFC 3454 used by SASLprep (Python's `stringprep` module) and Unicode
    3.2 NFKC (`unicodedata.ucd_3_2_0.normalize`): trusted tables, abstract here. -/
structure SaslTables where
  c12 : Nat → Bool            -- in_table_c12: non-ASCII space characters
  b1 : Nat → Bool             -- in_table_b1: commonly mapped to nothing
  prohibited : Nat → Bool     -- any of `_PROHIBITED` (see Gen: SASL_PROHIBITED_TABLES) or in_table_a1
  d1 : Nat → Bool             -- in_table_d1: RandALCat
  d2 : Nat → Bool             -- in_table_d2: LCat
  nfkc : List Nat → List Nat

/-- `_saslprep.saslprep(data)` (repaired: the empty result is returned instead of `data[0]`
    raising IndexError); `none` = PDFValueError. -/
def saslprepModel (T : SaslTables) (data : List Nat) : Option (List Nat) :=
  -- step 1: map
  let mapped := (data.filter (fun c => ! T.b1 c)).map (fun c => if T.c12 c then SASL_SPACE else c)
  -- step 2: normalise
  let norm := T.nfkc mapped
  match norm.head?, norm.getLast? with
  | some first, some last =>
    if T.d1 first then
      if ! T.d1 last then none                                    -- failed bidirectional check
      else if norm.any (fun c => T.prohibited c || T.d2 c) then none
      else some norm
    else
      if norm.any (fun c => T.prohibited c || T.d1 c) then none
      else some norm
  | _, _ => some norm                                             -- everything mapped to nothing

structure Prims where
  md5 : Bytes → Bytes
  sha256 : Bytes → Bytes
  sha384 : Bytes → Bytes
  sha512 : Bytes → Bytes
  /-- `Cipher(AES(key), CBC(iv)).decryptor().update(data)` -/
  aesDec : Bytes → Bytes → Bytes → Bytes
  /-- `Cipher(AES(key), CBC(iv)).encryptor()`: `update(data) + finalize()` -/
  aesEnc : Bytes → Bytes → Bytes → Bytes
  /-- tables behind `_saslprep.saslprep` -/
  sasl : SaslTables

/-! ## small Python helpers -/

/-- little-endian bytes of `n mod 2^(8k)` (`struct.pack("<L", n)[:k]` for `n < 2^32`, `k ≤ 4`). -/
def leBytes : Nat → Nat → Bytes
  | 0, _ => []
  | k + 1, n => UInt8.ofNat (n % 256) :: leBytes k (n / 256)

def xorKey (key : Bytes) (i : Nat) : Bytes := key.map (fun c => c ^^^ UInt8.ofNat i)

def iter {α : Type} (f : α → α) : Nat → α → α
  | 0, x => x
  | n + 1, x => iter f n (f x)

/-- `password.encode("latin1")`. -/
def encodeLatin1 : List Nat → Option Bytes
  | [] => some []
  | c :: cs => if c < 256 then (encodeLatin1 cs).map (UInt8.ofNat c :: ·) else none

def utf8Char (c : Nat) : Option Bytes :=
  if c < 0x80 then some [UInt8.ofNat c]
  else if c < 0x800 then some [UInt8.ofNat (0xC0 + c / 64), UInt8.ofNat (0x80 + c % 64)]
  else if 0xD800 ≤ c ∧ c < 0xE000 then none
  else if c < 0x10000 then
    some [UInt8.ofNat (0xE0 + c / 4096), UInt8.ofNat (0x80 + c / 64 % 64), UInt8.ofNat (0x80 + c % 64)]
  else if c < 0x110000 then
    some [UInt8.ofNat (0xF0 + c / 262144), UInt8.ofNat (0x80 + c / 4096 % 64),
          UInt8.ofNat (0x80 + c / 64 % 64), UInt8.ofNat (0x80 + c % 64)]
  else none

/-- `password.encode("utf-8")`. -/
def encodeUtf8 : List Nat → Option Bytes
  | [] => some []
  | c :: cs =>
    match utf8Char c, encodeUtf8 cs with
    | some a, some b => some (a ++ b)
    | _, _ => none

/-- `unpad_aes` (repaired behaviour: the PKCS#7 padding of AES plaintexts is removed). -/
def unpadAes (p : Bytes) : Bytes :=
  match p.getLast? with
  | none => p
  | some b =>
    let n := b.toNat
    if UNPAD_MIN ≤ n ∧ n ≤ UNPAD_MAX ∧ n ≤ p.length ∧ p.drop (p.length - n) = List.replicate n b then
      p.take (p.length - n)
    else p

/-! ## Encrypt dictionary as read by `init_params` -/

structure Params where
  filterStandard : Bool := true      -- literal_name(param.get("Filter")) == "Standard"
  v : Int := 0                       -- int_value(param.get("V", 0))
  r : Int := 0                       -- int_value(param["R"])
  p : Int := 0                       -- param["P"] (before uint_value)
  o : Bytes := []
  u : Bytes := []
  length : Nat := 40                 -- int_value(param.get("Length", 40))
  cf : List (Bytes × Bytes) := []    -- crypt filter name -> CFM name
  stmf : Bytes := []
  strf : Bytes := []
  encryptMetadata : Bool := true
  oe : Bytes := []
  ue : Bytes := []
  docid0 : Bytes := []               -- docid[0]  (b"" when the trailer has no /ID)

inductive Method where
  | rc4 | aes128 | aes256 | identity
  deriving DecidableEq, Repr

/-- An initialised security handler. -/
structure Handler where
  cls : Nat                          -- 1, 4, 5 (see HANDLER_REGISTRY)
  r : Int
  p : Nat                            -- uint_value(P, 32)
  length : Nat
  key : Bytes
  cfm : List (Bytes × Method) := []
  strf : Bytes := []
  encryptMetadata : Bool := true

/-- `uint_value(x, 32) & 0xFFFFFFFF` (init_params: "a 32-bit quantity, whatever integer the file
    gives"): Python's `&` on a possibly negative int is the residue modulo 2^32. -/
def uintValue32 (x : Int) : Nat := ((if x > 0 then x else x + 4294967296) % 4294967296).toNat

def isPrintable (h : Handler) : Bool := h.p &&& PERM_MASK_PRINT != 0
def isModifiable (h : Handler) : Bool := h.p &&& PERM_MASK_MODIFY != 0
def isExtractable (h : Handler) : Bool := h.p &&& PERM_MASK_EXTRACT != 0

/-! ## revisions 2-4 -/

def padPassword (pw : Bytes) : Bytes := (pw ++ PASSWORD_PADDING).take PASSWORD_LEN

/-- key length in bytes: `n = 5`, or `self.length // 8` for `r >= 3`. -/
def keyBytes (r : Int) (length : Nat) : Nat := if r ≥ 3 then length / BITS_PER_KEY_BYTE else KEY_BYTES_R2

/-- `compute_encryption_key` (Algorithm 2); `pw` is the un-padded password bytes. -/
def computeEncryptionKey (P : Prims) (prm : Params) (length : Nat) (p : Nat) (pw : Bytes) : Bytes :=
  let n := keyBytes prm.r length
  let h := P.md5 (padPassword pw ++ prm.o ++ leBytes 4 p ++ prm.docid0 ++
    (if prm.r ≥ 4 ∧ ¬ prm.encryptMetadata then NO_METADATA_MARK else []))
  if prm.r ≥ 3 then (iter (fun res => P.md5 (res.take n)) KEY_ROUNDS h).take n else h.take n

/-- layers `lo .. hi-1` of RC4 with the key XORed by the layer number. -/
def rc4Layers (key : Bytes) (is : List Nat) (x : Bytes) : Bytes :=
  is.foldl (fun acc i => rc4Core (xorKey key i) acc) x

/-- `compute_u` (Algorithms 4 and 5). -/
def computeU (P : Prims) (prm : Params) (key : Bytes) : Bytes :=
  if prm.r = 2 then rc4Core key PASSWORD_PADDING
  else
    let res := rc4Layers key (List.range' U_ROUND_LO (U_ROUND_HI - U_ROUND_LO))
      (rc4Core key (P.md5 (PASSWORD_PADDING ++ prm.docid0)))
    res ++ res

/-- `verify_encryption_key` (Algorithm 6). -/
def verifyKey (P : Prims) (prm : Params) (key : Bytes) : Bool :=
  let u := computeU P prm key
  if prm.r = 2 then u == prm.u else u.take U_CHECK_LEN == prm.u.take U_CHECK_LEN

def authUser (P : Prims) (prm : Params) (length p : Nat) (pw : Bytes) : Option Bytes :=
  let key := computeEncryptionKey P prm length p pw
  if verifyKey P prm key then some key else none

/-- RC4 key derived from the owner password (Algorithm 3 steps a-d). -/
def ownerKey (P : Prims) (prm : Params) (length : Nat) (pw : Bytes) : Bytes :=
  let h := P.md5 (padPassword pw)
  let h := if prm.r ≥ 3 then iter P.md5 OWNER_KEY_ROUNDS h else h
  h.take (keyBytes prm.r length)

/-- the user password recovered from O (Algorithm 7). -/
def recoverUser (P : Prims) (prm : Params) (length : Nat) (pw : Bytes) : Bytes :=
  let key := ownerKey P prm length pw
  if prm.r = 2 then rc4Core key prm.o else rc4Layers key OWNER_LAYERS prm.o

def authOwner (P : Prims) (prm : Params) (length p : Nat) (pw : Bytes) : Option Bytes :=
  authUser P prm length p (recoverUser P prm length pw)

/-- `PDFStandardSecurityHandler.authenticate` (repaired: a non-Latin-1 password is incorrect).
    `ZeroDivisionError` is what Python raises for a zero-length key (`Length < 8`); `p` is always
    below 2^32 (see `uintValue32`), so `struct.pack("<L", p)` cannot fail. -/
def authenticate234 (P : Prims) (prm : Params) (length p : Nat) (pw : List Nat) : Except Err Bytes :=
  match encodeLatin1 pw with
  | none => .error .passwordIncorrect
  | some b =>
    if keyBytes prm.r length = 0 then .error .zeroDivision
    else match authUser P prm length p b with
      | some k => .ok k
      | none =>
        match authOwner P prm length p b with
        | some k => .ok k
        | none => .error .passwordIncorrect

/-! ## revisions 5 and 6 -/

def bytesMod3 (bs : Bytes) : Nat := (bs.foldl (fun acc b => acc + b.toNat % 3) 0) % 3

def repeatBytes (bs : Bytes) : Nat → Bytes
  | 0 => []
  | n + 1 => bs ++ repeatBytes bs n

/-- the `while` loop of `_r6_password`; `none` = fuel exhausted (never, see `r6_fuel_suffices`). -/
def r6Loop (P : Prims) (pw vec : Bytes) : Nat → Nat → Nat → Bytes → Option Bytes
  | 0, _, _, _ => none
  | fuel + 1, round, last, k =>
    if r6_continue (round : Int) (last : Int) then
      let k1 := repeatBytes (pw ++ k ++ vec) R6_REPEAT
      let e := P.aesEnc (k.take 16) ((k.drop 16).take 16) k1
      let m := bytesMod3 (e.take 16)
      let k' := if m = 0 then P.sha256 e else if m = 1 then P.sha384 e else P.sha512 e
      r6Loop P pw vec fuel (round + 1) (e.getLastD 0).toNat k'
    else some (k.take 32)

def R6_FUEL : Nat := 400

/-- `_password_hash(password, salt, vector)`. -/
def passwordHash (P : Prims) (r : Int) (pw salt vec : Bytes) : Bytes :=
  if r = 5 then P.sha256 (pw ++ salt ++ vec)
  else (r6Loop P pw vec R6_FUEL 0 0 (P.sha256 (pw ++ salt.take 8 ++ vec))).getD []

/-- `_normalize_password`; outer `none` = UnicodeEncodeError, inner `none` = SASLprep refused. -/
def normalizePassword (P : Prims) (r : Int) (pw : List Nat) : Except Err Bytes :=
  if r = 6 then
    if pw.isEmpty then .ok []
    else match saslprepModel P.sasl pw with
      | none => .error .passwordIncorrect
      | some q => match encodeUtf8 q with
        | some b => .ok (b.take UTF8_PASSWORD_MAX)
        | none => .error .unicodeError
  else match encodeUtf8 pw with
    | some b => .ok (b.take UTF8_PASSWORD_MAX)
    | none => .error .unicodeError

def zeroIV : Bytes := List.replicate 16 0

def oHash (prm : Params) : Bytes := prm.o.take HASH_LEN
def oValidationSalt (prm : Params) : Bytes := (prm.o.take VALIDATION_SALT_END).drop HASH_LEN
def oKeySalt (prm : Params) : Bytes := prm.o.drop VALIDATION_SALT_END
def uHash (prm : Params) : Bytes := prm.u.take HASH_LEN
def uValidationSalt (prm : Params) : Bytes := (prm.u.take VALIDATION_SALT_END).drop HASH_LEN
def uKeySalt (prm : Params) : Bytes := prm.u.drop VALIDATION_SALT_END

def authOwner56 (P : Prims) (prm : Params) (pw : Bytes) : Option Bytes :=
  if passwordHash P prm.r pw (oValidationSalt prm) prm.u = oHash prm then
    some (P.aesDec (passwordHash P prm.r pw (oKeySalt prm) prm.u) zeroIV prm.oe)
  else none

def authUser56 (P : Prims) (prm : Params) (pw : Bytes) : Option Bytes :=
  if passwordHash P prm.r pw (uValidationSalt prm) [] = uHash prm then
    some (P.aesDec (passwordHash P prm.r pw (uKeySalt prm) []) zeroIV prm.ue)
  else none

/-- `PDFStandardSecurityHandlerV5.authenticate`. -/
def authenticate56 (P : Prims) (prm : Params) (pw : List Nat) : Except Err Bytes :=
  match normalizePassword P prm.r pw with
  | .error e => .error e
  | .ok b =>
    match authOwner56 P prm b with
    | some k => .ok k
    | none =>
      match authUser56 P prm b with
      | some k => .ok k
      | none => .error .passwordIncorrect

/-! ## handler selection and `init_params` -/

def lookup {α : Type} (k : Bytes) : List (Bytes × α) → Option α
  | [] => none
  | (k', v) :: rest => if k' = k then some v else lookup k rest

def nameV2 : Bytes := [86, 50]                       -- "V2"
def nameAESV2 : Bytes := [65, 69, 83, 86, 50]        -- "AESV2"
def nameAESV3 : Bytes := [65, 69, 83, 86, 51]        -- "AESV3"
def nameIdentity : Bytes := [73, 100, 101, 110, 116, 105, 116, 121]

/-- the bound methods `get_cfm` / `init_params` can put into `self.cfm` -/
def methodOfPy (s : String) : Option Method :=
  if s = "decrypt_rc4" then some .rc4
  else if s = "decrypt_aes128" then some .aes128
  else if s = "decrypt_aes256" then some .aes256
  else if s = "decrypt_identity" then some .identity
  else none

/-- `get_cfm` of the V4 (cls 4) and V5 (cls 5) handlers: the if/elif chains regenerated from
    pdfdocument.py (`GET_CFM_V4`, `GET_CFM_V5`). -/
def getCfm (cls : Nat) (name : Bytes) : Option Method :=
  (lookup name (if cls = 4 then GET_CFM_V4 else GET_CFM_V5)).bind methodOfPy

/-- the loop over `self.cf.items()` (later entries overwrite earlier ones; `Identity` last). -/
def buildCfm (cls : Nat) : List (Bytes × Bytes) → Except Err (List (Bytes × Method))
  | [] => .ok []
  | (k, v) :: rest =>
    match getCfm cls v with
    | none => .error .encryption
    | some m => match buildCfm cls rest with
      | .error e => .error e
      | .ok ms => .ok ((k, m) :: ms.filter (fun km => km.1 ≠ k))

/-- `PDFDocument._initialize_password`: select the handler class, `init_params`, check the
    revision, authenticate.  -/
def openHandler (P : Prims) (prm : Params) (pw : List Nat) : Except Err Handler :=
  if ¬ prm.filterStandard then .error .encryption else
  match lookup' prm.v HANDLER_REGISTRY with
  | none => .error .encryption
  | some cls =>
    let p := uintValue32 prm.p
    if cls = 1 then
      if prm.r ∉ SUPPORTED_REVISIONS_BASE then .error .encryption else
      match authenticate234 P prm prm.length p pw with
      | .error e => .error e
      | .ok key => .ok { cls := 1, r := prm.r, p := p, length := prm.length, key := key }
    else
      -- V4.init_params (V5 calls it through super())
      if prm.stmf ≠ prm.strf then .error .encryption else
      match buildCfm cls prm.cf with
      | .error e => .error e
      | .ok ms =>
        let cfm := ms.filter (fun km => km.1 ≠ nameIdentity) ++ [(nameIdentity, Method.identity)]
        if (lookup prm.strf cfm).isNone then .error .encryption else
        if cls = 4 then
          if prm.r ∉ SUPPORTED_REVISIONS_V4 then .error .encryption else
          match authenticate234 P prm FORCED_LENGTH_V4 p pw with
          | .error e => .error e
          | .ok key => .ok { cls := 4, r := prm.r, p := p, length := FORCED_LENGTH_V4, key := key, cfm := cfm,
                             strf := prm.strf, encryptMetadata := prm.encryptMetadata }
        else
          if prm.r ∉ SUPPORTED_REVISIONS_V5 then .error .encryption else
          match authenticate56 P prm pw with
          | .error e => .error e
          | .ok key => .ok { cls := 5, r := prm.r, p := p, length := FORCED_LENGTH_V5, key := key, cfm := cfm,
                             strf := prm.strf, encryptMetadata := prm.encryptMetadata }
where
  lookup' (v : Int) : List (Int × Nat) → Option Nat
    | [] => none
    | (k, c) :: rest => if k = v then some c else lookup' v rest

/-! ## per-object decryption -/

/-- key of `decrypt_rc4`. -/
def objKeyRc4 (P : Prims) (key : Bytes) (objid genno : Nat) : Bytes :=
  let k := key ++ leBytes OBJID_BYTES_RC4 objid ++ leBytes GENNO_BYTES_RC4 genno
  (P.md5 k).take (min k.length OBJKEY_MAX_RC4)

/-- key of `decrypt_aes128`. -/
def objKeyAes (P : Prims) (key : Bytes) (objid genno : Nat) : Bytes :=
  let k := key ++ leBytes OBJID_BYTES_AES objid ++ leBytes GENNO_BYTES_AES genno ++ AES_SALT
  (P.md5 k).take (min k.length OBJKEY_MAX_AES)

def decryptRc4 (P : Prims) (key : Bytes) (objid genno : Nat) (data : Bytes) : Bytes :=
  rc4Core (objKeyRc4 P key objid genno) data

def decryptAes128 (P : Prims) (key : Bytes) (objid genno : Nat) (data : Bytes) : Bytes :=
  unpadAes (P.aesDec (objKeyAes P key objid genno) (data.take 16) (data.drop 16))

def decryptAes256 (P : Prims) (key : Bytes) (data : Bytes) : Bytes :=
  unpadAes (P.aesDec key (data.take 16) (data.drop 16))

def applyMethod (P : Prims) (h : Handler) (m : Method) (objid genno : Nat) (data : Bytes) : Bytes :=
  match m with
  | .rc4 => decryptRc4 P h.key objid genno data
  | .aes128 => decryptAes128 P h.key objid genno data
  | .aes256 => decryptAes256 P h.key data
  | .identity => data

/-- `handler.decrypt(objid, genno, data, attrs)`; `isMetadata` = `attrs` is given and its `Type`
    is `/Metadata` (strings are deciphered with `attrs=None`). -/
def decrypt (P : Prims) (h : Handler) (objid genno : Nat) (isMetadata : Bool) (data : Bytes) : Bytes :=
  if h.cls = 1 then decryptRc4 P h.key objid genno data
  else if ¬ h.encryptMetadata ∧ isMetadata then data
  else match lookup h.strf h.cfm with
    | some m => applyMethod P h m objid genno data
    | none => data            -- unreachable: `openHandler` checked `strf ∈ cfm`

/-- The decision `decrypt` takes, as a table over (handler class, EncryptMetadata, "attrs is given
    and its Type is /Metadata", crypt filter named by StrF): which cipher handles this piece of data.
    pdfminer has no per-stream override (`name` is never passed; a `/Crypt` entry in a stream's
    `Filter` array raises PDFNotImplementedError later, in `PDFStream.decode`), and StmF = StrF is
    enforced by `init_params`, so strings and streams use the same filter.
    `none` = StrF names no entry of `cfm` (excluded by `init_params`, see `openHandler_method`). -/
def selectMethod (h : Handler) (isMetadata : Bool) : Option Method :=
  if h.cls = 1 then some .rc4
  else if ¬ h.encryptMetadata ∧ isMetadata then some .identity
  else lookup h.strf h.cfm

def Method.name : Method → String
  | .rc4 => "rc4"
  | .aes128 => "aes128"
  | .aes256 => "aes256"
  | .identity => "identity"

/-! ## where decryption is applied -/

inductive Obj where
  | str (b : Bytes)
  | atom (a : Bytes)                                  -- number, name, bool, null, reference
  | arr (xs : List Obj)
  | dict (kvs : List (Bytes × Obj))
  | stream (attrs : List (Bytes × Obj)) (raw : Bytes)

def keyType : Bytes := [84, 121, 112, 101]                       -- "Type"
def atomXRef : Bytes := [47, 88, 82, 101, 102]                   -- "/XRef"
def atomMetadata : Bytes := [47, 77, 101, 116, 97, 100, 97, 116, 97]

def attrsType : List (Bytes × Obj) → Option Bytes
  | [] => none
  | (k, v) :: rest =>
    if k = keyType then (match v with | .atom a => some a | _ => attrsType rest) else attrsType rest

mutual
/-- `decipher_all` (repaired: the dictionary of a stream is deciphered too, except for
    cross-reference streams) followed, for a stream, by the decipher step of `PDFStream.decode`. -/
def decipherAll (f : Bytes → Bytes) (g : Bool → Bytes → Bytes) : Obj → Obj
  | .str b => if b.isEmpty then .str b else .str (f b)
  | .atom a => .atom a
  | .arr xs => .arr (decipherList f g xs)
  | .dict kvs => .dict (decipherKVs f g kvs)
  | .stream attrs raw =>
    if attrsType attrs = some atomXRef then .stream attrs raw
    else .stream (decipherKVs f g attrs) (g (attrsType attrs = some atomMetadata) raw)
def decipherList (f : Bytes → Bytes) (g : Bool → Bytes → Bytes) : List Obj → List Obj
  | [] => []
  | x :: xs => decipherAll f g x :: decipherList f g xs
def decipherKVs (f : Bytes → Bytes) (g : Bool → Bytes → Bytes) : List (Bytes × Obj) → List (Bytes × Obj)
  | [] => []
  | (k, v) :: rest => (k, decipherAll f g v) :: decipherKVs f g rest
end

/-- where an object was read from -/
inductive Loc where
  | direct        -- `_getobj_parse`: an indirect object of the file body
  | objstm        -- `_getobj_objstm`: member of an object stream
  | encryptDict   -- the (indirect) Encrypt dictionary
  | trailer       -- trailer dictionary / cross-reference stream dictionary
  deriving DecidableEq, Repr

/-- what `PDFDocument.getobj(objid)` (+ `get_data()` for a stream, before filters) returns for the
    stored object `o`. -/
def getobj (P : Prims) (h : Handler) (loc : Loc) (objid genno : Nat) (o : Obj) : Obj :=
  match loc with
  | .direct => decipherAll (decrypt P h objid genno false) (decrypt P h objid genno) o
  | _ => o

/-! ## instrumented traversal: which bytes go through the cipher, and how often -/

/-- One call of `handler.decrypt`: on a string (`attrs=None`) or on a stream payload (`attrs` given;
    `isMeta` = its Type is /Metadata). -/
inductive Call where
  | str (b : Bytes)
  | payload (isMeta : Bool) (raw : Bytes)
  deriving DecidableEq, Repr

mutual
/-- `decipher_all` + the decipher step of `PDFStream.decode`, returning also the list of cipher
    calls in traversal order.  `decipherAll` is its first projection (`decipherAllT_fst`). -/
def decipherAllT (f : Bytes → Bytes) (g : Bool → Bytes → Bytes) : Obj → Obj × List Call
  | .str b => if b.isEmpty then (.str b, []) else (.str (f b), [.str b])
  | .atom a => (.atom a, [])
  | .arr xs => let r := decipherListT f g xs; (.arr r.1, r.2)
  | .dict kvs => let r := decipherKVsT f g kvs; (.dict r.1, r.2)
  | .stream attrs raw =>
    if attrsType attrs = some atomXRef then (.stream attrs raw, [])
    else
      let r := decipherKVsT f g attrs
      let m : Bool := attrsType attrs = some atomMetadata
      (.stream r.1 (g m raw), r.2 ++ [.payload m raw])
def decipherListT (f : Bytes → Bytes) (g : Bool → Bytes → Bytes) : List Obj → List Obj × List Call
  | [] => ([], [])
  | x :: xs =>
    let a := decipherAllT f g x
    let b := decipherListT f g xs
    (a.1 :: b.1, a.2 ++ b.2)
def decipherKVsT (f : Bytes → Bytes) (g : Bool → Bytes → Bytes) :
    List (Bytes × Obj) → List (Bytes × Obj) × List Call
  | [] => ([], [])
  | (k, v) :: rest =>
    let a := decipherAllT f g v
    let b := decipherKVsT f g rest
    ((k, a.1) :: b.1, a.2 ++ b.2)
end

mutual
/-- What the property demands: every non-empty string of the object exactly once (at any nesting
    depth, also inside a stream dictionary), the payload of a stream once, nothing for a
    cross-reference stream. -/
def expectedCalls : Obj → List Call
  | .str b => if b.isEmpty then [] else [.str b]
  | .atom _ => []
  | .arr xs => expectedCallsList xs
  | .dict kvs => expectedCallsKVs kvs
  | .stream attrs raw =>
    if attrsType attrs = some atomXRef then []
    else expectedCallsKVs attrs ++ [.payload (attrsType attrs = some atomMetadata) raw]
def expectedCallsList : List Obj → List Call
  | [] => []
  | x :: xs => expectedCalls x ++ expectedCallsList xs
def expectedCallsKVs : List (Bytes × Obj) → List Call
  | [] => []
  | (_, v) :: rest => expectedCalls v ++ expectedCallsKVs rest
end

/-! ### two phases: `getobj` (strings, eager) and `get_data()` (payload, lazy) -/

def Call.isStr : Call → Bool
  | .str _ => true
  | .payload _ _ => false

/-- What `getobj` hands out BEFORE anybody calls `get_data()`: every string - also those of a
    stream dictionary - is already deciphered, the payload is still as stored. -/
def getobjLazy (P : Prims) (h : Handler) (loc : Loc) (objid genno : Nat) (o : Obj) : Obj :=
  match loc with
  | .direct => decipherAll (decrypt P h objid genno false) (fun _ raw => raw) o
  | _ => o

/-- The decipher step of `PDFStream.get_data()` on the object `getobj` returned. -/
def getData (P : Prims) (h : Handler) (objid genno : Nat) : Obj → Obj
  | .stream attrs raw =>
    if attrsType attrs = some atomXRef then .stream attrs raw
    else .stream attrs (decrypt P h objid genno (attrsType attrs = some atomMetadata) raw)
  | o => o

/-- cipher calls made by `getobj` itself / by the later `get_data()` -/
def lazyCalls (o : Obj) : List Call := (expectedCalls o).filter Call.isStr
def dataCalls (o : Obj) : List Call := (expectedCalls o).filter (fun c => ! c.isStr)

mutual
/-- no stream nested inside (a PDF dictionary or array can only *refer* to a stream) -/
def flat : Obj → Bool
  | .str _ => true
  | .atom _ => true
  | .arr xs => flatList xs
  | .dict kvs => flatKVs kvs
  | .stream _ _ => false
def flatList : List Obj → Bool
  | [] => true
  | x :: xs => flat x && flatList xs
def flatKVs : List (Bytes × Obj) → Bool
  | [] => true
  | (_, v) :: rest => flat v && flatKVs rest
end

/-- a whole indirect object as it can occur in a file -/
def wellFormed : Obj → Bool
  | .stream attrs _ => flatKVs attrs
  | o => flat o

/-- The object cache of `PDFDocument` (`_cached_objs`), state carried across `getobj` calls. -/
structure DocState where
  cache : List (Nat × Obj) := []

def cacheLookup (objid : Nat) : List (Nat × Obj) → Option Obj
  | [] => none
  | (k, o) :: rest => if k = objid then some o else cacheLookup objid rest

/-- `PDFDocument.getobj` with its cache: result, new state, cipher calls made by this call. -/
def getobjSt (P : Prims) (h : Handler) (caching : Bool) (st : DocState) (loc : Loc)
    (objid genno : Nat) (stored : Obj) : Obj × DocState × List Call :=
  match cacheLookup objid st.cache with
  | some o => (o, st, [])
  | none =>
    let r : Obj × List Call :=
      match loc with
      | .direct => decipherAllT (decrypt P h objid genno false) (decrypt P h objid genno) stored
      | _ => (stored, [])
    (r.1, if caching then { cache := (objid, r.1) :: st.cache } else st, r.2)

end PdfVerif.Crypt
