/-
Hand model of the layout analysis of `pdfminer/layout.py`, over exact rationals.

Modelled function by function (Python name → Lean name):
  LTComponent.is_hoverlap/hdistance/hoverlap/is_voverlap/vdistance/voverlap → `Gen.Layout.*` (regenerated)
  LTLayoutContainer.group_objects                                → `halign`, `valign`, `go`, `groupObjects`
  LTTextLineHorizontal.add / LTTextLineVertical.add              → `newLine`, `Line.add`
  LTExpandableContainer.add                                      → `BB.union` (first member sets the box:
                                                                   the empty box is (+inf,+inf,-inf,-inf))
  LTTextLine.is_empty, LTTextLine.analyze                        → `Line.isEmpty`, `Line.analyze`
  LTTextLine*.find_neighbors                                     → `neighbors`
  LTLayoutContainer.group_textlines                              → `collect`, `gtlStep`, `gtlDict`, `gtlYield`, `groupTextlines`
  LTLayoutContainer.group_textboxes                              → `dist`, `isany`, `popMin`, `gtbStep`, `gtbLoop`, `groupTextboxes`
  LTTextBox*.analyze, LTTextGroup*.analyze, IndexAssigner        → `Box.analyze`, `Node.analyze`, `Node.assign`
  LTLayoutContainer.analyze / LTFigure.analyze                   → `analyze`, `analyzeFigure`

Python object identity is modelled by numbers: a glyph / other item carries the `id` given
by the caller, a line is identified by its position in the list handed to `group_textlines`,
a text box by the index of the line whose iteration created it, a node of the group
hierarchy by its creation index.  The `id()`-based tie-break of the heap in
`group_textboxes` is NOT modelled (it depends on memory addresses): the model breaks ties by
creation index and raises the flag `tie` whenever two live entries share the minimal
`(skip_isany, dist)` key, i.e. whenever the implementation's choice depends on addresses.
-/
import PdfVerif.Model.Prelude
import PdfVerif.Model.Plane
import PdfVerif.Gen.Layout

namespace PdfVerif.Layout
open PdfVerif PdfVerif.Gen.Layout

def _root_.PdfVerif.Gen.Layout.BB.toRect (b : BB) : Rect := (b.x0, b.y0, b.x1, b.y1)

/-- `LTExpandableContainer.add` for a container that already has a member (regenerated). -/
abbrev _root_.PdfVerif.Gen.Layout.BB.union (a b : BB) : BB := expand_bbox a b

/-- `LTComponent.is_empty` (regenerated). -/
abbrev _root_.PdfVerif.Gen.Layout.BB.isEmpty (b : BB) : Bool := is_empty b

structure Glyph where
  id : Nat
  bb : BB
  text : List Nat          -- code points of `LTChar._text`
deriving DecidableEq, Repr

inductive Elem where
  | ch (g : Glyph)
  | anno (c : Nat)         -- `LTAnno`: 32 = " ", 10 = "\n"
deriving DecidableEq, Repr

def Elem.text : Elem → List Nat
  | .ch g => g.text
  | .anno c => [c]

def Elem.glyphs : Elem → List Glyph
  | .ch g => [g]
  | .anno _ => []

structure Line where
  vertical : Bool
  elems : List Elem        -- `_objs`
  bb : BB
  last : Rat               -- `_x1` (horizontal) / `_y0` (vertical) after the latest `add`
deriving DecidableEq, Repr

def Line.glyphs (l : Line) : List Glyph := l.elems.flatMap Elem.glyphs
def Line.text (l : Line) : List Nat := l.elems.flatMap Elem.text

/-! ### group_objects -/

/- `halign`, `valign` are the regenerated `Gen.Layout.halign`, `Gen.Layout.valign`. -/

/-- A fresh `LTTextLine*` followed by its first `add`: the sentinel `_x1 = +inf`
(`_y0 = -inf`) never triggers a space and the empty box is replaced by the glyph's box. -/
def newLine (vertical : Bool) (g : Glyph) : Line :=
  { vertical := vertical, elems := [.ch g], bb := g.bb,
    last := if vertical then next_last_v g.bb else next_last_h g.bb }

/-- The word-space test of `LTTextLineHorizontal.add` / `LTTextLineVertical.add`. -/
def needSpace (wm : Rat) (l : Line) (g : Glyph) : Bool :=
  if l.vertical then need_space_v wm l.last g.bb else need_space_h wm l.last g.bb

/-- `LTTextLineHorizontal.add` / `LTTextLineVertical.add` on a line with ≥ 1 member. -/
def Line.add (wm : Rat) (l : Line) (g : Glyph) : Line :=
  { l with
    elems := l.elems ++ (if needSpace wm l g then [Elem.anno 32] else []) ++ [Elem.ch g],
    bb := l.bb.union g.bb,
    last := if l.vertical then next_last_v g.bb else next_last_h g.bb }

/-- The loop of `group_objects` from the second glyph on: `obj0`, `line` are the loop state,
the result is the sequence of yielded lines (including the final one after the loop). -/
def go (p : LAParams) (obj0 : Glyph) (line : Option Line) : List Glyph → List Line
  | [] =>
    [match line with
     | some l => l
     | none => newLine false obj0]
  | obj1 :: rest =>
    let h := halign p obj0.bb obj1.bb
    let v := valign p obj0.bb obj1.bb
    match line with
    | some l =>
      if (h && !l.vertical) || (v && l.vertical) then
        go p obj1 (some (l.add p.word_margin obj1)) rest
      else
        l :: go p obj1 none rest
    | none =>
      if v && !h then
        go p obj1 (some ((newLine true obj0).add p.word_margin obj1)) rest
      else if h && !v then
        go p obj1 (some ((newLine false obj0).add p.word_margin obj1)) rest
      else
        newLine false obj0 :: go p obj1 none rest

/-- `list(self.group_objects(laparams, textobjs))` (`analyze` never calls it with no glyph). -/
def groupObjects (p : LAParams) : List Glyph → List Line
  | [] => []
  | g :: rest => go p g none rest

/-! ### empties, line break -/

/-- Python `str.isspace` for one code point (White_Space characters of the Unicode
database shipped with CPython 3.12; compared with the interpreter on every run). -/
def cpIsSpace (c : Nat) : Bool :=
  (9 ≤ c && c ≤ 13) || (28 ≤ c && c ≤ 32) || c == 133 || c == 160 || c == 5760
    || (8192 ≤ c && c ≤ 8202) || c == 8232 || c == 8233 || c == 8239 || c == 8287 || c == 12288

/-- `str.isspace`: non-empty and every character is white space. -/
def isSpace (t : List Nat) : Bool := !t.isEmpty && t.all cpIsSpace

/-- `LTTextLine.is_empty`. -/
def Line.isEmpty (l : Line) : Bool := l.bb.isEmpty || isSpace l.text

/-- `LTTextLine.analyze`: append the line-break anno. -/
def Line.analyze (l : Line) : Line := { l with elems := l.elems ++ [Elem.anno 10] }

/-! ### group_textlines -/

def Line.pobj (i : Nat) (l : Line) : Plane.PObj := ⟨i, l.bb.x0, l.bb.y0, l.bb.x1, l.bb.y1⟩

/-- `plane = Plane(self.bbox); plane.extend(objs)` with object ids 0, 1, … -/
def mkPlane (pageBB : BB) (objs : List Plane.PObj) : Plane.Plane :=
  objs.foldl Plane.add (Plane.init pageBB.toRect PLANE_GRIDSIZE)

def pobjBB (o : Plane.PObj) : BB := ⟨o.x0, o.y0, o.x1, o.y1⟩

/-- The query rectangle of `find_neighbors`. -/
def neighborQuery (ratio : Rat) (l : Line) : Rect :=
  if l.vertical then neighbor_query_v l.bb ratio else neighbor_query_h l.bb ratio

/-- The filter of `find_neighbors` (same class, same size, aligned) on a candidate. -/
def isNeighbor (ratio : Rat) (l : Line) (otherVertical : Bool) (o : BB) : Bool :=
  if l.vertical then neighbor_filter_v l.bb o otherVertical ratio
  else neighbor_filter_h l.bb o (!otherVertical) ratio

/-- `line.find_neighbors(plane, laparams.line_margin)` as a list of line numbers. -/
def neighbors (ratio : Rat) (plane : Plane.Plane) (lines : List Line) (l : Line) : List Nat :=
  ((Plane.find plane (neighborQuery ratio l)).filter fun o =>
    match lines[o.id]? with
    | some m => isNeighbor ratio l m.vertical (pobjBB o)
    | none => false).map (·.id)

/-- A text box while `group_textlines` runs: identity (`bid` = number of the line whose
iteration created it) and member lines (numbers), in `add` order. -/
structure TBox where
  bid : Nat
  members : List Nat
deriving DecidableEq, Repr

/-- The Python dict `boxes` as an association list (at most one pair per key). -/
abbrev BoxDict := List (Nat × TBox)

def dictGet (d : BoxDict) (k : Nat) : Option TBox := (d.find? (fun e => e.1 == k)).map (·.2)
def dictErase (d : BoxDict) (k : Nat) : BoxDict := d.filter (fun e => e.1 != k)
def dictSet (d : BoxDict) (k : Nat) (b : TBox) : BoxDict := dictErase d k ++ [(k, b)]

/-- `utils.uniq`: first occurrences. -/
def uniq : List Nat → List Nat
  | [] => []
  | x :: rest => x :: (uniq rest).filter (fun y => y != x)

/-- The inner loop `for obj1 in neighbors: members.append(obj1); if obj1 in boxes:
members.extend(boxes.pop(obj1))`. -/
def collect : BoxDict → List Nat → List Nat → BoxDict × List Nat
  | d, ms, [] => (d, ms)
  | d, ms, o :: rest =>
    match dictGet d o with
    | some b => collect (dictErase d o) (ms ++ [o] ++ b.members) rest
    | none => collect d (ms ++ [o]) rest

/-- One iteration of the first loop of `group_textlines` for line number `i` with
neighbour list `nb`. -/
def gtlStep (d : BoxDict) (i : Nat) (nb : List Nat) : BoxDict :=
  let r := collect d [i] nb
  let ms := uniq r.2
  let box : TBox := ⟨i, ms⟩
  ms.foldl (fun d m => dictSet d m box) r.1

structure Box where
  bid : Nat
  vertical : Bool
  lines : List Line
  bb : BB                  -- box of an empty container is never observed (see `Box.isEmpty`)
  index : Int
deriving DecidableEq, Repr

def Box.glyphs (b : Box) : List Glyph := b.lines.flatMap Line.glyphs
def Box.text (b : Box) : List Nat := b.lines.flatMap Line.text

/-- Bounding box after adding the members one by one. -/
def bbOfList : List BB → BB
  | [] => ⟨0, 0, 0, 0⟩
  | b :: rest => rest.foldl BB.union b

/-- `LTTextBoxHorizontal()` / `LTTextBoxVertical()` then `box.add(obj)` for each member. -/
def mkBox (lines : List Line) (vertical : Bool) (t : TBox) : Box :=
  let ls := t.members.filterMap (lines[·]?)
  { bid := t.bid, vertical := vertical, lines := ls, bb := bbOfList (ls.map (·.bb)), index := -1 }

/-- `LTComponent.is_empty` of a box (no member: the box is (+inf,+inf,-inf,-inf), empty). -/
def Box.isEmpty (b : Box) : Bool := b.lines.isEmpty || b.bb.isEmpty

/-- The second loop of `group_textlines` before the `is_empty` test: the distinct boxes in the
order of their first line (`done` = identities of the boxes already met). -/
def gtlYield (d : BoxDict) : List Nat → List Nat → List TBox
  | _, [] => []
  | done, i :: rest =>
    match dictGet d i with
    | none => gtlYield d done rest
    | some t =>
      if done.contains t.bid then gtlYield d done rest
      else t :: gtlYield d (t.bid :: done) rest

/-- The class of a box is the class of the line whose iteration created it. -/
def boxVertical (lines : List Line) (t : TBox) : Bool :=
  (lines[t.bid]?.map (·.vertical)).getD false

/-- The dictionary after the first loop. -/
def gtlDict (nbOf : Nat → List Nat) : BoxDict → List Nat → BoxDict
  | d, [] => d
  | d, i :: rest => gtlDict nbOf (gtlStep d i (nbOf i)) rest

/-- `line.find_neighbors(plane, laparams.line_margin)` for line number `i` of `group_textlines`
(`plane` holds all the lines). -/
def nbOfLines (p : LAParams) (pageBB : BB) (lines : List Line) (i : Nat) : List Nat :=
  match lines[i]? with
  | some l => neighbors p.line_margin (mkPlane pageBB (lines.zipIdx.map fun (x : Line × Nat) => x.1.pobj x.2)) lines l
  | none => []

/-- `list(self.group_textlines(laparams, textlines))`. -/
def groupTextlines (p : LAParams) (pageBB : BB) (lines : List Line) : List Box :=
  let idx := List.range lines.length
  ((gtlYield (gtlDict (nbOfLines p pageBB lines) [] idx) [] idx).map fun t => mkBox lines (boxVertical lines t) t).filter
    (fun b => !b.isEmpty)

/-! ### group_textboxes -/

inductive Node where
  | leaf (b : Box)
  | grp (tbrl : Bool) (bb : BB) (l r : Node)
deriving Repr

def Node.bb : Node → BB
  | .leaf b => b.bb
  | .grp _ bb _ _ => bb

/-- `isinstance(obj, (LTTextBoxVertical, LTTextGroupTBRL))`. -/
def Node.isVert : Node → Bool
  | .leaf b => b.vertical
  | .grp t _ _ _ => t

def Node.leaves : Node → List Box
  | .leaf b => [b]
  | .grp _ _ l r => l.leaves ++ r.leaves

def Node.text : Node → List Nat
  | .leaf b => b.text
  | .grp _ _ l r => l.text ++ r.text

structure HEntry where
  skip : Bool
  d : Rat
  id1 : Nat
  id2 : Nat
deriving DecidableEq, Repr

/-- Tuple order of the heap elements `(skip_isany, d, id1, id2, …)`, with creation numbers
in place of `id()`. -/
def HEntry.le (a b : HEntry) : Bool :=
  if a.skip != b.skip then !a.skip
  else if a.d ≠ b.d then decide (a.d < b.d)
  else if a.id1 ≠ b.id1 then decide (a.id1 < b.id1)
  else decide (a.id2 ≤ b.id2)

/-- The comparison that decides which heap entry is popped next.  The implementation compares
`(skip_isany, d, id(obj1), id(obj2))`; `HEntry.le` is that order with creation numbers for `id()`.
Everything below is parametrised by an ARBITRARY comparison `le`, so the theorems hold for every
way of breaking ties (in particular for every assignment of memory addresses). -/
abbrev Cmp := HEntry → HEntry → Bool

/-- Minimum of a non-empty heap and the remaining entries (`heapq.heappop`). -/
def popMin (le : Cmp) : List HEntry → Option (HEntry × List HEntry)
  | [] => none
  | e :: rest =>
    match popMin le rest with
    | none => some (e, [])
    | some (m, rest') => if le e m then some (e, rest) else some (m, e :: rest')

structure GState where
  heap : List HEntry
  plane : Plane.Plane
  done : List Nat
  nodes : List Node        -- node number k is `nodes[k]`
  tie : Bool
  err : Bool               -- `plane.remove` of an object that is not live (KeyError)

def nodePObj (k : Nat) (n : Node) : Plane.PObj := ⟨k, n.bb.x0, n.bb.y0, n.bb.x1, n.bb.y1⟩

/-- `isany(obj1, obj2)` is non-empty. -/
def isany (plane : Plane.Plane) (k1 k2 : Nat) (a b : BB) : Bool :=
  (Plane.find plane (isany_query a b)).any fun o => o.id != k1 && o.id != k2

def live (s : GState) (e : HEntry) : Bool := !s.done.contains e.id1 && !s.done.contains e.id2

/-- One iteration of `while len(dists) > 0` (`none`: the heap is empty). -/
def gtbStep (le : Cmp) (s : GState) : Option GState :=
  match popMin le s.heap with
  | none => none
  | some (e, heap) =>
    if !live s e then some { s with heap := heap } else
    match s.nodes[e.id1]?, s.nodes[e.id2]? with
    | some n1, some n2 =>
      let tie := s.tie || heap.any (fun e' => e'.skip == e.skip && e'.d == e.d && live s e')
      if !e.skip && isany s.plane e.id1 e.id2 n1.bb n2.bb then
        some { s with heap := heap ++ [{ e with skip := true }], tie := tie }
      else
        let g := Node.grp (n1.isVert || n2.isVert) (n1.bb.union n2.bb) n1 n2
        let gid := s.nodes.length
        let r1 := Plane.remove s.plane (nodePObj e.id1 n1)
        let r2 := Plane.remove r1.1 (nodePObj e.id2 n2)
        let others := Plane.iter r2.1
        let news := others.map fun o => (⟨false, dist g.bb (pobjBB o), gid, o.id⟩ : HEntry)
        some { heap := heap ++ news,
               plane := Plane.add r2.1 (nodePObj gid g),
               done := e.id2 :: e.id1 :: s.done,
               nodes := s.nodes ++ [g],
               tie := tie,
               err := s.err || !r1.2 || !r2.2 }
    | _, _ => some { s with heap := heap, err := true }

/-- The `while` loop with fuel; the Boolean says whether the loop ended by itself. -/
def gtbLoop (le : Cmp) : Nat → GState → GState × Bool
  | 0, s => (s, s.heap.isEmpty)
  | fuel + 1, s =>
    match gtbStep le s with
    | none => (s, true)
    | some s' => gtbLoop le fuel s'

/-- All pairs `(i, j)`, `i < j`, in the order of the two nested `for` loops. -/
def initPairs (bbs : List BB) : List HEntry :=
  (bbs.zipIdx).flatMap fun (b1, i) =>
    ((bbs.zipIdx).filter (fun (_, j) => i < j)).map fun (b2, j) => ⟨false, dist b1 b2, i, j⟩

def gtbInit (pageBB : BB) (boxes : List Box) : GState :=
  { heap := initPairs (boxes.map (·.bb)),
    plane := mkPlane pageBB (boxes.zipIdx.map fun (b, i) => nodePObj i (.leaf b)),
    done := [], nodes := boxes.map Node.leaf, tie := false, err := false }

/-- Enough fuel for every run (theorem `C08_terminates`): `3·n² + 1` loop iterations. -/
def gtbFuel (n : Nat) : Nat := 3 * n * n + 1

structure Flags where
  tie : Bool := false
  fuel : Bool := false     -- the fuel ran out (never: see the termination theorem)
  err : Bool := false

/-- `self.group_textboxes(laparams, textboxes)`. -/
def groupTextboxes (le : Cmp) (pageBB : BB) (boxes : List Box) : List Node × Flags :=
  let r := gtbLoop le (gtbFuel boxes.length) (gtbInit pageBB boxes)
  ((Plane.iter r.1.plane).filterMap (fun o => r.1.nodes[o.id]?),
   { tie := r.1.tie, fuel := !r.2, err := r.1.err })

/-! ### analysis of boxes and groups, index assignment -/

/-- Stable sort by a rational key (`list.sort(key=…)`). -/
def sortByKey {α : Type} (key : α → Rat) (l : List α) : List α :=
  l.mergeSort (fun a b => decide (key a ≤ key b))

/-- `LTTextBoxHorizontal.analyze` / `LTTextBoxVertical.analyze`. -/
def Box.analyze (b : Box) : Box :=
  let ls := b.lines.map Line.analyze
  { b with lines := sortByKey (fun l => if b.vertical then box_key_v l.bb else box_key_h l.bb) ls }

/-- Sort key of `LTTextGroupLRTB.analyze` / `LTTextGroupTBRL.analyze`. -/
def groupKey (tbrl : Bool) (bf : Rat) (o : BB) : Rat :=
  if tbrl then key_tbrl bf o else key_lrtb bf o

/-- `LTTextGroup*.analyze` (a group always has exactly two members; the stable sort swaps
them iff the key of the second is smaller). -/
def Node.analyze (bf : Rat) : Node → Node
  | .leaf b => .leaf b.analyze
  | .grp t bb l r =>
    let l' := l.analyze bf
    let r' := r.analyze bf
    if groupKey t bf r'.bb < groupKey t bf l'.bb then .grp t bb r' l' else .grp t bb l' r'

/-- `IndexAssigner.run`. -/
def Node.assign : Node → Nat → Node × Nat
  | .leaf b, k => (.leaf { b with index := k }, k + 1)
  | .grp t bb l r, k =>
    let a := l.assign k
    let c := r.assign a.2
    (.grp t bb a.1 c.1, c.2)

/-- `for group in self.groups: group.analyze(laparams); assigner.run(group)`. -/
def analyzeGroups (bf : Rat) : List Node → Nat → List Node
  | [], _ => []
  | g :: rest, k =>
    let a := (g.analyze bf).assign k
    a.1 :: analyzeGroups bf rest a.2

/-- Lexicographic `≤` on the keys of `getkey` (boxes_flow = None). -/
def tupleLe (a b : Int × Rat × Rat) : Bool :=
  if a.1 ≠ b.1 then decide (a.1 < b.1)
  else if a.2.1 ≠ b.2.1 then decide (a.2.1 < b.2.1)
  else decide (a.2.2 ≤ b.2.2)

def getkey (b : Box) : Int × Rat × Rat :=
  if b.vertical then getkey_v b.bb else getkey_h b.bb

/-- Number the boxes in list order (the fixed `boxes_flow=None` branch). -/
def enumFrom : Nat → List Box → List Box
  | _, [] => []
  | k, b :: rest => { b with index := k } :: enumFrom (k + 1) rest

/-! ### analyze -/

inductive Item where
  | ch (g : Glyph)
  | other (id : Nat)
deriving DecidableEq, Repr

inductive Child where
  | box (b : Box)
  | other (id : Nat)
  | line (l : Line)        -- an empty line
  | glyph (g : Glyph)      -- only in a container that was not analysed
deriving Repr

structure Result where
  children : List Child
  groups : Option (List Node)
  flags : Flags

def Item.glyph? : Item → Option Glyph
  | .ch g => some g
  | .other _ => none

def Item.other? : Item → Option Nat
  | .ch _ => none
  | .other i => some i

def Item.toChild : Item → Child
  | .ch g => .glyph g
  | .other i => .other i

/-- The text boxes in their final order, with analysed lines and indices. -/
def finalBoxes (le : Cmp) (p : LAParams) (pageBB : BB) (boxes : List Box) : List Box × Option (List Node) × Flags :=
  match p.boxes_flow with
  | none =>
    let bs := boxes.map Box.analyze
    (enumFrom 0 (bs.mergeSort (fun a b => tupleLe (getkey a) (getkey b))), none, {})
  | some bf =>
    let r := groupTextboxes le pageBB boxes
    let groups := analyzeGroups bf r.1 0
    let leaves := groups.flatMap Node.leaves
    -- `textboxes` holds the very objects that are the leaves: look every box up by identity
    let bs := boxes.map fun b => (leaves.find? (fun b' => b'.bid == b.bid)).getD b
    (bs.mergeSort (fun a b => decide (a.index ≤ b.index)), some groups, r.2)

/-- `LTLayoutContainer.analyze`. -/
def analyze (le : Cmp) (p : LAParams) (pageBB : BB) (items : List Item) : Result :=
  let textobjs := items.filterMap Item.glyph?
  let otherobjs := items.filterMap Item.other?
  if textobjs.isEmpty then { children := items.map Item.toChild, groups := none, flags := {} } else
  let textlines := groupObjects p textobjs
  let empties := (textlines.filter Line.isEmpty).map Line.analyze
  let textlines := textlines.filter (fun l => !l.isEmpty)
  let textboxes := groupTextlines p pageBB textlines
  let r := finalBoxes le p pageBB textboxes
  { children := r.1.map Child.box ++ otherobjs.map Child.other ++ empties.map Child.line,
    groups := r.2.1, flags := r.2.2 }

/-- `LTFigure.analyze`. -/
def analyzeFigure (le : Cmp) (allTexts : Bool) (p : LAParams) (bb : BB) (items : List Item) : Result :=
  if allTexts then analyze le p bb items
  else { children := items.map Item.toChild, groups := none, flags := {} }

/-! ### separation of the group hierarchy (C09, column order) -/

/-- All leaves of `l` lie above all leaves of `r` (they may touch). -/
def Node.aboveB (l r : Node) : Bool := l.leaves.all fun a => r.leaves.all fun b => decide (b.bb.y1 ≤ a.bb.y0)

/-- Every group joins two vertically separated runs of boxes. -/
def Node.separatedB : Node → Bool
  | .leaf _ => true
  | .grp _ _ l r => (l.aboveB r || r.aboveB l) && l.separatedB && r.separatedB

end PdfVerif.Layout
