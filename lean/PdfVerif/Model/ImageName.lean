/-
Model of `ImageWriter._create_unique_image_name` (pdfminer/image.py), shared by C18 and C15.

    name = image.name + ext
    path = os.path.join(self.outdir, name)
    img_index = 0
    while os.path.exists(path):
        name = "%s.%d%s" % (image.name, img_index, ext)
        path = os.path.join(self.outdir, name)
        img_index += 1
    return name, path

The file system is abstracted to a predicate `ex : Bytes → Bool` on candidate *names*
("os.path.exists(os.path.join(outdir, name))").  The `while` loop takes fuel; the theorem
`uniqueName_terminates` (Lemmas/ImageName.lean) shows that `existing.length + 1` iterations suffice.
-/
import PdfVerif.Model.Prelude

namespace PdfVerif.ImageName
open PdfVerif

/-- ASCII decimal digits of `n` (Python `"%d" % n` for `n ≥ 0`), least significant first. -/
def decRev : Nat → Nat → List UInt8
  | 0, _ => []
  | fuel + 1, n => UInt8.ofNat (48 + n % 10) :: (if n < 10 then [] else decRev fuel (n / 10))

/-- `"%d" % n`. `n + 1` digits of fuel are always enough. -/
def dec (n : Nat) : Bytes := (decRev (n + 1) n).reverse

/-- The k-th candidate name: `name+ext` for k = 0, `name.{k-1}ext` afterwards. -/
def candidate (name ext : Bytes) : Nat → Bytes
  | 0 => name ++ ext
  | k + 1 => name ++ [46] ++ dec k ++ ext

/-- The loop: try candidates `k, k+1, …` until one does not exist. -/
def uniqueLoop (ex : Bytes → Bool) (name ext : Bytes) : Nat → Nat → Option Bytes
  | 0, _ => none
  | fuel + 1, k =>
    if ex (candidate name ext k) then uniqueLoop ex name ext fuel (k + 1)
    else some (candidate name ext k)

/-- `_create_unique_image_name` against a directory listing `existing`. -/
def uniqueName (existing : List Bytes) (name ext : Bytes) : Option Bytes :=
  uniqueLoop (fun c => existing.contains c) name ext (existing.length + 1) 0

end PdfVerif.ImageName
