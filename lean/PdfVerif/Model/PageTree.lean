/-
Hand model of pdfminer's page tree code (C04), function by function:

  pdfpage.PDFPage.create_pages.depth_first_search   -> `visit` / `walkKids`  (visited set, overlay, Type/type)
  pdfpage.PDFPage.create_pages (fallback scan)       -> `createPages`
  pdfpage.PDFPage.__init__ (_parse_mediabox, _parse_cropbox, Rotate, Resources) -> `mkPage`
  pdfpage.PDFPage.get_pages (pagenos / maxpages)     -> `getPages`
  pdfinterp.PDFPageInterpreter.process_page + converter.begin_page -> `render` (on the regenerated table)

The arithmetic and the literal tables come from `PdfVerif.Gen.PageTree`, regenerated from the
Python source on every run.  Import-free apart from the generated files (the driver must link).
-/
import PdfVerif.Gen.PageTree

namespace PdfVerif.PageTree
open PdfVerif PdfVerif.Gen.PageTree PdfVerif.Gen.Utils

/-! ## Objects -/

/-- Values that cannot contain other values. -/
inductive Atom
  | int (i : Int)
  | real (q : Rat)
  | name (s : String)
  | ref (n : Nat)
  | null
  deriving DecidableEq, Inhabited

/-- Values: an atom, an array of values, a dictionary of values — nested to any depth (a direct
Page dictionary inside a Kids array with a direct MediaBox array and a direct Resources dictionary
inside it, …). -/
inductive Val
  | atom (a : Atom)
  | arr (xs : List Val)
  | dict (kvs : List (String × Val))
  deriving Inhabited

/-- Array elements are values. -/
abbrev Elem := Val

/-- A dictionary (page-tree node, Resources, catalog). -/
abbrev Dict := List (String × Val)

/-- A dictionary written directly inside another object. -/
abbrev Flat := Dict

mutual
  /-- Structural equality test (the nested inductive type has no derived `DecidableEq`). -/
  def Val.beq : Val → Val → Bool
    | .atom a, .atom b => a == b
    | .arr xs, .arr ys => Val.beqList xs ys
    | .dict xs, .dict ys => Val.beqDict xs ys
    | _, _ => false
  def Val.beqList : List Val → List Val → Bool
    | [], [] => true
    | x :: xs, y :: ys => Val.beq x y && Val.beqList xs ys
    | _, _ => false
  def Val.beqDict : List (String × Val) → List (String × Val) → Bool
    | [], [] => true
    | (k, x) :: xs, (k', y) :: ys => k == k' && Val.beq x y && Val.beqDict xs ys
    | _, _ => false
end

mutual
  theorem Val.eq_of_beq : ∀ a b : Val, Val.beq a b = true → a = b
    | .atom a, .atom b, h => by simp only [Val.beq, beq_iff_eq] at h; rw [h]
    | .arr xs, .arr ys, h => by simp only [Val.beq] at h; rw [Val.eq_of_beqList xs ys h]
    | .dict xs, .dict ys, h => by simp only [Val.beq] at h; rw [Val.eq_of_beqDict xs ys h]
    | .atom _, .arr _, h => by simp [Val.beq] at h
    | .atom _, .dict _, h => by simp [Val.beq] at h
    | .arr _, .atom _, h => by simp [Val.beq] at h
    | .arr _, .dict _, h => by simp [Val.beq] at h
    | .dict _, .atom _, h => by simp [Val.beq] at h
    | .dict _, .arr _, h => by simp [Val.beq] at h
  theorem Val.eq_of_beqList : ∀ xs ys : List Val, Val.beqList xs ys = true → xs = ys
    | [], [], _ => rfl
    | x :: xs, y :: ys, h => by
      simp only [Val.beqList, Bool.and_eq_true] at h
      rw [Val.eq_of_beq x y h.1, Val.eq_of_beqList xs ys h.2]
    | [], _ :: _, h => by simp [Val.beqList] at h
    | _ :: _, [], h => by simp [Val.beqList] at h
  theorem Val.eq_of_beqDict : ∀ xs ys : List (String × Val), Val.beqDict xs ys = true → xs = ys
    | [], [], _ => rfl
    | (k, x) :: xs, (k', y) :: ys, h => by
      simp only [Val.beqDict, Bool.and_eq_true, beq_iff_eq] at h
      rw [h.1.1, Val.eq_of_beq x y h.1.2, Val.eq_of_beqDict xs ys h.2]
    | [], _ :: _, h => by simp [Val.beqDict] at h
    | _ :: _, [], h => by simp [Val.beqDict] at h
end

mutual
  theorem Val.beq_refl : ∀ a : Val, Val.beq a a = true
    | .atom a => by simp [Val.beq]
    | .arr xs => by simp only [Val.beq]; exact Val.beqList_refl xs
    | .dict xs => by simp only [Val.beq]; exact Val.beqDict_refl xs
  theorem Val.beqList_refl : ∀ xs : List Val, Val.beqList xs xs = true
    | [] => rfl
    | x :: xs => by simp only [Val.beqList, Bool.and_eq_true]; exact ⟨Val.beq_refl x, Val.beqList_refl xs⟩
  theorem Val.beqDict_refl : ∀ xs : List (String × Val), Val.beqDict xs xs = true
    | [] => rfl
    | (k, x) :: xs => by
      simp only [Val.beqDict, Bool.and_eq_true, beq_self_eq_true, true_and]
      exact ⟨Val.beq_refl x, Val.beqDict_refl xs⟩
end

instance : DecidableEq Val := fun a b =>
  if h : Val.beq a b = true then isTrue (Val.eq_of_beq a b h)
  else isFalse (fun e => h (e ▸ Val.beq_refl a))

/-- An indirect object: a dictionary or a plain value. -/
inductive Obj
  | node (d : Dict)
  | val (v : Val)
  deriving DecidableEq, Inhabited

/-- The document's indirect objects by number. -/
abbrev Store := List (Nat × Obj)

/-- `PDFDocument.getobj` (`none`: PDFObjectNotFound). -/
def Store.get (g : Store) (n : Nat) : Option Obj := g.lookup n

/-- `dict.get(k)`. -/
def dget (d : Dict) (k : String) : Option Val := d.lookup k

/-- A direct dictionary as a dictionary object. -/
def liftFlat (kvs : Flat) : Dict := kvs

/-- Exceptions that can end the iteration. `fuel` is not a Python exception: it marks an exhausted
recursion budget of the model (`Props/C04.lean` proves it never appears with the stated fuel). -/
inductive Err
  | fuel
  | objectNotFound      -- `document.getobj(n)` for an integer kid naming no object
  deriving DecidableEq, Inhabited

def Err.toString : Err → String
  | .fuel => "fuel"
  | .objectNotFound => "PDFObjectNotFound"

/-- The loop of `pdftypes.resolve1` with its `seen` set: follow references; a missing object is
null (`default`), and so is a chain that comes back to an object already seen. `none` = the fuel
ran out (`resolveAux_total`: it never does with fuel = number of objects + 1). -/
def resolveAux (g : Store) : Nat → List Nat → Val → Option Obj
  | fuel, seen, .atom (.ref n) =>
    if seen.contains n then some (.val (.atom .null))
    else
      match g.get n with
      | some (.val v') =>
        match fuel with
        | 0 => none
        | f + 1 => resolveAux g f (n :: seen) v'
      | some o => some o
      | none => some (.val (.atom .null))
  | _, _, v => some (.val v)

/-- `pdftypes.resolve1`. -/
def resolve (g : Store) (v : Val) : Obj :=
  (resolveAux g (g.length + 1) [] v).getD (.val (.atom .null))

/-- `dict_value(x)` (non-strict): the dictionary, or `{}` when `x` does not resolve to one. -/
def dictValue (g : Store) (v : Val) : Dict :=
  match resolve g v with
  | .node d => d
  | .val (.dict kvs) => liftFlat kvs
  | _ => []

/-- `list_value(x)` (non-strict). -/
def listValue (g : Store) (v : Val) : List Elem :=
  match resolve g v with
  | .val (.arr xs) => xs
  | _ => []

/-! ## depth_first_search -/

/-- The overlay loop `for k, v in parent.items(): if <overlay_cond>: props[k] = v` (the test is the
regenerated `overlay_cond`; keys of `parent` are distinct, so testing against the original `props`
is the same as testing against the dictionary being updated). -/
def overlay (parent props : Dict) : Dict :=
  props ++ parent.filter (fun kv => overlay_cond (INHERITABLE_ATTRS.contains kv.1) (dget props kv.1).isSome)

/-- `object_properties.get("Type")`, falling back to `"type"` (settings.STRICT is False). -/
def nodeType (d : Dict) : Option Val :=
  match dget d "Type" with
  | some v => some v
  | none => dget d "type"

def isName (v : Option Val) (s : String) : Bool := v == some (.atom (.name s))

/-- A page as yielded by `depth_first_search`: object id (`none` for a dictionary that is not an
indirect object) and the overlaid dictionary. -/
structure RawPage where
  id : Option Nat
  attrs : Dict
  deriving DecidableEq, Inhabited

/-- Result of a (partial) walk: pages yielded so far, the visited set, the exception that ended it. -/
structure Walk where
  pages : List RawPage
  visited : List Nat
  err : Option Err
  deriving Inhabited

/-- First lines of `depth_first_search`: object id and dictionary of `obj`.
An integer is an object number (`getobj` raises when it names nothing), a reference carries its
`objid`; anything else has no object id (`getattr(obj, "objid", None)`) and `dict_value` gives the
dictionary itself when it is one, `{}` otherwise. -/
def nodeOf (g : Store) (kid : Elem) : Except Err (Option Nat × Dict) :=
  match kid with
  | .atom (.ref n) => .ok (some n, dictValue g (.atom (.ref n)))
  | .atom (.int i) =>
    if 0 ≤ i then
      match g.get i.toNat with
      | some _ => .ok (some i.toNat, dictValue g (.atom (.ref i.toNat)))
      | none => .error .objectNotFound
    else .error .objectNotFound
  | .atom _ => .ok (none, [])
  | .dict kvs => .ok (none, liftFlat kvs)
  | .arr _ => .ok (none, [])

/-- The `for child in list_value(Kids): yield from depth_first_search(child, props, visited)` loop,
over an arbitrary visitor of one child. An exception ends the loop. -/
def walkKids (visitOne : Elem → Dict → List Nat → Walk) : List Elem → Dict → List Nat → Walk
  | [], _, vis => ⟨[], vis, none⟩
  | k :: ks, parent, vis =>
    let w1 := visitOne k parent vis
    match w1.err with
    | some _ => w1
    | none =>
      let w2 := walkKids visitOne ks parent w1.visited
      ⟨w1.pages ++ w2.pages, w2.visited, w2.err⟩

/-- `depth_first_search(obj, parent, visited)`; the fuel bounds the recursion depth. -/
def visit (g : Store) : Nat → Elem → Dict → List Nat → Walk
  | 0, _, _, vis => ⟨[], vis, some .fuel⟩
  | f + 1, kid, parent, vis =>
    match nodeOf g kid with
    | .error e => ⟨[], vis, some e⟩
    | .ok (oid, props0) =>
      if (match oid with | some id => vis.contains id | none => false) then ⟨[], vis, none⟩
      else
        let vis' := match oid with | some id => id :: vis | none => vis
        let props := overlay parent props0
        let ty := nodeType props
        if isName ty "Pages" && (dget props "Kids").isSome then
          match oid with
          | none => ⟨[], vis', none⟩     -- a Pages node that is not an indirect object is ignored
          | some _ =>
            walkKids (visit g f) (listValue g ((dget props "Kids").getD (.atom .null))) props vis'
        else if isName ty "Page" then ⟨[⟨oid, props⟩], vis', none⟩
        else ⟨[], vis', none⟩

/-! ## PDFPage.__init__ -/

/-- A page as observed through `PDFPage`: id, rotate, mediabox, cropbox, the `Marker` of its Resources. -/
structure Page where
  id : Option Nat
  rotate : Int
  mediabox : Rect
  cropbox : Rect
  marker : Option Int
  deriving DecidableEq, Inhabited

/-- `float(resolve1(val))`; `none` = TypeError (caught by `parse_rect`). -/
def numOf (g : Store) (e : Elem) : Option Rat :=
  match e with
  | .dict _ => none
  | .arr _ => none
  | .atom a =>
    match resolve g (.atom a) with
    | .val (.atom (.int i)) => some (i : Rat)
    | .val (.atom (.real q)) => some q
    | _ => none

/-- `parse_rect(resolve1(val) for val in list_value(value))` then `_normalize_rect`:
`none` is the PDFValueError path (not an array, not four elements, a non-number), on which the
caller substitutes its default. -/
def parseBox (g : Store) (v : Val) : Option Rect :=
  match listValue g v with
  | [a, b, c, d] =>
    match numOf g a, numOf g b, numOf g c, numOf g d with
    | some x0, some y0, some x1, some y1 => some (normalize_rect (x0, y0, x1, y1))
    | _, _, _, _ => none
  | _ => none

/-- `int_value(x)` (non-strict): 0 for anything that is not an integer. -/
def intValue (g : Store) (v : Val) : Int :=
  match resolve g v with
  | .val (.atom (.int i)) => i
  | _ => 0

/-- The `Marker` entry of the resolved Resources value (harness observation of "which Resources"). -/
def markerOf (g : Store) (v : Option Val) : Option Int :=
  match v with
  | none => none
  | some v =>
    match dget (dictValue g v) "Marker" with
    | some (.atom (.int m)) => some m
    | _ => none

/-- `PDFPage.__init__` as a function of the four entries it reads. The defaulting structure of
`_parse_mediabox` / `_parse_cropbox` (`parse_mediabox`, `parse_cropbox`: which default on a missing
value and on `PDFValueError`) is regenerated from the source; `parseBox` stands for the parse
expression `_normalize_rect(parse_rect(resolve1(val) for val in list_value(value)))` inside them. -/
def mkPage (g : Store) (id : Option Nat) (res mb cb rot : Option Val) : Page :=
  let mbox : Rect := parse_mediabox mb.isNone (mb.bind (parseBox g))
  let cbox : Rect := parse_cropbox cb.isNone (cb.bind (parseBox g)) mbox
  let r := match rot with
    | none => ROTATE_DEFAULT
    | some v => intValue g v
  ⟨id, norm_rotate r, mbox, cbox, markerOf g res⟩

/-- `cls(document, objid, tree, label)`: the entries `__init__` reads (their names regenerated from
the source: `KEY_…`). Constructing a page raises nothing in the model's value space. -/
def pageOfRaw (g : Store) (p : RawPage) : Except Err Page :=
  .ok (mkPage g p.id (dget p.attrs KEY_RESOURCES) (dget p.attrs KEY_MEDIABOX) (dget p.attrs KEY_CROPBOX)
    (dget p.attrs KEY_ROTATE))

/-- Construct the pages one after the other; the first exception ends the iteration. -/
def finish {α : Type} (mk : α → Except Err Page) : List α → Option Err → List Page × Option Err
  | [], e => ([], e)
  | p :: ps, e =>
    match mk p with
    | .error e' => ([], some e')
    | .ok pg =>
      let (rest, e'') := finish mk ps e
      (pg :: rest, e'')

/-! ## create_pages -/

/-- The walk from `catalog["Pages"]` with the catalog as first `parent`. A value that is neither a
reference, an integer nor a dictionary resolves to `{}` and yields nothing. -/
def treeWalk (g : Store) (fuel : Nat) (catalog : Dict) : Walk :=
  match dget catalog "Pages" with
  | none => ⟨[], [], none⟩
  | some (.atom a) => visit g fuel (.atom a) catalog []
  | some (.dict kvs) => visit g fuel (.dict kvs) catalog []
  | some (.arr _) => ⟨[], [], none⟩

/-- The fallback scan `for objid in xref.get_objids(): obj = getobj(objid); if dict and Type is Page`. -/
def fallback (g : Store) (ids : List Nat) : List RawPage :=
  ids.filterMap (fun id =>
    match g.get id with
    | some (.node d) => if isName (dget d "Type") "Page" then some ⟨some id, d⟩ else none
    | _ => none)

/-- `PDFPage.create_pages`: pages and the exception that ended the iteration, if any. -/
def createPages (g : Store) (ids : List Nat) (fuel : Nat) (catalog : Dict) : List Page × Option Err :=
  let w := treeWalk g fuel catalog
  if w.pages.isEmpty && w.err.isNone then finish (pageOfRaw g) (fallback g ids) none
  else finish (pageOfRaw g) w.pages w.err

/-! ## get_pages -/

/-- The loop of `PDFPage.get_pages` over the generator `create_pages` (its pages and the exception
that is raised when it is asked for one more), from page index `i` on:
`if <select_yield>: yield page;  if <select_break>: break` (both tests regenerated from the source).
The pending exception is met only if the loop asks for a page beyond the last one. -/
def getPagesS {α : Type} (sel : List Nat) (maxpages : Nat) : Nat → List α → Option Err → List α × Option Err
  | _, [], e => ([], e)
  | i, p :: ps, e =>
    let out := if select_yield (!sel.isEmpty) (sel.contains i) then [p] else []
    if select_break (maxpages : Int) (i : Int) then (out, none)
    else
      let r := getPagesS sel maxpages (i + 1) ps e
      (out ++ r.1, r.2)

/-- The pages yielded, for a generator that ends normally. -/
def getPages {α : Type} (sel : List Nat) (maxpages : Nat) (i : Nat) (pages : List α) : List α :=
  (getPagesS sel maxpages i pages none).1

def getPagesErr (sel : List Nat) (maxpages : Nat) (r : List Page × Option Err) : List Page × Option Err :=
  getPagesS sel maxpages 0 r.1 r.2

/-- Truth value of the `pagenos` argument as Python takes it in `not pagenos`: `None` and an empty
container are falsy. A container is a list here: duplicates, any order, negative numbers and numbers
beyond the last page are all possible (`set`, `list`, `range` … differ only in membership). -/
def pagenosTruthy : Option (List Int) → Bool
  | none => false
  | some l => !l.isEmpty

/-- `pageno in pagenos`. -/
def pagenoIn (pagenos : Option (List Int)) (i : Nat) : Bool :=
  match pagenos with
  | none => false
  | some l => l.contains (i : Int)

/-- `PDFPage.get_pages(fp, pagenos, maxpages)` with its arguments as Python passes them (`pagenos`
`None` or any container of integers, `maxpages` any integer), over the generator `create_pages`
(pages and pending exception): `if <select_yield>: yield page; if <select_break>: break`, both tests
regenerated from the source. `extract_text`, `extract_pages` and `extract_text_to_fp` hand their
`page_numbers`/`maxpages` to it unchanged (asserted by the generator). -/
def getPagesPy {α : Type} (pagenos : Option (List Int)) (maxpages : Int) :
    Nat → List α → Option Err → List α × Option Err
  | _, [], e => ([], e)
  | i, p :: ps, e =>
    let out := if select_yield (pagenosTruthy pagenos) (pagenoIn pagenos i) then [p] else []
    if select_break maxpages (i : Int) then (out, none)
    else
      let r := getPagesPy pagenos maxpages (i + 1) ps e
      (out ++ r.1, r.2)

/-! ## process_page / begin_page -/

/-- What the harness observes for one page: `LTPage.bbox` and the matrix of a glyph shown with
`1 0 0 1 tx ty Tm` (linear part of the CTM, image of `(tx, ty)`). -/
def render (rotate : Int) (mediabox : Rect) (pt : Point) : Rect × Matrix :=
  let ctm := page_ctm rotate mediabox
  let (a, b, c, d, _, _) := ctm
  let (ex, fy) := apply_matrix_pt ctm pt
  (begin_page_bbox ctm mediabox, (a, b, c, d, ex, fy))

/-- `extract_text_to_fp(rotation=…)`: the box of the `LTPage` after the extra rotation was added to
the page's (already reduced) Rotate. -/
def rotatedBox (rotate rotation : Int) (mediabox : Rect) : Rect :=
  begin_page_bbox (page_ctm (add_rotation rotate rotation) mediabox) mediabox

end PdfVerif.PageTree
