/-
Hand model of pdfminer's page tree code (C04), function by function:

  pdfpage.PDFPage.create_pages.depth_first_search   -> `visit` / `walkKids`  (visited set, overlay, Type/type)
  pdfpage.PDFPage.create_pages (fallback scan)       -> `createPages`
  pdfpage.PDFPage.__init__ (_parse_mediabox, _parse_cropbox, Rotate, Resources) -> `mkPage`
  pdfpage.PDFPage.get_pages (pagenos / maxpages)     -> `getPages`
  pdfinterp.PDFPageInterpreter.process_page + converter.begin_page -> `render` (on the regenerated table)

The arithmetic and the literal tables come from `PdfVerif.Gen.PageTree`, regenerated from the
Python source on every run.  Import-free apart from the generated files (the driver must link).
-/
import PdfVerif.Gen.PageTree

namespace PdfVerif.PageTree
open PdfVerif PdfVerif.Gen.PageTree PdfVerif.Gen.Utils

/-! ## Objects -/

/-- Values that cannot contain other values. -/
inductive Atom
  | int (i : Int)
  | real (q : Rat)
  | name (s : String)
  | ref (n : Nat)
  | null
  deriving DecidableEq, Inhabited

/-- Values of dictionary entries: an atom, an array of atoms, a dictionary of atoms. -/
inductive Val
  | atom (a : Atom)
  | arr (xs : List Atom)
  | dict (kvs : List (String × Atom))
  deriving DecidableEq, Inhabited

/-- A dictionary object (page-tree node, indirect Resources, catalog). -/
abbrev Dict := List (String × Val)

/-- An indirect object: a dictionary or a plain value. -/
inductive Obj
  | node (d : Dict)
  | val (v : Val)
  deriving DecidableEq, Inhabited

/-- The document's objects by number (`PDFDocument.getobj`). -/
abbrev Store := Nat → Option Obj

/-- `dict.get(k)`. -/
def dget (d : Dict) (k : String) : Option Val := d.lookup k

/-- Exceptions that can end the iteration. `fuel` is not a Python exception: it marks an exhausted
recursion budget of the model (`Props/C04.lean` proves it never appears with the stated fuel). -/
inductive Err
  | fuel
  | objectNotFound      -- `document.getobj(n)` for an integer kid naming no object
  | unmodelled          -- `catalog["Pages"]` written as a direct dictionary (outside the model, never generated)
  deriving DecidableEq, Inhabited

def Err.toString : Err → String
  | .fuel => "fuel"
  | .objectNotFound => "PDFObjectNotFound"
  | .unmodelled => "unmodelled"

/-- Longest chain of references-to-references followed by `resolve1` in the model. `resolve1` returns
`None` on a circular chain (cycle guard); every cycle exhausts this fuel, which yields null as well.
A non-circular chain longer than this is outside the model. -/
def refFuel : Nat := 8

/-- `pdftypes.resolve1`: follow references; a missing object is null. -/
def resolve (g : Store) (fuel : Nat) (v : Val) : Obj :=
  match v, fuel with
  | .atom (.ref n), f + 1 =>
    match g n with
    | some (.val v') => resolve g f v'
    | some o => o
    | none => .val (.atom .null)
  | .atom (.ref _), 0 => .val (.atom .null)
  | v, _ => .val v

/-- `dict_value(x)` (non-strict): the dictionary, or `{}` when `x` does not resolve to one.
A direct dictionary of atoms is returned as a dictionary object. -/
def dictValue (g : Store) (v : Val) : Dict :=
  match resolve g refFuel v with
  | .node d => d
  | .val (.dict kvs) => kvs.map (fun (k, a) => (k, Val.atom a))
  | _ => []

/-- `list_value(x)` (non-strict). -/
def listValue (g : Store) (v : Val) : List Atom :=
  match resolve g refFuel v with
  | .val (.arr xs) => xs
  | _ => []

/-! ## depth_first_search -/

/-- The overlay loop: `for k, v in parent.items(): if k in INHERITABLE_ATTRS and k not in props: props[k] = v`. -/
def overlay (parent props : Dict) : Dict :=
  props ++ parent.filter (fun kv => INHERITABLE_ATTRS.contains kv.1 && (dget props kv.1).isNone)

/-- `object_properties.get("Type")`, falling back to `"type"` (settings.STRICT is False). -/
def nodeType (d : Dict) : Option Val :=
  match dget d "Type" with
  | some v => some v
  | none => dget d "type"

def isName (v : Option Val) (s : String) : Bool := v == some (.atom (.name s))

/-- A page as yielded by `depth_first_search`: object id and the overlaid dictionary. -/
structure RawPage where
  id : Nat
  attrs : Dict
  deriving DecidableEq, Inhabited

/-- Result of a (partial) walk: pages yielded so far, the visited set, the exception that ended it. -/
structure Walk where
  pages : List RawPage
  visited : List Nat
  err : Option Err
  deriving Inhabited

/-- First lines of `depth_first_search`: object id and dictionary of `obj`. A kid that is neither a
reference nor an integer has no object id (`getattr(obj, "objid", None)`) and, being no
dictionary, `dict_value` makes it `{}`: `none`. (Direct dictionaries inside a Kids array are
outside the model's value space.) -/
def nodeOf (g : Store) (kid : Atom) : Except Err (Option (Nat × Dict)) :=
  match kid with
  | .ref n => .ok (some (n, dictValue g (.atom (.ref n))))
  | .int i =>
    if 0 ≤ i then
      match g i.toNat with
      | some _ => .ok (some (i.toNat, dictValue g (.atom (.ref i.toNat))))
      | none => .error .objectNotFound
    else .error .objectNotFound
  | _ => .ok none

/-- The `for child in list_value(Kids): yield from depth_first_search(child, props, visited)` loop,
over an arbitrary visitor of one child. An exception ends the loop. -/
def walkKids (visitOne : Atom → Dict → List Nat → Walk) : List Atom → Dict → List Nat → Walk
  | [], _, vis => ⟨[], vis, none⟩
  | k :: ks, parent, vis =>
    let w1 := visitOne k parent vis
    match w1.err with
    | some _ => w1
    | none =>
      let w2 := walkKids visitOne ks parent w1.visited
      ⟨w1.pages ++ w2.pages, w2.visited, w2.err⟩

/-- `depth_first_search(obj, parent, visited)`; the fuel bounds the recursion depth. -/
def visit (g : Store) : Nat → Atom → Dict → List Nat → Walk
  | 0, _, _, vis => ⟨[], vis, some .fuel⟩
  | f + 1, kid, parent, vis =>
    match nodeOf g kid with
    | .error e => ⟨[], vis, some e⟩
    | .ok none => ⟨[], vis, none⟩    -- `{}` has no Type: nothing is yielded, nothing is marked visited
    | .ok (some (id, props0)) =>
      if id ∈ vis then ⟨[], vis, none⟩
      else
        let vis' := id :: vis
        let props := overlay parent props0
        let ty := nodeType props
        if isName ty "Pages" && (dget props "Kids").isSome then
          walkKids (visit g f) (listValue g ((dget props "Kids").getD (.atom .null))) props vis'
        else if isName ty "Page" then ⟨[⟨id, props⟩], vis', none⟩
        else ⟨[], vis', none⟩

/-! ## PDFPage.__init__ -/

/-- A page as observed through `PDFPage`: id, rotate, mediabox, cropbox, the `Marker` of its Resources. -/
structure Page where
  id : Nat
  rotate : Int
  mediabox : Rect
  cropbox : Rect
  marker : Option Int
  deriving DecidableEq, Inhabited

/-- `float(resolve1(val))`; `none` = TypeError (caught by `parse_rect`). -/
def numOf (g : Store) (a : Atom) : Option Rat :=
  match resolve g refFuel (.atom a) with
  | .val (.atom (.int i)) => some (i : Rat)
  | .val (.atom (.real q)) => some q
  | _ => none

/-- `parse_rect(resolve1(val) for val in list_value(value))` then `_normalize_rect`:
`none` is the PDFValueError path (not an array, not four elements, a non-number), on which the
caller substitutes its default. -/
def parseBox (g : Store) (v : Val) : Option Rect :=
  match listValue g v with
  | [a, b, c, d] =>
    match numOf g a, numOf g b, numOf g c, numOf g d with
    | some x0, some y0, some x1, some y1 => some (normalize_rect (x0, y0, x1, y1))
    | _, _, _, _ => none
  | _ => none

/-- `int_value(x)` (non-strict): 0 for anything that is not an integer. -/
def intValue (g : Store) (v : Val) : Int :=
  match resolve g refFuel v with
  | .val (.atom (.int i)) => i
  | _ => 0

/-- The `Marker` entry of the resolved Resources value (harness observation of "which Resources"). -/
def markerOf (g : Store) (v : Option Val) : Option Int :=
  match v with
  | none => none
  | some v =>
    match dget (dictValue g v) "Marker" with
    | some (.atom (.int m)) => some m
    | _ => none

/-- `PDFPage.__init__` as a function of the four inheritable entries of the page dictionary. -/
def mkPage (g : Store) (id : Nat) (res mb cb rot : Option Val) : Page :=
  let mbox : Rect :=
    match mb with
    | none => US_LETTER
    | some v => (parseBox g v).getD US_LETTER
  let cbox : Rect :=
    match cb with
    | none => mbox
    | some v => (parseBox g v).getD mbox
  let r := match rot with
    | none => ROTATE_DEFAULT
    | some v => intValue g v
  ⟨id, norm_rotate r, mbox, cbox, markerOf g res⟩

/-- Constructing a page raises nothing in the model's value space. -/
def pageOfRaw (g : Store) (p : RawPage) : Except Err Page :=
  .ok (mkPage g p.id (dget p.attrs "Resources") (dget p.attrs "MediaBox") (dget p.attrs "CropBox")
    (dget p.attrs "Rotate"))

/-- Construct the pages one after the other; the first exception ends the iteration. -/
def finish {α : Type} (mk : α → Except Err Page) : List α → Option Err → List Page × Option Err
  | [], e => ([], e)
  | p :: ps, e =>
    match mk p with
    | .error e' => ([], some e')
    | .ok pg =>
      let (rest, e'') := finish mk ps e
      (pg :: rest, e'')

/-! ## create_pages -/

/-- The walk from `catalog["Pages"]` with the catalog as first `parent`. -/
def treeWalk (g : Store) (fuel : Nat) (catalog : Dict) : Walk :=
  match dget catalog "Pages" with
  | none => ⟨[], [], none⟩
  | some (.atom a) => visit g fuel a catalog []
  | some (.arr _) => ⟨[], [], none⟩              -- `dict_value` of an array is `{}`
  | some (.dict _) => ⟨[], [], some .unmodelled⟩

/-- The fallback scan `for objid in xref.get_objids(): obj = getobj(objid); if dict and Type is Page`. -/
def fallback (g : Store) (ids : List Nat) : List RawPage :=
  ids.filterMap (fun id =>
    match g id with
    | some (.node d) => if isName (dget d "Type") "Page" then some ⟨id, d⟩ else none
    | _ => none)

/-- `PDFPage.create_pages`: pages and the exception that ended the iteration, if any. -/
def createPages (g : Store) (ids : List Nat) (fuel : Nat) (catalog : Dict) : List Page × Option Err :=
  let w := treeWalk g fuel catalog
  if w.pages.isEmpty && w.err.isNone then finish (pageOfRaw g) (fallback g ids) none
  else finish (pageOfRaw g) w.pages w.err

/-! ## get_pages -/

/-- The loop of `PDFPage.get_pages` from page index `i` on:
`if not pagenos or pageno in pagenos: yield page;  if maxpages and maxpages <= pageno + 1: break`. -/
def getPages {α : Type} (sel : List Nat) (maxpages : Nat) : Nat → List α → List α
  | _, [] => []
  | i, p :: ps =>
    let out := if sel.isEmpty || sel.contains i then [p] else []
    if maxpages != 0 && maxpages ≤ i + 1 then out else out ++ getPages sel maxpages (i + 1) ps

/-- Whether the loop pulls the generator beyond its last page (and so meets a pending exception). -/
def reachesEnd (maxpages n : Nat) : Bool := maxpages == 0 || n < maxpages

def getPagesErr (sel : List Nat) (maxpages : Nat) (r : List Page × Option Err) : List Page × Option Err :=
  (getPages sel maxpages 0 r.1, if reachesEnd maxpages r.1.length then r.2 else none)

/-! ## process_page / begin_page -/

/-- What the harness observes for one page: `LTPage.bbox` and the matrix of a glyph shown with
`1 0 0 1 tx ty Tm` (linear part of the CTM, image of `(tx, ty)`). -/
def render (rotate : Int) (mediabox : Rect) (pt : Point) : Rect × Matrix :=
  let ctm := page_ctm rotate mediabox
  let (a, b, c, d, _, _) := ctm
  let (ex, fy) := apply_matrix_pt ctm pt
  (begin_page_bbox ctm mediabox, (a, b, c, d, ex, fy))

end PdfVerif.PageTree
