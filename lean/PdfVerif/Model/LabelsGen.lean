/-
C17 — `format_int_roman` / `format_int_alpha` assembled from the TRANSLATED pieces of
`Gen/LabelCode.lean` (assert, while test, loop body, tail — regenerated from pdfminer/utils.py on
every run).  Only the `while` construct itself is written by hand here (as a pass budget);
`Lemmas/LabelsGen.lean` proves these equal to the hand models of `Model/Labels.lean` for EVERY
input, so every theorem about the hand models is a theorem about the translated code, and an
edit of the Python loop bodies breaks a proof.  Import-free (the driver links against it).
-/
import PdfVerif.Model.Labels
import PdfVerif.Gen.LabelCode

namespace PdfVerif.LabelsGen
open PdfVerif PdfVerif.Labels PdfVerif.LabelsPy PdfVerif.Gen.LabelCode

def liftErr {α : Type} : Except PyErr α → Except Err α
  | .ok x => .ok x
  | .error .index => .error .index

/-- `while value != 0: <body>` of `format_int_roman`, at most `fuel` passes. -/
def romanWhile : Nat → Int → Int → List Text → Except Err (List Text)
  | 0, value, _, result => if format_int_roman_cond value = true then .error .fuel else .ok result
  | fuel + 1, value, index, result =>
    if format_int_roman_cond value = true then
      match liftErr (format_int_roman_body value index result) with
      | .ok (v, i, r) => romanWhile fuel v i r
      | .error e => .error e
    else .ok result

/-- `format_int_roman`, from the translated pieces: assert, prologue (`divmod(value, 1000)`,
`result = []`, `index = 0`), loop (the three low digits: at most 3 passes), epilogue. -/
def genFormatIntRoman (value : Int) : Except Err Text :=
  if format_int_roman_pre value = true then
    match liftErr (format_int_roman_init value) with
    | .error e => .error e
    | .ok (thousands, v, i, r) =>
      match romanWhile 3 v i r with
      | .error e => .error e
      | .ok r' => liftErr (format_int_roman_post thousands r')
  else .error .assertion

/-- `while value != 0: <body>` of `format_int_alpha`, at most `fuel` passes. -/
def alphaWhile : Nat → Int → List Text → Except Err (List Text)
  | 0, _, result => .ok result
  | fuel + 1, value, result =>
    if format_int_alpha_cond value = true then
      match liftErr (format_int_alpha_body value result) with
      | .ok (v, r) => alphaWhile fuel v r
      | .error e => .error e
    else .ok result

/-- `format_int_alpha`, from the translated pieces (`(value − 1) // 26 < value`: `value` passes suffice). -/
def genFormatIntAlpha (value : Int) : Except Err Text :=
  if format_int_alpha_pre value = true then
    match liftErr (format_int_alpha_init value) with
    | .error e => .error e
    | .ok (v, r) =>
      match alphaWhile v.toNat v r with
      | .error e => .error e
      | .ok r' => liftErr (format_int_alpha_post r')
  else .error .assertion

/-! ### `PageLabels._format_page_label` from the translated if/elif chain -/

def applyNumeral : PyNumeral → Int → Except Err Text
  | .str, v => .ok (decimal v)
  | .roman, v => genFormatIntRoman v
  | .alpha, v => genFormatIntAlpha v

/-- The first entry of the chain whose name is the style decides; `None` and unknown styles get the
translated constant labels. -/
def genFormatPageLabel (value : Int) (style : Option Bytes) : Except Err Text :=
  match style with
  | none => .ok format_page_label_none
  | some s =>
    match format_page_label_chain.find? (fun e => s == e.1) with
    | some (_, f, up) => (applyNumeral f value).map (fun t => if up then upper t else t)
    | none => .ok format_page_label_else

/-- One range of `PageLabels.labels` that is not the last one, from the translated
`label_dict.get("St", …)`, `label_dict.get("P", …)`, `range_length = …`, `values = range(…)`:
the labels of the range starting at page `start`, the next one starting at `end_`. -/
def genRangeLabels (d : LabelDict) (start end_ : Int) : List (Except Err Text) :=
  (labels_values (d.st.getD labels_default_St) (labels_range_length start end_)).map (fun value =>
    (genFormatPageLabel value d.style).map (fun l => decodeText (d.pfx.getD labels_default_P) ++ l))

end PdfVerif.LabelsGen
