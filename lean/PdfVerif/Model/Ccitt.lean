/-
Hand model of pdfminer/ccitt.py (import-free, executable):
  BitParser.add / _parse_bit, CCITTG4Parser (_parse_mode, _parse_horiz1/2, _do_vertical, _do_pass,
  _do_horizontal, _flush_line, _reset_line, reset, feedbytes incl. ByteSkip and EOFB),
  CCITTFaxDecoder.output_line (packing, `reversed`), ccittfaxdecode (K, Columns, EncodedByteAlign,
  BlackIs1).  The code tables are `Gen/CcittTables.lean`; loop conditions, offsets, thresholds, bit
masks, defaults and the `_parse_mode` dispatch are `Gen/CcittCode.lean` — both regenerated from the
source on every run.

Conventions: a pixel / colour is a `Bool`, `true` = 1 = white (the parser's convention).
`Err.unmodelled` marks what is outside this model: `Columns ≤ 0`, and branches that no reachable state
takes (a run-length table handing out a mode symbol, ...).
-/
import PdfVerif.Model.Prelude
import PdfVerif.Gen.CcittTables
import PdfVerif.Gen.CcittCode
import PdfVerif.Model.CcittBits

namespace PdfVerif.Ccitt
open PdfVerif PdfVerif.Gen

/-! ## BitParser: the tries -/

/-- A Python trie node: `None`, a value, or a two-element list. -/
inductive Trie where
  | empty
  | leaf (s : Sym)
  | node (l r : Trie)
  deriving DecidableEq, Repr

/-- `BitParser.add(root, v, bits)`; `none` when Python would raise (empty `bits`, or a code word that
runs through an existing leaf). -/
def Trie.add : Trie → Sym → List Bool → Option Trie
  | .node l r, v, [b] => some (if b then .node l (.leaf v) else .node (.leaf v) r)
  | .node l r, v, b :: b' :: bs =>
    let c := if b then r else l
    let c' : Option Trie := match c with
      | .empty => some (.node .empty .empty)
      | .node a d => some (.node a d)
      | .leaf _ => none
    match c' with
    | none => none
    | some c' =>
      match Trie.add c' v (b' :: bs) with
      | none => none
      | some n => some (if b then .node l n else .node n r)
  | _, _, _ => none

/-- A table = the `add` calls in source order, starting from `[None, None]`. -/
def buildTrie (tbl : List (Sym × List Bool)) : Option Trie :=
  tbl.foldlM (fun t e => Trie.add t e.1 e.2) (.node .empty .empty)

def modeTrie : Trie := (buildTrie (CcittTables.MODE.map fun e => (Sym.mode e.1, e.2))).getD .empty
def whiteTrie : Trie := (buildTrie (CcittTables.WHITE.map fun e => (Sym.run e.1, e.2))).getD .empty
def blackTrie : Trie := (buildTrie (CcittTables.BLACK.map fun e => (Sym.run e.1, e.2))).getD .empty
def uncTrie : Trie := (buildTrie (CcittTables.UNCOMPRESSED.map fun e => (Sym.unc e.1, e.2))).getD .empty

/-- `WHITE if self._color else BLACK` -/
def runTrie (color : Bool) : Trie := if color then whiteTrie else blackTrie

/-! ## Parser state -/

inductive Err where
  | invalidData          -- CCITTG4Parser.InvalidData
  | valueError           -- PDFValueError (K ≠ -1)
  | notImplemented       -- PDFNotImplementedError (PDFStream._decode: unsupported filter)
  | unmodelled           -- degenerate width / unreachable branch: outside this model
  deriving DecidableEq, Repr

/-- Which `_accept` callback is installed. -/
inductive Acc where
  | mode | horiz1 | horiz2 | unc
  deriving DecidableEq, Repr

/-- What `_parse_bit` raised, if anything. -/
inductive Sig where
  | cont | byteSkip | eofb
  deriving DecidableEq, Repr

structure St where
  width : Nat
  bytealign : Bool
  reversed : Bool
  refline : List Bool
  curline : List Bool
  curpos : Int
  color : Bool
  n1 : Nat
  n2 : Nat
  acc : Acc
  node : Trie
  buf : List UInt8
  deriving Repr

/-- `for x in range(lo, hi): line[x] = c` -/
def fill (l : List Bool) (lo hi : Nat) (c : Bool) : List Bool :=
  l.mapIdx fun i x => if lo ≤ i ∧ i < hi then c else x

/-! ### output_line -/

/-- One output byte: the masks (`Gen.CcittCode.outMasks`) of the set bits among `bits[8j .. 8j+7]`. -/
def outByte (bits : List Bool) (j : Nat) : UInt8 :=
  UInt8.ofNat (((List.range 8).map fun i =>
    if bits.getD (8 * j + i) false then CcittCode.outMasks.getD i 0 else 0).sum)

/-- `CCITTFaxDecoder.output_line`: `(len(bits) + 7) // 8` zero bytes, polarity flipped when
`reversed`, then `arr[i // 8] += masks[i % 8]` for every set bit. -/
def packLine (reversed : Bool) (bits : List Bool) : List UInt8 :=
  let bits := if reversed then bits.map CcittCode.outFlip else bits
  (List.range (CcittCode.outLen (bits.length : Int)).toNat).map (outByte bits)

/-! ### line bookkeeping -/

/-- `_reset_line` -/
def resetLine (st : St) : St :=
  { st with refline := st.curline, curline := List.replicate st.width CcittCode.blankPixel,
            curpos := CcittCode.resetCurpos, color := CcittCode.resetColor }

/-- `_flush_line`; the flag says that `ByteSkip` was raised. -/
def flushLine (st : St) : St × Bool :=
  if CcittCode.flushCond (st.width : Int) st.curpos then
    (resetLine { st with buf := st.buf ++ packLine st.reversed st.curline }, st.bytealign)
  else (st, false)

/-- The `while 1:` scans of `_do_vertical` / `_do_pass` from position `x` on (`prev` = the reference
pixel left of it, `none` at column 0 where the source has its own test `cond0`): advance until the
end of the line or until the (regenerated) condition holds. -/
def scanFrom (cond0 : Bool → Bool → Bool) (cond : Bool → Bool → Bool → Bool) (color : Bool) :
    Option Bool → List Bool → Nat → Nat
  | _, [], x => x
  | none, r :: rs, x => if cond0 r color then x else scanFrom cond0 cond color (some r) rs (x + 1)
  | some p, r :: rs, x => if cond p r color then x else scanFrom cond0 cond color (some r) rs (x + 1)

/-- The pixel left of position `x`, if there is a column left of it. -/
def prevOpt (ref : List Bool) (x : Nat) : Option Bool :=
  if x = 0 then none else some (ref.getD (x - 1) true)

/-- first loop of `_do_vertical` -/
def findB1 (ref : List Bool) (color : Bool) (x1 : Nat) : Nat :=
  scanFrom CcittCode.vertCond0 CcittCode.vertCond color (prevOpt ref x1) (ref.drop x1) x1

/-- first loop of `_do_pass` -/
def findB1p (ref : List Bool) (color : Bool) (x1 : Nat) : Nat :=
  scanFrom CcittCode.passB1Cond0 CcittCode.passB1Cond color (prevOpt ref x1) (ref.drop x1) x1

/-- second loop of `_do_pass` -/
def findB2 (ref : List Bool) (color : Bool) (x1 : Nat) : Nat :=
  scanFrom CcittCode.passB2Cond0 CcittCode.passB2Cond color (prevOpt ref x1) (ref.drop x1) x1

/-- `_do_vertical(dx)` -/
def doVertical (st : St) (dx : Int) : St :=
  let b1 := findB1 st.refline st.color (CcittCode.vertStart st.curpos).toNat
  let x1 : Int := CcittCode.vertTarget (b1 : Int) dx
  let x0 : Int := CcittCode.vertX0 st.curpos
  let x1 : Int := CcittCode.vertClamp (st.width : Int) x1
  let cur :=
    if CcittCode.vertBackward x1 x0 then fill st.curline x1.toNat x0.toNat st.color
    else if CcittCode.vertForward x0 x1 then fill st.curline x0.toNat x1.toNat st.color
    else st.curline
  { st with curline := cur, curpos := x1, color := CcittCode.vertNewColor st.color }

/-- `_do_pass()`; `range(self._curpos, x1)` starts at -1 on a fresh line, and `curline[-1]` is the
last pixel. -/
def doPass (st : St) : St :=
  let b1 := findB1p st.refline st.color (CcittCode.passStart st.curpos).toNat
  let b2 := findB2 st.refline st.color b1
  let l0 := if st.curpos < 0 then fill st.curline (st.width - 1) st.width st.color else st.curline
  { st with curline := fill l0 st.curpos.toNat b2 st.color, curpos := (b2 : Int) }

/-- Where a `for _ in range(n): if <stop>: break; …; x += 1` loop of `_do_horizontal` ends. -/
def runEnd (stop : Int → Int → Bool) (len : Int) : Nat → Int → Int
  | 0, x => x
  | n + 1, x => if stop len x then x else runEnd stop len n (x + 1)

/-- `_do_horizontal(n1, n2)` -/
def doHorizontal (st : St) (n1 n2 : Nat) : St :=
  let x : Int := if CcittCode.horizNeg st.curpos then CcittCode.horizZero else st.curpos
  let len : Int := (st.curline.length : Int)
  let e1 := runEnd CcittCode.horizStop1 len n1 x
  let l1 := fill st.curline x.toNat e1.toNat (CcittCode.horizColor1 st.color)
  let e2 := runEnd CcittCode.horizStop2 len n2 e1
  let l2 := fill l1 e1.toNat e2.toNat (CcittCode.horizColor2 st.color)
  { st with curline := l2, curpos := e2 }

/-! ### the accept callbacks -/

def afterFlush (st : St) : St × Sig :=
  let (st', skip) := flushLine st
  ({ st' with acc := .mode, node := modeTrie }, if skip then .byteSkip else .cont)

/-- Which branch of the `if/elif` chain of `_parse_mode` is taken (regenerated dispatch: the string
tests in source order, then `isinstance(mode, int)`, then `else`). -/
def modeAction : Option Sym → CcittCode.ModeAction
  | some (.mode (.v _)) => CcittCode.modeIntAction
  | some (.run _) => CcittCode.modeIntAction
  | some (.mode m) => (CcittCode.modeDispatch.lookup m).getD CcittCode.modeElseAction
  | _ => CcittCode.modeElseAction

/-- `_parse_mode(mode)`; `none` is Python's `None` (an unassigned code word). -/
def parseMode (st : St) (v : Option Sym) : Except Err (St × Sig) :=
  match modeAction v with
  | .pass => .ok (afterFlush (doPass st))
  | .horiz => .ok ({ st with n1 := 0, acc := .horiz1, node := runTrie st.color }, .cont)
  | .unc => .ok ({ st with acc := .unc, node := uncTrie }, .cont)
  | .eofb => .ok (st, .eofb)
  | .vertical =>
    match v with
    | some (.mode (.v d)) => .ok (afterFlush (doVertical st d))
    | some (.run n) => .ok (afterFlush (doVertical st (n : Int)))
    | _ => .error .unmodelled       -- `_do_vertical` on a string
  | .invalid => .error .invalidData

/-- `_parse_horiz1(n)` -/
def parseHoriz1 (st : St) : Option Sym → Except Err (St × Sig)
  | none => .error .invalidData
  | some (.run n) =>
    if CcittCode.horiz1Term (n : Int) then
      let c := CcittCode.horiz1Flip st.color
      .ok ({ st with n1 := st.n1 + n, n2 := 0, color := c, acc := .horiz2, node := runTrie c }, .cont)
    else
      .ok ({ st with n1 := st.n1 + n, node := runTrie st.color }, .cont)
  | _ => .error .unmodelled

/-- `_parse_horiz2(n)` -/
def parseHoriz2 (st : St) : Option Sym → Except Err (St × Sig)
  | none => .error .invalidData
  | some (.run n) =>
    if CcittCode.horiz2Term (n : Int) then
      let st1 := { st with n2 := st.n2 + n, color := CcittCode.horiz2Flip st.color, acc := .mode }
      .ok (afterFlush (doHorizontal st1 st1.n1 st1.n2))
    else
      .ok ({ st with n2 := st.n2 + n, node := runTrie st.color }, .cont)
  | _ => .error .unmodelled

/-- `_do_uncompressed(bits)`: `curline[curpos] = bit` (index -1 is the last pixel), `curpos += 1`,
`_flush_line()`; the flag says that `ByteSkip` left the loop. -/
def doUncompressed (st : St) : List Bool → St × Bool
  | [] => (st, false)
  | c :: cs =>
    let k : Nat := if st.curpos < 0 then st.curline.length - 1 else st.curpos.toNat
    let st1 := { st with curline := fill st.curline k (k + 1) c, curpos := CcittCode.uncStep st.curpos }
    let (st2, skip) := flushLine st1
    if skip then (st2, true) else doUncompressed st2 cs

/-- A terminator `"T" + bits` of the UNCOMPRESSED table: the new colour `int(bits[uncColorIdx])` and the
pixel data `bits[uncDataFrom:]` (indices into the string that starts with the marker `T`; regenerated). -/
def uncSplit (bits : List Bool) : Option (Bool × List Bool) :=
  match bits.drop (CcittCode.uncColorIdx - 1) with
  | [] => none
  | c :: _ => some (c, bits.drop (CcittCode.uncDataFrom - 1))

/-- `_parse_uncompressed(bits)` (the optional T.6 extension; "untested" according to the source). -/
def parseUncompressed (st : St) : Option Sym → Except Err (St × Sig)
  | none => .error .invalidData
  | some (.unc u) =>
    if u.term then
      match uncSplit u.bits with
      | none => .error .unmodelled
      | some (c, rest) =>
        let (st', skip) := doUncompressed { st with acc := .mode, color := c } rest
        .ok ({ st' with acc := .mode, node := modeTrie }, if skip then .byteSkip else .cont)
    else
      let (st', skip) := doUncompressed st u.bits
      if skip then .ok ({ st' with acc := .mode, node := modeTrie }, .byteSkip)
      else .ok ({ st' with node := uncTrie }, .cont)
  | _ => .error .unmodelled

def accept (st : St) (v : Option Sym) : Except Err (St × Sig) :=
  match st.acc with
  | .mode => parseMode st v
  | .horiz1 => parseHoriz1 st v
  | .horiz2 => parseHoriz2 st v
  | .unc => parseUncompressed st v

/-- `_parse_bit(x)`.  While `_accept` runs, `_state` still holds the parent node, which nothing
reads; the model clears it so that the result does not depend on it. -/
def stepBit (st : St) (b : Bool) : Except Err (St × Sig) :=
  match st.node with
  | .node l r =>
    match (if b then r else l) with
    | .node a c => .ok ({ st with node := .node a c }, .cont)
    | .empty => accept { st with node := .empty } none
    | .leaf s => accept { st with node := .empty } (some s)
  | _ => .error .unmodelled

/-! ### feedbytes -/

/-- `byte & m` for the masks of `feedbytes` (`Gen.CcittCode.feedMasks`), in order -/
def bitsOfByte (b : UInt8) : List Bool :=
  CcittCode.feedMasks.map fun m => Nat.land b.toNat m != 0

/-- The inner `for m in (128, …, 1)` loop of `CCITTG4Parser.feedbytes`, left by an exception. -/
def feedBits (st : St) : List Bool → Except Err (St × Sig)
  | [] => .ok (st, .cont)
  | b :: bs =>
    match stepBit st b with
    | .error e => .error e
    | .ok (st', .cont) => feedBits st' bs
    | .ok (st', s) => .ok (st', s)

/-- `CCITTG4Parser.feedbytes`: `ByteSkip` abandons the rest of the byte, `EOFB` everything. -/
def feedBytes (st : St) : List UInt8 → Except Err St
  | [] => .ok st
  | b :: bs =>
    match feedBits st (bitsOfByte b) with
    | .error e => .error e
    | .ok (st', .eofb) => .ok st'
    | .ok (st', _) => feedBytes st' bs

/-- `CCITTFaxDecoder(width, bytealign, reversed)` after `reset()` -/
def initSt (width : Nat) (bytealign reversed : Bool) : St :=
  { width := width, bytealign := bytealign, reversed := reversed,
    refline := List.replicate width CcittCode.initBlank, curline := List.replicate width CcittCode.blankPixel,
    curpos := CcittCode.resetCurpos, color := CcittCode.resetColor,
    n1 := 0, n2 := 0, acc := .mode, node := modeTrie, buf := [] }

/-- `ccittfaxdecode(data, params)` with `params = {K, Columns, EncodedByteAlign, BlackIs1}`;
`columns = none` is an absent key: `params.get("Columns", 1728)` (the ISO 32000-1 default, after the
fix "CCITTFaxDecode Columns defaults to 1728"). -/
def ccittfaxdecode (K : Option Int) (columns : Option Int) (bytealign reversed : Bool)
    (data : List UInt8) : Except Err (List UInt8) :=
  if K ≠ some CcittCode.kGroup4 then .error .valueError else
  let c : Int := columns.getD CcittCode.columnsDefault
  if c ≤ 0 then .error .unmodelled else
  match feedBytes (initSt c.toNat bytealign reversed) data with
  | .error e => .error e
  | .ok st => .ok st.buf

/-- The entries of the decode-parameter dictionary read by `ccittfaxdecode` (`params.get(key)`;
`none` = key absent).  This is also the `CCITTFaxDecode` branch of `PDFStream.decode`, which
passes the filter's `DecodeParms` dictionary unchanged. -/
structure Params where
  K : Option Int
  columns : Option Int
  encodedByteAlign : Option Bool
  blackIs1 : Option Bool
  deriving Repr

/-- An absent `EncodedByteAlign` / `BlackIs1` is `None`, which is falsy. -/
def ccittfaxdecodeParams (p : Params) (data : List UInt8) : Except Err (List UInt8) :=
  ccittfaxdecode p.K p.columns (p.encodedByteAlign.getD false) (p.blackIs1.getD false) data

end PdfVerif.Ccitt
