/-
C12 — `PDFDocument.getobj` with its object cache as a refinement of the pure function
(document bytes, objid) ↦ parsed object, in the presence of MUTABLE containers (hand model, executable).

`getobj` returns the cached object ITSELF (no copy): a dictionary / array handed out twice is one Python
object.  The model therefore has a heap (address ↦ contents) and the cache maps objid ↦ address.
Callers either only read, or copy before they change anything (what pdfminer's own callers do:
`PDFCIDFont.__init__` copies the descendant font dictionary, `PDFPage` copies `/Contents`, `get_encoding`
copies the table), or change the returned container in place (a caller outside the library could).
`parse` — what a fresh parse of object `n` gives — is a parameter.
-/
import PdfVerif.Model.Process

namespace PdfVerif.ObjCache
open PdfVerif.Process (alookup)

structure St where
  /-- address = index -/
  heap : List (List Nat)
  /-- `_cached_objs`: objid ↦ address of the object handed out -/
  cache : List (Nat × Nat)
deriving DecidableEq, Repr

def St.init : St := ⟨[], []⟩

/-- `PDFDocument.getobj`: a hit returns the cached reference, a miss parses into a new heap cell and
(when `caching`) remembers the reference -/
def getobj (parse : Nat → Option (List Nat)) (caching : Bool) (s : St) (n : Nat) : Option Nat × St :=
  match alookup n s.cache with
  | some a => (some a, s)
  | none =>
    match parse n with
    | none => (none, s)
    | some v => (some s.heap.length,
        { heap := s.heap ++ [v], cache := if caching then (n, s.heap.length) :: s.cache else s.cache })

inductive Op where
  /-- `doc.getobj(n)` and look at it -/
  | get (n : Nat)
  /-- `o = doc.getobj(n); o.append(v)` / `o[k] = v`: the caller changes the returned container in place -/
  | mutInPlace (n v : Nat)
  /-- `o = doc.getobj(n).copy(); o.append(v)`: the discipline of pdfminer's own callers -/
  | copyMut (n v : Nat)
deriving DecidableEq, Repr

def Op.inPlace : Op → Bool
  | .mutInPlace _ _ => true
  | _ => false

/-- one caller action; the output is the value `getobj` returned as the caller sees it (before its own change) -/
def step (parse : Nat → Option (List Nat)) (caching : Bool) (s : St) : Op → St × Option (List Nat)
  | .get n =>
    let r := getobj parse caching s n
    (r.2, r.1.bind (fun a => r.2.heap[a]?))
  | .mutInPlace n v =>
    let r := getobj parse caching s n
    match r.1 with
    | none => (r.2, none)
    | some a =>
      match r.2.heap[a]? with
      | none => (r.2, none)
      | some c => ({ r.2 with heap := r.2.heap.set a (c ++ [v]) }, some c)
  | .copyMut n v =>
    let r := getobj parse caching s n
    match r.1.bind (fun a => r.2.heap[a]?) with
    | none => (r.2, none)
    | some c => ({ r.2 with heap := r.2.heap ++ [c ++ [v]] }, some c)

def run (parse : Nat → Option (List Nat)) (caching : Bool) : St → List Op → St
  | s, [] => s
  | s, op :: ops => run parse caching (step parse caching s op).1 ops

def outputs (parse : Nat → Option (List Nat)) (caching : Bool) : St → List Op → List (Option (List Nat))
  | _, [] => []
  | s, op :: ops => (step parse caching s op).2 :: outputs parse caching (step parse caching s op).1 ops

end PdfVerif.ObjCache
