/-
C11 — escaping layer of `pdfminer.converter.XMLConverter` (hand model, import-free apart from the
regenerated CONTROL table):

* `enc`            `utils.enc` = `html.escape(x, quote=True)`: `&`→`&amp;` first, then `<`→`&lt;`,
                   `>`→`&gt;`, `"`→`&quot;`, `'`→`&#x27;` (sequential `str.replace`s; since no replacement
                   text contains a later-replaced character except `&`, which is handled first, this is a
                   per-character map)
* `stripControl`   `XMLConverter.CONTROL.sub("", text)`
* `writeText`      `XMLConverter.write_text` (what is handed to `self.write`)
* `attr`           `XMLConverter.attr`
-/
import PdfVerif.Gen.ConvertCtl

namespace PdfVerif.Convert

abbrev Str := List Char

def encChar (c : Char) : Str :=
  if c = '&' then ['&', 'a', 'm', 'p', ';']
  else if c = '<' then ['&', 'l', 't', ';']
  else if c = '>' then ['&', 'g', 't', ';']
  else if c = '"' then ['&', 'q', 'u', 'o', 't', ';']
  else if c = '\'' then ['&', '#', 'x', '2', '7', ';']
  else [c]

/-- `utils.enc` on a `str`. -/
def enc (s : Str) : Str := s.flatMap encChar

/-- membership in the regenerated character class `XMLConverter.CONTROL` -/
def isControl (c : Char) : Bool :=
  Gen.ConvertCtl.CONTROL.any (fun r => r.1 ≤ c.toNat && c.toNat ≤ r.2)

/-- `CONTROL.sub("", text)` -/
def stripControl (s : Str) : Str := s.filter (fun c => !isControl c)

def maybeStrip (strip : Bool) (s : Str) : Str := if strip then stripControl s else s

/-- `.replace("\r", "&#13;")` -/
def crRef (c : Char) : Str := if c = '\r' then ['&', '#', '1', '3', ';'] else [c]

/-- `.replace("\t", "&#9;").replace("\n", "&#10;").replace("\r", "&#13;")` -/
def wspRef (c : Char) : Str :=
  if c = '\t' then ['&', '#', '9', ';']
  else if c = '\n' then ['&', '#', '1', '0', ';']
  else if c = '\r' then ['&', '#', '1', '3', ';']
  else [c]

/-- the string `XMLConverter.write_text(text)` hands to `self.write` -/
def writeText (strip : Bool) (text : Str) : Str :=
  (enc (maybeStrip strip text)).flatMap crRef

/-- `XMLConverter.attr(text)` -/
def attr (strip : Bool) (text : Str) : Str :=
  (enc (maybeStrip strip text)).flatMap wspRef

end PdfVerif.Convert
