/-
Executable model of `pdfminer.psparser.PSBaseParser` (tokenizer), shared by C14 and C01.

Two layers (DESIGN Appendix C):

* buffered layer — `call` is ONE invocation `self._parse1(self.buf, self.charpos)` of the current
  scanner on the rest of the current buffer (regex search over the buffer, slice appended to
  `_curtoken`, code after the match), `runLoop` is the `while not self._tokens` loop of
  `nexttoken` with `fillbuf` (chunks of `BUFSIZ` bytes) and the EOF flush (the scanners are fed the
  one-byte buffer `"\n"` until it is consumed); fuel counts scanner calls.
* byte automaton — `stepByte` consumes exactly one byte (following at most two non-consuming
  scanner hand-overs), `foldBytes` folds it over the input; `specLex` is the buffer-free
  token sequence.  `Props/C14.lean` proves `run b data = specLex data` for every `b ≥ 1`.

What a scanner does at the byte its regex matched (`atHit`) is written once and used by both layers;
the layers differ in how they reach that byte (search over a buffer vs. one byte at a time).

The byte classes (`isEOL`, `isNONSPC`, …), `ESC_STRING` and `BUFSIZ` are REGENERATED from
psparser.py (`Gen/LexTables.lean`).  Python primitives that can raise are modelled with their
guard; a raised exception is an `err` token followed by the `dead` mode, so that it is observable
at its position in the token sequence ("signals nothing but end of input" = no `err` token).
-/
import PdfVerif.Gen.LexTables

namespace PdfVerif.Lexer
open PdfVerif PdfVerif.Gen.LexTables

/-- `self._parse1`: which scanner runs next. `dead` = an exception escaped from `nexttoken`. -/
inductive Mode where
  | main | comment | literal | literalHex | number | float | keyword
  | string | string1 | string2 | wopen | wclose | hexstring | dead
  deriving DecidableEq, Repr, Inhabited

inductive Token where
  | int (v : Int)          -- Python int
  | real (text : Bytes)    -- Python float(text); the decimal text is kept exactly
  | bool (b : Bool)
  | lit (name : Bytes)     -- PSLiteral (name as bytes; Python decodes it as UTF-8 when it can)
  | kwd (name : Bytes)     -- PSKeyword
  | str (s : Bytes)        -- bytes
  | err (kind : String)    -- an exception other than PSEOF escaped
  deriving DecidableEq, Repr, Inhabited

abbrev PTok := Nat × Token

/-- The parser attributes the scanners read and write. -/
structure St where
  mode : Mode := .main          -- _parse1
  cur : Bytes := []             -- _curtoken
  tpos : Nat := 0               -- _curtokenpos
  paren : Int := 0              -- paren
  oct : Bytes := []             -- oct
  hex : Bytes := []             -- hex
  deriving DecidableEq, Repr, Inhabited

def St.init : St := {}

/-! ### Python primitives -/

def isDigit (c : UInt8) : Bool := 48 ≤ c && c ≤ 57          -- bytes.isdigit() on one byte
def isAlpha (c : UInt8) : Bool := (65 ≤ c && c ≤ 90) || (97 ≤ c && c ≤ 122)   -- bytes.isalpha()

/-- value of one digit in `int(x, base)` for base ≤ 16 -/
def digitVal (c : UInt8) : Option Nat :=
  if 48 ≤ c && c ≤ 57 then some (c.toNat - 48)
  else if 97 ≤ c && c ≤ 102 then some (c.toNat - 87)
  else if 65 ≤ c && c ≤ 70 then some (c.toNat - 55)
  else none

/-- `int(bs, base)` for a string of plain digits (no sign, no blanks): `none` = ValueError. -/
def natOfDigits (base : Nat) : Bytes → Nat → Option Nat
  | [], acc => some acc
  | c :: t, acc =>
    match digitVal c with
    | some d => if d < base then natOfDigits base t (acc * base + d) else none
    | none => none

def pyIntBase (base : Nat) (bs : Bytes) : Option Nat :=
  if bs.isEmpty then none else natOfDigits base bs 0

/-- CPython refuses to convert more than 4300 decimal digits (`sys.int_info.default_max_str_digits`). -/
def maxStrDigits : Nat := 4300

/-- `int(self._curtoken)` where the token is `[+-]?[0-9]*`: `none` = ValueError (caught: no token). -/
def pyInt (bs : Bytes) : Option Int :=
  match bs with
  | 45 :: ds => if ds.length > maxStrDigits then none else (fun (n : Nat) => -(n : Int)) <$> pyIntBase 10 ds
  | 43 :: ds => if ds.length > maxStrDigits then none else (fun (n : Nat) => (n : Int)) <$> pyIntBase 10 ds
  | ds => if ds.length > maxStrDigits then none else (fun (n : Nat) => (n : Int)) <$> pyIntBase 10 ds

/-- digits `.` digits with at least one digit -/
def floatBody (bs : Bytes) : Bool :=
  let ip := bs.takeWhile isDigit
  match bs.dropWhile isDigit with
  | [] => !ip.isEmpty
  | 46 :: fp => fp.all isDigit && !(ip.isEmpty && fp.isEmpty)
  | _ => false

/-- does `float(self._curtoken)` succeed (token of the shape the scanners build: `[+-]?[0-9]*.?[0-9]*`)?
    `false` = ValueError (caught: no token). -/
def pyFloatOk (bs : Bytes) : Bool :=
  match bs with
  | 45 :: r => floatBody r
  | 43 :: r => floatBody r
  | r => floatBody r

def escLookup (c : UInt8) : Option UInt8 := (ESC_STRING.find? (fun p => p.1 == c)).map (·.2)

/-- `HEX_PAIR.sub(lambda m: bytes((int(m.group(0), 16),)), s)` for `HEX_PAIR = [0-9a-fA-F]{2}|.`:
    two hex digits make a byte; otherwise `.` takes one byte (not `\n`) and `int(x, 16)` of it is a
    single digit value or raises ValueError (`none`); a byte matched by neither alternative is copied. -/
def hexPairs : Bytes → Option Bytes
  | [] => some []
  | [a] =>
    if a == 10 then some [a] else
    match digitVal a with
    | some d => some [UInt8.ofNat d]
    | none => none
  | a :: b :: t =>
    if isHEX a && isHEX b then
      match digitVal a, digitVal b, hexPairs t with
      | some x, some y, some r => some (UInt8.ofNat (x * 16 + y) :: r)
      | _, _, _ => none
    else if a == 10 then (fun r => a :: r) <$> hexPairs (b :: t)
    else
      match digitVal a, hexPairs (b :: t) with
      | some d, some r => some (UInt8.ofNat d :: r)
      | _, _ => none

/-! ### What a scanner does at the matched byte -/

/-- Result of the code after the regex match in one scanner: new attributes, whether the matched
    byte is consumed (`return j + 1` vs `return j`), tokens added. -/
structure Hit where
  st : St
  consumed : Bool
  toks : List PTok
  deriving Repr

def emit (st : St) (t : Token) : List PTok := [(st.tpos, t)]

def raise (st : St) (kind : String) : Hit :=
  ⟨{ st with mode := .dead }, true, emit st (.err kind)⟩

/-- `_parse_main` at the first non-space byte `c` found at absolute position `j`. -/
def parseMainHit (st : St) (c : UInt8) (j : Nat) : Hit :=
  let st := { st with tpos := j }
  if c == 37 then ⟨{ st with cur := [37], mode := .comment }, true, []⟩
  else if c == 47 then ⟨{ st with cur := [], mode := .literal }, true, []⟩
  else if c == 45 || c == 43 || isDigit c then ⟨{ st with cur := [c], mode := .number }, true, []⟩
  else if c == 46 then ⟨{ st with cur := [c], mode := .float }, true, []⟩
  else if isAlpha c then ⟨{ st with cur := [c], mode := .keyword }, true, []⟩
  else if c == 40 then ⟨{ st with cur := [], paren := 1, mode := .string }, true, []⟩
  else if c == 60 then ⟨{ st with cur := [], mode := .wopen }, true, []⟩
  else if c == 62 then ⟨{ st with cur := [], mode := .wclose }, true, []⟩
  else if c == 0 then ⟨st, true, []⟩
  else ⟨st, true, emit st (.kwd [c])⟩

/-- `_parse_comment` at the EOL byte. -/
def parseCommentHit (st : St) : Hit := ⟨{ st with mode := .main }, false, []⟩

/-- `_parse_literal` at the byte matched by END_LITERAL. -/
def parseLiteralHit (st : St) (c : UInt8) : Hit :=
  if c == 35 then ⟨{ st with hex := [], mode := .literalHex }, true, []⟩
  else ⟨{ st with mode := .main }, false, emit st (.lit st.cur)⟩

/-- `_parse_literal_hex` at the current byte. -/
def parseLiteralHexHit (st : St) (c : UInt8) : Hit :=
  if isHEX c && st.hex.length < 2 then ⟨{ st with hex := st.hex ++ [c] }, true, []⟩
  else if st.hex.isEmpty then ⟨{ st with mode := .literal }, false, []⟩
  else
    match pyIntBase 16 st.hex with
    | some v =>
      if v < 256 then ⟨{ st with cur := st.cur ++ [UInt8.ofNat v], mode := .literal }, false, []⟩
      else raise st "ValueError"
    | none => raise st "ValueError"

/-- `_parse_number` at the first non-digit. -/
def parseNumberHit (st : St) (c : UInt8) : Hit :=
  if c == 46 then ⟨{ st with cur := st.cur ++ [c], mode := .float }, true, []⟩
  else
    ⟨{ st with mode := .main }, false,
      match pyInt st.cur with
      | some v => emit st (.int v)
      | none => []⟩

/-- `_parse_float` at the first non-digit. -/
def parseFloatHit (st : St) : Hit :=
  ⟨{ st with mode := .main }, false, if pyFloatOk st.cur then emit st (.real st.cur) else []⟩

def kwTrue : Bytes := [116, 114, 117, 101]
def kwFalse : Bytes := [102, 97, 108, 115, 101]

/-- `_parse_keyword` at the byte matched by END_KEYWORD. -/
def parseKeywordHit (st : St) : Hit :=
  let tok := if st.cur == kwTrue then Token.bool true
             else if st.cur == kwFalse then Token.bool false
             else Token.kwd st.cur
  ⟨{ st with mode := .main }, false, emit st tok⟩

/-- `_parse_string` at the byte matched by END_STRING. -/
def parseStringHit (st : St) (c : UInt8) : Hit :=
  if c == 92 then ⟨{ st with oct := [], mode := .string1 }, true, []⟩
  else if c == 40 then ⟨{ st with paren := st.paren + 1, cur := st.cur ++ [c] }, true, []⟩
  else if c == 41 && st.paren - 1 != 0 then ⟨{ st with paren := st.paren - 1, cur := st.cur ++ [c] }, true, []⟩
  else
    let st := if c == 41 then { st with paren := st.paren - 1 } else st
    ⟨{ st with mode := .main }, true, emit st (.str st.cur)⟩

/-- `_parse_string_1` (after a backslash) at the current byte. -/
def parseString1Hit (st : St) (c : UInt8) : Hit :=
  if isOCT_STRING c && st.oct.length < 3 then ⟨{ st with oct := st.oct ++ [c] }, true, []⟩
  else if !st.oct.isEmpty then
    match pyIntBase 8 st.oct with
    | some v => ⟨{ st with cur := st.cur ++ [UInt8.ofNat (v % 256)], mode := .string }, false, []⟩
    | none => raise st "ValueError"
  else
    match escLookup c with
    | some e => ⟨{ st with cur := st.cur ++ [e], mode := .string }, true, []⟩
    | none =>
      if c == 13 then ⟨{ st with mode := .string2 }, true, []⟩
      else if c != 10 then ⟨{ st with cur := st.cur ++ [c], mode := .string }, true, []⟩
      else ⟨{ st with mode := .string }, true, []⟩

/-- `_parse_string_2` (after backslash CR) at the current byte. -/
def parseString2Hit (st : St) (c : UInt8) : Hit :=
  ⟨{ st with mode := .string }, c == 10, []⟩

def kwDictBegin : Bytes := [60, 60]
def kwDictEnd : Bytes := [62, 62]

/-- `_parse_wopen` at the current byte. -/
def parseWopenHit (st : St) (c : UInt8) : Hit :=
  if c == 60 then ⟨{ st with mode := .main }, true, emit st (.kwd kwDictBegin)⟩
  else ⟨{ st with mode := .hexstring }, false, []⟩

/-- `_parse_wclose` at the current byte. -/
def parseWcloseHit (st : St) (c : UInt8) : Hit :=
  if c == 62 then ⟨{ st with mode := .main }, true, emit st (.kwd kwDictEnd)⟩
  else ⟨{ st with mode := .main }, false, []⟩

/-- `_parse_hexstring` at the byte matched by END_HEX_STRING. -/
def parseHexstringHit (st : St) : Hit :=
  match hexPairs (st.cur.filter (fun c => !isSPC c)) with
  | some bs => ⟨{ st with mode := .main }, false, emit st (.str bs)⟩
  | none => raise st "ValueError"

/-- The regex a scanner searches the buffer with (`none`: the scanner looks at one byte only). -/
def searchClass : Mode → Option (UInt8 → Bool)
  | .main => some isNONSPC
  | .comment => some isEOL
  | .literal => some isEND_LITERAL
  | .number => some isEND_NUMBER
  | .float => some isEND_NUMBER
  | .keyword => some isEND_KEYWORD
  | .string => some isEND_STRING
  | .hexstring => some isEND_HEX_STRING
  | _ => none

/-- Bytes before the match are appended to `_curtoken` (every searching scanner but `_parse_main`). -/
def accum (st : St) (pre : Bytes) : St :=
  if st.mode == .main then st else { st with cur := st.cur ++ pre }

def atHit (st : St) (c : UInt8) (j : Nat) : Hit :=
  match st.mode with
  | .main => parseMainHit st c j
  | .comment => parseCommentHit st
  | .literal => parseLiteralHit st c
  | .literalHex => parseLiteralHexHit st c
  | .number => parseNumberHit st c
  | .float => parseFloatHit st
  | .keyword => parseKeywordHit st
  | .string => parseStringHit st c
  | .string1 => parseString1Hit st c
  | .string2 => parseString2Hit st c
  | .wopen => parseWopenHit st c
  | .wclose => parseWcloseHit st c
  | .hexstring => parseHexstringHit st
  | .dead => ⟨st, true, []⟩

/-! ### Buffered layer -/

/-- `RE.search(s, i)` for a one-byte class: (bytes before the first match, rest starting at the match). -/
def search (p : UInt8 → Bool) : Bytes → Bytes × Bytes
  | [] => ([], [])
  | c :: t => if p c then ([], c :: t) else let r := search p t; (c :: r.1, r.2)

/-- Result of one scanner call: attributes, unread rest of the buffer, its absolute position, tokens added. -/
structure CallRes where
  st : St
  rest : Bytes
  pos : Nat
  toks : List PTok
  deriving Repr

def afterHit (h : Hit) (c : UInt8) (tl : Bytes) (j : Nat) : CallRes :=
  if h.consumed then ⟨h.st, tl, j + 1, h.toks⟩ else ⟨h.st, c :: tl, j, h.toks⟩

/-- One call `self._parse1(self.buf, self.charpos)`; `rest = buf[charpos:]`, `pos = bufpos + charpos`. -/
def call (st : St) (rest : Bytes) (pos : Nat) : CallRes :=
  match rest with
  | [] => ⟨st, [], pos, []⟩
  | c0 :: tl0 =>
    match searchClass st.mode with
    | some p =>
      let r := search p rest
      let st1 := accum st r.1
      match r.2 with
      | [] => ⟨st1, [], pos + r.1.length, []⟩
      | c :: tl => afterHit (atHit st1 c (pos + r.1.length)) c tl (pos + r.1.length)
    | none => afterHit (atHit st c0 pos) c0 tl0 pos

/-- The `while not self._tokens` loop of `nexttoken`, iterated until PSEOF is raised, with all
    tokens collected.  `rest` = unread part of the buffer, `file` = unread part of the stream,
    `b` = BUFSIZ.  When `fillbuf` raises PSEOF the scanners are fed the one-byte buffer `"\n"` until
    one consumes it (`eof` = that flush is under way; `file` is empty then), after which the next
    `nexttoken` raises PSEOF.  `none` = fuel exhausted (one unit per scanner call). -/
def runLoop (b : Nat) : Nat → Bool → St → Bytes → Bytes → Nat → Option (List PTok)
  | 0, _, _, _, _, _ => none
  | f + 1, eof, st, rest, file, pos =>
    -- fillbuf
    let buf := if rest.isEmpty then file.take b else rest
    let file' := if rest.isEmpty then file.drop b else file
    match buf with
    | [] => if eof then some [] else runLoop b f true st [10] [] pos
    | _ :: _ =>
      let r := call st buf pos
      match runLoop b f eof r.st r.rest file' r.pos with
      | none => none
      | some ts => some (r.toks ++ ts)

def fuelFor (data : Bytes) : Nat := 3 * data.length + 6

/-- All tokens `PSBaseParser(BytesIO(data))` yields with `BUFSIZ = b` until PSEOF. -/
def run (b : Nat) (data : Bytes) : Option (List PTok) :=
  runLoop b (fuelFor data) false St.init [] data 0

/-! ### Byte automaton -/

/-- Process one byte: at most `n` scanner hand-overs (3 always suffice, `Lemmas/Lexer.stepN_stable`). -/
def stepN : Nat → St → UInt8 → Nat → St × List PTok
  | 0, st, _, _ => (st, [])
  | n + 1, st, c, pos =>
    match searchClass st.mode with
    | some p =>
      if p c then
        let h := atHit st c pos
        if h.consumed then (h.st, h.toks)
        else let r := stepN n h.st c pos; (r.1, h.toks ++ r.2)
      else (accum st [c], [])
    | none =>
      let h := atHit st c pos
      if h.consumed then (h.st, h.toks)
      else let r := stepN n h.st c pos; (r.1, h.toks ++ r.2)

def stepByte (st : St) (c : UInt8) (pos : Nat) : St × List PTok := stepN 3 st c pos

def foldBytes (st : St) : Bytes → Nat → St × List PTok
  | [], _ => (st, [])
  | c :: t, pos =>
    let r1 := stepByte st c pos
    let r2 := foldBytes r1.1 t (pos + 1)
    (r2.1, r1.2 ++ r2.2)

/-- Buffer-free token sequence: the byte automaton over the input followed by the flushed newline. -/
def specLex (data : Bytes) : List PTok := (foldBytes St.init (data ++ [10]) 0).2

/-! ### Concatenation (compositionality, `Props/C14.C14_compositional`) -/

/-- the same tokens, `k` bytes further into the input -/
def shiftToks (k : Nat) (ts : List PTok) : List PTok := ts.map (fun t => (t.1 + k, t.2))

/-- The scanners in which the input so far ends in a complete token or in a token that any white-space
    byte completes: not inside a string, a hexadecimal string or a comment, not after a lone `<`. -/
def Complete : Mode → Bool
  | .main | .literal | .literalHex | .number | .float | .keyword | .wclose => true
  | _ => false

/-- `self._parse1` after the scanners have read exactly `data` -/
def modeAfter (data : Bytes) : Mode := (foldBytes St.init data 0).1.mode

/-- the tokens of `a`, then the tokens of `b` as they appear behind `a ++ ws` -/
def concatLex (a ws b : Bytes) : List PTok := specLex a ++ shiftToks (a.length + ws.length) (specLex b)

/-- the pieces written one after the other with the separator `ws` between them (content streams of a page) -/
def joinWith (ws : Bytes) : List Bytes → Bytes
  | [] => []
  | [a] => a
  | a :: r => a ++ ws ++ joinWith ws r

/-- token values only -/
def tokValues (ts : List PTok) : List Token := ts.map (·.2)

/-- name of the scanner method (`_parse_<name>`) -/
def Mode.pyName : Mode → String
  | .main => "main" | .comment => "comment" | .literal => "literal" | .literalHex => "literal_hex"
  | .number => "number" | .float => "float" | .keyword => "keyword" | .string => "string"
  | .string1 => "string_1" | .string2 => "string_2" | .wopen => "wopen" | .wclose => "wclose"
  | .hexstring => "hexstring" | .dead => "dead"

/-! ### Canonical text form (driver) -/

def Token.show : Token → String
  | .int v => "i:" ++ toString v
  | .real t => "r:" ++ hexOrDash t
  | .bool b => if b then "b:1" else "b:0"
  | .lit n => "n:" ++ hexOrDash n
  | .kwd n => "k:" ++ hexOrDash n
  | .str s => "s:" ++ hexOrDash s
  | .err k => "!" ++ k

/-- `pos:tok … $`, cut at the first escaped exception (`… !Kind`). -/
def showToks : List PTok → List String
  | [] => ["$"]
  | (_, .err k) :: _ => ["!" ++ k]
  | (p, t) :: r => (toString p ++ ":" ++ t.show) :: showToks r

def showLine (ts : List PTok) : String := " ".intercalate (showToks ts)

end PdfVerif.Lexer
