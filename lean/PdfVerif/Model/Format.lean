/-
C11 — number formatting used by the XML writers (hand model, import-free):
`'%.3f' % x` (bbox2str, size, pts) and `'%d' % x` (linewidth, ids, width/height) for a finite
float / int `x`, given exactly as sign + non-negative rational magnitude.
-/
namespace PdfVerif.Convert

/-- sign (true = the float has its sign bit set, incl. -0.0) and exact magnitude -/
abbrev SRat := Bool × Rat

def digitChar (d : Nat) : Char := Char.ofNat (48 + d % 10)

def natDigits (n : Nat) : List Char :=
  if h : n < 10 then [digitChar n] else natDigits (n / 10) ++ [digitChar (n % 10)]
decreasing_by omega

/-- round half to even of a non-negative rational (what correctly rounded `%.Nf` does) -/
def roundHalfEven (q : Rat) : Nat :=
  let f := q.floor.toNat
  let r := q - (f : Rat)
  if r < 1/2 then f else if 1/2 < r then f + 1 else if f % 2 = 0 then f else f + 1

/-- `'%.3f' % x` -/
def fmtF3 (x : SRat) : List Char :=
  let n := roundHalfEven (x.2 * 1000)
  (if x.1 then ['-'] else []) ++ natDigits (n / 1000) ++ ['.'] ++
    [digitChar (n % 1000 / 100), digitChar (n % 100 / 10), digitChar (n % 10)]

/-- `'%d' % x`: truncation toward zero, no sign for a zero result -/
def fmtD (x : SRat) : List Char :=
  let n := x.2.floor.toNat
  (if x.1 && n != 0 then ['-'] else []) ++ natDigits n

/-- `sep.join(parts)` -/
def strJoin (sep : List Char) : List (List Char) → List Char
  | [] => []
  | [x] => x
  | x :: y :: r => x ++ sep ++ strJoin sep (y :: r)

end PdfVerif.Convert
