/-
C07, round 6: the front of `CMapParser` — `PSBaseParser.nexttoken` (the C14 tokenizer model
`Lexer.specLex`) followed by the object grouping of `PSStackParser.nextobject` — so that the ToUnicode
model starts from the BYTES of the stream.

`PSStackParser.nextobject` hands every keyword to `do_keyword` even while an array is open; the token-level
model `CIDFont.runToks` has arrays already grouped.  `groupAux` therefore answers `none` ("outside the
modelled grammar") for a keyword or an opening bracket inside an open array, an array left open at the end
of the data, `<<` `>>` `{` `}`, a name inside an array (`add_cid2unichr` reads it as a glyph name through
`name2unicode`, which belongs to C08's model) and booleans (Python's `True` is an `int`); everything else — numbers,
strings of both spellings, names, keywords, flat arrays, a stray `]` (PSTypeError is swallowed) — is modelled.
Import-free apart from the two models it joins.
-/
import PdfVerif.Model.Lexer
import PdfVerif.Model.CIDFont

namespace PdfVerif.CIDFont
open PdfVerif

/-- A keyword's bytes as the string `do_keyword` compares (Latin-1). -/
def kwString (b : Bytes) : String := String.ofList (b.map (fun c => Char.ofNat c.toNat))

/-- `open` = the elements (latest first) of the array that is open, if any; `out` = objects so far, latest first. -/
def groupAux : List Lexer.Token → Option (List AElem) → List Tok → Option (List Tok)
  | [], none, out => some out.reverse
  | [], some _, _ => none
  | t :: rest, none, out =>
    match t with
    | .kwd k =>
      if k = [91] then groupAux rest (some []) out
      else if k = [93] then groupAux rest none out                 -- end_type("a") raises PSTypeError: ignored
      else if k = [60, 60] ∨ k = [62, 62] ∨ k = [123] ∨ k = [125] then none
      else groupAux rest none (.kw (kwString k) :: out)
    | .int v => groupAux rest none (.int v :: out)
    | .real _ => groupAux rest none (.other :: out)
    | .str s => groupAux rest none (.str s :: out)
    | .lit n => groupAux rest none (.name n :: out)
    | .bool _ => none
    | .err _ => none
  | t :: rest, some acc, out =>
    match t with
    | .kwd k => if k = [93] then groupAux rest none (.arr acc.reverse :: out) else none
    | .int v => groupAux rest (some (.int v :: acc)) out
    | .str s => groupAux rest (some (.str s :: acc)) out
    | .real _ => groupAux rest (some (.other :: acc)) out
    | .lit _ => none            -- a glyph name inside an array goes through `name2unicode`: not modelled here
    | .bool _ => none
    | .err _ => none

/-- The objects `PSStackParser.nextobject` feeds to `CMapParser` for these tokens. -/
def groupToks (ts : List Lexer.Token) : Option (List Tok) := groupAux ts none []

/-- `CMapParser(FileUnicodeMap(), BytesIO(data)).run()` then `cid2unichr`, from the bytes of the stream;
`none` = the data leaves the modelled grammar (see the file header). -/
def parseToUnicodeBytes (data : Bytes) : Option (Except Err UMap) :=
  (groupToks ((Lexer.specLex data).map (·.2))).map parseToUnicode

end PdfVerif.CIDFont
