/-
Model of pdfminer/image.py: `BMPWriter`, `ImageWriter.export_image` (format choice) and the
`_save_*` methods that do not need Pillow.  The output of an export is (file name, file content).
`align32`, the bits→palette-size table and the `.jpg`/`.bmp` extensions are REGENERATED from the
Python source (Gen/ImageGen.lean).

This is the behaviour after the `fix:` commits (rows padded to `linesize`, 24-bit rows written
B,G,R, unfiltered images accepted).  `writeBodyPinned` keeps the pinned row placement for the
proved counter-example.
-/
import PdfVerif.Gen.ImageGen
import PdfVerif.Model.ImageName

namespace PdfVerif.Image
open PdfVerif PdfVerif.Gen.ImageGen PdfVerif.ImageName

inductive Err where
  | value          -- PDFValueError (unsupported BMP depth)
  | structError    -- struct.error: a header field does not fit its 32-bit slot
  | importError    -- Pillow is needed (not installed)
  | noName         -- the naming loop ran out of fuel (never happens: uniqueName_terminates)
  | unmodelled     -- JBIG2: outside the model
  deriving DecidableEq, Repr

def Err.toString : Err → String
  | .value => "PDFValueError" | .structError => "error" | .importError => "ImportError"
  | .noName => "nontermination" | .unmodelled => "unmodelled"

/-- `struct.pack("<H", n)`. -/
def le16 (n : Nat) : Bytes := [UInt8.ofNat (n % 256), UInt8.ofNat (n / 256 % 256)]

/-- `struct.pack("<I", n)` for `n < 2^32`. -/
def le32 (n : Nat) : Bytes :=
  [UInt8.ofNat (n % 256), UInt8.ofNat (n / 256 % 256), UInt8.ofNat (n / 65536 % 256),
   UInt8.ofNat (n / 16777216 % 256)]

def align32N (x : Nat) : Nat := (align32 (x : Int)).toNat

/-- `ncols` of `BMPWriter.__init__` (table regenerated from the source). -/
def ncolsOf (bits : Nat) : Option Nat := (ncolsTable.find? (fun p => p.1 == bits)).map (·.2)

/-- `self.linesize` (expression regenerated from the source). -/
def lineSize (bits w : Nat) : Nat := (bmpLinesize (w : Int) (bits : Int)).toNat

/-- Colour table written after the header. -/
def palette (ncols : Nat) : Bytes :=
  if ncols = 2 then [0, 0, 0, 0, 255, 255, 255, 0]
  else if ncols = 256 then (List.range 256).flatMap (fun i => [UInt8.ofNat i, UInt8.ofNat i, UInt8.ofNat i, 0])
  else []

/-- One `struct.pack` field: (format character, value) → little-endian bytes, or `struct.error`
    when the value does not fit (`c` 1 byte, `H` 16 bit unsigned, `I` 32 bit unsigned, `i` 32 bit signed). -/
def packField (f : Nat × Int) : Except Err Bytes :=
  if f.1 = 99 then (if 0 ≤ f.2 ∧ f.2 < 256 then .ok [UInt8.ofNat f.2.toNat] else .error .structError)
  else if f.1 = 72 then (if 0 ≤ f.2 ∧ f.2 < 65536 then .ok (le16 f.2.toNat) else .error .structError)
  else if f.1 = 73 then (if 0 ≤ f.2 ∧ f.2 < 4294967296 then .ok (le32 f.2.toNat) else .error .structError)
  else if f.1 = 105 then
    (if -2147483648 ≤ f.2 ∧ f.2 < 2147483648 then .ok (le32 (f.2 % 4294967296).toNat) else .error .structError)
  else .error .structError

def packAll : List (Nat × Int) → Except Err Bytes
  | [] => .ok []
  | f :: fs =>
    match packField f, packAll fs with
    | .ok a, .ok b => .ok (a ++ b)
    | .error e, _ => .error e
    | _, .error e => .error e

/-- The 14-byte file header and the 40-byte BITMAPINFOHEADER: the field lists of the two
    `struct.pack` calls are regenerated from the source (Gen/ImageGen.lean). -/
def bmpHeader (bits w h ncols : Nat) : Except Err Bytes :=
  let datasize := bmpDatasize (bmpLinesize (w : Int) (bits : Int)) (h : Int)
  let headersize := bmpHeadersize (ncols : Int)
  packAll (bmpFileFields w h bits datasize ncols headersize ++ bmpInfoFields w h bits datasize ncols headersize)

/-- `data[i : i + bpl]` for `i = 0, bpl, 2·bpl, …` (`height` rows). -/
def rowsOf (bpl : Nat) : Nat → Bytes → List Bytes
  | 0, _ => []
  | h + 1, data => data.take bpl :: rowsOf bpl h (data.drop bpl)

/-- `rgb_to_bgr`: swap the outer samples of every complete triple. -/
def swapRB : Bytes → Bytes
  | r :: g :: b :: rest => b :: g :: r :: swapRB rest
  | rest => rest

/-- `data.ljust(linesize, b"\0")`. -/
def padRow (line : Nat) (row : Bytes) : Bytes := row ++ List.replicate (line - row.length) 0

/-- Pixel area: row `y` goes to offset `pos1 - (y+1)·linesize`, i.e. rows appear bottom-up. -/
def writeBody (bits line : Nat) (rows : List Bytes) : Bytes :=
  (rows.reverse.map (fun r => padRow line (if bits = 24 then swapRB r else r))).flatten

/-- Pinned behaviour (before the fixes): rows are written unpadded and unswapped at the same offsets;
    the gaps inside the file read as zero, the last-written-highest row (y = 0) ends the file early. -/
def writeBodyPinned (line : Nat) (rows : List Bytes) : Bytes :=
  match rows with
  | [] => []
  | r0 :: rest => (rest.reverse.map (padRow line)).flatten ++ r0

/-- The file once the palette size is known: header, colour table, pixel area. -/
def saveBmpWith (ncols bits w h bpl : Nat) (data : Bytes) : Except Err Bytes :=
  (bmpHeader bits w h ncols).map
    (fun hdr => hdr ++ palette ncols ++ writeBody bits (lineSize bits w) (rowsOf bpl h data))

/-- `BMPWriter(fp, bits, width, height)` followed by the `write_line` loop of `_save_bmp`. -/
def saveBmp (bits w h bpl : Nat) (data : Bytes) : Except Err Bytes :=
  match ncolsOf bits with
  | none => .error .value
  | some ncols => saveBmpWith ncols bits w h bpl data

inductive Flt where
  | flate | lzw | a85 | ahx | rl | dct | jpx | jbig2 | ccitt
  deriving DecidableEq, Repr

/-- What `export_image` finds in `LTImage.colorspace` (membership tests, RGB asked before gray). -/
inductive CS where
  | gray | rgb | cmyk | inlGray | inlRgb | other | none
  deriving DecidableEq, Repr

structure ImgIn where
  filters : List Flt
  cs : CS               -- first of DeviceRGB, RGB, DeviceGray, G that occurs in `image.colorspace`
  cmykMember : Bool     -- `LITERAL_DEVICE_CMYK in image.colorspace` (only `_save_jpeg` asks this)
  bits : Nat
  w : Nat
  h : Nat
  name : Bytes
  data : Bytes          -- `image.stream.get_data()`
  deriving Repr

def withName (existing : List Bytes) (name ext : Bytes) (content : Except Err Bytes) : Except Err (Bytes × Bytes) :=
  match uniqueName existing name ext with
  | none => .error .noName
  | some nm => match content with
    | .error e => .error e
    | .ok c => .ok (nm, c)

/-- `".%d.%dx%d.img" % (bits, w, h)`. -/
def rawExt (bits w h : Nat) : Bytes :=
  [46] ++ dec bits ++ [46] ++ dec w ++ [120] ++ dec h ++ [46, 105, 109, 103]

/-- `"%d" % z` for any integer. -/
def decInt (z : Int) : Bytes := if z < 0 then 45 :: dec (-z).toNat else dec z.toNat

/-- `".%d.%dx%d.img" % (bits, w, h)` for arbitrary integers (`%d` accepts nothing but numbers: a name,
    string or array raises TypeError before any path is built). -/
def rawExtZ (bits w h : Int) : Bytes :=
  [46] ++ decInt bits ++ [46] ++ decInt w ++ [120] ++ decInt h ++ [46, 105, 109, 103]

def isRGB (c : CS) : Bool := c == .rgb || c == .inlRgb
def isGray (c : CS) : Bool := c == .gray || c == .inlGray
/-- `_plausible_dimensions(width, height, bits)` for integer values (bounds regenerated). -/
def plausible (w h bits : Nat) : Bool :=
  0 < w && w < plausDimLimit && 0 < h && h < plausDimLimit && 0 < bits && bits ≤ plausBitsMax &&
  w * h * bits < plausTotalLimit

/-- `ImageWriter.export_image`: (file name, file content) for an image and a directory listing. -/
def exportImage (im : ImgIn) (existing : List Bytes) : Except Err (Bytes × Bytes) :=
  if !plausible im.w im.h im.bits then
    -- damaged Width / Height / BitsPerComponent: the bytes are kept as they are
    withName existing im.name extUndecoded (.ok im.data)
  else if im.filters.getLast? = some .dct then
    withName existing im.name extJpeg (if im.cmykMember then .error .importError else .ok im.data)
  else if im.filters.getLast? = some .jpx then
    withName existing im.name [46, 106, 112, 50] (.error .importError)
  else if im.filters.contains .jbig2 then .error .unmodelled
  else if im.bits = 1 then
    withName existing im.name extBmp
      (saveBmp (bmpDepth0 im.w im.bits).toNat im.w im.h (bmpBpl0 im.w im.bits).toNat im.data)
  else if im.bits = 8 ∧ isRGB im.cs then
    withName existing im.name extBmp
      (saveBmp (bmpDepth1 im.w im.bits).toNat im.w im.h (bmpBpl1 im.w im.bits).toNat im.data)
  else if im.bits = 8 ∧ isGray im.cs then
    withName existing im.name extBmp
      (saveBmp (bmpDepth2 im.w im.bits).toNat im.w im.h (bmpBpl2 im.w im.bits).toNat im.data)
  else if im.filters = [.flate] then
    withName existing im.name extJpeg (.error .importError)
  else
    withName existing im.name (rawExt im.bits im.w im.h) (.ok im.data)

/-- The nine ways `export_image` can go (round 6: the branch selection as a table of its own). -/
inductive Branch where
  | undecoded | jpeg | jpx | jbig2 | bmp1 | bmp24 | bmp8 | bytes | raw
  deriving DecidableEq, Repr

def Branch.toString : Branch → String
  | .undecoded => "undecoded" | .jpeg => "jpeg" | .jpx => "jpx" | .jbig2 => "jbig2" | .bmp1 => "bmp1"
  | .bmp24 => "bmp24" | .bmp8 => "bmp8" | .bytes => "bytes" | .raw => "raw"

/-- Which branch `export_image` takes: the `if … elif …` chain in the code's order. -/
def branchOf (im : ImgIn) : Branch :=
  if !plausible im.w im.h im.bits then .undecoded
  else if im.filters.getLast? = some .dct then .jpeg
  else if im.filters.getLast? = some .jpx then .jpx
  else if im.filters.contains .jbig2 then .jbig2
  else if im.bits = 1 then .bmp1
  else if im.bits = 8 ∧ isRGB im.cs then .bmp24
  else if im.bits = 8 ∧ isGray im.cs then .bmp8
  else if im.filters = [.flate] then .bytes
  else .raw

/-- `(bytes_per_line, bits)` handed to `_save_bmp` in the three bitmap branches (regenerated expressions). -/
def bmpArgsOf (b : Branch) (im : ImgIn) : Option (Nat × Nat) :=
  match b with
  | .bmp1 => some ((bmpBpl0 im.w im.bits).toNat, (bmpDepth0 im.w im.bits).toNat)
  | .bmp24 => some ((bmpBpl1 im.w im.bits).toNat, (bmpDepth1 im.w im.bits).toNat)
  | .bmp8 => some ((bmpBpl2 im.w im.bits).toNat, (bmpDepth2 im.w im.bits).toNat)
  | _ => none

/-- What each branch writes: extension of the file and its content (or the exception). -/
def exportBranch (b : Branch) (im : ImgIn) (existing : List Bytes) : Except Err (Bytes × Bytes) :=
  match b with
  | .undecoded => withName existing im.name extUndecoded (.ok im.data)
  | .jpeg => withName existing im.name extJpeg (if im.cmykMember then .error .importError else .ok im.data)
  | .jpx => withName existing im.name [46, 106, 112, 50] (.error .importError)
  | .jbig2 => .error .unmodelled
  | .bytes => withName existing im.name extJpeg (.error .importError)
  | .raw => withName existing im.name (rawExt im.bits im.w im.h) (.ok im.data)
  | .bmp1 | .bmp24 | .bmp8 =>
    match bmpArgsOf b im with
    | some (bpl, depth) => withName existing im.name extBmp (saveBmp depth im.w im.h bpl im.data)
    | none => .error .unmodelled

/-- A run of exports into one directory: every exported file joins the directory listing; an
    exception aborts the run (as it aborts `extract_text_to_fp`). -/
def exportSeq : List ImgIn → List Bytes → List (Bytes × Bytes)
  | [], _ => []
  | im :: rest, existing =>
    match exportImage im existing with
    | .ok (nm, file) => (nm, file) :: exportSeq rest (nm :: existing)
    | .error _ => []

/-- `_save_bmp` of the pinned code (rows neither padded nor reordered), for the counter-examples. -/
def saveBmpPinned (bits w h bpl : Nat) (data : Bytes) : Except Err Bytes :=
  match ncolsOf bits with
  | none => .error .value
  | some ncols =>
    (bmpHeader bits w h ncols).map
      (fun hdr => hdr ++ palette ncols ++ writeBodyPinned (lineSize bits w) (rowsOf bpl h data))

end PdfVerif.Image
