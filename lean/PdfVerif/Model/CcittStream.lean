/-
Hand model of the path from a stream dictionary to `ccittfaxdecode` (import-free, executable):
  PDFStream.get_any / get_filters (non-strict; direct objects, i.e. after `resolve1`),
  the `for f, params in filters` loop of PDFStream._decode with its CCITTFaxDecode branch and the
  predictor guard, and the way `ccittfaxdecode` reads K / Columns / EncodedByteAlign / BlackIs1 from
  the parameter dictionary (Python `==`, default argument, truthiness).
Key names, filter names and the lookup orders are `Gen/CcittStream.lean`, regenerated on every run.
All other filters are a parameter `other` (they are C03's model); entries such as /Rows,
/EndOfBlock, /EndOfLine, /DamagedRowsBeforeError are never looked up — by construction here, and in
the code because the regenerated key list of `ccittfaxdecode` is exactly the four keys above.
-/
import PdfVerif.Model.Ccitt
import PdfVerif.Gen.CcittStream

namespace PdfVerif.Ccitt
open PdfVerif.Gen

/-- A parsed PDF object as far as this path distinguishes them (`other`: real, string, stream, …). -/
inductive PObj where
  | null
  | bool (b : Bool)
  | int (i : Int)
  | name (s : String)
  | other
  | arr (xs : List PObj)
  | dict (kvs : List (String × PObj))

abbrev Dict := List (String × PObj)

/-- `PDFStream.get_any(names)`: the first of `names` that is a key of the dictionary. -/
def getAny (attrs : Dict) : List String → Option PObj
  | [] => none
  | k :: ks =>
    match attrs.lookup k with
    | some v => some v
    | none => getAny attrs ks

/-- Python `not x` -/
def PObj.falsy : PObj → Bool
  | .null => true
  | .bool b => !b
  | .int i => i == 0
  | .arr [] => true
  | .dict [] => true
  | _ => false

/-- `PDFStream.get_filters()` (settings.STRICT off): filters and parameters paired by position; a
single parameter object is repeated for every filter; `zip` drops what has no partner. -/
def getFilters (attrs : Dict) : List (PObj × PObj) :=
  let filters := (getAny attrs CcittStream.filterKeys).getD (.arr [])
  let params := (getAny attrs CcittStream.parmsKeys).getD (.dict [])
  if filters.falsy then [] else
  let fs := match filters with
    | .arr xs => xs
    | f => [f]
  let ps := match params with
    | .arr xs => xs
    | p => List.replicate fs.length p
  fs.zip ps

/-- `params.get(key)` used as a condition: absent / null / false / 0 are falsy. -/
def flagOf (d : Dict) (key : String) : Except Err Bool :=
  match d.lookup key with
  | none => .ok false
  | some .null => .ok false
  | some (.bool b) => .ok b
  | some (.int i) => .ok (i != 0)
  | some (.name _) => .ok true                 -- a PSLiteral has neither `__bool__` nor `__len__`
  | some (.arr xs) => .ok (!xs.isEmpty)
  | some (.dict d) => .ok (!d.isEmpty)
  | some .other => .error .unmodelled          -- real numbers, strings, streams: outside the model

/-- `K = params.get("K")` compared with `-1` (a real number could compare equal: outside the model) -/
def kOf (d : Dict) : Except Err (Option Int) :=
  match d.lookup CcittStream.keyK with
  | none => .ok none
  | some (.int i) => .ok (some i)
  | some .other => .error .unmodelled
  | some _ => .ok (some 0)          -- null, booleans, names, arrays, dictionaries: `== -1` is false

/-- `params.get("Columns", default)`: only an absent key gets the default. -/
def columnsOf (d : Dict) : Except Err (Option Int) :=
  match d.lookup CcittStream.keyColumns with
  | none => .ok none
  | some (.int i) => .ok (some i)
  | some _ => .error .unmodelled

/-- `ccittfaxdecode(data, params)` on a parameter object as `get_filters` hands it over.  Anything
that is not a dictionary (the null entry of a DecodeParms array, but also a number, a name, an
array, …) stands for "all defaults": `if not isinstance(params, dict): params = {}`, hence K is
absent and the stream is reported as not Group 4. -/
def ccittBranch (p : PObj) (data : List UInt8) : Except Err (List UInt8) :=
  match p with
  | .dict d =>
    match kOf d with
    | .error e => .error e
    | .ok k =>
      if k ≠ some CcittCode.kGroup4 then .error .valueError else
      match columnsOf d, flagOf d CcittStream.keyAlign, flagOf d CcittStream.keyBlackIs1 with
      | .ok c, .ok al, .ok rv => ccittfaxdecode k c al rv data
      | _, _, _ => .error .unmodelled
  | _ => ccittfaxdecode none none false false data

/-- `params and "Predictor" in params` -/
def hasPredictor : PObj → Bool
  | .dict d => (d.lookup CcittStream.predictorKey).isSome
  | _ => false

/-- One round of the `for f, params in filters` loop.  `other` = every filter that is not
CCITTFaxDecode; a predictor after the filter is outside this model. -/
def decodeStep (other : String → List UInt8 → Except Err (List UInt8)) (f p : PObj)
    (data : List UInt8) : Except Err (List UInt8) :=
  match f with
  | .name n =>
    let r := if CcittStream.ccittFilterNames.contains n then ccittBranch p data else other n data
    match r with
    | .error e => .error e
    | .ok d => if hasPredictor p then .error .unmodelled else .ok d
  | _ => .error .notImplemented

def decodeChain (other : String → List UInt8 → Except Err (List UInt8)) :
    List (PObj × PObj) → List UInt8 → Except Err (List UInt8)
  | [], d => .ok d
  | (f, p) :: rest, d =>
    match decodeStep other f p d with
    | .error e => .error e
    | .ok d' => decodeChain other rest d'

/-- `PDFStream.get_data()` of an unencrypted stream: every error of this path is a `PDFException`
(`InvalidData`, `PDFValueError`, `PDFNotImplementedError`), which `PDFStream.decode` re-raises. -/
def streamDecode (other : String → List UInt8 → Except Err (List UInt8)) (attrs : Dict)
    (raw : List UInt8) : Except Err (List UInt8) :=
  decodeChain other (getFilters attrs) raw

end PdfVerif.Ccitt
