/-
C17 — executable specification of the document outline (ISO 32000-1 12.3.3): a hierarchy of
items, listed in document order (preorder) with their nesting level, and its representation by
First / Last / Next links.
-/
import PdfVerif.Model.Outline
import PdfVerif.Spec.Labels

namespace PdfVerif.Spec.Outline
open PdfVerif PdfVerif.Labels PdfVerif.Outline

/-- An outline item with its children. -/
inductive OTree where
  | mk (info : Info) (children : List OTree)

/-- The tuple an item is reported as; `none` outside the domain (no Title, neither Dest nor A,
title not a valid text string). -/
def item (level : Nat) (i : Info) : Option Item :=
  match i.title with
  | some t =>
    if i.a.isSome || i.dest.isSome then
      (Spec.Labels.text t).map (fun s => ⟨level, s, i.dest, i.a, i.se⟩)
    else none
  | none => none

mutual
/-- Document order: an item, then its descendants one level deeper, then its later siblings. -/
def preTree (level : Nat) : OTree → List (Option Item)
  | .mk info ch => item level info :: preForest (level + 1) ch
def preForest (level : Nat) : List OTree → List (Option Item)
  | [] => []
  | t :: ts => preTree level t ++ preForest level ts
end

/-- Top-level items have level 1 (the `Outlines` dictionary itself is level 0). -/
def outline (forest : List OTree) : Option (List Item) := (preForest 1 forest).mapM id

mutual
/-- First/Next representation: `First` = encoding of the children (present, together with
`Last`, iff there are any), `Next` = encoding of the later siblings. -/
def encTree : OTree → Entry → Entry
  | .mk info ch, next => .mk info (encForest ch) (!ch.isEmpty) next
def encForest : List OTree → Entry
  | [] => .nil
  | t :: ts => encTree t (encForest ts)
end

/-- The catalog's `Outlines` dictionary of a forest. -/
def encRoot (forest : List OTree) : Entry := .mk {} (encForest forest) (!forest.isEmpty) .nil

end PdfVerif.Spec.Outline
