/-
C17 — further specification-side definitions: the UTF-16BE encoder of text strings (RFC 2781,
ISO 32000-1 7.9.2.2) and the reading of a letters numeral as bijective base 26.
-/
import PdfVerif.Spec.Labels

namespace PdfVerif.Spec.LabelsExtra
open PdfVerif PdfVerif.Labels

/-- Unicode scalar value. -/
def isScalar (c : Nat) : Bool := c < 0x110000 && !(0xD800 ≤ c && c ≤ 0xDFFF)

/-- UTF-16 code units of a scalar value (RFC 2781 2.1). -/
def unitsOfScalar (c : Nat) : List Nat :=
  if c < 0x10000 then [c] else [0xD800 + (c - 0x10000) / 0x400, 0xDC00 + (c - 0x10000) % 0x400]

def unitBytes (u : Nat) : Bytes := [UInt8.ofNat (u / 256), UInt8.ofNat (u % 256)]

/-- The UTF-16BE text string of a list of scalar values: byte-order mark, then big-endian units. -/
def encodeUtf16BE (cs : List Nat) : Bytes :=
  [0xFE, 0xFF] ++ (cs.flatMap unitsOfScalar).flatMap unitBytes

/-- Value of a letters numeral read as bijective base 26 (a = 1 … z = 26). -/
def alphaValue (t : Text) : Nat := t.foldl (fun acc c => acc * 26 + (c - 96)) 0

/-- `t` is a bijective base-26 numeral of `v`: lowercase letters only, reading `v`.  There is exactly
one for every `v > 0` (`bijNumeral_unique`, `alpha_characterised`). -/
def isBijNumeral (t : Text) (v : Int) : Prop :=
  (∀ c ∈ t, 97 ≤ c ∧ c ≤ 122) ∧ (alphaValue t : Int) = v

/-- What the pinned code is proved to write for a numeral, for every style: ISO 32000-1 Table 159 for
decimal and roman; for the letter styles the bijective base-26 numeral (open finding alpha-repeat). -/
def numeralPinned (style : Option Bytes) (v : Int) (num : Text) : Prop :=
  if style = some styleA then ∃ t, isBijNumeral t v ∧ num = upper t
  else if style = some stylea then isBijNumeral num v
  else Spec.Labels.numeral style v = some num

end PdfVerif.Spec.LabelsExtra
