/-
Executable specification for C04, written on an inductive page tree (no object graph walk, no
visited set, no overlay dictionaries):

* pages = the Page leaves in depth-first Kids order (`specLeaves`);
* each inheritable attribute = the page's own entry or else that of its nearest ancestor (`inherited`);
* selection = the pages whose zero-based index is selected and below the limit (`specSelect`);
* device space = MediaBox origin moved to (0,0), sheet turned clockwise by quarter turns (`specDevice`).

`toTree` unfolds an object graph into such a tree when it is one (used by the driver to decide
whether a generated document lies in the domain of the tree specification).
-/
import PdfVerif.Model.PageTree

namespace PdfVerif.PageTree
open PdfVerif PdfVerif.Gen.PageTree

/-- A page tree: every node carries its object number and its own dictionary. -/
inductive PTree
  | page (id : Nat) (d : Dict)
  | pages (id : Nat) (d : Dict) (kids : List PTree)
  deriving Inhabited

def PTree.id : PTree → Nat
  | .page i _ => i
  | .pages i _ _ => i

def PTree.dict : PTree → Dict
  | .page _ d => d
  | .pages _ d _ => d

mutual
  /-- Object numbers of all nodes, in depth-first order. -/
  def PTree.ids : PTree → List Nat
    | .page i _ => [i]
    | .pages i _ kids => i :: idsL kids
  def idsL : List PTree → List Nat
    | [] => []
    | t :: ts => t.ids ++ idsL ts
end

mutual
  def PTree.depth : PTree → Nat
    | .page _ _ => 1
    | .pages _ _ kids => depthL kids + 1
  def depthL : List PTree → Nat
    | [] => 0
    | t :: ts => max t.depth (depthL ts)
end

/-- Value of attribute `k` for a node whose dictionaries, from itself up to the root, are `path`:
the first one that defines it. -/
def inherited (path : List Dict) (k : String) : Option Val :=
  path.findSome? (fun d => dget d k)

mutual
  /-- The Page leaves in depth-first Kids order, each with its path of dictionaries (leaf first).
  `anc` is the path of the parent. -/
  def specLeaves : PTree → List Dict → List (Nat × List Dict)
    | .page i d, anc => [(i, d :: anc)]
    | .pages _ d kids, anc => specLeavesL kids (d :: anc)
  def specLeavesL : List PTree → List Dict → List (Nat × List Dict)
    | [], _ => []
    | t :: ts, anc => specLeaves t anc ++ specLeavesL ts anc
end

/-- The page object demanded for a leaf: `PDFPage` built from own-or-inherited attributes. -/
def specPage (g : Store) (p : Nat × List Dict) : Except Err Page :=
  .ok (mkPage g (some p.1) (inherited p.2 "Resources") (inherited p.2 "MediaBox") (inherited p.2 "CropBox")
    (inherited p.2 "Rotate"))

/-- All pages of a tree. -/
def specPages (g : Store) (t : PTree) : List Page × Option Err :=
  finish (specPage g) (specLeaves t []) none

/-- Selection: index selected (an empty selection selects everything) and below the limit (0 = none). -/
def specSelect {α : Type} (sel : List Nat) (maxpages : Nat) (start : Nat) (pages : List α) : List α :=
  ((pages.zipIdx start).filter
    (fun pi => (sel.isEmpty || sel.contains pi.2) && (maxpages == 0 || pi.2 < maxpages))).map Prod.fst

/-- Page `i` is wanted: `page_numbers` is `None`, or empty, or contains `i`. -/
def wanted (pagenos : Option (List Int)) (i : Nat) : Bool :=
  match pagenos with
  | none => true
  | some l => l.isEmpty || l.contains (i : Int)

/-- Selection in terms of the arguments of the Python interface: page `i` is wanted when
`page_numbers` is `None`/empty or contains `i`, and `maxpages` is 0 or above `i`. -/
def specSelectPy {α : Type} (pagenos : Option (List Int)) (maxpages : Int) (pages : List α) : List α :=
  ((pages.zipIdx 0).filter
    (fun pi => wanted pagenos pi.2 && (maxpages == 0 || decide ((pi.2 : Int) < maxpages)))).map Prod.fst

/-- A box given as (left, bottom, right, top). -/
def Normalised (r : Rect) : Prop := r.1 ≤ r.2.2.1 ∧ r.2.1 ≤ r.2.2.2

/-! ### Device space -/

/-- Turn a sheet of width `w` clockwise by a quarter turn and put it back into the first quadrant:
the lower-left corner goes to the upper-left one. -/
def rot90cw (w : Rat) (p : Point) : Point := (p.2, w - p.1)

/-- `k` clockwise quarter turns of a `w × h` sheet: image of a point, and the size of the turned sheet. -/
def turn : Nat → Rat × Rat → Point → Point × (Rat × Rat)
  | 0, sz, p => (p, sz)
  | k + 1, (w, h), p => turn k (h, w) (rot90cw w p)

/-- Where the property puts a point of default user space: MediaBox origin to (0,0), then
`rotate / 90` clockwise quarter turns. -/
def specDevice (rotate : Int) (mb : Rect) (p : Point) : Point × (Rat × Rat) :=
  let (x0, y0, x1, y1) := mb
  turn (rotate / 90).toNat (x1 - x0, y1 - y0) (p.1 - x0, p.2 - y0)

/-- Harness observation demanded by the specification (same shape as `render`). -/
def specRender (rotate : Int) (mb : Rect) (p : Point) : Rect × Matrix :=
  let (o, (w, h)) := specDevice rotate mb p
  let (ex, _) := specDevice rotate mb (p.1 + 1, p.2)
  let (ey, _) := specDevice rotate mb (p.1, p.2 + 1)
  ((0, 0, w, h), (ex.1 - o.1, ex.2 - o.2, ey.1 - o.1, ey.2 - o.2, o.1, o.2))

/-! ### Trees inside object graphs -/

/-- References to the roots of a list of trees (what a Kids array holds). -/
def kidRefs (ts : List PTree) : List Elem := ts.map (fun t => Val.atom (.ref t.id))

mutual
  /-- The object graph `g` contains the tree `t`: every node's dictionary is what its reference
  resolves to, has the right Type, and a Pages node's Kids are the references to its children. -/
  def Embeds (g : Store) : PTree → Prop
    | .page i d => dictValue g (.atom (.ref i)) = d ∧ isName (nodeType d) "Page" = true
    | .pages i d kids =>
      dictValue g (.atom (.ref i)) = d ∧ isName (nodeType d) "Pages" = true ∧
      (∃ kv, dget d "Kids" = some kv ∧ listValue g kv = kidRefs kids) ∧ EmbedsL g kids
  def EmbedsL (g : Store) : List PTree → Prop
    | [] => True
    | t :: ts => Embeds g t ∧ EmbedsL g ts
end

/-! ### Depth-first order on arbitrary Kids graphs (shared nodes, cycles) -/

/-- Own dictionary of the indirect node `n`. -/
def nodeDict (g : Store) (n : Nat) : Dict := dictValue g (.atom (.ref n))

/-- `n` is expanded by the walk: Type Pages and a Kids entry. -/
def isPagesNode (g : Store) (n : Nat) : Bool :=
  isName (nodeType (nodeDict g n)) "Pages" && (dget (nodeDict g n) "Kids").isSome

/-- `n` is yielded by the walk. -/
def isPageNode (g : Store) (n : Nat) : Bool :=
  !isPagesNode g n && isName (nodeType (nodeDict g n)) "Page"

/-- The Kids entries the walk iterates over at `n`. -/
def kidsOf (g : Store) (n : Nat) : List Elem :=
  if isPagesNode g n then listValue g ((dget (nodeDict g n) "Kids").getD (.atom .null)) else []

/-- Object number of a Kids entry (a reference or an integer), if it has one. -/
def kidId : Elem → Option Nat
  | .atom (.ref n) => some n
  | .atom (.int i) => if 0 ≤ i then some i.toNat else none
  | _ => none

/-- The Page nodes at the ends of all *simple* Kids paths that start at `n` and avoid the nodes `anc`
(the nodes already on the path), path after path in Kids order: the leaf sequence of the graph
unfolded into a tree, where a branch ends when it would come back to one of its own ancestors.
No visited set, no state shared between branches. The budget bounds the length of a path; with
`number of objects + 1` no simple path is cut (`C04_path_budget`). -/
def pathLeaves (g : Store) : Nat → List Nat → Nat → List Nat
  | 0, _, _ => []
  | f + 1, anc, n =>
    if anc.contains n then []
    else if isPagesNode g n then
      (kidsOf g n).flatMap (fun k =>
        match kidId k with
        | some b => pathLeaves g f (n :: anc) b
        | none => [])
    else if isPageNode g n then [n] else []

/-- First occurrences of the elements of a list that are not in `seen`. -/
def novel : List Nat → List Nat → List Nat
  | _, [] => []
  | seen, x :: xs => if seen.contains x then novel seen xs else x :: novel (x :: seen) xs

/-- **Depth-first order on a graph**: the Page nodes in the order in which the depth-first
enumeration of all simple Kids paths from the root `r` first arrives at them. On a tree this is the
leaf order; a shared node counts where it is first met, a cycle is cut where it closes. -/
def specOrder (g : Store) (r : Nat) : List Nat := novel [] (pathLeaves g (g.length + 1) [] r)

/-! ### Unfolding an object graph (driver only) -/

def mapKids (f : Elem → Option PTree) : List Elem → Option (List PTree)
  | [] => some []
  | k :: ks =>
    match f k, mapKids f ks with
    | some t, some ts => some (t :: ts)
    | _, _ => none

/-- The tree below a Kids entry; `none` when something other than Page / Pages-with-Kids nodes
referenced by indirect references is met, or the fuel runs out (a cycle). -/
def toTree (g : Store) : Nat → Elem → Option PTree
  | 0, _ => none
  | f + 1, .atom (.ref n) =>
    let d := dictValue g (.atom (.ref n))
    if isName (nodeType d) "Page" then some (.page n d)
    else if isName (nodeType d) "Pages" then
      match dget d "Kids" with
      | some kv => (fun ks => PTree.pages n d ks) <$> mapKids (toTree g f) (listValue g kv)
      | none => none
    else none
  | _ + 1, _ => none

def nodupNat : List Nat → Bool
  | [] => true
  | x :: xs => !xs.contains x && nodupNat xs

/-- The document as a tree, when it lies in the domain of the tree specification: catalog without
inheritable attributes, `Pages` a reference, every node reached once. -/
def docTree (g : Store) (fuel : Nat) (catalog : Dict) : Option PTree :=
  if INHERITABLE_ATTRS.any (fun k => (dget catalog k).isSome) then none
  else
    match dget catalog "Pages" with
    | some (.atom a) =>
      match toTree g fuel (.atom a) with
      | some t => if nodupNat t.ids then some t else none
      | none => none
    | _ => none

end PdfVerif.PageTree
