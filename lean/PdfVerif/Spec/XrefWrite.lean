/-
C02 — the writer's side as executable Lean: how a classic cross-reference table and the rows of
a cross-reference stream are laid out in bytes (ISO 32000-1 7.5.4, 7.5.8), and what they mean.
The harness checks that its Python writer produced exactly these bytes for every generated file
(driver ops `q.render`, `q.encrows`), so the round-trip theorems speak about the bytes pdfminer read.
Import-free.
-/
import PdfVerif.Model.Xref

namespace PdfVerif.Xref

open PdfVerif.Gen.Xref

/-- Big-endian, fixed width `w`. -/
def bePack : Nat → Nat → Bytes
  | 0, _ => []
  | w + 1, v => bePack w (v / 256) ++ [UInt8.ofNat (v % 256)]

abbrev Row := Nat × Nat × Nat

def encodeRow (w1 w2 w3 : Nat) (r : Row) : Bytes := bePack w1 r.1 ++ (bePack w2 r.2.1 ++ bePack w3 r.2.2)

def encodeRows (w1 w2 w3 : Nat) : List Row → Bytes
  | [] => []
  | r :: rs => encodeRow w1 w2 w3 r ++ encodeRows w1 w2 w3 rs


def rowSpec : List (Nat × Nat) → List Row → Nat → Option Row
  | [], _, _ => none
  | (s, c) :: rest, rows, n => if s ≤ n ∧ n < s + c then rows[n - s]? else rowSpec rest (rows.drop c) n

def objidsSpec : List (Nat × Nat) → List Row → List Nat
  | [], _ => []
  | (s, c) :: rest, rows =>
    ((List.range c).filterMap (fun i =>
        match rows[i]? with
        | some r => if inUseType r.1 then some (s + i) else none
        | none => none))
      ++ objidsSpec rest (rows.drop c)

def sumCounts : List (Nat × Nat) → Nat
  | [] => 0
  | (_, c) :: rest => c + sumCounts rest


/-- Zero-padded decimal of width `w` (the writer's `%010d` / `%05d` / `%d`). -/
def renderDec : Nat → Nat → Bytes
  | 0, _ => []
  | w + 1, n => renderDec w (n / 10) ++ [UInt8.ofNat (48 + n % 10)]


structure TEntry where
  pos : Nat
  gen : Nat
  inuse : Bool
  deriving Repr

/-- The two bytes that end a 20-byte entry line. -/
inductive EntEol | spLf | crLf | spCr
  deriving Repr

def EntEol.bytes : EntEol → Bytes
  | .spLf => [32, 10]
  | .crLf => [13, 10]
  | .spCr => [32, 13]

inductive LineEol | lf | crlf | cr
  deriving Repr

def LineEol.bytes : LineEol → Bytes
  | .lf => [10]
  | .crlf => [13, 10]
  | .cr => [13]

def useByte (e : TEntry) : UInt8 := if e.inuse then 110 else 102

/-- `nnnnnnnnnn ggggg n` -/
def entryCore (e : TEntry) : Bytes :=
  renderDec 10 e.pos ++ fieldSep :: (renderDec 5 e.gen ++ [fieldSep, useByte e])

def renderEntry (ee : EntEol) (e : TEntry) : Bytes := entryCore e ++ ee.bytes

/-- A subsection: first object number (written with `ws ≥ 1` digits), count (`wc ≥ 1` digits), entries. -/
structure Sub where
  start : Nat
  ws : Nat
  wc : Nat
  entries : List TEntry
  deriving Repr

def headerCore (sb : Sub) : Bytes := renderDec sb.ws sb.start ++ fieldSep :: renderDec sb.wc sb.entries.length

def renderEntries (ee : EntEol) : List TEntry → Bytes
  | [] => []
  | e :: es => renderEntry ee e ++ renderEntries ee es

def renderSub (eol : LineEol) (ee : EntEol) (sb : Sub) : Bytes :=
  headerCore sb ++ (eol.bytes ++ renderEntries ee sb.entries)

def renderTable (eol : LineEol) (ee : EntEol) : List Sub → Bytes
  | [] => []
  | sb :: rest => renderSub eol ee sb ++ renderTable eol ee rest

/-- What `PDFXRef.load` must end up with: `offsets[objid] = (None, pos, gen)` for every in-use
entry, in file order (a later entry for the same number overwrites). -/
def insEntries : Int → List TEntry → List (Int × Entry) → List (Int × Entry)
  | _, [], offs => offs
  | objid, e :: es, offs =>
    insEntries (objid + 1) es (if e.inuse then insertOff offs objid ⟨none, e.pos, e.gen⟩ else offs)

def insSubs : List Sub → List (Int × Entry) → List (Int × Entry)
  | [], offs => offs
  | sb :: rest, offs => insSubs rest (insEntries (sb.start : Int) sb.entries offs)


/-- Dictionary meaning of the written subsections: scanning in file order, the last in-use line
whose object number is `n` gives `n`'s entry. -/
def specEntries : Int → List TEntry → Int → Option Entry → Option Entry
  | _, [], _, acc => acc
  | objid, e :: es, n, acc =>
    specEntries (objid + 1) es n (if e.inuse && objid == n then some ⟨none, e.pos, e.gen⟩ else acc)

def specSubs : List Sub → Int → Option Entry → Option Entry
  | [], _, acc => acc
  | sb :: rest, n, acc => specSubs rest n (specEntries (sb.start : Int) sb.entries n acc)


/-- A classic file body as the scan sees it: plain lines and indirect objects.  An object is its
whole text from the first digit of `n g obj` through `endobj`; the line the scan reads at its start
may end inside the object (`1 0 obj⏎<<…>>⏎endobj`) or beyond it (`1 0 obj<<…>>endobj⏎`). -/
inductive Item
  | line (l : Bytes)
  | obj (num gen : Nat) (text : Bytes)

def Item.bytes : Item → Bytes
  | .line l => l
  | .obj _ _ text => text

def itemsBytes : List Item → Bytes
  | [] => []
  | i :: r => i.bytes ++ itemsBytes r

/-- The true offsets: every object registered at the offset where its header starts. -/
def scanSpec : Nat → List Item → List (Int × Entry) → List (Int × Entry)
  | _, [], offs => offs
  | pos, .line l :: r, offs => scanSpec (pos + l.length) r offs
  | pos, .obj n g text :: r, offs =>
    scanSpec (pos + text.length) r (insertOff offs (n : Int) ⟨none, pos, g⟩)

/-- Well-formedness of the body relative to what follows it (`after`): every plain line is a
line that is neither a cue nor the trailer keyword; every object starts at a line start, the line
read there matches the cue with the object's own numbers, and `ends` knows where the object stops
(`nextobject()`); no object is an object stream (classic files). -/
def ItemsOK (ends : List (Nat × Nat × Val)) : Nat → List Item → Bytes → Prop
  | _, [], _ => True
  | pos, .line l :: r, after =>
    takeLine (l ++ (itemsBytes r ++ after)) = some (l, l.length) ∧ startsWith l kwTrailer = false ∧
    matchCue l = none ∧ ItemsOK ends (pos + l.length) r after
  | pos, .obj n g text :: r, after =>
    (∃ l k, takeLine (text ++ (itemsBytes r ++ after)) = some (l, k) ∧ startsWith l kwTrailer = false ∧
      matchCue l = some (n, g)) ∧ text ≠ [] ∧
    (∃ v, lookupNat ends pos = some (pos + text.length, v) ∧ ∀ id k t, v ≠ .objstm id k t) ∧
    ItemsOK ends (pos + text.length) r after

def Val.isObjstm : Val → Bool
  | .objstm _ _ _ => true
  | _ => false

/-- Executable form of `ItemsOK` (evaluated by the harness on every damaged-file case). -/
def itemsOKb (ends : List (Nat × Nat × Val)) : Nat → List Item → Bytes → Bool
  | _, [], _ => true
  | pos, .line l :: r, after =>
    takeLine (l ++ (itemsBytes r ++ after)) == some (l, l.length) && !startsWith l kwTrailer &&
    matchCue l == none && itemsOKb ends (pos + l.length) r after
  | pos, .obj n g text :: r, after =>
    (match takeLine (text ++ (itemsBytes r ++ after)) with
     | some (l, _) => !startsWith l kwTrailer && matchCue l == some (n, g)
     | none => false) && !text.isEmpty &&
    (match lookupNat ends pos with
     | some (e, v) => e == pos + text.length && !v.isObjstm
     | none => false) &&
    itemsOKb ends (pos + text.length) r after

/-! ### The end of a file: `startxref`, offset, `%%EOF` -/

/-- `%%EOF` -/
def kwEOF : Bytes := [37, 37, 69, 79, 70]

def eolRep (eol : LineEol) : Nat → Bytes
  | 0 => []
  | k + 1 => eol.bytes ++ eolRep eol k

def blanks (k : Nat) : Bytes := List.replicate k 32

/-- `startxref` + `s1` blanks + `k1+1` EOLs + the offset in `w` digits + `s2` blanks + `k2+1` EOLs +
`%%EOF` + `s3` blanks + `k3` EOLs. -/
def renderTailG (eol : LineEol) (s1 s2 s3 k1 k2 k3 w n : Nat) : Bytes :=
  kwStartxref ++ (blanks s1 ++ (eolRep eol (k1 + 1) ++ (renderDec w n ++ (blanks s2 ++
    (eolRep eol (k2 + 1) ++ (kwEOF ++ (blanks s3 ++ eolRep eol k3)))))))

/-- The four tails the harness writer produces. -/
inductive TailStyle | plain | noeol | blank | spaces
  deriving Repr

def renderTail (ts : TailStyle) (eol : LineEol) (w n : Nat) : Bytes :=
  match ts with
  | .plain => renderTailG eol 0 0 0 0 0 1 w n
  | .noeol => renderTailG eol 0 0 0 0 0 0 w n
  | .blank => renderTailG eol 0 1 0 0 1 2 w n
  | .spaces => renderTailG eol 1 2 1 0 0 1 w n

end PdfVerif.Xref
