/-
Executable specification for C19: the ITU-T T.6 (Group 4, MMR) encoder with a free choice of coding
mode wherever the Recommendation's decoder must accept one, ITU-T T.4 run-length codes, optional
byte alignment of rows (PDF `EncodedByteAlign`), optional EOFB, and the packed-sample form of a
bitmap (PDF `BlackIs1`).

The code tables below are a FROZEN transcription of T.4 tables 2/3 and T.6 table 1 (not read from
pdfminer): `Props/C19.lean` proves that pdfminer's regenerated tables decode exactly these codes.
Pixels: `true` = white, `false` = black.  Import-free (linked into the driver).
-/
import PdfVerif.Model.CcittBits

namespace PdfVerif.Spec.T6
open PdfVerif.Ccitt (packBits)

/-! ## Code tables (frozen) -/

/-- T.4 white run lengths: terminating codes 0..63, make-up codes 64..2560. -/
def white : List (Nat × List Bool) := [
  (0, [false,false,true,true,false,true,false,true]),
  (1, [false,false,false,true,true,true]),
  (2, [false,true,true,true]),
  (3, [true,false,false,false]),
  (4, [true,false,true,true]),
  (5, [true,true,false,false]),
  (6, [true,true,true,false]),
  (7, [true,true,true,true]),
  (8, [true,false,false,true,true]),
  (9, [true,false,true,false,false]),
  (10, [false,false,true,true,true]),
  (11, [false,true,false,false,false]),
  (12, [false,false,true,false,false,false]),
  (13, [false,false,false,false,true,true]),
  (14, [true,true,false,true,false,false]),
  (15, [true,true,false,true,false,true]),
  (16, [true,false,true,false,true,false]),
  (17, [true,false,true,false,true,true]),
  (18, [false,true,false,false,true,true,true]),
  (19, [false,false,false,true,true,false,false]),
  (20, [false,false,false,true,false,false,false]),
  (21, [false,false,true,false,true,true,true]),
  (22, [false,false,false,false,false,true,true]),
  (23, [false,false,false,false,true,false,false]),
  (24, [false,true,false,true,false,false,false]),
  (25, [false,true,false,true,false,true,true]),
  (26, [false,false,true,false,false,true,true]),
  (27, [false,true,false,false,true,false,false]),
  (28, [false,false,true,true,false,false,false]),
  (29, [false,false,false,false,false,false,true,false]),
  (30, [false,false,false,false,false,false,true,true]),
  (31, [false,false,false,true,true,false,true,false]),
  (32, [false,false,false,true,true,false,true,true]),
  (33, [false,false,false,true,false,false,true,false]),
  (34, [false,false,false,true,false,false,true,true]),
  (35, [false,false,false,true,false,true,false,false]),
  (36, [false,false,false,true,false,true,false,true]),
  (37, [false,false,false,true,false,true,true,false]),
  (38, [false,false,false,true,false,true,true,true]),
  (39, [false,false,true,false,true,false,false,false]),
  (40, [false,false,true,false,true,false,false,true]),
  (41, [false,false,true,false,true,false,true,false]),
  (42, [false,false,true,false,true,false,true,true]),
  (43, [false,false,true,false,true,true,false,false]),
  (44, [false,false,true,false,true,true,false,true]),
  (45, [false,false,false,false,false,true,false,false]),
  (46, [false,false,false,false,false,true,false,true]),
  (47, [false,false,false,false,true,false,true,false]),
  (48, [false,false,false,false,true,false,true,true]),
  (49, [false,true,false,true,false,false,true,false]),
  (50, [false,true,false,true,false,false,true,true]),
  (51, [false,true,false,true,false,true,false,false]),
  (52, [false,true,false,true,false,true,false,true]),
  (53, [false,false,true,false,false,true,false,false]),
  (54, [false,false,true,false,false,true,false,true]),
  (55, [false,true,false,true,true,false,false,false]),
  (56, [false,true,false,true,true,false,false,true]),
  (57, [false,true,false,true,true,false,true,false]),
  (58, [false,true,false,true,true,false,true,true]),
  (59, [false,true,false,false,true,false,true,false]),
  (60, [false,true,false,false,true,false,true,true]),
  (61, [false,false,true,true,false,false,true,false]),
  (62, [false,false,true,true,false,false,true,true]),
  (63, [false,false,true,true,false,true,false,false]),
  (64, [true,true,false,true,true]),
  (128, [true,false,false,true,false]),
  (192, [false,true,false,true,true,true]),
  (256, [false,true,true,false,true,true,true]),
  (320, [false,false,true,true,false,true,true,false]),
  (384, [false,false,true,true,false,true,true,true]),
  (448, [false,true,true,false,false,true,false,false]),
  (512, [false,true,true,false,false,true,false,true]),
  (576, [false,true,true,false,true,false,false,false]),
  (640, [false,true,true,false,false,true,true,true]),
  (704, [false,true,true,false,false,true,true,false,false]),
  (768, [false,true,true,false,false,true,true,false,true]),
  (832, [false,true,true,false,true,false,false,true,false]),
  (896, [false,true,true,false,true,false,false,true,true]),
  (960, [false,true,true,false,true,false,true,false,false]),
  (1024, [false,true,true,false,true,false,true,false,true]),
  (1088, [false,true,true,false,true,false,true,true,false]),
  (1152, [false,true,true,false,true,false,true,true,true]),
  (1216, [false,true,true,false,true,true,false,false,false]),
  (1280, [false,true,true,false,true,true,false,false,true]),
  (1344, [false,true,true,false,true,true,false,true,false]),
  (1408, [false,true,true,false,true,true,false,true,true]),
  (1472, [false,true,false,false,true,true,false,false,false]),
  (1536, [false,true,false,false,true,true,false,false,true]),
  (1600, [false,true,false,false,true,true,false,true,false]),
  (1664, [false,true,true,false,false,false]),
  (1728, [false,true,false,false,true,true,false,true,true]),
  (1792, [false,false,false,false,false,false,false,true,false,false,false]),
  (1856, [false,false,false,false,false,false,false,true,true,false,false]),
  (1920, [false,false,false,false,false,false,false,true,true,false,true]),
  (1984, [false,false,false,false,false,false,false,true,false,false,true,false]),
  (2048, [false,false,false,false,false,false,false,true,false,false,true,true]),
  (2112, [false,false,false,false,false,false,false,true,false,true,false,false]),
  (2176, [false,false,false,false,false,false,false,true,false,true,false,true]),
  (2240, [false,false,false,false,false,false,false,true,false,true,true,false]),
  (2304, [false,false,false,false,false,false,false,true,false,true,true,true]),
  (2368, [false,false,false,false,false,false,false,true,true,true,false,false]),
  (2432, [false,false,false,false,false,false,false,true,true,true,false,true]),
  (2496, [false,false,false,false,false,false,false,true,true,true,true,false]),
  (2560, [false,false,false,false,false,false,false,true,true,true,true,true])]

/-- T.4 black run lengths. -/
def black : List (Nat × List Bool) := [
  (0, [false,false,false,false,true,true,false,true,true,true]),
  (1, [false,true,false]),
  (2, [true,true]),
  (3, [true,false]),
  (4, [false,true,true]),
  (5, [false,false,true,true]),
  (6, [false,false,true,false]),
  (7, [false,false,false,true,true]),
  (8, [false,false,false,true,false,true]),
  (9, [false,false,false,true,false,false]),
  (10, [false,false,false,false,true,false,false]),
  (11, [false,false,false,false,true,false,true]),
  (12, [false,false,false,false,true,true,true]),
  (13, [false,false,false,false,false,true,false,false]),
  (14, [false,false,false,false,false,true,true,true]),
  (15, [false,false,false,false,true,true,false,false,false]),
  (16, [false,false,false,false,false,true,false,true,true,true]),
  (17, [false,false,false,false,false,true,true,false,false,false]),
  (18, [false,false,false,false,false,false,true,false,false,false]),
  (19, [false,false,false,false,true,true,false,false,true,true,true]),
  (20, [false,false,false,false,true,true,false,true,false,false,false]),
  (21, [false,false,false,false,true,true,false,true,true,false,false]),
  (22, [false,false,false,false,false,true,true,false,true,true,true]),
  (23, [false,false,false,false,false,true,false,true,false,false,false]),
  (24, [false,false,false,false,false,false,true,false,true,true,true]),
  (25, [false,false,false,false,false,false,true,true,false,false,false]),
  (26, [false,false,false,false,true,true,false,false,true,false,true,false]),
  (27, [false,false,false,false,true,true,false,false,true,false,true,true]),
  (28, [false,false,false,false,true,true,false,false,true,true,false,false]),
  (29, [false,false,false,false,true,true,false,false,true,true,false,true]),
  (30, [false,false,false,false,false,true,true,false,true,false,false,false]),
  (31, [false,false,false,false,false,true,true,false,true,false,false,true]),
  (32, [false,false,false,false,false,true,true,false,true,false,true,false]),
  (33, [false,false,false,false,false,true,true,false,true,false,true,true]),
  (34, [false,false,false,false,true,true,false,true,false,false,true,false]),
  (35, [false,false,false,false,true,true,false,true,false,false,true,true]),
  (36, [false,false,false,false,true,true,false,true,false,true,false,false]),
  (37, [false,false,false,false,true,true,false,true,false,true,false,true]),
  (38, [false,false,false,false,true,true,false,true,false,true,true,false]),
  (39, [false,false,false,false,true,true,false,true,false,true,true,true]),
  (40, [false,false,false,false,false,true,true,false,true,true,false,false]),
  (41, [false,false,false,false,false,true,true,false,true,true,false,true]),
  (42, [false,false,false,false,true,true,false,true,true,false,true,false]),
  (43, [false,false,false,false,true,true,false,true,true,false,true,true]),
  (44, [false,false,false,false,false,true,false,true,false,true,false,false]),
  (45, [false,false,false,false,false,true,false,true,false,true,false,true]),
  (46, [false,false,false,false,false,true,false,true,false,true,true,false]),
  (47, [false,false,false,false,false,true,false,true,false,true,true,true]),
  (48, [false,false,false,false,false,true,true,false,false,true,false,false]),
  (49, [false,false,false,false,false,true,true,false,false,true,false,true]),
  (50, [false,false,false,false,false,true,false,true,false,false,true,false]),
  (51, [false,false,false,false,false,true,false,true,false,false,true,true]),
  (52, [false,false,false,false,false,false,true,false,false,true,false,false]),
  (53, [false,false,false,false,false,false,true,true,false,true,true,true]),
  (54, [false,false,false,false,false,false,true,true,true,false,false,false]),
  (55, [false,false,false,false,false,false,true,false,false,true,true,true]),
  (56, [false,false,false,false,false,false,true,false,true,false,false,false]),
  (57, [false,false,false,false,false,true,false,true,true,false,false,false]),
  (58, [false,false,false,false,false,true,false,true,true,false,false,true]),
  (59, [false,false,false,false,false,false,true,false,true,false,true,true]),
  (60, [false,false,false,false,false,false,true,false,true,true,false,false]),
  (61, [false,false,false,false,false,true,false,true,true,false,true,false]),
  (62, [false,false,false,false,false,true,true,false,false,true,true,false]),
  (63, [false,false,false,false,false,true,true,false,false,true,true,true]),
  (64, [false,false,false,false,false,false,true,true,true,true]),
  (128, [false,false,false,false,true,true,false,false,true,false,false,false]),
  (192, [false,false,false,false,true,true,false,false,true,false,false,true]),
  (256, [false,false,false,false,false,true,false,true,true,false,true,true]),
  (320, [false,false,false,false,false,false,true,true,false,false,true,true]),
  (384, [false,false,false,false,false,false,true,true,false,true,false,false]),
  (448, [false,false,false,false,false,false,true,true,false,true,false,true]),
  (512, [false,false,false,false,false,false,true,true,false,true,true,false,false]),
  (576, [false,false,false,false,false,false,true,true,false,true,true,false,true]),
  (640, [false,false,false,false,false,false,true,false,false,true,false,true,false]),
  (704, [false,false,false,false,false,false,true,false,false,true,false,true,true]),
  (768, [false,false,false,false,false,false,true,false,false,true,true,false,false]),
  (832, [false,false,false,false,false,false,true,false,false,true,true,false,true]),
  (896, [false,false,false,false,false,false,true,true,true,false,false,true,false]),
  (960, [false,false,false,false,false,false,true,true,true,false,false,true,true]),
  (1024, [false,false,false,false,false,false,true,true,true,false,true,false,false]),
  (1088, [false,false,false,false,false,false,true,true,true,false,true,false,true]),
  (1152, [false,false,false,false,false,false,true,true,true,false,true,true,false]),
  (1216, [false,false,false,false,false,false,true,true,true,false,true,true,true]),
  (1280, [false,false,false,false,false,false,true,false,true,false,false,true,false]),
  (1344, [false,false,false,false,false,false,true,false,true,false,false,true,true]),
  (1408, [false,false,false,false,false,false,true,false,true,false,true,false,false]),
  (1472, [false,false,false,false,false,false,true,false,true,false,true,false,true]),
  (1536, [false,false,false,false,false,false,true,false,true,true,false,true,false]),
  (1600, [false,false,false,false,false,false,true,false,true,true,false,true,true]),
  (1664, [false,false,false,false,false,false,true,true,false,false,true,false,false]),
  (1728, [false,false,false,false,false,false,true,true,false,false,true,false,true]),
  (1792, [false,false,false,false,false,false,false,true,false,false,false]),
  (1856, [false,false,false,false,false,false,false,true,true,false,false]),
  (1920, [false,false,false,false,false,false,false,true,true,false,true]),
  (1984, [false,false,false,false,false,false,false,true,false,false,true,false]),
  (2048, [false,false,false,false,false,false,false,true,false,false,true,true]),
  (2112, [false,false,false,false,false,false,false,true,false,true,false,false]),
  (2176, [false,false,false,false,false,false,false,true,false,true,false,true]),
  (2240, [false,false,false,false,false,false,false,true,false,true,true,false]),
  (2304, [false,false,false,false,false,false,false,true,false,true,true,true]),
  (2368, [false,false,false,false,false,false,false,true,true,true,false,false]),
  (2432, [false,false,false,false,false,false,false,true,true,true,false,true]),
  (2496, [false,false,false,false,false,false,false,true,true,true,true,false]),
  (2560, [false,false,false,false,false,false,false,true,true,true,true,true])]

/-- T.6 mode codes. -/
def codeP : List Bool := [false,false,false,true]
def codeH : List Bool := [false,false,true]
/-- `codeV d`: a1 is `d` pixels right of b1 (`VR(d)` for d > 0, `VL(-d)` for d < 0). -/
def codeV (d : Int) : List Bool :=
  if d = 0 then [true] else
  if d = 1 then [false,true,true] else
  if d = -1 then [false,true,false] else
  if d = 2 then [false,false,false,false,true,true] else
  if d = -2 then [false,false,false,false,true,false] else
  if d = 3 then [false,false,false,false,false,true,true] else
  if d = -3 then [false,false,false,false,false,true,false] else
  []
/-- End-of-facsimile-block: two EOL codes. -/
def codeEOFB : List Bool := [false,false,false,false,false,false,false,false,false,false,false,true,false,false,false,false,false,false,false,false,false,false,false,true]

/-! ## Run lengths (T.4): k × 2560, then at most one make-up code, then one terminating code -/

def runTable (color : Bool) : List (Nat × List Bool) := if color then white else black

def runCode (color : Bool) (n : Nat) : List Bool := ((runTable color).lookup n).getD []

/-- A run of 64..2623 pixels is a make-up code followed by a terminating code, a shorter one just
a terminating code. -/
def encodeRunTail (color : Bool) (n : Nat) : List Bool :=
  if 64 ≤ n then runCode color (64 * (n / 64)) ++ runCode color (n % 64) else runCode color n

/-- Runs of 2624 pixels or more are preceded by as many 2560 make-up codes as leave 64..2623. -/
def encodeRun (color : Bool) (n : Nat) : List Bool :=
  let k := (n - 64) / 2560
  (List.replicate k (runCode color 2560)).flatten ++ encodeRunTail color (n - 2560 * k)

/-! ## Changing elements (T.6 §2.2.1) -/

/-- a1 (also a2): the first pixel at or right of `lo` whose colour is not `color`; the line length if none. -/
def nextNot (line : List Bool) (color : Bool) (lo : Nat) : Nat :=
  lo + ((line.drop lo).takeWhile (· == color)).length

/-- Each pixel of a line paired with its left neighbour (white before the first pixel). -/
def withPrev (line : List Bool) : List (Bool × Bool) := (true :: line).zip line

/-- b1: the first changing element of the reference line at or right of `lo` whose colour is
opposite to `color`, i.e. a pixel ≠ `color` whose left neighbour = `color`; the line length if none. -/
def b1Of (ref : List Bool) (color : Bool) (lo : Nat) : Nat :=
  lo + (((withPrev ref).drop lo).takeWhile (fun pr => !(pr.1 == color && pr.2 != color))).length

/-- b2: the next changing element right of b1 (the first pixel of colour `color` after b1). -/
def b2Of (ref : List Bool) (color : Bool) (b1 : Nat) : Nat :=
  min ref.length (nextNot ref (!color) (b1 + 1))

/-! ## Coding one line with an explicit list of mode choices -/

/-- What the caller asks for at one coding step.  `std` = the Recommendation's own rule; a request
that is not admissible at this step is treated as `std`. -/
inductive Choice where
  | std | pass | vert | horiz
  deriving DecidableEq, Repr

inductive CodingMode where
  | pass | vert | horiz
  deriving DecidableEq, Repr

def vertOk (a1 b1 : Nat) : Bool := decide ((a1 : Int) - (b1 : Int) ≤ 3 ∧ (b1 : Int) - (a1 : Int) ≤ 3)

/-- T.6 figure 7: pass if b2 < a1, else vertical if |a1 b1| ≤ 3, else horizontal. -/
def stdMode (a1 b1 b2 : Nat) : CodingMode :=
  if b2 < a1 then .pass else if vertOk a1 b1 then .vert else .horiz

/-- Admissible alternatives: pass whenever b2 < a1, vertical whenever |a1 b1| ≤ 3, horizontal always. -/
def resolve (ch : Choice) (a1 b1 b2 : Nat) : CodingMode :=
  match ch with
  | .pass => if b2 < a1 then .pass else stdMode a1 b1 b2
  | .vert => if vertOk a1 b1 then .vert else stdMode a1 b1 b2
  | .horiz => .horiz
  | .std => stdMode a1 b1 b2

/-- Code the rest of line `cur` (reference line `ref`) from the state (a0, colour of a0).
`a0 = -1` is the imaginary white pixel before the line.  Every step moves a0 to the right, so
`cur.length + 1` units of fuel always suffice (`Props/C19.lean`, `encodeLine_fuel`). -/
def encodeLineAux (ref cur : List Bool) : Nat → Int → Bool → List Choice → List Bool
  | 0, _, _, _ => []
  | fuel + 1, a0, color, chs =>
    if (cur.length : Int) ≤ a0 then [] else
    let lo := (a0 + 1).toNat
    let a1 := nextNot cur color lo
    let b1 := b1Of ref color lo
    let b2 := b2Of ref color b1
    match resolve (chs.headD .std) a1 b1 b2 with
    | .pass => codeP ++ encodeLineAux ref cur fuel (b2 : Int) color chs.tail
    | .vert => codeV ((a1 : Int) - (b1 : Int)) ++ encodeLineAux ref cur fuel (a1 : Int) (!color) chs.tail
    | .horiz =>
      let a2 := nextNot cur (!color) a1
      codeH ++ encodeRun color (a1 - a0.toNat) ++ encodeRun (!color) (a2 - a1)
        ++ encodeLineAux ref cur fuel (a2 : Int) color chs.tail

def encodeLine (ref cur : List Bool) (chs : List Choice) : List Bool :=
  encodeLineAux ref cur (cur.length + 1) (-1) true chs

/-! ## Whole image -/

/-- Zero bits up to the next multiple of eight. -/
def padTo8 (bits : List Bool) : List Bool := bits ++ List.replicate ((8 - bits.length % 8) % 8) false

/-- Rows in order, each coded against its predecessor (`ref` for the first); with `align` every
row's code starts on a byte boundary. -/
def encodeRows (align : Bool) : List Bool → List (List Bool) → List (List Choice) → List Bool
  | _, [], _ => []
  | ref, cur :: rest, chs =>
    let code := encodeLine ref cur (chs.headD [])
    (if align then padTo8 code else code) ++ encodeRows align cur rest chs.tail

/-- The bit stream of a `width`-column image: rows against an all-white line, EOFB if requested,
zero-filled to a whole number of bytes. -/
def encodeImageBits (width : Nat) (rows : List (List Bool)) (chs : List (List Choice))
    (align eofb : Bool) : List Bool :=
  padTo8 (encodeRows align (List.replicate width true) rows chs ++ (if eofb then codeEOFB else []))

/-- The encoded data as octets. -/
def encodeImage (width : Nat) (rows : List (List Bool)) (chs : List (List Choice))
    (align eofb : Bool) : List UInt8 :=
  packBits (encodeImageBits width rows chs align eofb)

/-- The image as PDF sample data: one bit per pixel, rows padded with 0 bits to whole octets;
a white pixel is 1 unless `blackIs1`. -/
def packImage (blackIs1 : Bool) (rows : List (List Bool)) : List UInt8 :=
  rows.flatMap fun r => packBits (if blackIs1 then r.map (!·) else r)

end PdfVerif.Spec.T6
