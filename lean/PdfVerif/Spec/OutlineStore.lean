/-
C17 — how an outline (its First/Next term encoding, `Outline.Entry`) is STORED in an object graph:
every dictionary is an indirect object of its own (distinct object ids), `First`/`Next` are
references.  This is the layout every PDF writer produces (ISO 32000-1 12.3.3: outline items are
indirect objects); shared or cyclic links are exactly what the predicate excludes.
-/
import PdfVerif.Model.OutlineGraph

namespace PdfVerif.Spec.OutlineStore
open PdfVerif PdfVerif.Outline PdfVerif.OutlineGraph

/-- `Stored g r e ids`: following the reference `r` in `g` one reads the entry `e`; `ids` are the
object ids used for it, each exactly once (the link sets of `First`, `Next` and the node itself are
pairwise disjoint — no sharing, no cycle). -/
inductive Stored (g : Store) : Option Nat → Entry → List Nat → Prop
  | nil : Stored g none .nil []
  | mk (r : Nat) (nd : GNode) (first next : Entry) (idsF idsN : List Nat) :
      OutlineGraph.get g r = some nd →
      Stored g nd.first first idsF → Stored g nd.next next idsN →
      r ∉ idsF → r ∉ idsN → (∀ x ∈ idsF, x ∉ idsN) →
      Stored g (some r) (.mk nd.info first nd.hasLast next) (r :: (idsF ++ idsN))

end PdfVerif.Spec.OutlineStore
