/-
C03 — reference ENCODERS (executable specification).  Each definition is the Lean twin of a
function of tools/harness/props/c03_enc.py; the harness checks that both produce the same bytes
on every generated case, so `decode (encode choices x) = x` speaks about the bytes that are
really fed to pdfminer.  All encoder freedom is an explicit argument (`cs`, `tail`, `segs`,
`clr`, `fts`, …) over which the theorems quantify.
-/
import PdfVerif.Model.Filters

namespace PdfVerif.FilterEnc
open PdfVerif PdfVerif.Filters

/-- White space choices inside ASCIIHex data (all of Python's `\s`). -/
def ws7 (i : Nat) : Bytes :=
  if i == 1 then [32] else if i == 2 then [9] else if i == 3 then [10] else if i == 4 then [13]
  else if i == 5 then [12] else if i == 6 then [11] else []

/-- White space choices inside ASCII85 data (`a85decode`'s `ignorechars`). -/
def ws6 (i : Nat) : Bytes :=
  if i == 1 then [32] else if i == 2 then [9] else if i == 3 then [10] else if i == 4 then [13]
  else if i == 5 then [11] else []

/-- First choice of a list (0 when exhausted). -/
def hd0 : List Nat → Nat
  | [] => 0
  | c :: _ => c

/-! ## ASCIIHex -/

def hexDigitB (n : Nat) (upper : Bool) : UInt8 :=
  if n < 10 then UInt8.ofNat (48 + n) else UInt8.ofNat ((if upper then 55 else 87) + n)

/-- One byte: hi digit, white space, lo digit (dropped when `dropLo`), white space. -/
def ahxEncByte (c : Nat) (b : UInt8) (dropLo : Bool) : Bytes :=
  [hexDigitB (b.toNat / 16) (c % 2 == 1)] ++ ws7 (c / 4 % 7) ++
    (if dropLo then [] else [hexDigitB (b.toNat % 16) (c / 2 % 2 == 1)]) ++ ws7 (c / 28 % 7)

def ahxEncGo : List Nat → Bool → Bytes → Bytes
  | _, _, [] => []
  | cs, t2, [b] => ahxEncByte (hd0 cs) b (t2 && b.toNat % 16 == 0)
  | cs, t2, b :: b' :: rest => ahxEncByte (hd0 cs) b false ++ ahxEncGo cs.tail t2 (b' :: rest)

/-- `tail`: 0 = `>`; 1 = no EOD marker; 2 = `>` and a final `0` digit left out. -/
def ahxEnc (cs : List Nat) (tail : Nat) (x : Bytes) : Bytes :=
  ahxEncGo cs (tail == 2) x ++ (if tail == 1 then [] else [62])

/-! ## ASCII85 -/

def a85digits (v : Nat) : Bytes :=
  [UInt8.ofNat (v / 52200625 % 85 + 33), UInt8.ofNat (v / 614125 % 85 + 33),
   UInt8.ofNat (v / 7225 % 85 + 33), UInt8.ofNat (v / 85 % 85 + 33), UInt8.ofNat (v % 85 + 33)]

def be32val (a b c d : UInt8) : Nat :=
  a.toNat * 16777216 + b.toNat * 65536 + c.toNat * 256 + d.toNat

/-- Groups of four bytes; per group choice `c`: bit 0 = `z` for a zero group, `(c/2)%6` = white
space after the group.  A final group of n < 4 bytes gives n+1 digits. -/
def a85Body : List Nat → Bytes → Bytes
  | cs, a :: b :: c :: d :: rest =>
    (if be32val a b c d == 0 && hd0 cs % 2 == 1 then [122] else a85digits (be32val a b c d)) ++
      ws6 (hd0 cs / 2 % 6) ++ a85Body cs.tail rest
  | cs, [a, b, c] => (a85digits (be32val a b c 0)).take 4 ++ ws6 (hd0 cs / 2 % 6)
  | cs, [a, b] => (a85digits (be32val a b 0 0)).take 3 ++ ws6 (hd0 cs / 2 % 6)
  | cs, [a] => (a85digits (be32val a 0 0 0)).take 2 ++ ws6 (hd0 cs / 2 % 6)
  | _, [] => []

/-- Framing `(mode, a, b, c)`: mode 0 = nothing, 1 = `~`, 2 = `<~`, with white space choices. -/
def a85Pre (m a b c : Nat) : Bytes :=
  if m == 0 then ws6 (a % 6)
  else if m == 1 then ws6 (a % 6) ++ [126] ++ ws6 (c % 6)
  else ws6 (a % 6) ++ [60] ++ ws6 (b % 6) ++ [126] ++ ws6 (c % 6)

/-- mode 0 = no EOD, 1 = `~`, 2 = `~>`. -/
def a85Post (m a b c : Nat) : Bytes :=
  if m == 0 then ws6 (a % 6)
  else if m == 1 then ws6 (a % 6) ++ [126] ++ ws6 (c % 6)
  else ws6 (a % 6) ++ [126] ++ ws6 (b % 6) ++ [62] ++ ws6 (c % 6)

def a85Enc (cs : List Nat) (pre post : Nat × Nat × Nat × Nat) (x : Bytes) : Bytes :=
  a85Pre pre.1 pre.2.1 pre.2.2.1 pre.2.2.2 ++ a85Body cs x ++ a85Post post.1 post.2.1 post.2.2.1 post.2.2.2

/-! ## RunLength: an explicit, arbitrary segmentation -/

inductive RlSeg
  | lit (bs : Bytes)
  | run (n : Nat) (b : UInt8)

def RlSeg.valid : RlSeg → Bool
  | .lit bs => 1 ≤ bs.length && bs.length ≤ 128
  | .run n _ => 2 ≤ n && n ≤ 128

def RlSeg.enc : RlSeg → Bytes
  | .lit bs => UInt8.ofNat (bs.length - 1) :: bs
  | .run n b => [UInt8.ofNat (257 - n), b]

def RlSeg.flat : RlSeg → Bytes
  | .lit bs => bs
  | .run n b => List.replicate n b

def rlBody : List RlSeg → Bytes
  | [] => []
  | s :: ss => s.enc ++ rlBody ss

def rlFlat : List RlSeg → Bytes
  | [] => []
  | s :: ss => s.flat ++ rlFlat ss

def rlEnc (segs : List RlSeg) (eod : Bool) : Bytes :=
  rlBody segs ++ (if eod then [128] else [])

/-! ## LZW (early change), greedy longest match, arbitrary extra Clear codes -/

/-- Data codes per Clear segment: one more would need a 13-bit code. -/
def lzwMaxSeg : Nat := 3839

/-- Width of the next code when `j` data codes were emitted since the last Clear. -/
def lzwWidth (j : Nat) : Nat :=
  if 257 + j < 511 then 9 else if 257 + j < 1023 then 10 else if 257 + j < 2047 then 11 else 12

/-- Code of a string that is in the table (`ext` = entries from 258). -/
def codeOf (ext : List Bytes) (w : Bytes) : Nat :=
  match w with
  | [b] => b.toNat
  | _ => 258 + ext.idxOf w

/-- `clr n` = insert a Clear code after the n-th data code (counted over the whole stream). -/
def lzwGo (clr : Nat → Bool) : List Bytes → Bytes → Nat → Nat → Bytes → List Nat
  | ext, w, _, _, [] => if w.isEmpty then [257] else [codeOf ext w, 257]
  | ext, w, j, total, b :: rest =>
    if w.isEmpty then lzwGo clr ext [b] j total rest
    else if ext.contains (w ++ [b]) then lzwGo clr ext (w ++ [b]) j total rest
    else if j + 1 ≥ lzwMaxSeg || clr (total + 1) then
      codeOf ext w :: 256 :: lzwGo clr [] [b] 0 (total + 1) rest
    else
      codeOf ext w :: lzwGo clr (ext ++ [w ++ [b]]) [b] (j + 1) (total + 1) rest

def lzwCodes (clr : Nat → Bool) (x : Bytes) : List Nat := 256 :: lzwGo clr [] [] 0 0 x

/-- `w` bits of `n`, most significant first. -/
def bitsOfNat : Nat → Nat → List Bool
  | 0, _ => []
  | w + 1, n => (n / 2 ^ w % 2 == 1) :: bitsOfNat w n

def lzwBits : Nat → List Nat → List Bool
  | _, [] => []
  | j, c :: cs =>
    bitsOfNat (lzwWidth j) c ++ lzwBits (if c == 256 then 0 else if c == 257 then j else j + 1) cs

/-- Pack bits MSB first, padding the last byte with zeros. -/
def packGo : Nat → Nat → List Bool → Bytes
  | acc, n, [] => if n == 0 then [] else [UInt8.ofNat (acc * 2 ^ (8 - n))]
  | acc, n, b :: bs =>
    if n + 1 == 8 then UInt8.ofNat (2 * acc + (if b then 1 else 0)) :: packGo 0 0 bs
    else packGo (2 * acc + (if b then 1 else 0)) (n + 1) bs

def packBits (bs : List Bool) : Bytes := packGo 0 0 bs

def lzwEnc (clr : Nat → Bool) (x : Bytes) : Bytes := packBits (lzwBits 0 (lzwCodes clr x))

/-! ## Predictors -/

def pngEncRow (ft bpp : Nat) (prior row : Bytes) : Bytes :=
  (List.range row.length).map fun j =>
    row.getD j 0 - pngPred ft (if j < bpp then 0 else row.getD (j - bpp) 0) (prior.getD j 0)
      (if j < bpp then 0 else prior.getD (j - bpp) 0)

/-- Rows with their filter types (0..4). -/
def pngEncRows (bpp : Nat) : Bytes → List Nat → List Bytes → Bytes
  | prior, ft :: fts, row :: rows =>
    UInt8.ofNat ft :: (pngEncRow ft bpp prior row ++ pngEncRows bpp row fts rows)
  | _, _, _ => []

def pngEnc (colors columns bpc : Nat) (fts : List Nat) (rows : List Bytes) : Bytes :=
  pngEncRows (pngBpp colors bpc) (List.replicate (pngNbytes colors columns bpc) 0) fts rows

def tiffEncRow (colors : Nat) (row : Bytes) : Bytes :=
  (List.range row.length).map fun j =>
    row.getD j 0 - (if j < colors then 0 else row.getD (j - colors) 0)

def tiffEnc (colors : Nat) : List Bytes → Bytes
  | [] => []
  | row :: rows => tiffEncRow colors row ++ tiffEnc colors rows

/-- Split `x` into rows of `n` bytes (driver helper; `n > 0`). -/
def chunks (n : Nat) : Nat → Bytes → List Bytes
  | 0, _ => []
  | _ + 1, [] => []
  | fuel + 1, x => x.take n :: chunks n fuel (x.drop n)

end PdfVerif.FilterEnc
