/-
C02 — the writer's side of a WHOLE file, structurally: where every object of every revision
ends up (running byte positions from gaps and lengths), which cross-reference entry each revision
writes for it, and the history the file means.  `Rep` (the hypothesis of `C02_newest_wins`) is
DERIVED for every output of this writer (`Lemmas/XrefHist.lean`), and the harness checks that its
Python writer produced exactly this structure for every generated file (driver op `q.written`).
Import-free.
-/
import PdfVerif.Spec.XrefWrite
import PdfVerif.Spec.Xref

namespace PdfVerif.Xref

open PdfVerif.Gen.Xref

/-- Where the writer stores an object of a revision. -/
inductive Place
  /-- `gap` bytes of other material (comments, auxiliary objects, older sections), then the object
  itself, `len ≥ 1` bytes of `n g obj … endobj` -/
  | direct (gap len gen : Nat)
  /-- member `idx` of object stream number `c` -/
  | member (c idx : Nat)
  deriving Repr

/-- An object of the file body; `sub` = index (0 = oldest) of the (sub-)revision whose
cross-reference section lists it.  Objects of the two parts of a hybrid revision may be interleaved. -/
structure WObj where
  num : Nat
  val : Val
  place : Place
  sub : Nat
  deriving Repr

/-- Records of the object store `(position, number, generation, value)` for the whole body in file
order (everything that is not an object — sections, trailers, comments — is part of the gaps), and the
position after the last object. -/
def placeObjs : Nat → List WObj → List (Nat × Nat × Nat × Val) × Nat
  | cur, [] => ([], cur)
  | cur, o :: rest =>
    match o.place with
    | .direct gap len gen =>
      let r := placeObjs (cur + gap + len) rest
      ((cur + gap, o.num, gen, o.val) :: r.1, r.2)
    | .member _ _ => placeObjs cur rest

/-- The entries the cross-reference section of (sub-)revision `k` lists. -/
def placeSub (k : Nat) : Nat → List WObj → List (Nat × Entry)
  | _, [] => []
  | cur, o :: rest =>
    match o.place with
    | .direct gap len gen =>
      if o.sub == k then (o.num, ⟨none, cur + gap, gen⟩) :: placeSub k (cur + gap + len) rest
      else placeSub k (cur + gap + len) rest
    | .member c idx =>
      if o.sub == k then (o.num, ⟨some c, idx, 0⟩) :: placeSub k cur rest else placeSub k cur rest

/-- What (sub-)revision `k` defines. -/
def subDefs (k : Nat) (objs : List WObj) : List (Nat × Val) :=
  (objs.filter (fun o => o.sub == k)).map (fun o => (o.num, o.val))

/-- One entry list / one revision per trailer `(Root, Info)`, OLDEST first, numbered from `k`. -/
def subEnts (start : Nat) (objs : List WObj) : Nat → List (Nat × Option Nat) → List (List (Nat × Entry))
  | _, [] => []
  | k, _ :: rest => placeSub k start objs :: subEnts start objs (k + 1) rest

def subRevs (objs : List WObj) : Nat → List (Nat × Option Nat) → List Revision
  | _, [] => []
  | k, t :: rest => ⟨subDefs k objs, t.1, t.2⟩ :: subRevs objs (k + 1) rest

/-- A written file: the body and the trailers of its (sub-)revisions, oldest first. -/
structure WFile where
  start : Nat
  objs : List WObj
  trailers : List (Nat × Option Nat)
  deriving Repr

def WFile.store (f : WFile) : List (Nat × Nat × Nat × Val) := (placeObjs f.start f.objs).1

/-- entry lists, OLDEST first -/
def WFile.ents (f : WFile) : List (List (Nat × Entry)) := subEnts f.start f.objs 0 f.trailers

/-- The history (NEWEST first) a written file means. -/
def WFile.history (f : WFile) : History := (subRevs f.objs 0 f.trailers).reverse

/-- An object-stream member is what the container (looked up newest-first like any object) holds. -/
def memberOK (whole : History) (c idx : Nat) (v : Val) : Bool := entryOK whole [] 0 v ⟨some c, idx, 0⟩

/-- Executable side conditions of `C02_written_rep`: lengths positive, members as in their containers. -/
def wobjOK (whole : History) (o : WObj) : Bool :=
  match o.place with
  | .direct _ len _ => decide (0 < len)
  | .member c idx => memberOK whole c idx o.val

def WFile.ok (f : WFile) : Bool := f.objs.all (wobjOK f.history)

/-- Does a loaded section answer exactly like the entry list (checked for numbers below `bound`)? -/
def secListsB (bound : Nat) (s : Section) (ents : List (Nat × Entry)) : Bool :=
  (List.range bound).all (fun n => s.getPos n == lookupNat ents n)

/-! ### The trailer chain of a file, computed (executable hypothesis of `C02_chain`) -/

/-- Follow the chain from an optional position: every revision a plain section or a hybrid pair whose
stream carries neither `/Prev` nor `/XRefStm`; a `/Prev` pointing at its own section ends the chain.
`none` when the file has another shape. -/
def chainOf (ph : Phys) : Nat → Option Nat → Option (List Nat × List (Section × Trailer))
  | _, none => some ([], [])
  | 0, some _ => none
  | fuel + 1, some p =>
    match lookupNat ph.secs p with
    | none => none
    | some d =>
      match loadSection ph d with
      | .error _ => none
      | .ok (s, tr) =>
        match tr.xrefstm with
        | none =>
          if tr.prev == some p then some ([p], [(s, tr)])      -- circular /Prev: the chain ends here
          else (chainOf ph fuel tr.prev).map (fun r => (p :: r.1, (s, tr) :: r.2))
        | some x =>
          match lookupNat ph.secs x with
          | none => none
          | some dx =>
            match loadSection ph dx with
            | .error _ => none
            | .ok (sx, trx) =>
              if trx.xrefstm.isNone && trx.prev.isNone then
                if tr.prev == some p then some ([p, x], [(s, tr), (sx, trx)])
                else (chainOf ph fuel tr.prev).map (fun r => (p :: x :: r.1, (s, tr) :: (sx, trx) :: r.2))
              else none

def nodupNat : List Nat → Bool
  | [] => true
  | a :: r => !r.contains a && nodupNat r

/-- `PDFDocument.__init__` as far as this property goes: locate `startxref` backwards with read buffer
`bufsiz`, then load the chain of sections from there (the driver's `q.open` runs exactly this). -/
def openPhys (ph : Phys) (bufsiz : Nat) : Except Err (List (Section × Trailer)) :=
  match findXref bufsiz ph.data with
  | .error e => .error e
  | .ok pos =>
    match readXrefFrom ph (ph.secs.length + 2) pos ([], []) with
    | .ok r => .ok r.1
    | .error e => .error e

/-! ### What a written classic table lists (executable hypothesis of `C02_table_lists`) -/

/-- The in-use lines of a subsection as `(object number, entry)`, in file order. -/
def flatEntries : Int → List TEntry → List (Int × Entry)
  | _, [] => []
  | objid, e :: es =>
    if e.inuse then (objid, ⟨none, e.pos, e.gen⟩) :: flatEntries (objid + 1) es else flatEntries (objid + 1) es

def flatSubs : List Sub → List (Int × Entry)
  | [] => []
  | sb :: rest => flatEntries (sb.start : Int) sb.entries ++ flatSubs rest

def entsInt (ents : List (Nat × Entry)) : List (Int × Entry) := ents.map (fun p => ((p.1 : Int), p.2))

def nodupKeysB : List (Int × Entry) → Bool
  | [] => true
  | p :: r => r.all (fun q => q.1 != p.1) && nodupKeysB r

/-- Same `(number, entry)` pairs, in any order, every number once. -/
def sameAssocB (a b : List (Int × Entry)) : Bool :=
  a.all (fun p => b.contains p) && b.all (fun p => a.contains p) && nodupKeysB a && nodupKeysB b

/-! ### What a written cross-reference stream lists (executable hypothesis of `C02_stream_lists`) -/

/-- The numbers one `/Index` range covers, each with what its row says (`none` = free / unknown type). -/
def rangeRows : Nat → Nat → List Row → List (Nat × Option Entry)
  | _, 0, _ => []
  | _, _ + 1, [] => []
  | s, c + 1, r :: rows => (s, specRowEntry r) :: rangeRows (s + 1) c rows

def flatRows : List (Nat × Nat) → List Row → List (Nat × Option Entry)
  | [], _ => []
  | (s, c) :: rest, rows => rangeRows s c rows ++ flatRows rest (rows.drop c)

def inuseRows (l : List (Nat × Option Entry)) : List (Nat × Entry) :=
  l.filterMap (fun p => p.2.map (fun e => (p.1, e)))

/-- The ranges do not overlap and the in-use rows are the writer's entry list (any order). -/
def streamListsB (ranges : List (Nat × Nat)) (rows : List Row) (ents : List (Nat × Entry)) : Bool :=
  nodupNat ((flatRows ranges rows).map (·.1)) &&
    sameAssocB (entsInt (inuseRows (flatRows ranges rows))) (entsInt ents)

end PdfVerif.Xref
