/-
C02 — executable specification: what a revision history means, and when a list of loaded
cross-reference sections plus an object store *represents* a history.
Import-free.
-/
import PdfVerif.Model.Xref

namespace PdfVerif.Xref

open PdfVerif.Gen.Xref

/-- ISO 32000-1 Table 18: a cross-reference stream row of type 1 is an uncompressed object
(field 2 = byte offset, field 3 = generation), of type 2 a compressed object (field 2 = number of
the object stream, field 3 = index within it, generation 0); type 0 is a free entry and any
other type is to be treated as a reference to the null object — in both cases no definition. -/
def specRowEntry (r : Nat × Nat × Nat) : Option Entry :=
  match r.1 with
  | 1 => some ⟨none, r.2.1, r.2.2⟩
  | 2 => some ⟨some r.2.1, r.2.2, 0⟩
  | _ => none

/-- One revision: its define/override set (first match wins inside one revision) and the
trailer's Root / Info. -/
structure Revision where
  defs : List (Nat × Val)
  root : Nat
  info : Option Nat
  deriving Repr

/-- Histories are kept NEWEST FIRST (head = latest incremental update). -/
abbrev History := List Revision

def Revision.lookup (r : Revision) (n : Nat) : Option Val := lookupNat r.defs n

/-- The value given by the most recent revision that defines `n`. -/
def resolve : History → Nat → Option Val
  | [], _ => none
  | r :: older, n =>
    match r.lookup n with
    | some v => some v
    | none => resolve older n

/-- What `getobj n` must answer. -/
def specGetobj (h : History) (n : Nat) : Except Err Val :=
  match resolve h n with
  | some v => .ok v
  | none => .error .notFound

/-- Object numbers a revision defines, in order, without repetition. -/
def dedup : List Nat → List Nat
  | [] => []
  | a :: rest => a :: (dedup rest).filter (fun b => b != a)

def Revision.inuse (r : Revision) : List Nat := dedup (r.defs.map (·.1))

def specCatalog (h : History) : Option Val :=
  match h with
  | [] => none
  | r :: _ => resolve h r.root

def specInfo (h : History) : Option Val :=
  match h with
  | [] => none
  | r :: _ => match r.info with | some i => resolve h i | none => none

/-! ### Decidable hypothesis checker: the physical description represents the history -/

/-- Does entry `e` of some section lead to value `v` for object `n`, given the object store and
the whole history (containers are looked up newest-first, like every other object)? -/
def entryOK (whole : History) (objs : List (Nat × Nat × Nat × Val)) (n : Nat) (v : Val) (e : Entry) : Bool :=
  match e.strm with
  | none =>
    match lookupNat objs e.idx with
    | some (num, _, v') => num == n && v' == v
    | none => false
  | some c =>
    match resolve whole c with
    | some (.objstm _ k toks) =>
      match toks[k * 2 + e.idx]? with
      | some t => t.toVal == v
      | none => false
    | _ => false

/-- Section `s` lists exactly the definitions of revision `r` among the numbers below `bound`. -/
def secOKb (whole : History) (objs : List (Nat × Nat × Nat × Val)) (bound : Nat) (s : Section) (r : Revision) : Bool :=
  (List.range bound).all (fun n =>
    match r.lookup n, s.getPos n with
    | none, none => true
    | some v, some e => entryOK whole objs n v e
    | _, _ => false)

/-- No section answers for a number `≥ bound`, no revision defines one. -/
def Section.below (s : Section) (bound : Nat) : Bool :=
  match s with
  | .table offs => offs.all (fun p => p.1 < (bound : Int))
  | .stream x => x.ranges.all (fun r => r.1 + r.2 ≤ bound)

def Revision.below (r : Revision) (bound : Nat) : Bool := r.defs.all (fun p => p.1 < bound)

def alignedOK (whole : History) (objs : List (Nat × Nat × Nat × Val)) (bound : Nat) :
    List Section → History → Bool
  | [], [] => true
  | s :: ss, r :: rs =>
    secOKb whole objs bound s r && s.below bound && r.below bound && alignedOK whole objs bound ss rs
  | _, _ => false

/-- The run-time form of the theorems' hypothesis: one revision per loaded section (a hybrid
revision is given as two: its table part, then its stream part), newest first. -/
def repOK (objs : List (Nat × Nat × Nat × Val)) (bound : Nat) (secs : List Section) (h : History) : Bool :=
  alignedOK h objs bound secs h

end PdfVerif.Xref
