/-
Executable specification of C16: what ISO 32000-1 (8.4 graphics state, 8.5 path construction and
painting, 8.6 colour operators) and the property text demand of the shapes reported for a content stream.

A program is a list of structured operations `SOp`; the specification keeps the current path as a
list of SUB-PATHS (start point, segments, closed flag) - it never sees a flat segment list, a regular
expression or an operand stack.  Each painted sub-path with at least one segment gives exactly one
shape, built by `shapeOf`.
-/
import PdfVerif.Model.Paths

set_option linter.constructorNameAsVariable false

namespace PdfVerif.PathSpec
open PdfVerif PdfVerif.Paths PdfVerif.Gen.PathsGen

/-- One segment of a sub-path; the last point is its end point. -/
inductive Seg where
  | l (p : Point)
  | c (p1 p2 p3 : Point)
  | v (p2 p3 : Point)
  | y (p1 p3 : Point)
deriving DecidableEq, Repr

namespace Seg
def endPt : Seg → Point | .l p => p | .c _ _ p => p | .v _ p => p | .y _ p => p
def isLine : Seg → Bool | .l _ => true | _ => false
def map (f : Point → Point) : Seg → Seg
  | .l p => .l (f p) | .c a b d => .c (f a) (f b) (f d) | .v a b => .v (f a) (f b) | .y a b => .y (f a) (f b)
def toPSeg : Seg → PSeg
  | .l p => .l p | .c a b d => .c a b d | .v a b => .v a b | .y a b => .y a b
end Seg

structure SubPath where
  start : Point
  segs : List Seg
  closed : Bool
  /-- book-keeping only (no function of the specification reads it): the sub-path was begun
  implicitly by a segment appended after `h`, not by `m`/`re`. -/
  implicit : Bool := false
deriving DecidableEq, Repr

/-- A colour space as far as the operators care: its family (`DeviceGray` … `ICCBased`, `DeviceN`,
`Pattern`) and its number of components (`sp.pattern` = the family is Pattern). -/
abbrev Space := CSpace

/-- ISO 32000-1 Table 74, operator CS: the initial colour of a colour space.  DeviceGray, DeviceRGB,
CalGray, CalRGB, Lab, ICCBased, Indexed: all components 0; DeviceCMYK: 0 0 0 1; Separation, DeviceN:
all tints 1; Pattern: a pattern that paints nothing (no colour).  No colour space has more than 32
components (ISO 32000-1 Annex C.2: at most 32 colorants in a DeviceN space; ICCBased has N = 1, 3, 4): for
a "space" with 0 or more than 32 components no initial colour exists. -/
def isoInit (sp : Space) : Option Colour :=
  if sp.n = 0 ∨ sp.n > 32 then none
  else match sp.name with
    | "Pattern" => none
    | "DeviceCMYK" => some (.comps [0, 0, 0, 1])
    | "Separation" => some (.comps (List.replicate sp.n 1))
    | "DeviceN" => some (.comps (List.replicate sp.n 1))
    | _ => some (.comps (List.replicate sp.n 0))

inductive SOp where
  | m (p : Point) | seg (s : Seg) | h | re (x y w h : Rat)
  | paint (name : OpK) (close stroke fill evenodd : Bool)      -- S s f F f* B B* b b*
  | n | clip (star : Bool)
  | w (r : Rat) | d (arr : List Rat) (phase : Rat)
  | noop1 (k : OpK) (o : Operand)                              -- J j M i ri gs
  | gray (stroking : Bool) (x : Rat)                           -- G / g
  | rgb (stroking : Bool) (r g b : Rat)                        -- RG / rg
  | cmyk (stroking : Bool) (c m y k : Rat)                     -- K / k
  | cs (stroking : Bool) (name : String)                       -- CS / cs
  | sc (k : OpK) (stroking : Bool) (xs : List Rat) (pat : Option String)   -- SC SCN sc scn
  | q | Q | cm (a b c d e f : Rat)
  /-- an operator that takes numbers, with the right NUMBER of operands of which at least one is not a
  number (a name, an array): it is ignored as a whole -/
  | bad (k : OpK) (args : List Operand)
deriving Repr

/-- The graphics state of ISO 32000-1 table 52 restricted to the parameters the property names. -/
structure SGState where
  ctm : Matrix
  linewidth : Rat
  dash : Option (List Rat × Rat)
  scolor : Option Colour
  ncolor : Option Colour
  sspace : Space
  nspace : Space
deriving Repr

structure SState where
  g : SGState
  stack : List SGState
  path : List SubPath           -- sub-paths of the current path, oldest first
  out : List Shape

/-- `closed axis-aligned quadrilateral`: the four sides alternate vertical / horizontal. -/
def axisAligned (p0 p1 p2 p3 : Point) : Bool :=
  decide ((p0.1 = p1.1 ∧ p1.2 = p2.2 ∧ p2.1 = p3.1 ∧ p3.2 = p0.2) ∨
          (p0.2 = p1.2 ∧ p1.1 = p2.1 ∧ p2.2 = p3.2 ∧ p3.1 = p0.1))

def hull : List Point → Option Rect
  | [] => none
  | p :: rest =>
    let xs := (p :: rest).map Prod.fst
    let ys := (p :: rest).map Prod.snd
    some (xs.foldl min p.1, ys.foldl min p.2, xs.foldl max p.1, ys.foldl max p.2)

/-- The transformed `original_path` of a sub-path. -/
def pathOf (f : Point → Point) (sp : SubPath) : List PSeg :=
  PSeg.m (f sp.start) :: sp.segs.map (fun s => (s.map f).toPSeg) ++ (if sp.closed then [PSeg.h] else [])

/-- Segments of a sub-path in device space after identifying an explicit final `l` back to the start
point of a closed sub-path with its closing segment. -/
def normSegs (s : Point) (closed : Bool) (segs : List Seg) : List Seg :=
  match segs.getLast? with
  | some (.l p) => if closed = true ∧ segs.length ≥ 2 ∧ p = s then segs.dropLast else segs
  | _ => segs

/-- Class and points of a sub-path in device space: start point `s`, normalised segments `ns`.
line = one straight segment; rectangle = closed axis-aligned quadrilateral; otherwise curve. -/
def kindPts (s : Point) (ns : List Seg) (closed : Bool) : Kind × List Point :=
  let ends := ns.map Seg.endPt
  match ns.all Seg.isLine, ends, closed with
  | true, [e], _ => (.line, [s, e])
  | true, [p1, p2, p3], true =>
    if axisAligned s p1 p2 p3 = true then (.rect, [s, p1, p2, p3]) else (.curve, [s, p1, p2, p3, s])
  | true, [p1, p2, p3, p4], false =>
    if p4 = s ∧ axisAligned s p1 p2 p3 = true then (.rect, [s, p1, p2, p3]) else (.curve, [s, p1, p2, p3, p4])
  | _, _, _ => (.curve, s :: ends ++ (if closed then [s] else []))

/-- The one shape of a painted sub-path with at least one segment (`none` when it has no segment). -/
def shapeOf (g : SGState) (stroke fill evenodd : Bool) (sp : SubPath) : Option Shape :=
  if sp.segs.isEmpty then none else
  let f := apply_matrix_pt g.ctm
  let s := f sp.start
  let kp := kindPts s (normSegs s sp.closed (sp.segs.map (Seg.map f))) sp.closed
  some { kind := kp.1, pts := kp.2, path := pathOf f sp, bbox := hull kp.2, linewidth := g.linewidth,
         stroke := stroke, fill := fill, evenodd := evenodd, scolor := g.scolor, ncolor := g.ncolor,
         dash := g.dash.map (fun d => (Operand.arr d.1, Operand.num d.2)) }

def closeLast : List SubPath → List SubPath
  | [] => []
  | [sp] => [{ sp with closed := true }]
  | sp :: rest => sp :: closeLast rest

/-- Append a segment: after `h` it begins a new sub-path at the start point of the closed one
(ISO 32000-1, 8.5.2.1, operator h). -/
def addSeg (s : Seg) : List SubPath → List SubPath
  | [] => []
  | [sp] => if sp.closed then [sp, { start := sp.start, segs := [s], closed := false, implicit := true }]
            else [{ sp with segs := sp.segs ++ [s] }]
  | sp :: rest => sp :: addSeg s rest

def setCol (g : SGState) (stroking : Bool) (c : Colour) : SGState :=
  if stroking then { g with scolor := some c } else { g with ncolor := some c }

def setSp (g : SGState) (stroking : Bool) (sp : Space) : SGState :=
  if stroking then { g with sspace := sp } else { g with nspace := sp }

/-- Colour spaces available to `cs`/`CS`: name -> space. -/
abbrev SpaceMap := List (String × Space)

def stepS (cs : SpaceMap) (st : SState) : SOp → SState
  | .m p => { st with path := st.path ++ [{ start := p, segs := [], closed := false }] }
  | .seg s => { st with path := addSeg s st.path }
  | .h => { st with path := closeLast st.path }
  | .re x y w h =>
    { st with path := st.path ++ [{ start := (x, y), closed := true,
                                    segs := [.l (x + w, y), .l (x + w, y + h), .l (x, y + h)] }] }
  | .paint _ close stroke fill evenodd =>
    let path := if close then closeLast st.path else st.path
    { st with out := st.out ++ path.filterMap (shapeOf st.g stroke fill evenodd), path := [] }
  | .n => { st with path := [] }
  | .clip _ => st
  | .w r => { st with g := { st.g with linewidth := r } }
  | .d arr phase => { st with g := { st.g with dash := some (arr, phase) } }
  | .noop1 _ _ => st
  | .gray stroking x => { st with g := setSp (setCol st.g stroking (.comps [x])) stroking ⟨"DeviceGray", 1⟩ }
  | .rgb stroking r g b => { st with g := setSp (setCol st.g stroking (.comps [r, g, b])) stroking ⟨"DeviceRGB", 3⟩ }
  | .cmyk stroking c m y k =>
    { st with g := setSp (setCol st.g stroking (.comps [c, m, y, k])) stroking ⟨"DeviceCMYK", 4⟩ }
  | .cs stroking name =>
    match cs.lookup name with
    | some sp =>      -- ISO 32000-1 8.6.8: cs/CS select the space AND its initial colour
      let g := setSp st.g stroking sp
      { st with g := if stroking then { g with scolor := isoInit sp } else { g with ncolor := isoInit sp } }
    | none => st
  | .sc _ stroking xs pat =>
    match pat with
    | some p =>
      -- a name is a pattern name in a Pattern space; elsewhere it is an operand that is not a number
      -- and the operator is ignored
      if (if stroking then st.g.sspace else st.g.nspace).pattern then
        { st with g := setCol st.g stroking (.pattern p xs) }
      else st
    | none => { st with g := setCol st.g stroking (.comps xs) }
  | .q => { st with stack := st.g :: st.stack }
  | .Q => match st.stack with
    | g :: rest => { st with g := g, stack := rest }
    | [] => st
  | .cm a b c d e f => { st with g := { st.g with ctm := mult_matrix (a, b, c, d, e, f) st.g.ctm } }
  | .bad _ _ => st

def runS (cs : SpaceMap) : List SOp → SState → SState
  | [], st => st
  | op :: rest, st => runS cs rest (stepS cs st op)

/-! ### Well-formed programs (the domain of the property) -/

/-- Is the operand list of `sc/scn/SC/SCN` the one the current colour space asks for? -/
def scOk (sp : Space) (k : OpK) (xs : List Rat) (pat : Option String) : Bool :=
  if sp.pattern then pat.isSome && (k == .scn || k == .SCN)
  else sp.n != 0 && ((pat.isNone && xs.length == sp.n) || (pat.isSome && xs.length + 1 == sp.n))

/-- Operand count of the operators whose operands are all numbers (`none`: not such an operator;
the `sc` family takes the count of the current colour space). -/
def numArity (stroke nonstroke : Space) : OpK → Option Nat
  | .m => some 2 | .l => some 2 | .c => some 6 | .v => some 4 | .y => some 4 | .re => some 4
  | .w => some 1 | .cm => some 6
  | .g => some 1 | .G => some 1 | .rg => some 3 | .RG => some 3 | .k => some 4 | .K => some 4
  | .sc => if nonstroke.pattern then none else some nonstroke.n
  | .scn => if nonstroke.pattern then none else some nonstroke.n
  | .SC => if stroke.pattern then none else some stroke.n
  | .SCN => if stroke.pattern then none else some stroke.n
  | _ => none

def badOk (st : SGState) (k : OpK) (args : List Operand) : Bool :=
  (args.mapM safeFloat).isNone && numArity st.sspace st.nspace k == some args.length

/-- ISO 32000-1 table 60: painting operator -> (close first, stroke, fill, even-odd rule). -/
def paintFlags : OpK → Option (Bool × Bool × Bool × Bool)
  | .S => some (false, true, false, false)
  | .s => some (true, true, false, false)
  | .f => some (false, false, true, false)
  | .F => some (false, false, true, false)
  | .fstar => some (false, false, true, true)
  | .B => some (false, true, true, false)
  | .Bstar => some (false, true, true, true)
  | .b => some (true, true, true, false)
  | .bstar => some (true, true, true, true)
  | _ => none

def paintOk (k : OpK) (close stroke fill evenodd : Bool) : Bool :=
  paintFlags k == some (close, stroke, fill, evenodd)

def noopOk (k : OpK) (o : Operand) : Bool :=
  match k, o with
  | .J, .num _ => true | .j, .num _ => true | .M, .num _ => true | .i, .num _ => true
  | .ri, .name _ => true | .gs, .name _ => true
  | _, _ => false

/-- Well-formedness of one operation in the state it is executed in. -/
def opOk (cs : SpaceMap) (st : SState) : SOp → Bool
  | .seg _ => !st.path.isEmpty
  | .h => !st.path.isEmpty
  | .paint k close stroke fill evenodd => paintOk k close stroke fill evenodd && (!close || !st.path.isEmpty)
  | .noop1 k o => noopOk k o
  | .cs _ name => (cs.lookup name).isSome
  | .bad k args => badOk st.g k args
  | .sc k stroking xs pat =>
    [OpK.sc, .scn, .SC, .SCN].contains k && (stroking == (k == .SC || k == .SCN)) &&
    scOk (if stroking then st.g.sspace else st.g.nspace) k xs pat
  | _ => true

def wf (cs : SpaceMap) : List SOp → SState → Bool
  | [], _ => true
  | op :: rest, st => opOk cs st op && wf cs rest (stepS cs st op)

/-- The space map of a page: the predefined colour spaces overlaid with the page's resources
(resource name -> family and number of components; this is `init_resources`, shared with the model). -/
def initSpaces (res : List (String × CsSpec)) : SpaceMap := initCsmap res

def initS (ctm : Matrix) : SState :=
  { g := { ctm := ctm, linewidth := 0, dash := none, scolor := none, ncolor := none,
           sspace := ⟨"DeviceGray", 1⟩, nspace := ⟨"DeviceGray", 1⟩ },
    stack := [], path := [], out := [] }

/-- The shapes the property demands for one page. -/
def specPage (rotate : Int) (mb : Rect) (res : List (String × CsSpec)) (prog : List SOp) : List Shape :=
  let (x0, y0, x1, y1) := mb
  (runS (initSpaces res) prog (initS (pageCtm rotate x0 y0 x1 y1))).out

def specWf (rotate : Int) (mb : Rect) (res : List (String × CsSpec)) (prog : List SOp) : Bool :=
  let (x0, y0, x1, y1) := mb
  wf (initSpaces res) prog (initS (pageCtm rotate x0 y0 x1 y1))

/-! ### From structured operations to the token stream of the content stream -/

def nums (xs : List Rat) : List Tok := xs.map (fun r => Tok.operand (.num r))

def segToks : Seg → List Tok
  | .l p => nums [p.1, p.2] ++ [.op .l]
  | .c a b d => nums [a.1, a.2, b.1, b.2, d.1, d.2] ++ [.op .c]
  | .v a b => nums [a.1, a.2, b.1, b.2] ++ [.op .v]
  | .y a b => nums [a.1, a.2, b.1, b.2] ++ [.op .y]

def tokens : SOp → List Tok
  | .m p => nums [p.1, p.2] ++ [.op .m]
  | .seg s => segToks s
  | .h => [.op .h]
  | .re x y w h => nums [x, y, w, h] ++ [.op .re]
  | .paint k _ _ _ _ => [.op k]
  | .n => [.op .n]
  | .clip star => [.op (if star then .Wstar else .W)]
  | .w r => nums [r] ++ [.op .w]
  | .d arr phase => [.operand (.arr arr), .operand (.num phase), .op .d]
  | .noop1 k o => [.operand o, .op k]
  | .gray stroking x => nums [x] ++ [.op (if stroking then .G else .g)]
  | .rgb stroking r g b => nums [r, g, b] ++ [.op (if stroking then .RG else .rg)]
  | .cmyk stroking c m y k => nums [c, m, y, k] ++ [.op (if stroking then .K else .k)]
  | .cs stroking name => [.operand (.name name), .op (if stroking then .CS else .cs)]
  | .sc k _ xs pat => nums xs ++ (match pat with | some p => [.operand (.name p)] | none => []) ++ [.op k]
  | .q => [.op .q]
  | .Q => [.op .Q]
  | .cm a b c d e f => nums [a, b, c, d, e, f] ++ [.op .cm]
  | .bad k args => args.map Tok.operand ++ [.op k]

def progTokens (prog : List SOp) : List Tok := prog.flatMap tokens

/-- Inverse direction used by the driver: group a token stream into structured operations
(`none` when some operator does not have exactly the operands ISO 32000 gives it). -/
def parseOp (k : OpK) (args : List Operand) : Option SOp :=
  match k, args with
  | .m, [.num x, .num y] => some (.m (x, y))
  | .l, [.num x, .num y] => some (.seg (.l (x, y)))
  | .c, [.num a, .num b, .num c, .num d, .num e, .num f] => some (.seg (.c (a, b) (c, d) (e, f)))
  | .v, [.num a, .num b, .num c, .num d] => some (.seg (.v (a, b) (c, d)))
  | .y, [.num a, .num b, .num c, .num d] => some (.seg (.y (a, b) (c, d)))
  | .h, [] => some .h
  | .re, [.num x, .num y, .num w, .num h] => some (.re x y w h)
  | .S, [] | .s, [] | .f, [] | .F, [] | .fstar, [] | .B, [] | .Bstar, [] | .b, [] | .bstar, [] =>
    match paintFlags k with
    | some (c, s, f, e) => some (.paint k c s f e)
    | none => none
  | .n, [] => some .n
  | .W, [] => some (.clip false)
  | .Wstar, [] => some (.clip true)
  | .w, [.num r] => some (.w r)
  | .d, [.arr xs, .num p] => some (.d xs p)
  | .J, [o] | .j, [o] | .M, [o] | .i, [o] | .ri, [o] | .gs, [o] => some (.noop1 k o)
  | .g, [.num x] => some (.gray false x)
  | .G, [.num x] => some (.gray true x)
  | .rg, [.num r, .num g, .num b] => some (.rgb false r g b)
  | .RG, [.num r, .num g, .num b] => some (.rgb true r g b)
  | .k, [.num c, .num m, .num y, .num k] => some (.cmyk false c m y k)
  | .K, [.num c, .num m, .num y, .num k] => some (.cmyk true c m y k)
  | .cs, [.name s] => some (.cs false s)
  | .CS, [.name s] => some (.cs true s)
  | .sc, args | .scn, args | .SC, args | .SCN, args =>
    let stroking := k == .SC || k == .SCN
    match args.getLast? with
    | some (.name p) =>
      match args.dropLast.mapM safeFloat with
      | some xs => some (.sc k stroking xs (some p))
      | none => some (.bad k args)
    | _ =>
      match args.mapM safeFloat with
      | some xs => some (.sc k stroking xs none)
      | none => some (.bad k args)
  | .q, [] => some .q
  | .Q, [] => some .Q
  | .cm, [.num a, .num b, .num c, .num d, .num e, .num f] => some (.cm a b c d e f)
  | k, args => if (args.mapM safeFloat).isNone then some (.bad k args) else none

def parseProg (acc : List Operand) : List Tok → Option (List SOp)
  | [] => if acc.isEmpty then some [] else none
  | .operand o :: rest => parseProg (acc ++ [o]) rest
  | .op k :: rest =>
    match parseOp k acc, parseProg [] rest with
    | some op, some ops => some (op :: ops)
    | _, _ => none

end PdfVerif.PathSpec
