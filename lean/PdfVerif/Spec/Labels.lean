/-
C17 — executable specification of page labels (ISO 32000-1 12.4.2, Table 159), number trees
(7.9.7) and text strings (7.9.2.2, Annex D.2).  Written as directly as possible; nothing here is
derived from pdfminer.  Import-free apart from the shared model types.
-/
import PdfVerif.Model.Labels

namespace PdfVerif.Spec.Labels
open PdfVerif PdfVerif.Labels

/-! ### Text strings -/

/-- PDFDocEncoding, ISO 32000-1 Table D.2, by ranges.  `none` = code not defined.
(0x16 ↦ U+0017 is what the table of the 2008 edition prints.) -/
def pdfDoc (c : Nat) : Option Nat :=
  if c = 0x16 then some 0x17
  else if 0x18 ≤ c ∧ c ≤ 0x1F then
    [0x02D8, 0x02C7, 0x02C6, 0x02D9, 0x02DD, 0x02DB, 0x02DA, 0x02DC][c - 0x18]?
  else if c = 0x7F ∨ c = 0x9F ∨ c = 0xAD then none
  else if 0x80 ≤ c ∧ c ≤ 0x9E then
    [0x2022, 0x2020, 0x2021, 0x2026, 0x2014, 0x2013, 0x0192, 0x2044, 0x2039, 0x203A, 0x2212,
     0x2030, 0x201E, 0x201C, 0x201D, 0x2018, 0x2019, 0x201A, 0x2122, 0xFB01, 0xFB02, 0x0141,
     0x0152, 0x0160, 0x0178, 0x017D, 0x0131, 0x0142, 0x0153, 0x0161, 0x017E][c - 0x80]?
  else if c = 0xA0 then some 0x20AC
  else if c < 256 then some c
  else none

/-- RFC 2781: the scalar value of a surrogate pair. -/
def surrogatePair (hi lo : Nat) : Nat := 0x10000 + (hi - 0xD800) * 0x400 + (lo - 0xDC00)

/-- UTF-16 (RFC 2781) on well-formed unit sequences (state: the pending high surrogate);
`none` on an unpaired surrogate. -/
def utf16Aux : Option Nat → List Nat → Option Text
  | none, [] => some []
  | some _, [] => none
  | none, u :: rest =>
    if isHigh u then utf16Aux (some u) rest
    else if isLow u then none
    else (utf16Aux none rest).map (fun t => u :: t)
  | some h, v :: rest =>
    if isLow v then (utf16Aux none rest).map (fun t => surrogatePair h v :: t)
    else none

def utf16 (us : List Nat) : Option Text := utf16Aux none us

def unitsExact : Bytes → Option (List Nat)
  | [] => some []
  | [_] => none
  | a :: b :: rest => (unitsExact rest).map (fun t => (a.toNat * 256 + b.toNat) :: t)

/-- A text string: UTF-16BE when it starts with the byte-order mark U+FEFF, PDFDocEncoding
otherwise.  `none` = outside the domain (malformed UTF-16, undefined code). -/
def text (s : Bytes) : Option Text :=
  if hasBOM s then (unitsExact (s.drop 2)).bind utf16
  else s.mapM (fun c => pdfDoc c.toNat)

/-! ### Numerals -/

def romanTable : List (Nat × Text) :=
  [(1000, [109]), (900, [99, 109]), (500, [100]), (400, [99, 100]), (100, [99]), (90, [120, 99]),
   (50, [108]), (40, [120, 108]), (10, [120]), (9, [105, 120]), (5, [118]), (4, [105, 118]), (1, [105])]

/-- Greedy subtractive notation: each symbol as often as it fits, largest first. -/
def romanAux : List (Nat × Text) → Nat → Text
  | [], _ => []
  | (v, s) :: rest, n => (List.replicate (n / v) s).flatten ++ romanAux rest (n % v)

/-- Bound of the domain: thousands are repeated `m`, so a label grows with the value; numerals are
demanded for values below one million (at most 1000 `m`). -/
def romanMax : Nat := 1000000

/-- Lowercase roman numeral of every `0 < n < romanMax` (greedy: from 4000 on the thousands are
repeated `m`, there being no numeral above it). -/
def roman (n : Nat) : Option Text :=
  if 0 < n ∧ n < romanMax then some (romanAux romanTable n) else none

/-- Value of a numeral in subtractive notation (for the sanity theorem `roman_value`). -/
def romanDigitValue (c : Nat) : Nat :=
  if c = 105 then 1 else if c = 118 then 5 else if c = 120 then 10 else if c = 108 then 50
  else if c = 99 then 100 else if c = 100 then 500 else if c = 109 then 1000 else 0

/-- (value, value of the first symbol): a symbol smaller than its successor is subtracted. -/
def romanValueAux : Text → Int × Nat
  | [] => (0, 0)
  | c :: tl =>
    let r := romanValueAux tl
    let x := romanDigitValue c
    (if x < r.2 then r.1 - (x : Int) else r.1 + (x : Int), x)

def romanValue (t : Text) : Int := (romanValueAux t).1

/-- Table 159, styles A/a: "a to z for the first 26 pages, aa to zz for the next 26, and so on". -/
def alpha (n : Nat) : Option Text :=
  if 0 < n then some (List.replicate ((n - 1) / 26 + 1) (97 + (n - 1) % 26)) else none

def numeral (style : Option Bytes) (v : Int) : Option Text :=
  match style with
  | none => some []
  | some s =>
    if s = styleD then some (decimal v)
    else if s = styleR then (roman v.toNat).map upper
    else if s = styler then roman v.toNat
    else if s = styleA then (if 0 < v then alpha v.toNat else none).map upper
    else if s = stylea then (if 0 < v then alpha v.toNat else none)
    else none

/-! ### Number trees and label ranges -/

mutual
/-- In-order flattening of a number tree (7.9.7). -/
def flatten {α : Type} : NumTree α → List (Int × α)
  | .node nums kids => nums ++ flattenList kids
def flattenList {α : Type} : List (NumTree α) → List (Int × α)
  | [] => []
  | t :: ts => flatten t ++ flattenList ts
end

mutual
/-- No node carries both `Nums` and `Kids`. -/
def shapeOk {α : Type} : NumTree α → Bool
  | .node nums kids => (nums.isEmpty || kids.isEmpty) && shapeOkList kids
def shapeOkList {α : Type} : List (NumTree α) → Bool
  | [] => true
  | t :: ts => shapeOk t && shapeOkList ts
end

def ascendingFrom (a : Int) : List Int → Bool
  | [] => true
  | b :: tl => decide (a < b) && ascendingFrom b tl

def ascending : List Int → Bool
  | [] => true
  | a :: tl => ascendingFrom a tl

/-- The range containing page index `i`: the last one that starts at or before `i`. -/
def rangeOf {α : Type} (ranges : List (Int × α)) (i : Int) : Option (Int × α) :=
  (ranges.filter (fun r => decide (r.1 ≤ i))).getLast?

/-- Label of page index `i`: prefix ++ numeral(style, St + (i − start)). -/
def label (ranges : List (Int × LabelDict)) (i : Nat) : Option Text := do
  let (start, d) ← rangeOf ranges (i : Int)
  let pre ← text (d.pfx.getD [])
  let num ← numeral d.style (d.st.getD 1 + ((i : Int) - start))
  pure (pre ++ num)

/-- Conforming page-label trees: keys ascending, first key 0, `St ≥ 1`. -/
def domain (t : NumTree LabelDict) : Bool :=
  let flat := flatten t
  shapeOk t && ascending (flat.map (·.1)) && (flat.head?.map (·.1) == some 0)
    && flat.all (fun r => decide (1 ≤ r.2.st.getD 1))

def labels (t : NumTree LabelDict) (n : Nat) : Option (List Text) :=
  if domain t then (List.range n).mapM (label (flatten t)) else none

end PdfVerif.Spec.Labels
