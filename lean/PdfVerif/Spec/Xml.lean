/-
C11 — executable specification side:

* a minimal XML 1.0 reader (`parseXML`): XML declaration / processing instruction, start tags with
  double-quoted attributes, empty-element tags, end tags, character data; the five predefined entities
  and decimal / hexadecimal character references; every literal or referenced character must be an
  XML 1.0 `Char`; attribute-value normalisation (literal TAB/LF/CR → space) and end-of-line handling
  (literal CR → LF) as a conforming reader performs them; tag nesting must balance with matching names.
  Not supported (the converters never write them): comments, CDATA sections, DOCTYPE, single-quoted
  attribute values, namespaces.
* the skeleton of a layout hierarchy (`docSkeleton`): the element tree the XML output has to be —
  element names, attributes (bbox, font, size, names — unescaped), character data, nesting.
* `specText`: the plain-text output demanded by the property.
-/
import PdfVerif.Model.Convert

namespace PdfVerif.Xml
open PdfVerif.Convert

/-! ### reader -/

/-- XML 1.0 production [2] Char -/
def isXmlChar (c : Char) : Bool :=
  let n := c.toNat
  n = 9 || n = 10 || n = 13 || (32 ≤ n && n ≤ 0xD7FF) || (0xE000 ≤ n && n ≤ 0xFFFD) || (0x10000 ≤ n && n ≤ 0x10FFFF)

def isNameChar (c : Char) : Bool :=
  ('a' ≤ c && c ≤ 'z') || ('A' ≤ c && c ≤ 'Z') || ('0' ≤ c && c ≤ '9') || c = '_' || c = '-' || c = '.' || c = ':'

def isSpace (c : Char) : Bool := c = ' ' || c = '\t' || c = '\n' || c = '\r'

inductive Tag where
  | decl (body : Str)                                                   -- `<?body?>`
  | stag (name : Str) (attrs : List (Str × Str)) (sp : Bool) (selfClose : Bool)
  | etag (name : Str)
deriving DecidableEq, Repr

/-- a tag together with the character data that follows it (up to the next `<`) -/
structure Tok where
  tag : Tag
  tail : Str
deriving DecidableEq, Repr

inductive LexSt where
  | start                                              -- document start / after a tail: expect `<`
  | lt                                                 -- after `<`
  | pi (acc : Str) (q : Bool)                          -- inside `<? … ?>`, q: previous char was `?`
  | ename (acc : Str)                                  -- `</name`
  | sname (acc : Str)                                  -- `<name`
  | inTag (name : Str) (attrs : List (Str × Str)) (sp : Bool)
  | slash (name : Str) (attrs : List (Str × Str)) (sp : Bool)      -- after `/` inside a tag
  | aname (name : Str) (attrs : List (Str × Str)) (acc : Str)
  | aeq (name : Str) (attrs : List (Str × Str)) (an : Str)          -- after `=`
  | aval (name : Str) (attrs : List (Str × Str)) (an : Str) (acc : Str)
  | tail (tag : Tag) (acc : Str)                       -- character data after a tag

/-- Raw tokens: attribute values and character data still escaped. -/
def lexGo : LexSt → Str → Option (List Tok)
  | .start, [] => some []
  | .start, c :: cs => if c = '<' then lexGo .lt cs else none
  | .lt, [] => none
  | .lt, c :: cs =>
      if c = '?' then lexGo (.pi [] false) cs
      else if c = '/' then lexGo (.ename []) cs
      else if isNameChar c then lexGo (.sname [c]) cs
      else none
  | .pi _ _, [] => none
  | .pi acc q, c :: cs =>
      if c = '>' && q then lexGo (.tail (.decl acc) []) cs
      else if c = '?' then lexGo (.pi (if q then acc ++ ['?'] else acc) true) cs
      else lexGo (.pi ((if q then acc ++ ['?'] else acc) ++ [c]) false) cs
  | .ename _, [] => none
  | .ename acc, c :: cs =>
      if c = '>' then (if acc = [] then none else lexGo (.tail (.etag acc) []) cs)
      else if isNameChar c then lexGo (.ename (acc ++ [c])) cs
      else none
  | .sname _, [] => none
  | .sname acc, c :: cs =>
      if isNameChar c then lexGo (.sname (acc ++ [c])) cs
      else if c = '>' then lexGo (.tail (.stag acc [] false false) []) cs
      else if c = '/' then lexGo (.slash acc [] false) cs
      else if isSpace c then lexGo (.inTag acc [] true) cs
      else none
  | .inTag _ _ _, [] => none
  | .inTag n as sp, c :: cs =>
      if isSpace c then lexGo (.inTag n as true) cs
      else if c = '>' then lexGo (.tail (.stag n as sp false) []) cs
      else if c = '/' then lexGo (.slash n as sp) cs
      else if isNameChar c then (if sp then lexGo (.aname n as [c]) cs else none)
      else none
  | .slash _ _ _, [] => none
  | .slash n as sp, c :: cs => if c = '>' then lexGo (.tail (.stag n as sp true) []) cs else none
  | .aname _ _ _, [] => none
  | .aname n as acc, c :: cs =>
      if c = '=' then lexGo (.aeq n as acc) cs
      else if isNameChar c then lexGo (.aname n as (acc ++ [c])) cs
      else none
  | .aeq _ _ _, [] => none
  | .aeq n as an, c :: cs => if c = '"' then lexGo (.aval n as an []) cs else none
  | .aval _ _ _ _, [] => none
  | .aval n as an acc, c :: cs =>
      if c = '"' then lexGo (.inTag n (as ++ [(an, acc)]) false) cs
      else if c = '<' then none
      else lexGo (.aval n as an (acc ++ [c])) cs
  | .tail t acc, [] => some [⟨t, acc⟩]
  | .tail t acc, c :: cs =>
      if c = '<' then (match lexGo .lt cs with | some r => some (⟨t, acc⟩ :: r) | none => none)
      else lexGo (.tail t (acc ++ [c])) cs

def lexRaw (s : Str) : Option (List Tok) := lexGo .start s

def hexDigitVal (c : Char) : Option Nat :=
  if '0' ≤ c ∧ c ≤ '9' then some (c.toNat - 48)
  else if 'a' ≤ c ∧ c ≤ 'f' then some (c.toNat - 87)
  else if 'A' ≤ c ∧ c ≤ 'F' then some (c.toNat - 55)
  else none

def decDigitVal (c : Char) : Option Nat :=
  if '0' ≤ c ∧ c ≤ '9' then some (c.toNat - 48) else none

def parseNum (base : Nat) (digit : Char → Option Nat) : Nat → Str → Option Nat
  | acc, [] => some acc
  | acc, c :: cs => match digit c with
    | some d => parseNum base digit (acc * base + d) cs
    | none => none

def charOfRef (n : Nat) : Option Char :=
  let c := Char.ofNat n
  if c.toNat = n && isXmlChar c then some c else none

/-- the text between `&` and `;` -/
def decodeEntity : Str → Option Char
  | ['a', 'm', 'p'] => some '&'
  | ['l', 't'] => some '<'
  | ['g', 't'] => some '>'
  | ['q', 'u', 'o', 't'] => some '"'
  | ['a', 'p', 'o', 's'] => some '\''
  | '#' :: 'x' :: d :: ds => (parseNum 16 hexDigitVal 0 (d :: ds)).bind charOfRef
  | '#' :: d :: ds => (parseNum 10 decDigitVal 0 (d :: ds)).bind charOfRef
  | _ => none

/-- Literal characters after normalisation: in attribute values TAB/LF/CR become a space
(XML 1.0 §3.3.3), in character data CR becomes LF (§2.11; a CR LF pair would become one LF — the
converters never write a literal CR, see `writeText`). -/
def normLiteral (isAttr : Bool) (c : Char) : Char :=
  if isAttr then (if c = '\t' || c = '\n' || c = '\r' then ' ' else c)
  else (if c = '\r' then '\n' else c)

/-- Replace references, check every character; `none` = not well-formed. -/
def unescGo (isAttr : Bool) : Option Str → Str → Option Str
  | none, [] => some []
  | some _, [] => none
  | none, c :: cs =>
      if c = '&' then unescGo isAttr (some []) cs
      else if c = '<' || !isXmlChar c then none
      else (unescGo isAttr none cs).map (normLiteral isAttr c :: ·)
  | some acc, c :: cs =>
      if c = ';' then (decodeEntity acc).bind (fun ch => (unescGo isAttr none cs).map (ch :: ·))
      else unescGo isAttr (some (acc ++ [c])) cs

def unescape (isAttr : Bool) (s : Str) : Option Str := unescGo isAttr none s

/-- References replaced and NOTHING else: no `Char` check, no normalisation.  The inverse the escaping layer
alone has for EVERY string (also strings an XML 1.0 document cannot carry: C0 controls, U+FFFE/U+FFFF). -/
def unescAnyGo : Option Str → Str → Option Str
  | none, [] => some []
  | some _, [] => none
  | none, c :: cs =>
      if c = '&' then unescAnyGo (some []) cs else (unescAnyGo none cs).map (c :: ·)
  | some acc, c :: cs =>
      if c = ';' then (decodeEntity acc).bind (fun ch => (unescAnyGo none cs).map (ch :: ·))
      else unescAnyGo (some (acc ++ [c])) cs

def unescAny (s : Str) : Option Str := unescAnyGo none s

def unescAttrs : List (Str × Str) → Option (List (Str × Str))
  | [] => some []
  | (k, v) :: rest =>
    match unescape true v, unescAttrs rest with
    | some v', some r => some ((k, v') :: r)
    | _, _ => none

def unescTag : Tag → Option Tag
  | .decl b => some (.decl b)
  | .stag n as sp sc => (unescAttrs as).map (fun as' => .stag n as' sp sc)
  | .etag n => some (.etag n)

def unescTok (t : Tok) : Option Tok :=
  match unescTag t.tag, unescape false t.tail with
  | some tg, some tl => some ⟨tg, tl⟩
  | _, _ => none

def unescToks : List Tok → Option (List Tok)
  | [] => some []
  | t :: ts =>
    match unescTok t, unescToks ts with
    | some t', some r => some (t' :: r)
    | _, _ => none

inductive Node where
  | elem (name : Str) (attrs : List (Str × Str)) (kids : List Node)
  | text (s : Str)
deriving Repr

structure Frame where
  name : Str
  attrs : List (Str × Str)
  kids : List Node

def pushNodes (ns : List Node) : List Frame → Option (List Frame)
  | [] => none
  | f :: fs => some ({ f with kids := f.kids ++ ns } :: fs)

def textNodes (s : Str) : List Node := if s = [] then [] else [.text s]

/-- Tree construction; the bottom frame collects the top-level nodes. -/
def build : List Tok → List Frame → Option (List Node)
  | [], [root] => some root.kids
  | [], _ => none
  | ⟨tag, tail⟩ :: rest, stk =>
    match tag with
    | .decl _ => (pushNodes (textNodes tail) stk).bind (build rest)
    | .stag n a _ true => (pushNodes (Node.elem n a [] :: textNodes tail) stk).bind (build rest)
    | .stag n a _ false => (pushNodes (textNodes tail) (⟨n, a, []⟩ :: stk)).bind (build rest)
    | .etag n =>
      match stk with
      | f :: g :: fs =>
        if f.name = n then (pushNodes (Node.elem f.name f.attrs f.kids :: textNodes tail) (g :: fs)).bind (build rest)
        else none
      | _ => none

/-- Top-level content of the document entity. -/
def parseNodes (s : Str) : Option (List Node) :=
  match lexRaw s with
  | some raw => match unescToks raw with
    | some toks => build toks [⟨[], [], []⟩]
    | none => none
  | none => none

def isWsNode : Node → Bool
  | .text s => s.all isSpace
  | .elem _ _ _ => false

def isElem : Node → Bool
  | .elem _ _ _ => true
  | .text _ => false

/-- A well-formed document has exactly one root element, surrounded by white space only. -/
def parseXML (s : Str) : Option Node :=
  match parseNodes s with
  | some ns =>
    match ns.filter isElem with
    | [root] => if (ns.filter (fun n => !isElem n)).all isWsNode then some root else none
    | _ => none
  | none => none

/-! ### skeleton of a layout hierarchy: the element tree the property demands -/

def nl : Node := .text ['\n']

mutual
def itemNodes (strip : Bool) : Item → List Node
  | .char f b cs nc sz text =>
      [.elem ['t','e','x','t']
         [(['f','o','n','t'], maybeStrip strip f), (['b','b','o','x'], b),
          (['c','o','l','o','u','r','s','p','a','c','e'], cs), (['n','c','o','l','o','u','r'], nc),
          (['s','i','z','e'], sz)]
         (textNodes (maybeStrip strip text)), nl]
  | .anno text => [.elem ['t','e','x','t'] [] (textNodes text), nl]
  | .line lw b => [.elem ['l','i','n','e'] [(['l','i','n','e','w','i','d','t','h'], lw), (['b','b','o','x'], b)] [], nl]
  | .rect lw b => [.elem ['r','e','c','t'] [(['l','i','n','e','w','i','d','t','h'], lw), (['b','b','o','x'], b)] [], nl]
  | .curve lw b pts =>
      [.elem ['c','u','r','v','e'] [(['l','i','n','e','w','i','d','t','h'], lw), (['b','b','o','x'], b), (['p','t','s'], pts)] [], nl]
  | .image w h src =>
      [.elem ['i','m','a','g','e']
         ((match src with | some n => [(['s','r','c'], maybeStrip strip n)] | none => []) ++
          [(['w','i','d','t','h'], w), (['h','e','i','g','h','t'], h)]) [], nl]
  | .figure n b kids =>
      [.elem ['f','i','g','u','r','e'] [(['n','a','m','e'], maybeStrip strip n), (['b','b','o','x'], b)]
         (nl :: itemNodesL strip kids), nl]
  | .textline b kids => [.elem ['t','e','x','t','l','i','n','e'] [(['b','b','o','x'], b)] (nl :: itemNodesL strip kids), nl]
  | .textbox i b v kids =>
      [.elem ['t','e','x','t','b','o','x']
         ([(['i','d'], i), (['b','b','o','x'], b)] ++ (if v then [(['w','m','o','d','e'], ['v','e','r','t','i','c','a','l'])] else []))
         (nl :: itemNodesL strip kids), nl]
def itemNodesL (strip : Bool) : List Item → List Node
  | [] => []
  | i :: is => itemNodes strip i ++ itemNodesL strip is
end

mutual
def groupNodes : Group → List Node
  | .box i b => [.elem ['t','e','x','t','b','o','x'] [(['i','d'], i), (['b','b','o','x'], b)] [], nl]
  | .group b kids => [.elem ['t','e','x','t','g','r','o','u','p'] [(['b','b','o','x'], b)] (nl :: groupNodesL kids), nl]
def groupNodesL : List Group → List Node
  | [] => []
  | g :: gs => groupNodes g ++ groupNodesL gs
end

def layoutNodes : Option (List Group) → List Node
  | none => []
  | some gs => [.elem ['l','a','y','o','u','t'] [] (nl :: groupNodesL gs), nl]

def pageNodes (strip : Bool) (p : Page) : List Node :=
  [.elem ['p','a','g','e'] [(['i','d'], p.pageid), (['b','b','o','x'], p.bbox), (['r','o','t','a','t','e'], p.rotate)]
     (nl :: (itemNodesL strip p.kids ++ layoutNodes p.groups)), nl]

def docSkeleton (strip : Bool) (ps : List Page) : Node :=
  .elem ['p','a','g','e','s'] [] (nl :: ps.flatMap (pageNodes strip))

/-! ### the tree after `CONTROL.sub` on the strings `XMLConverter` strips (font name, glyph text, figure name,
exported image name); the identity without strip_control -/

mutual
def stripItem (strip : Bool) : Item → Item
  | .char f b cs nc sz t => .char (maybeStrip strip f) b cs nc sz (maybeStrip strip t)
  | .anno t => .anno t
  | .line lw b => .line lw b
  | .rect lw b => .rect lw b
  | .curve lw b pts => .curve lw b pts
  | .image w h src => .image w h (src.map (maybeStrip strip))
  | .figure n b kids => .figure (maybeStrip strip n) b (stripItemL strip kids)
  | .textline b kids => .textline b (stripItemL strip kids)
  | .textbox i b v kids => .textbox i b v (stripItemL strip kids)
def stripItemL (strip : Bool) : List Item → List Item
  | [] => []
  | i :: is => stripItem strip i :: stripItemL strip is
end

def stripPage (strip : Bool) (p : Page) : Page := { p with kids := stripItemL strip p.kids }

/-! ### plain text demanded by the property -/

mutual
def specTextItem : Item → Str
  | .char _ _ _ _ _ text => text
  | .anno text => text
  | .line _ _ => []
  | .rect _ _ => []
  | .curve _ _ _ => []
  | .image _ _ _ => []
  | .figure _ _ kids => specTextL kids
  | .textline _ kids => specTextL kids
  | .textbox _ _ _ kids => specTextL kids ++ ['\n']        -- one line break after each text box
def specTextL : List Item → Str
  | [] => []
  | i :: is => specTextItem i ++ specTextL is
end

/-- in-order text of the page, one form feed after it -/
def specTextPage (p : Page) : Str := specTextL p.kids ++ ['\x0c']

def specText (ps : List Page) : Str := ps.flatMap specTextPage

/-- the page header a converter constructed with `showpageno` puts before the text of a page -/
def specPageHeader (showpageno : Bool) (p : Page) : Str :=
  if showpageno then ['P', 'a', 'g', 'e', ' '] ++ p.pageid ++ ['\n'] else []

/-- plain text demanded for every `showpageno` choice: per page the optional header, the in-order text, a form feed -/
def specTextPn (showpageno : Bool) (ps : List Page) : Str :=
  ps.flatMap (fun p => specPageHeader showpageno p ++ specTextPage p)

/-! ### raw glyph mode (`laparams=None`): no layout analysis, hence no text boxes -/

mutual
/-- no `LTTextBox` anywhere below (what `laparams=None` produces: glyphs directly under pages / figures) -/
def noBox : Item → Bool
  | .textbox _ _ _ _ => false
  | .figure _ _ kids => noBoxL kids
  | .textline _ kids => noBoxL kids
  | _ => true
def noBoxL : List Item → Bool
  | [] => true
  | i :: is => noBox i && noBoxL is
end

mutual
/-- the glyph (and LTAnno) texts in order, nothing else -/
def glyphText : Item → Str
  | .char _ _ _ _ _ text => text
  | .anno text => text
  | .figure _ _ kids => glyphTextL kids
  | .textline _ kids => glyphTextL kids
  | .textbox _ _ _ kids => glyphTextL kids
  | _ => []
def glyphTextL : List Item → Str
  | [] => []
  | i :: is => glyphText i ++ glyphTextL is
end

end PdfVerif.Xml
