/-
Executable specification: a standard reader for uncompressed Windows BMP files with a
BITMAPINFOHEADER (1, 8 or 24 bits per pixel, bottom-up rows padded to 4 bytes, pixels B,G,R,
colour table entries B,G,R,0), and the meaning of PDF image samples as RGB triples.
Python twin: tools/harness/imglib.py `read_bmp`, `expected_rgb` (compared on every generated file).
-/
import PdfVerif.Model.Prelude

namespace PdfVerif.Bmp
open PdfVerif

def rd16 (a b : UInt8) : Nat := a.toNat + 256 * b.toNat
def rd32 (a b c d : UInt8) : Nat := a.toNat + 256 * b.toNat + 65536 * c.toNat + 16777216 * d.toNat

structure Header where
  magicOk : Bool
  fsize : Nat
  off : Nat
  isize : Nat
  w : Nat
  h : Nat
  planes : Nat
  bpp : Nat
  comp : Nat
  ncols : Nat
  deriving Repr

/-- The fixed 54 bytes; returns the header fields and the bytes that follow. -/
def parseHeader : Bytes → Option (Header × Bytes)
  | m0 :: m1 :: s0 :: s1 :: s2 :: s3 :: _ :: _ :: _ :: _ :: o0 :: o1 :: o2 :: o3 ::
    i0 :: i1 :: i2 :: i3 :: w0 :: w1 :: w2 :: w3 :: h0 :: h1 :: h2 :: h3 :: p0 :: p1 :: b0 :: b1 ::
    c0 :: c1 :: c2 :: c3 :: _ :: _ :: _ :: _ :: _ :: _ :: _ :: _ :: _ :: _ :: _ :: _ ::
    n0 :: n1 :: n2 :: n3 :: _ :: _ :: _ :: _ :: rest =>
    some ({ magicOk := m0 == 66 && m1 == 77, fsize := rd32 s0 s1 s2 s3, off := rd32 o0 o1 o2 o3,
            isize := rd32 i0 i1 i2 i3, w := rd32 w0 w1 w2 w3, h := rd32 h0 h1 h2 h3,
            planes := rd16 p0 p1, bpp := rd16 b0 b1, comp := rd32 c0 c1 c2 c3,
            ncols := rd32 n0 n1 n2 n3 }, rest)
  | _ => none

def align4 (x : Nat) : Nat := (x + 3) / 4 * 4

/-- Colour table lookup: entry `i` is stored B,G,R,0; returned R,G,B. -/
def palRGB (pal : Bytes) (i : Nat) : Bytes :=
  [pal.getD (4 * i + 2) 0, pal.getD (4 * i + 1) 0, pal.getD (4 * i) 0]

/-- `n` 24-bit pixels (stored B,G,R) as R,G,B. -/
def decode24 : Nat → Bytes → Option Bytes
  | 0, _ => some []
  | n + 1, b :: g :: r :: rest => (decode24 n rest).map (fun t => r :: g :: b :: t)
  | _ + 1, _ => none

/-- `n` palette indices → R,G,B; an index outside the colour table is an error. -/
def decodeIdx (pal : Bytes) (npal : Nat) : List Nat → Option Bytes
  | [] => some []
  | i :: rest => if i < npal then (decodeIdx pal npal rest).map (fun t => palRGB pal i ++ t) else none

/-- The 8 bits of a byte, most significant first. -/
def bitsOfByte (b : UInt8) : List Nat :=
  [b.toNat / 128 % 2, b.toNat / 64 % 2, b.toNat / 32 % 2, b.toNat / 16 % 2,
   b.toNat / 8 % 2, b.toNat / 4 % 2, b.toNat / 2 % 2, b.toNat % 2]

def decodeRow (bpp w : Nat) (pal : Bytes) (npal : Nat) (row : Bytes) : Option Bytes :=
  if bpp = 24 then decode24 w row
  else if bpp = 8 then
    if row.length < w then none else decodeIdx pal npal ((row.take w).map (·.toNat))
  else
    if row.length * 8 < w then none else decodeIdx pal npal ((row.flatMap bitsOfByte).take w)

/-- Rows `0 … h-1` from the top: row `r` is stored at `(h-1-r)·line`. -/
def decodeRows (bpp w line : Nat) (pal : Bytes) (npal : Nat) (body : Bytes) (h : Nat) : Nat → Option Bytes
  | 0 => some []
  | k + 1 =>
    -- rows h-1-k … h-1 remain; the next one from the top is r = h-1-k, stored at offset k·line
    match decodeRow bpp w pal npal ((body.drop (k * line)).take line), decodeRows bpp w line pal npal body h k with
    | some a, some t => some (a ++ t)
    | _, _ => none

/-- (width, height, R,G,B triples of all pixels top-down) or `none` if the file is not a complete,
    well-formed BMP of the supported kinds. -/
def readBMP (b : Bytes) : Option (Nat × Nat × Bytes) :=
  match parseHeader b with
  | none => none
  | some (hd, rest) =>
    if !hd.magicOk || hd.isize != 40 || hd.planes != 1 || hd.comp != 0 then none
    else if hd.w = 0 ∨ hd.h = 0 ∨ hd.w ≥ 2147483648 ∨ hd.h ≥ 2147483648 then none
    else if hd.bpp ≠ 1 ∧ hd.bpp ≠ 8 ∧ hd.bpp ≠ 24 then none
    else
      let npal := if hd.bpp = 24 then hd.ncols else if hd.ncols = 0 then 2 ^ hd.bpp else hd.ncols
      if hd.bpp ≠ 24 ∧ npal > 2 ^ hd.bpp then none
      else if hd.off < 54 + 4 * npal then none
      else if hd.fsize ≠ b.length then none
      else
        let line := align4 ((hd.w * hd.bpp + 7) / 8)
        if b.length < hd.off + line * hd.h then none
        else
          match decodeRows hd.bpp hd.w line (rest.take (4 * npal)) npal (b.drop hd.off) hd.h hd.h with
          | none => none
          | some px => some (hd.w, hd.h, px)

/-! ### What the PDF samples mean (ISO 32000-1 8.9.5: rows top-down, each row padded to a byte,
    DeviceGray `v` = (v,v,v), 1-bit DeviceGray 0 = black, 1 = white, DeviceRGB = R,G,B) -/

inductive Kind where
  | gray8 | rgb8 | bit1
  deriving DecidableEq, Repr

def rowBytes : Kind → Nat → Nat
  | .gray8, w => w
  | .rgb8, w => 3 * w
  | .bit1, w => (w + 7) / 8

/-- `h` rows of `bpl` bytes each. -/
def splitRows (bpl : Nat) : Nat → Bytes → List Bytes
  | 0, _ => []
  | h + 1, data => data.take bpl :: splitRows bpl h (data.drop bpl)

/-- DeviceGray sample `v` as an RGB triple. -/
def grayPx (v : UInt8) : Bytes := [v, v, v]
/-- 1-bit DeviceGray sample: 0 = black, 1 = white. -/
def bitPx (b : Nat) : Bytes := [UInt8.ofNat (255 * b), UInt8.ofNat (255 * b), UInt8.ofNat (255 * b)]

/-- What one stored row of samples means, as R,G,B triples (the first `w` samples of the row;
    for 1-bit images the pad bits of the last byte are not pixels). -/
def rowRGB (k : Kind) (w : Nat) (row : Bytes) : Bytes :=
  match k with
  | .gray8 => row.flatMap grayPx
  | .rgb8 => row
  | .bit1 => ((row.flatMap bitsOfByte).take w).flatMap bitPx

/-- All pixels, top-down, left to right, as R,G,B. -/
def samplesRGB (k : Kind) (w h : Nat) (data : Bytes) : Bytes :=
  (splitRows (rowBytes k w) h data).flatMap (rowRGB k w)

/-- The same meaning written pixel by pixel with explicit indices (row `r`, column `c`). -/
def pixel (k : Kind) (w : Nat) (data : Bytes) (r c : Nat) : Bytes :=
  match k with
  | .gray8 => let v := data.getD (r * w + c) 0; [v, v, v]
  | .rgb8 => [data.getD (r * (3 * w) + 3 * c) 0, data.getD (r * (3 * w) + 3 * c + 1) 0,
              data.getD (r * (3 * w) + 3 * c + 2) 0]
  | .bit1 =>
    let byte := data.getD (r * ((w + 7) / 8) + c / 8) 0
    let v := UInt8.ofNat (255 * (byte.toNat / 2 ^ (7 - c % 8) % 2))
    [v, v, v]

def samplesRGBIdx (k : Kind) (w h : Nat) (data : Bytes) : Bytes :=
  (List.range h).flatMap (fun r => (List.range w).flatMap (fun c => pixel k w data r c))

end PdfVerif.Bmp
