/-
Executable specification of the DOCUMENTED grouping predicates
(docs/source/topic/converting_pdf_to_text.rst, LAParams docstring, find_neighbors docstring),
written with interval overlap / gap notions instead of the code's `abs`/`min` idioms.

  same line        vertical overlap (length of the intersection of the y-intervals) larger than
                   line_overlap · min height, horizontal distance (gap between the x-intervals,
                   0 when they meet) smaller than char_margin · max width
  word space       the new glyph starts further than word_margin · max(width, height) of the new
                   glyph to the right of the previous glyph's right edge (word_margin = 0 switches
                   spacing off)
  neighbour lines  horizontally overlapping, vertically closer than line_margin · height, same
                   height and left / right / centre aligned, each within that tolerance
-/
import PdfVerif.Gen.Layout

namespace PdfVerif.Layout.Spec
open PdfVerif PdfVerif.Gen.Layout

/-- Signed separation of two intervals: negative = length of the overlap, positive = gap. -/
def sep (a0 a1 b0 b1 : Rat) : Rat := max (a0 - b1) (b0 - a1)

/-- Length of the common part of two intervals that meet (0 when they only touch). -/
def overlapLen (a0 a1 b0 b1 : Rat) : Rat := min a1 b1 - max a0 b0

/-- Gap between two intervals (0 when they meet). -/
def gap (a0 a1 b0 b1 : Rat) : Rat := max 0 (sep a0 a1 b0 b1)

/-- Consecutive glyphs `a`, `b` belong to one horizontal line. -/
def joinH (lineOverlap charMargin : Rat) (a b : BB) : Bool :=
  decide (sep a.y0 a.y1 b.y0 b.y1 ≤ 0)
    && decide (overlapLen a.y0 a.y1 b.y0 b.y1 > lineOverlap * min a.height b.height)
    && decide (gap a.x0 a.x1 b.x0 b.x1 < charMargin * max a.width b.width)

/-- Consecutive glyphs `a`, `b` belong to one vertical line (`detect_vertical`). -/
def joinV (lineOverlap charMargin : Rat) (a b : BB) : Bool :=
  decide (sep a.x0 a.x1 b.x0 b.x1 ≤ 0)
    && decide (overlapLen a.x0 a.x1 b.x0 b.x1 > lineOverlap * min a.width b.width)
    && decide (gap a.y0 a.y1 b.y0 b.y1 < charMargin * max a.height b.height)

/-- A space goes before glyph `b` of a horizontal line whose previous glyph ended at `last`. -/
def spaceH (wordMargin last : Rat) (b : BB) : Bool :=
  decide (wordMargin ≠ 0) && decide (b.x0 - last > wordMargin * max b.width b.height)

/-- A space goes before glyph `b` of a vertical line whose previous glyph ended (bottom) at `last`. -/
def spaceV (wordMargin last : Rat) (b : BB) : Bool :=
  decide (wordMargin ≠ 0) && decide (last - b.y1 > wordMargin * max b.width b.height)

def absDiff (x y : Rat) : Rat := max (x - y) (y - x)

/-- Line `o` is a neighbour of the horizontal line `s` (both horizontal). -/
def neighborH (lineMargin : Rat) (s o : BB) : Bool :=
  let d := lineMargin * s.height
  decide (sep s.x0 s.x1 o.x0 o.x1 < 0)                 -- horizontally overlapping
    && decide (sep s.y0 s.y1 o.y0 o.y1 < d)            -- vertically close
    && decide (absDiff o.height s.height ≤ d)          -- same height
    && (decide (absDiff o.x0 s.x0 ≤ d) || decide (absDiff o.x1 s.x1 ≤ d)
        || decide (absDiff ((o.x0 + o.x1) / 2) ((s.x0 + s.x1) / 2) ≤ d))

/-- Line `o` is a neighbour of the vertical line `s` (both vertical). -/
def neighborV (lineMargin : Rat) (s o : BB) : Bool :=
  let d := lineMargin * s.width
  decide (sep s.y0 s.y1 o.y0 o.y1 < 0)
    && decide (sep s.x0 s.x1 o.x0 o.x1 < d)
    && decide (absDiff o.width s.width ≤ d)
    && (decide (absDiff o.y0 s.y0 ≤ d) || decide (absDiff o.y1 s.y1 ≤ d)
        || decide (absDiff ((o.y0 + o.y1) / 2) ((s.y0 + s.y1) / 2) ≤ d))

/-- Scaling of a box by a factor. -/
def scaleBB (s : Rat) (b : BB) : BB := ⟨s * b.x0, s * b.y0, s * b.x1, s * b.y1⟩

end PdfVerif.Layout.Spec
