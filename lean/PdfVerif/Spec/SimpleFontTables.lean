/-
The model and the specification of C06 instantiated with the tables regenerated from the Python
source (`PdfVerif.Gen.FontTables`): glyph list, ENCODING rows, EncodingDB tables, standard-14 metrics.
-/
import PdfVerif.Gen.FontTables
import PdfVerif.Spec.SimpleFont

namespace PdfVerif.SimpleFont.Inst
open PdfVerif PdfVerif.SimpleFont PdfVerif.Gen.FontTables

def glyphs : GlyphList := glyphList.map (fun e => (e.1.toList, e.2))

def rows : List EncRow := ENCODING.map (fun r => (r.1.toList, r.2))

/-- `EncodingDB.encodings` and the default table, built as the class body builds them. -/
def encDB : EncDB := EncDB.ofRows glyphs rows ENCODING_COLUMNS ENCODING_DEFAULT_COLUMN

/-- `FONT_METRICS` after the alias assignments at the end of fontmetrics.py. -/
def metrics : Metrics :=
  FONT_METRICS ++ FONT_ALIASES.filterMap (fun a =>
    match getMetrics FONT_METRICS a.2 with
    | some m => some (a.1, m)
    | none => none)

def tables : Spec.Tables :=
  { gl := glyphs, rows := rows, cols := ENCODING_COLUMNS, dflt := ENCODING_DEFAULT_COLUMN, fm := metrics }

end PdfVerif.SimpleFont.Inst
