/-
C10 - executable specification: the ENCRYPTING side, written from ISO 32000-1 7.6 (Algorithms 1-5),
Adobe Supplement ExtensionLevel 3 and ISO 32000-2 7.6.4 (Algorithms 2.A, 2.B, 8, 9) with the
standards' own constants.  It is the Lean twin of tools/harness/c10_ref.py (the harness checks
that both produce the same bytes), so that the round-trip theorems of Props/C10.lean speak about
the bytes that are fed to pdfminer.  Import-free.
-/
import PdfVerif.Model.Crypt

namespace PdfVerif.CryptWriter
open PdfVerif PdfVerif.Crypt

/-- ISO 32000-1 Algorithm 2 step (a): the padding string. -/
def isoPad : Bytes :=
  [0x28, 0xBF, 0x4E, 0x5E, 0x4E, 0x75, 0x8A, 0x41, 0x64, 0x00, 0x4E, 0x56, 0xFF, 0xFA, 0x01, 0x08,
   0x2E, 0x2E, 0x00, 0xB6, 0xD0, 0x68, 0x3E, 0x80, 0x2F, 0x0C, 0xA9, 0xFE, 0x64, 0x53, 0x69, 0x7A]

/-- pad or truncate a password to exactly 32 bytes. -/
def pad32 (pw : Bytes) : Bytes := (pw ++ isoPad).take 32

/-- 7.6.2: pad to a multiple of 16 with `n` bytes of value `n`, `1 ≤ n ≤ 16`. -/
def pkcs7Pad (d : Bytes) : Bytes :=
  let n := 16 - d.length % 16
  d ++ List.replicate n (UInt8.ofNat n)

/-- One encryption configuration as the writer sees it. -/
structure Cfg where
  r : Int
  length : Nat                 -- key length in bits (40..128 for R2-R4)
  p : Int                      -- P as a signed 32-bit value
  id0 : Bytes
  encryptMetadata : Bool := true
  method : Method := .rc4

def keyLen (c : Cfg) : Nat := if c.r = 2 then 5 else c.length / 8

/-- P as 4 little-endian bytes (two's complement). -/
def pBytes (p : Int) : Bytes := leBytes 4 (p % 4294967296).toNat

/-- Algorithm 2: the file key from the padded user password and O. -/
def alg2Key (P : Prims) (c : Cfg) (paddedUser o : Bytes) : Bytes :=
  let d := P.md5 (paddedUser ++ o ++ pBytes c.p ++ c.id0 ++
    (if c.r ≥ 4 ∧ ¬ c.encryptMetadata then [0xFF, 0xFF, 0xFF, 0xFF] else []))
  if c.r ≥ 3 then (iter (fun d => P.md5 (d.take (keyLen c))) 50 d).take (keyLen c)
  else d.take (keyLen c)

/-- Algorithm 3: O from the padded owner and user passwords. -/
def alg3O (P : Prims) (c : Cfg) (paddedOwner paddedUser : Bytes) : Bytes :=
  let d := P.md5 paddedOwner
  let d := if c.r ≥ 3 then iter P.md5 50 d else d
  let k := d.take (keyLen c)
  let out := rc4Core k paddedUser
  if c.r ≥ 3 then (List.range' 1 19).foldl (fun acc i => rc4Core (xorKey k i) acc) out else out

/-- Algorithms 4 and 5: U from the file key (`tail`: the 16 arbitrary bytes of Algorithm 5). -/
def alg45U (P : Prims) (c : Cfg) (key tail : Bytes) : Bytes :=
  if c.r = 2 then rc4Core key isoPad
  else
    let out := rc4Core key (P.md5 (isoPad ++ c.id0))
    (List.range' 1 19).foldl (fun acc i => rc4Core (xorKey key i) acc) out ++ tail

/-- O, U and the file key of a revision 2-4 document. -/
def derive234 (P : Prims) (c : Cfg) (paddedUser paddedOwner tail : Bytes) : Bytes × Bytes × Bytes :=
  let o := alg3O P c paddedOwner paddedUser
  let key := alg2Key P c paddedUser o
  (o, alg45U P c key tail, key)

/-- ISO 32000-2 Algorithm 2.B, written from the standard: rounds are numbered from 0; after round
    `i` has been done (`i ≥ 63`) the loop stops as soon as the last byte of E, as an unsigned
    integer, is at most `i - 32`; the first 32 bytes of K are the result.
    `done` = number of rounds done so far, `last` = last byte of the most recent E. -/
def alg2BLoop (P : Prims) (pw udata : Bytes) : Nat → Nat → Nat → Bytes → Option Bytes
  | 0, _, _, _ => none
  | fuel + 1, done, last, k =>
    if done ≥ 64 ∧ last + 32 ≤ done then some (k.take 32)
    else
      let k1 := repeatBytes (pw ++ k ++ udata) 64
      let e := P.aesEnc (k.take 16) ((k.drop 16).take 16) k1
      let m : Nat := (e.take 16).foldl (fun acc b => (acc * 256 + b.toNat) % 3) 0   -- big-endian integer mod 3
      let k' := if m = 0 then P.sha256 e else if m = 1 then P.sha384 e else P.sha512 e
      alg2BLoop P pw udata fuel (done + 1) (e.getLastD 0).toNat k'

def alg2B (P : Prims) (pw salt udata : Bytes) : Bytes :=
  (alg2BLoop P pw udata R6_FUEL 0 0 (P.sha256 (pw ++ salt ++ udata))).getD []

/-- Algorithm 2.B (revision 6) / SHA-256 (revision 5). -/
def hash56 (P : Prims) (r : Int) (pw salt udata : Bytes) : Bytes := passwordHash P r pw salt udata

structure Salts where
  uv : Bytes
  uk : Bytes
  ov : Bytes
  ok : Bytes

/-- Algorithms 8 and 9: U, UE, O, OE for the file key `key`. -/
def derive56 (P : Prims) (r : Int) (key up op : Bytes) (s : Salts) : Bytes × Bytes × Bytes × Bytes :=
  let u := hash56 P r up s.uv [] ++ s.uv ++ s.uk
  let ue := P.aesEnc (hash56 P r up s.uk []) zeroIV key
  let o := hash56 P r op s.ov u ++ s.ov ++ s.ok
  let oe := P.aesEnc (hash56 P r op s.ok u) zeroIV key
  (u, ue, o, oe)

/-- Algorithm 1 / 1.A: the key for one object. -/
def objectKey (P : Prims) (m : Method) (key : Bytes) (objid genno : Nat) : Bytes :=
  match m with
  | .aes256 => key
  | .identity => key
  | .rc4 =>
    (P.md5 (key ++ leBytes 3 objid ++ leBytes 2 genno)).take (min (key.length + 5) 16)
  | .aes128 =>
    (P.md5 (key ++ leBytes 3 objid ++ leBytes 2 genno ++ [0x73, 0x41, 0x6C, 0x54])).take
      (min (key.length + 5) 16)

/-- Encrypt one string / stream payload. -/
def encryptBytes (P : Prims) (m : Method) (key : Bytes) (objid genno : Nat) (iv data : Bytes) : Bytes :=
  match m with
  | .identity => data
  | .rc4 => rc4Core (objectKey P m key objid genno) data
  | .aes128 => iv ++ P.aesEnc (objectKey P m key objid genno) iv (pkcs7Pad data)
  | .aes256 => iv ++ P.aesEnc key iv (pkcs7Pad data)

/-- ISO 32000-1 7.6.5 (Table 20 StmF / StrF, Table 25 EncryptMetadata), without per-stream `/Crypt`
    overrides: below V 4 everything is RC4; from V 4 on a string uses the crypt filter StrF, a
    stream StmF, except that a Metadata stream stays in clear when EncryptMetadata is false. -/
def specSelect (v4plus encryptMetadata isStream isMetadata : Bool) (stmf strf : Method) : Method :=
  if !v4plus then .rc4
  else if isStream then (if isMetadata && !encryptMetadata then .identity else stmf)
  else strf

mutual
/-- Encrypt every string of an object (`iv` chooses the initialisation vector per plaintext);
    a stream payload is encrypted unless `skip` says so (cross-reference stream; Metadata with
    EncryptMetadata false). -/
def encryptAll (e : Bytes → Bytes) (skip : List (Bytes × Obj) → Bool) : Obj → Obj
  | .str b => .str (e b)
  | .atom a => .atom a
  | .arr xs => .arr (encryptList e skip xs)
  | .dict kvs => .dict (encryptKVs e skip kvs)
  | .stream attrs raw =>
    if attrsType attrs = some atomXRef then .stream attrs raw
    else .stream (encryptKVs e skip attrs) (if skip attrs then raw else e raw)
def encryptList (e : Bytes → Bytes) (skip : List (Bytes × Obj) → Bool) : List Obj → List Obj
  | [] => []
  | x :: xs => encryptAll e skip x :: encryptList e skip xs
def encryptKVs (e : Bytes → Bytes) (skip : List (Bytes × Obj) → Bool) :
    List (Bytes × Obj) → List (Bytes × Obj)
  | [] => []
  | (k, v) :: rest => (k, encryptAll e skip v) :: encryptKVs e skip rest
end

end PdfVerif.CryptWriter
