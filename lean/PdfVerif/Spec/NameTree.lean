/-
C17 — executable specification of name trees (ISO 32000-1 7.9.6) and named destinations
(12.3.2.3): a string destination denotes the value associated with that key in the in-order
flattening of the tree; a name-object destination denotes the entry of the catalog's `Dests`
dictionary; anything else is "not found".
-/
import PdfVerif.Model.NameTree

namespace PdfVerif.Spec.NameTree
open PdfVerif PdfVerif.NameTree

mutual
def flatten : Node → List (Key × Int)
  | .node _ names kids => names.getD [] ++ flattenKids kids
def flattenKids : List Node → List (Key × Int)
  | [] => []
  | c :: cs => flatten c ++ flattenKids cs
end

def assoc (l : List (Key × Int)) (k : Key) : Option Int := (l.find? (fun p => p.1 == k)).map (·.2)

def kle (a b : Key) : Bool := !klt b a

def ascendingFrom (a : Key) : List Key → Bool
  | [] => true
  | b :: tl => klt a b && ascendingFrom b tl

def ascending : List Key → Bool
  | [] => true
  | a :: tl => ascendingFrom a tl

def limitsOf : Node → Option (Key × Key)
  | .node l _ _ => l

/-- Every key of the list lies inside the limits. -/
def within (lim : Key × Key) (ks : List Key) : Bool := ks.all (fun k => kle lim.1 k && kle k lim.2)

/-- `c` ends before every later sibling starts. -/
def separated (c : Node) (later : List Node) : Bool :=
  match limitsOf c with
  | some (_, hi) => later.all (fun c' => match limitsOf c' with
      | some (lo, _) => klt hi lo
      | none => false)
  | none => false

mutual
/-- Conforming name trees: leaves hold `Names` in ascending key order with proper (truthy)
destinations, intermediate nodes hold `Kids`; every node but the root carries `Limits`, Limits
bound the keys below the node, and siblings are separated. -/
def wf (root : Bool) : Node → Bool
  | .node limits names kids =>
    (root || limits.isSome)
    && (match limits with
        | some lim => within lim ((names.getD [] ++ flattenKids kids).map (·.1))
        | none => true)
    && (match names, kids with
        | some ns, [] => ascending (ns.map (·.1)) && ns.all (fun p => p.2 != 0) && (root || !ns.isEmpty)
        | none, c :: cs => wfKids (c :: cs)
        | _, _ => false)
def wfKids : List Node → Bool
  | [] => true
  | c :: cs => wf false c && separated c cs && wfKids cs
end

/-- What `get_dest` has to return. -/
def dest (tree : Option Node) (dests : Option (List (Key × Int))) : QKey → DestRes
  | .bytes k =>
    match tree.bind (fun t => assoc (flatten t) k) with
    | some v => .value v
    | none => .notFound
  | .name n =>
    match dests.bind (fun d => assoc d n) with
    | some v => .value v
    | none => .notFound

def domain (tree : Option Node) (dests : Option (List (Key × Int))) : Bool :=
  (match tree with | some t => wf true t | none => true)
  && (match dests with | some d => d.all (fun p => p.2 != 0) | none => true)

end PdfVerif.Spec.NameTree
