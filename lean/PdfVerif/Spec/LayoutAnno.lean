/-
Executable specification of the annotations (`LTAnno`) of a text line, written from the documentation of
`word_margin` (docs/source/topic/converting_pdf_to_text.rst, `LAParams` docstring): the members of a line are
its glyphs in content order; a space annotation stands before a glyph exactly when the documented word-space
predicate holds between that glyph and the glyph DIRECTLY before it (never before the first glyph); after
`LTTextLine.analyze` one line-break annotation closes the line.  Nothing else is ever inserted.
-/
import PdfVerif.Model.Layout
import PdfVerif.Spec.Layout

namespace PdfVerif.Layout.Spec
open PdfVerif PdfVerif.Gen.Layout PdfVerif.Layout

/-- The documented word-space predicate between the previous glyph and the new one: measured from the previous
glyph's right edge (horizontal line) resp. bottom edge (vertical line). -/
def spaceBetween (vertical : Bool) (wm : Rat) (prev cur : BB) : Bool :=
  if vertical then spaceV wm prev.y0 cur else spaceH wm prev.x1 cur

/-- Members after the glyph `prev`. -/
def lineElemsFrom (vertical : Bool) (wm : Rat) (prev : Glyph) : List Glyph → List Elem
  | [] => []
  | g :: rest =>
    (if spaceBetween vertical wm prev.bb g.bb then [Elem.anno 32] else []) ++ Elem.ch g
      :: lineElemsFrom vertical wm g rest

/-- The members (`_objs`) of a line with the given glyphs, before the line break is appended. -/
def lineElems (vertical : Bool) (wm : Rat) : List Glyph → List Elem
  | [] => []
  | g :: rest => Elem.ch g :: lineElemsFrom vertical wm g rest

/-- … and after `LTTextLine.analyze`. -/
def lineElemsBreak (vertical : Bool) (wm : Rat) (gs : List Glyph) : List Elem :=
  lineElems vertical wm gs ++ [Elem.anno 10]

/-- Number of space annotations the specification puts into a line. -/
def spaceCount (vertical : Bool) (wm : Rat) (gs : List Glyph) : Nat :=
  (lineElems vertical wm gs).count (Elem.anno 32)

end PdfVerif.Layout.Spec
