/-
Executable specification of PDF object syntax (ISO 32000-1, 7.2 "Lexical conventions" and
7.3 "Objects"), written as a clean recursive-descent reader, independent of pdfminer's
tokenizer.  `spellcheck bytes = some v` means: `bytes` is a conformant way of writing exactly one
object with value `v` (optionally surrounded by white space and comments), using only the
freedoms listed in property C01; anything else is `none` ("outside the domain"), never a guess.

Not in the domain (C01 does not list them): a raw CR or CR LF inside a literal string (end-of-line
normalisation), duplicate dictionary keys, raw bytes outside 21h–7Eh or `#00` in a name,
stream objects.
-/
import PdfVerif.Model.Prelude

namespace PdfVerif.Syntax
open PdfVerif

/-- PDF values.  A dictionary is an association list in source order (keys distinct); an entry
    whose value is null is the same as an absent entry (7.3.7), which `Obj.show` implements. -/
inductive Obj where
  | null
  | bool (b : Bool)
  | int (v : Int)
  | real (q : Rat)
  | str (s : Bytes)
  | name (n : Bytes)
  | arr (items : List Obj)
  | dict (entries : List (Bytes × Obj))
  | ref (n : Nat)          -- object number (the generation number is not part of the value read back)
  deriving Repr, Inhabited

/-! ### 7.2.2 character set -/

def isWhite (c : UInt8) : Bool := c == 0 || c == 9 || c == 10 || c == 12 || c == 13 || c == 32
def isDelim (c : UInt8) : Bool :=
  c == 40 || c == 41 || c == 60 || c == 62 || c == 91 || c == 93 || c == 123 || c == 125 || c == 47 || c == 37
def isRegular (c : UInt8) : Bool := !isWhite c && !isDelim c
def isDigit (c : UInt8) : Bool := 48 ≤ c && c ≤ 57
def isOctal (c : UInt8) : Bool := 48 ≤ c && c ≤ 55

def hexNibble (c : UInt8) : Option Nat :=
  if 48 ≤ c && c ≤ 57 then some (c.toNat - 48)
  else if 65 ≤ c && c ≤ 70 then some (c.toNat - 55)
  else if 97 ≤ c && c ≤ 102 then some (c.toNat - 87)
  else none

/-- white space and comments between tokens (7.2.2, 7.2.3): `inComment` = inside a comment, which
    runs to the next end-of-line byte (itself white space) -/
def skipWsC : Bool → Bytes → Bytes
  | _, [] => []
  | false, c :: t =>
    if isWhite c then skipWsC false t
    else if c == 37 then skipWsC true t
    else c :: t
  | true, c :: t => if c == 10 || c == 13 then skipWsC false t else skipWsC true t

def skipWsAll (s : Bytes) : Bytes := skipWsC false s

theorem skipWsC_length : ∀ (b : Bool) (s : Bytes), (skipWsC b s).length ≤ s.length
  | _, [] => by simp [skipWsC]
  | false, c :: t => by
    simp only [skipWsC]
    split
    · have := skipWsC_length false t; simp; omega
    · split
      · have := skipWsC_length true t; simp; omega
      · simp
  | true, c :: t => by
    simp only [skipWsC]
    split
    · have := skipWsC_length false t; simp; omega
    · have := skipWsC_length true t; simp; omega

/-- the maximal run of regular characters -/
def takeRegular : Bytes → Bytes × Bytes
  | [] => ([], [])
  | c :: t => if isRegular c then let r := takeRegular t; (c :: r.1, r.2) else ([], c :: t)

def decimalNat (ds : Bytes) : Nat := ds.foldl (fun acc c => acc * 10 + (c.toNat - 48)) 0

/-- 7.3.3 numeric objects: integer `[+-]?d+`, real `[+-]?d*.d*` with at least one digit. -/
def splitSign (run : Bytes) : Bool × Bytes :=
  match run with
  | 45 :: r => (true, r)
  | 43 :: r => (false, r)
  | r => (false, r)

def parseNumber (run : Bytes) : Option Obj :=
  let neg := (splitSign run).1
  let body := (splitSign run).2
  let ip := body.takeWhile isDigit
  match body.dropWhile isDigit with
  | [] => if ip.isEmpty then none
          else some (.int (if neg then -(decimalNat ip : Int) else (decimalNat ip : Int)))
  | 46 :: fp =>
    if fp.all isDigit && !(ip.isEmpty && fp.isEmpty) then
      let num : Int := (decimalNat (ip ++ fp) : Int)
      let q : Rat := (num : Rat) / ((10 ^ fp.length : Nat) : Rat)
      some (.real (if neg then -q else q))
    else none
  | _ => none

def unsignedInt (run : Bytes) : Option Nat :=
  if !run.isEmpty && run.all isDigit then some (decimalNat run) else none

/-- 7.3.5 name objects: the bytes after the solidus. -/
def parseNameBody : Bytes → Option (Bytes × Bytes)
  | [] => some ([], [])
  | c :: t =>
    if isWhite c || isDelim c then some ([], c :: t)
    else if c == 35 then
      match t with
      | h1 :: h2 :: t' =>
        match hexNibble h1, hexNibble h2 with
        | some a, some b =>
          if a * 16 + b == 0 then none else
          match parseNameBody t' with
          | some (n, rest) => some (UInt8.ofNat (a * 16 + b) :: n, rest)
          | none => none
        | _, _ => none
      | _ => none
    else if 33 ≤ c && c ≤ 126 then
      match parseNameBody t with
      | some (n, rest) => some (c :: n, rest)
      | none => none
    else none

def escapeLetter (c : UInt8) : Option UInt8 :=
  if c == 110 then some 10 else if c == 114 then some 13 else if c == 116 then some 9
  else if c == 98 then some 8 else if c == 102 then some 12
  else if c == 40 then some 40 else if c == 41 then some 41 else if c == 92 then some 92
  else none

/-- up to three octal digits after a backslash whose first digit `e` was read: (value, rest) -/
def takeOctal (e : UInt8) (t1 : Bytes) : Nat × Bytes :=
  match t1 with
  | d2 :: t2 =>
    if isOctal d2 then
      match t2 with
      | d3 :: t3 =>
        if isOctal d3 then ((e.toNat - 48) * 64 + (d2.toNat - 48) * 8 + (d3.toNat - 48), t3)
        else ((e.toNat - 48) * 8 + (d2.toNat - 48), t2)
      | [] => ((e.toNat - 48) * 8 + (d2.toNat - 48), t2)
    else (e.toNat - 48, t1)
  | [] => (e.toNat - 48, t1)

/-- 7.3.4.2 literal strings: the bytes after the opening parenthesis; `depth` = open inner
    parentheses; the first argument is fuel (`|s| + 1` suffices: every step consumes a byte). -/
def parseLitBody : Nat → Nat → Bytes → Option (Bytes × Bytes)
  | 0, _, _ => none
  | _, _, [] => none
  | f + 1, depth, c :: t =>
    if c == 41 then
      if depth == 0 then some ([], t)
      else (fun r => (c :: r.1, r.2)) <$> parseLitBody f (depth - 1) t
    else if c == 40 then (fun r => (c :: r.1, r.2)) <$> parseLitBody f (depth + 1) t
    else if c == 13 then none                       -- raw CR / CR LF: end-of-line normalisation, not in the domain
    else if c == 92 then
      match t with
      | [] => none
      | e :: t1 =>
        match escapeLetter e with
        | some v => (fun r => (v :: r.1, r.2)) <$> parseLitBody f depth t1
        | none =>
          if isOctal e then
            let o := takeOctal e t1
            (fun r => (UInt8.ofNat (o.1 % 256) :: r.1, r.2)) <$> parseLitBody f depth o.2
          else if e == 10 then parseLitBody f depth t1                 -- line continuation: backslash LF
          else if e == 13 then
            match t1 with
            | 10 :: t2 => parseLitBody f depth t2                         -- backslash CR LF
            | _ => parseLitBody f depth t1                                -- backslash CR
          else (fun r => (e :: r.1, r.2)) <$> parseLitBody f depth t1  -- the backslash is ignored
    else (fun r => (c :: r.1, r.2)) <$> parseLitBody f depth t

/-- 7.3.4.3 hexadecimal strings: the bytes after `<`; `pending` = a high nibble waiting for its partner. -/
def parseHexBody : Option Nat → Bytes → Option (Bytes × Bytes)
  | _, [] => none
  | pending, c :: t =>
    if c == 62 then
      match pending with
      | none => some ([], t)
      | some hi => some ([UInt8.ofNat (hi * 16)], t)     -- odd digit count: final digit assumed 0
    else if isWhite c then parseHexBody pending t
    else
      match hexNibble c with
      | none => none
      | some v =>
        match pending with
        | none => parseHexBody (some v) t
        | some hi => (fun r => (UInt8.ofNat (hi * 16 + v) :: r.1, r.2)) <$> parseHexBody none t

def kwNull : Bytes := [110, 117, 108, 108]
def kwTrue : Bytes := [116, 114, 117, 101]
def kwFalse : Bytes := [102, 97, 108, 115, 101]

/-- `n g R` (7.3.10) after the object number `n` has been read as an unsigned integer. -/
def parseRefTail (rest : Bytes) : Option Bytes :=
  -- at least one white-space/comment separator, generation number, separator, `R` as a whole token
  if (skipWsAll rest).length == rest.length then none else
  match unsignedInt (takeRegular (skipWsAll rest)).1 with
  | none => none
  | some _ =>
    if (skipWsAll (takeRegular (skipWsAll rest)).2).length == (takeRegular (skipWsAll rest)).2.length then none else
    if (takeRegular (skipWsAll (takeRegular (skipWsAll rest)).2)).1 == [82] then
      some (takeRegular (skipWsAll (takeRegular (skipWsAll rest)).2)).2
    else none

/-- an object written as a run of regular characters: `null`, `true`, `false`, a number, or the
    object number of an indirect reference `n g R` -/
def regObj (run rest : Bytes) : Option (Obj × Bytes) :=
  if run == kwNull then some (.null, rest)
  else if run == kwTrue then some (.bool true, rest)
  else if run == kwFalse then some (.bool false, rest)
  else
    match unsignedInt run, parseRefTail rest with
    | some n, some rest' => some (.ref n, rest')
    | _, _ => (fun o => (o, rest)) <$> parseNumber run

mutual
/-- one object; fuel bounds the total number of nested/iterated calls -/
def parseObj : Nat → Bytes → Option (Obj × Bytes)
  | 0, _ => none
  | f + 1, s =>
    match s with
    | [] => none
    | 40 :: t => (fun r => (Obj.str r.1, r.2)) <$> parseLitBody (t.length + 1) 0 t
    | 47 :: t => (fun r => (Obj.name r.1, r.2)) <$> parseNameBody t
    | 91 :: t => (fun r => (Obj.arr r.1, r.2)) <$> parseItems f (skipWsAll t)
    | 60 :: 60 :: t =>
      match parseEntries f (skipWsAll t) with
      | some (es, rest) =>
        if (es.map (·.1)).Nodup then some (Obj.dict es, rest) else none
      | none => none
    | 60 :: t => (fun r => (Obj.str r.1, r.2)) <$> parseHexBody none t
    | c :: t =>
      if !isRegular c then none else
      let r := takeRegular (c :: t)
      regObj r.1 r.2

/-- array items up to `]` -/
def parseItems : Nat → Bytes → Option (List Obj × Bytes)
  | 0, _ => none
  | f + 1, s =>
    match s with
    | [] => none
    | 93 :: t => some ([], t)
    | _ =>
      match parseObj f s with
      | some (o, rest) => (fun r => (o :: r.1, r.2)) <$> parseItems f (skipWsAll rest)
      | none => none

/-- dictionary entries up to `>>` -/
def parseEntries : Nat → Bytes → Option (List (Bytes × Obj) × Bytes)
  | 0, _ => none
  | f + 1, s =>
    match s with
    | [] => none
    | 62 :: 62 :: t => some ([], t)
    | 47 :: t =>
      match parseNameBody t with
      | some (k, r1) =>
        match parseObj f (skipWsAll r1) with
        | some (v, r2) => (fun r => ((k, v) :: r.1, r.2)) <$> parseEntries f (skipWsAll r2)
        | none => none
      | none => none
    | _ => none
end

/-- Is `s` a conformant spelling of exactly one object (white space/comments around it allowed)? -/
def spellcheck (s : Bytes) : Option Obj :=
  match parseObj (2 * s.length + 2) (skipWsAll s) with
  | some (o, rest) => if (skipWsAll rest).isEmpty then some o else none
  | none => none

/-- Several objects in a row (a content or object stream without operators): all of them, in order. -/
def spellSeqLoop : Nat → Bytes → Option (List Obj)
  | 0, _ => none
  | f + 1, s =>
    match skipWsAll s with
    | [] => some []
    | c :: t =>
      match parseObj (2 * s.length + 2) (c :: t) with
      | some (o, rest) => if rest.length < (c :: t).length then (fun r => o :: r) <$> spellSeqLoop f rest else none
      | none => none

def spellSeq (s : Bytes) : Option (List Obj) := spellSeqLoop (s.length + 1) s

/-! ### canonical text form -/

def bytesLt : Bytes → Bytes → Bool
  | [], [] => false
  | [], _ :: _ => true
  | _ :: _, [] => false
  | a :: s, b :: t => a < b || (a == b && bytesLt s t)

def insertSorted (e : Bytes × String) : List (Bytes × String) → List (Bytes × String)
  | [] => [e]
  | x :: r => if bytesLt e.1 x.1 then e :: x :: r else x :: insertSorted e r

def isNull : Obj → Bool
  | .null => true
  | _ => false

mutual
def Obj.show : Obj → String
  | .null => "null"
  | .bool b => if b then "b:1" else "b:0"
  | .int v => "i:" ++ toString v
  | .real q => "r:" ++ ratToString q
  | .str s => "s:" ++ hexOrDash s
  | .name n => "n:" ++ hexOrDash n
  | .arr items => "[ " ++ showItems items ++ "]"
  | .dict es => "<< " ++ String.join ((showEntries es).map (fun e => "n:" ++ hexOrDash e.1 ++ " " ++ e.2 ++ " ")) ++ ">>"
  | .ref n => "R:" ++ toString n

def showItems : List Obj → String
  | [] => ""
  | o :: r => o.show ++ " " ++ showItems r

/-- entries sorted by key, null-valued ones dropped -/
def showEntries : List (Bytes × Obj) → List (Bytes × String)
  | [] => []
  | (k, v) :: r => if isNull v then showEntries r else insertSorted (k, v.show) (showEntries r)
end

end PdfVerif.Syntax
